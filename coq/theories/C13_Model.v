(* C13_Model.v — executable model of gorm's hook dispatch (property C13).

   Modelled code (/repo):
     callbacks/callmethod.go   callMethod                       -> [call_method], [fc], [loop]
     callbacks/create.go       BeforeCreate / Create / AfterCreate
     callbacks/update.go       SetupUpdateReflectValue / BeforeUpdate / Update / AfterUpdate
     callbacks/delete.go       BeforeDelete / Delete / AfterDelete
     callbacks/query.go        Query / AfterQuery (AfterFind)
     callbacks/associations.go SaveBeforeAssociations / SaveAfterAssociations / saveAssociations
     callbacks/transaction.go  BeginTransaction / CommitOrRollbackTransaction
     callbacks/callbacks.go    RegisterDefaultCallbacks: the four pipelines, in registration order
     schema/schema.go          hook presence flags (method found on *T  =>  flag)
     statement.go              Statement.SetColumn (map / struct payload / the model itself)
     finisher_api.go           Create Save Update Updates UpdateColumn(s) Delete Find First
     gorm.go                   AddError ("%v; %w" accumulation), Session{NewDB} used by callMethod
   No proofs here. *)
From Verif Require Import Base.
Open Scope Z_scope.

(* ------------------------------------------------------------------ hooks and types *)
Inductive hook := BeforeSave | BeforeCreate | AfterCreate | AfterSave | BeforeUpdate | AfterUpdate
                | BeforeDelete | AfterDelete | AfterFind.

(* how a model type declares a hook method: not at all, on *T, or on T *)
Inductive recv := RNo | RPtr | RVal.

Record ty := mk_ty { ty_id : Z;
  t_bs : recv; t_bc : recv; t_ac : recv; t_as : recv; t_bu : recv; t_au : recv;
  t_bd : recv; t_ad : recv; t_af : recv }.

Definition recv_of (t : ty) (h : hook) : recv :=
  match h with
  | BeforeSave => t_bs t | BeforeCreate => t_bc t | AfterCreate => t_ac t | AfterSave => t_as t
  | BeforeUpdate => t_bu t | AfterUpdate => t_au t | BeforeDelete => t_bd t | AfterDelete => t_ad t
  | AfterFind => t_af t
  end.

(* schema.go: the flag Schema.<Hook> is set when reflect.New(modelType) has the method, i.e. for
   pointer AND value receivers *)
Definition flag (t : ty) (h : hook) : bool := match recv_of t h with RNo => false | _ => true end.

(* the dynamic value handed to the closure: a *T or a T *)
Inductive vform := VPtr | VVal.
(* value.(XxxInterface) succeeds iff the method is in the method set of the dynamic type *)
Definition in_mset (vf : vform) (r : recv) : bool :=
  match r, vf with
  | RNo, _ => false | RVal, _ => true | RPtr, VPtr => true | RPtr, VVal => false
  end.

(* ------------------------------------------------------------------ shapes, records *)
Inductive container := CStruct | CSlice | CArray.
Record shape := mk_shape { sh_cont : container; sh_outer_ptr : bool; sh_elem_ptr : bool }.

Record mrec := mk_rec { m_id : Z; m_tag : Z; m_val : Z; m_nil : bool }.

(* reflect: is element r of the container addressable (after reflect.Indirect)? *)
Definition elem_addr (sh : shape) (r : mrec) : bool :=
  if sh_elem_ptr sh then negb (m_nil r)
  else match sh_cont sh with CArray => sh_outer_ptr sh | _ => true end.

Inductive table := TRecs | TBosses | TKids | TPets | TKeepers.
Inductive verb := VInsert | VUpdate | VDelete | VSelect.
Definition row := (table * Z * Z)%type.     (* table, tag, val *)

Inductive err := EInj (k : Z) | EInvalidValue | EEmptySlice | EMissingWhere | ERecordNotFound | EInvalidData.

(* one merged trace of hook invocations and driver calls.  pool: 0 = the plain connection pool,
   n > 0 = the n-th transaction begun since the start of the case *)
Inductive tev :=
| THook (h : hook) (tyid tag pool : Z)
| TBegin | TCommit | TRollback
| TStmt (v : verb) (t : table) (pool : Z).

Inductive pkey := KField | KDb.             (* "Val" | "val" : the two spellings of the column *)
Inductive dest := DSelf | DMap | DStruct.    (* Statement.Dest: the model itself / a map / another struct *)
Inductive txmode := TxDefault | TxOuter | TxSkipDefault.

(* ------------------------------------------------------------------ decidable equalities *)
Definition hook_eqb (a b : hook) : bool :=
  match a, b with
  | BeforeSave, BeforeSave | BeforeCreate, BeforeCreate | AfterCreate, AfterCreate | AfterSave, AfterSave
  | BeforeUpdate, BeforeUpdate | AfterUpdate, AfterUpdate | BeforeDelete, BeforeDelete
  | AfterDelete, AfterDelete | AfterFind, AfterFind => true
  | _, _ => false
  end.
Definition table_eqb (a b : table) : bool :=
  match a, b with TRecs, TRecs | TBosses, TBosses | TKids, TKids | TPets, TPets | TKeepers, TKeepers => true | _, _ => false end.
Definition verb_eqb (a b : verb) : bool :=
  match a, b with VInsert, VInsert | VUpdate, VUpdate | VDelete, VDelete | VSelect, VSelect => true | _, _ => false end.
Definition err_eqb (a b : err) : bool :=
  match a, b with
  | EInj x, EInj y => x =? y
  | EInvalidValue, EInvalidValue | EEmptySlice, EEmptySlice | EMissingWhere, EMissingWhere
  | ERecordNotFound, ERecordNotFound | EInvalidData, EInvalidData => true
  | _, _ => false
  end.
Definition tev_eqb (a b : tev) : bool :=
  match a, b with
  | THook h t g p, THook h' t' g' p' => hook_eqb h h' && (t =? t') && (g =? g') && (p =? p')
  | TBegin, TBegin | TCommit, TCommit | TRollback, TRollback => true
  | TStmt v t p, TStmt v' t' p' => verb_eqb v v' && table_eqb t t' && (p =? p')
  | _, _ => false
  end.
Definition row_eqb (a b : row) : bool :=
  table_eqb (fst (fst a)) (fst (fst b)) && (snd (fst a) =? snd (fst b)) && (snd a =? snd b).
Definition pkey_eqb (a b : pkey) : bool := match a, b with KField, KField | KDb, KDb => true | _, _ => false end.

Definition memz (x : Z) (l : list Z) : bool := existsb (Z.eqb x) l.
Definition is_nil {A} (l : list A) : bool := match l with [] => true | _ => false end.

(* ------------------------------------------------------------------ state *)
(* one record for the whole execution; [s_err] [s_recs] [s_pay] [s_payS] [s_started] belong to the
   *DB / Statement currently executing (a nested association save swaps them, see [save_assoc]) *)
Record S := mkS {
  s_k : Z;                    (* hook invocations so far (the harness' injection counter) *)
  s_err : list err;           (* db.Error, as the list of accumulated errors; [] = nil *)
  s_tr : list tev;            (* merged trace *)
  s_recs : list mrec;         (* the records behind Statement.ReflectValue *)
  s_pay : list (pkey * Z);    (* update payload when Dest is a map: key -> value *)
  s_payS : Z;                 (* update payload when Dest is a struct *)
  s_pool : Z;                 (* Statement.ConnPool: 0 = pool, n = n-th transaction *)
  s_ntx : Z;                  (* transactions begun so far *)
  s_started : bool;           (* gorm:started_transaction *)
  s_tbl : list row;           (* database *)
  s_snap : list row           (* database at the last BEGIN (what ROLLBACK restores) *)
}.

Definition set_k k s := mkS k (s_err s) (s_tr s) (s_recs s) (s_pay s) (s_payS s) (s_pool s) (s_ntx s) (s_started s) (s_tbl s) (s_snap s).
Definition set_err e s := mkS (s_k s) e (s_tr s) (s_recs s) (s_pay s) (s_payS s) (s_pool s) (s_ntx s) (s_started s) (s_tbl s) (s_snap s).
Definition set_tr t s := mkS (s_k s) (s_err s) t (s_recs s) (s_pay s) (s_payS s) (s_pool s) (s_ntx s) (s_started s) (s_tbl s) (s_snap s).
Definition set_recs r s := mkS (s_k s) (s_err s) (s_tr s) r (s_pay s) (s_payS s) (s_pool s) (s_ntx s) (s_started s) (s_tbl s) (s_snap s).
Definition set_pay p s := mkS (s_k s) (s_err s) (s_tr s) (s_recs s) p (s_payS s) (s_pool s) (s_ntx s) (s_started s) (s_tbl s) (s_snap s).
Definition set_payS p s := mkS (s_k s) (s_err s) (s_tr s) (s_recs s) (s_pay s) p (s_pool s) (s_ntx s) (s_started s) (s_tbl s) (s_snap s).
Definition set_tbl t s := mkS (s_k s) (s_err s) (s_tr s) (s_recs s) (s_pay s) (s_payS s) (s_pool s) (s_ntx s) (s_started s) t (s_snap s).

Definition emit (e : tev) (s : S) : S := set_tr (s_tr s ++ [e]) s.
(* gorm.go AddError: db.Error = err, or fmt.Errorf("%v; %w", db.Error, err) *)
Definition add_err (e : err) (s : S) : S := set_err (s_err s ++ [e]) s.

(* options of an operation that only some generated inputs use *)
Record opts := mk_opts {
  x_setall : bool;       (* hooks call SetColumn(name, v, true): "from callbacks", every record of a slice is set *)
  x_delassoc : Z;        (* Delete with Select(<has-many>): 0 none, 1 Kids, 2 Pets *)
  x_preload : bool;      (* Find / First with Preload("Kids").Preload("Pets") *)
  x_setafter : bool      (* the after-hooks of writes (AfterCreate/Update/Save/Delete) go through the statement too:
                            Statement.Changed + Statement.SetColumn at the marked invocations *)
}.
Definition no_opts := mk_opts false 0 false false.

(* ------------------------------------------------------------------ the context of one pipeline *)
Record cx := mk_cx {
  c_ty : ty; c_shape : shape; c_table : table;
  c_skip : bool;                (* Statement.SkipHooks *)
  c_skipdef : bool;             (* Config.SkipDefaultTransaction *)
  c_dest : dest;
  c_fails : list Z; c_sets : list Z; c_setkey : pkey;
  c_x : opts;
  c_keep : bool                 (* association save: ON CONFLICT DO NOTHING / DO UPDATE of the foreign key only —
                                   a row that already exists keeps its values (associations.go onConflictOption) *)
}.

(* ------------------------------------------------------------------ SetColumn *)
Fixpoint set_nth_val (i : nat) (v : Z) (l : list mrec) : list mrec :=
  match l, i with
  | [], _ => []
  | r :: l', O => mk_rec (m_id r) (m_tag r) v (m_nil r) :: l'
  | r :: l', Datatypes.S i' => r :: set_nth_val i' v l'
  end.

(* statement.go setMapColumn: every key of the payload map here is a spelling ("Val" / "val") of the one
   modelled column; SetColumn deletes both spellings, then stores the value under the name it was given *)
Definition map_set (key : pkey) (v : Z) (m : list (pkey * Z)) : list (pkey * Z) :=
  (key, v) :: filter (fun _ => false) m.

Definition set_all_val (v : Z) (l : list mrec) : list mrec :=
  map (fun r => mk_rec (m_id r) (m_tag r) v (m_nil r)) l.

(* statement.go SetColumn(name, value[, fromCallbacks]) called from a hook while record [i] is current *)
Definition set_rec_val (c : cx) (i : nat) (v : Z) (l : list mrec) : list mrec :=
  if x_setall (c_x c) then set_all_val v l else set_nth_val i v l.

Definition set_column (c : cx) (i : nat) (v : Z) (s : S) : S :=
  match c_dest c with
  | DMap => set_pay (map_set (c_setkey c) v (s_pay s)) s
  | DStruct =>
      let s1 := set_payS v s in
      match sh_cont (c_shape c) with
      | CStruct => if sh_outer_ptr (c_shape c) then set_recs (set_nth_val 0 v (s_recs s1)) s1
                   else add_err EInvalidValue s1
      | _ => set_recs (set_rec_val c i v (s_recs s1)) s1
      end
  | DSelf =>
      match sh_cont (c_shape c) with
      | CStruct => if sh_outer_ptr (c_shape c) then set_recs (set_nth_val 0 v (s_recs s)) s
                   else add_err EInvalidValue s
      | _ => set_recs (set_rec_val c i v (s_recs s)) s
      end
  end.

Definition is_before_save_hook (h : hook) : bool :=
  match h with BeforeSave | BeforeCreate | BeforeUpdate => true | _ => false end.
Definition is_after_write_hook (h : hook) : bool :=
  match h with AfterCreate | AfterUpdate | AfterSave | AfterDelete => true | _ => false end.

(* one invocation of a hook method of the instrumented type: the harness' hook logs itself (with the
   pool its tx handle carries: callMethod's db.Session(&Session{NewDB:true}) shares db.Statement),
   optionally calls SetColumn, optionally returns an error which the closure hands to db.AddError *)
Definition invoke (c : cx) (h : hook) (tag : Z) (i : nat) (s : S) : S :=
  let k0 := s_k s in
  let s1 := set_k (k0 + 1) (emit (THook h (ty_id (c_ty c)) tag (s_pool s)) s) in
  let s2 := if (is_before_save_hook h || (x_setafter (c_x c) && is_after_write_hook h)) && memz k0 (c_sets c)
            then set_column c i (1000 + k0) s1 else s1 in
  if memz k0 (c_fails c) then add_err (EInj k0) s2 else s2.

(* the closure fc(value, tx) of a hook callback: tries the hooks of the phase in order; an error of
   one does not stop the next *)
Fixpoint fc (c : cx) (hs : list hook) (vf : vform) (tag : Z) (i : nat) (s : S) : bool * S :=
  match hs with
  | [] => (false, s)
  | h :: hs' =>
      if flag (c_ty c) h && in_mset vf (recv_of (c_ty c) h)
      then let s1 := invoke c h tag i s in (true, snd (fc c hs' vf tag i s1))
      else fc c hs' vf tag i s
  end.

(* callmethod.go: the loop over a slice / array; a non-addressable element stops everything *)
Fixpoint loop (c : cx) (hs : list hook) (recs : list mrec) (i : nat) (s : S) : S :=
  match recs with
  | [] => s
  | r :: rs =>
      if elem_addr (c_shape c) r then loop c hs rs (Datatypes.S i) (snd (fc c hs VPtr (m_tag r) i s))
      else add_err EInvalidValue s
  end.

Definition call_method (c : cx) (hs : list hook) (s : S) : S :=
  match sh_cont (c_shape c) with
  | CStruct =>
      match s_recs s with
      | r :: _ =>
          (* first attempt: fc(ReflectValue.Interface()) — a T value *)
          let '(called, s1) := fc c hs VVal (m_tag r) 0 s in
          if called then s1
          else if sh_outer_ptr (c_shape c) then snd (fc c hs VPtr (m_tag r) 0 s)
          else add_err EInvalidValue s
      | [] => s
      end
  | _ => (* the slice / array value itself implements no hook: the per-element loop *)
      loop c hs (s_recs s) 0 s
  end.

Inductive phase := PBeforeCreate | PAfterCreate | PBeforeUpdate | PAfterUpdate | PBeforeDelete | PAfterDelete | PAfterFind.
Definition fc_hooks (p : phase) : list hook :=
  match p with
  | PBeforeCreate => [BeforeSave; BeforeCreate] | PAfterCreate => [AfterCreate; AfterSave]
  | PBeforeUpdate => [BeforeSave; BeforeUpdate] | PAfterUpdate => [AfterUpdate; AfterSave]
  | PBeforeDelete => [BeforeDelete] | PAfterDelete => [AfterDelete]
  | PAfterFind => [AfterFind]
  end.

(* the guard every hook callback starts with *)
Definition hooks_phase (c : cx) (p : phase) (s : S) : S :=
  if is_nil (s_err s) && negb (c_skip c) && existsb (flag (c_ty c)) (fc_hooks p)
     && (match p with PAfterFind => negb (is_nil (s_recs s)) | _ => true end)
  then call_method c (fc_hooks p) s else s.

(* ------------------------------------------------------------------ transactions *)
Definition begin_tx (c : cx) (s : S) : S :=
  if negb (c_skipdef c) && is_nil (s_err s) then
    if s_pool s =? 0 then
      let n := s_ntx s + 1 in
      mkS (s_k s) (s_err s) (s_tr s ++ [TBegin]) (s_recs s) (s_pay s) (s_payS s) n n true (s_tbl s) (s_tbl s)
    else s  (* already in a transaction: Begin answers ErrInvalidTransaction, which is dropped *)
  else s.

Definition commit_or_rollback (c : cx) (s : S) : S :=
  if negb (c_skipdef c) && s_started s then
    if is_nil (s_err s)
    then mkS (s_k s) (s_err s) (s_tr s ++ [TCommit]) (s_recs s) (s_pay s) (s_payS s) 0 (s_ntx s) false (s_tbl s) (s_tbl s)
    else mkS (s_k s) (s_err s) (s_tr s ++ [TRollback]) (s_recs s) (s_pay s) (s_payS s) 0 (s_ntx s) false (s_snap s) (s_snap s)
  else s.

(* ------------------------------------------------------------------ statements *)
Definition row_is (t : table) (tag : Z) (r : row) : bool := table_eqb (fst (fst r)) t && (snd (fst r) =? tag).
Definition has_row (t : table) (tag : Z) (tb : list row) : bool := existsb (row_is t tag) tb.
Definition del_row (t : table) (tag : Z) (tb : list row) : list row := filter (fun r => negb (row_is t tag r)) tb.
Definition upsert (t : table) (tag val : Z) (tb : list row) : list row := del_row t tag tb ++ [(t, tag, val)].

Definition stmt_create (c : cx) (s : S) : S :=
  if negb (is_nil (s_err s)) then s else
  match s_recs s with
  | [] => add_err EEmptySlice s
  | _ =>
    if existsb m_nil (s_recs s) then add_err EInvalidData s else
    let s1 := emit (TStmt VInsert (c_table c) (s_pool s)) s in
    set_tbl (fold_left (fun tb r => if c_keep c && has_row (c_table c) (m_tag r) tb then tb
                                    else upsert (c_table c) (m_tag r) (m_val r) tb) (s_recs s) (s_tbl s1)) s1
  end.

(* ConvertToAssignments on a map iterates the keys sorted: "Val" < "val"; the later assignment wins *)
Definition map_get (key : pkey) (m : list (pkey * Z)) : option Z :=
  match filter (fun kv => pkey_eqb (fst kv) key) m with (_, v) :: _ => Some v | [] => None end.
Definition map_val (m : list (pkey * Z)) : option Z :=
  match map_get KDb m with Some v => Some v | None => map_get KField m end.

Definition new_val (c : cx) (s : S) (r : mrec) : option Z :=
  match c_dest c with
  | DSelf => Some (m_val r)
  | DMap => map_val (s_pay s)
  | DStruct => Some (s_payS s)
  end.

Definition stmt_update (c : cx) (s : S) : S :=
  if negb (is_nil (s_err s)) then s else
  match s_recs s with
  | [] => add_err EMissingWhere s
  | _ =>
    let s1 := emit (TStmt VUpdate (c_table c) (s_pool s)) s in
    set_tbl (fold_left (fun tb r =>
               if has_row (c_table c) (m_tag r) tb
               then match new_val c s r with Some v => upsert (c_table c) (m_tag r) v tb | None => tb end
               else tb) (s_recs s) (s_tbl s1)) s1
  end.

Definition stmt_delete (c : cx) (s : S) : S :=
  if negb (is_nil (s_err s)) then s else
  match s_recs s with
  | [] => add_err EMissingWhere s
  | _ =>
    let s1 := emit (TStmt VDelete (c_table c) (s_pool s)) s in
    set_tbl (fold_left (fun tb r => del_row (c_table c) (m_tag r) tb) (s_recs s) (s_tbl s1)) s1
  end.

(* rows of [t] with tag <= limit, in tag order *)
Fixpoint insert_by_tag (r : row) (l : list row) : list row :=
  match l with
  | [] => [r]
  | x :: l' => if snd (fst r) <=? snd (fst x) then r :: l else x :: insert_by_tag r l'
  end.
Definition select_rows (t : table) (limit : Z) (tb : list row) : list row :=
  fold_right insert_by_tag [] (filter (fun r => table_eqb (fst (fst r)) t && (snd (fst r) <=? limit)) tb).

(* callbacks/query.go Query + scan.go: a struct destination takes the first row only *)
Definition stmt_query (c : cx) (first : bool) (limit : Z) (s : S) : S :=
  if negb (is_nil (s_err s)) then s else
  let s1 := emit (TStmt VSelect (c_table c) (s_pool s)) s in
  let rows := select_rows (c_table c) limit (s_tbl s) in
  let rows' := match sh_cont (c_shape c) with CStruct => firstn 1 rows | _ => rows end in
  let s2 := set_recs (map (fun r => mk_rec (snd (fst r)) (snd (fst r)) (snd r) false) rows') s1 in
  if first && is_nil rows' then add_err ERecordNotFound s2 else s2.

(* ------------------------------------------------------------------ association saves *)
(* saveAssociations: tx := db.Session(&Session{NewDB:true}).Clauses(onConflict).Session(&Session{SkipHooks: db.Statement.SkipHooks,...});
   db.AddError(tx.Create(values).Error).  Session copies db.Error into tx, so a nested create that
   starts with an error runs nothing and hands the same error back, which AddError appends again. *)
Definition assoc_cx (c : cx) (t : ty) (tb : table) (single : bool) : cx :=
  mk_cx t (mk_shape (if single then CStruct else CSlice) true true) tb (c_skip c) (c_skipdef c) DSelf
        (c_fails c) (c_sets c) (c_setkey c) (c_x c) true.

(* the create pipeline without associations of its own (Boss / Kid / Pet have none) *)
Definition leaf_create (c : cx) (s : S) : S :=
  commit_or_rollback c (hooks_phase c PAfterCreate (stmt_create c (hooks_phase c PBeforeCreate (begin_tx c s)))).

Definition save_assoc (c : cx) (t : ty) (tb : table) (single : bool) (vals : list mrec) (s : S) : S :=
  match vals with
  | [] => s
  | _ =>
    let cc := assoc_cx c t tb single in
    (* the nested *DB: its own records / started flag; shares counter, trace, pool, database *)
    let s0 := mkS (s_k s) (s_err s) (s_tr s) vals [] 0 (s_pool s) (s_ntx s) false (s_tbl s) (s_snap s) in
    let s1 := leaf_create cc s0 in
    let e := if is_nil (s_err s1) then s_err s else s_err s ++ s_err s1 in
    mkS (s_k s1) e (s_tr s1) (s_recs s) (s_pay s) (s_payS s) (s_pool s1) (s_ntx s1) (s_started s) (s_tbl s1) (s_snap s1)
  end.

(* the association values of the records of one operation *)
Record assocs := mk_assocs {
  a_tys : ty * ty * ty;         (* Boss, Kid, Pet *)
  a_boss : list mrec;           (* the (distinct) belongs-to values of all records, in record order *)
  a_kids : list mrec;           (* all has-many values (slice of values), concatenated in record order *)
  a_pets : list mrec;           (* all has-many values (slice of pointers) *)
  (* a cyclic in-memory graph: every Kid holds a belongs-to pointer to a Keeper whose has-many Wards are
     those very Kids; the keepers are saved from inside the kids' create, their Wards are already visited *)
  a_keeper_ty : ty;
  a_keepers : list mrec
}.
Definition no_assocs (tys : ty * ty * ty) := mk_assocs tys [] [] [] (fst (fst tys)) [].

(* the create of the Kids when they carry belongs-to values of their own: SaveBeforeAssociations of the
   nested create saves the (distinct) keepers between the kids' before-hooks and their INSERT *)
Definition save_keepers (c : cx) (kt : ty) (keepers : list mrec) (s : S) : S :=
  if is_nil (s_err s) then save_assoc c kt TKeepers false keepers s else s.   (* SaveBeforeAssociations' guard *)

Definition kids_create (c : cx) (kt : ty) (keepers : list mrec) (s : S) : S :=
  commit_or_rollback c (hooks_phase c PAfterCreate (stmt_create c
    (save_keepers c kt keepers (hooks_phase c PBeforeCreate (begin_tx c s))))).

Definition save_kids_keepers (c : cx) (t : ty) (vals : list mrec) (kt : ty) (keepers : list mrec) (s : S) : S :=
  match vals with
  | [] => s
  | _ =>
    let cc := assoc_cx c t TKids false in
    let s0 := mkS (s_k s) (s_err s) (s_tr s) vals [] 0 (s_pool s) (s_ntx s) false (s_tbl s) (s_snap s) in
    let s1 := kids_create cc kt keepers s0 in
    let e := if is_nil (s_err s1) then s_err s else s_err s ++ s_err s1 in
    mkS (s_k s1) e (s_tr s1) (s_recs s) (s_pay s) (s_payS s) (s_pool s1) (s_ntx s1) (s_started s) (s_tbl s1) (s_snap s1)
  end.

Definition is_struct (c : cx) : bool := match sh_cont (c_shape c) with CStruct => true | _ => false end.

Definition save_before_assoc (c : cx) (a : assocs) (s : S) : S :=
  if is_nil (s_err s) then save_assoc c (fst (fst (a_tys a))) TBosses (is_struct c) (a_boss a) s else s.

Definition save_after_assoc (c : cx) (a : assocs) (s : S) : S :=
  if is_nil (s_err s)
  then save_assoc c (snd (a_tys a)) TPets false (a_pets a)
         (if is_nil (a_keepers a) then save_assoc c (snd (fst (a_tys a))) TKids false (a_kids a) s
          else save_kids_keepers c (snd (fst (a_tys a))) (a_kids a) (a_keeper_ty a) (a_keepers a) s)
  else s.

(* ------------------------------------------------------------------ Delete with Select(<has-many>), Preload *)
(* rows of association tables seeded by the harness carry their owner in the tag: owner * 1000 + j *)
Definition owner_of (tag : Z) : Z := tag / 1000.
Definition owned_by (owners : list Z) (t : table) (r : row) : bool :=
  table_eqb (fst (fst r)) t && memz (owner_of (snd (fst r))) owners.

Definition nested_cx (c : cx) (t : ty) (tb : table) (sh : shape) : cx :=
  mk_cx t sh tb (c_skip c) (c_skipdef c) DSelf (c_fails c) (c_sets c) (c_setkey c) (c_x c) false.

(* callbacks/delete.go DeleteBeforeAssociations, has-many: tx := db.Session(&Session{NewDB:true}).Model(new(T));
   tx.Clauses(Where{owner IN parents}).Delete(new(T)): the delete pipeline on ONE blank in-memory record *)
Definition nested_delete (c : cx) (t : ty) (tb : table) (s : S) : S :=
  let cc := nested_cx c t tb (mk_shape CStruct true false) in
  let owners := map m_tag (s_recs s) in
  let s0 := mkS (s_k s) (s_err s) (s_tr s) [mk_rec 0 0 0 false] [] 0 (s_pool s) (s_ntx s) false (s_tbl s) (s_snap s) in
  let s1 := hooks_phase cc PBeforeDelete (begin_tx cc s0) in
  let s2 := if is_nil (s_err s1)
            then set_tbl (filter (fun r => negb (owned_by owners tb r)) (s_tbl s1)) (emit (TStmt VDelete tb (s_pool s1)) s1)
            else s1 in
  let s3 := commit_or_rollback cc (hooks_phase cc PAfterDelete s2) in
  let e := if is_nil (s_err s3) then s_err s else s_err s ++ s_err s3 in
  mkS (s_k s3) e (s_tr s3) (s_recs s) (s_pay s) (s_payS s) (s_pool s3) (s_ntx s3) (s_started s) (s_tbl s3) (s_snap s3).

Definition delete_before_assoc (c : cx) (a : assocs) (s : S) : S :=
  if is_nil (s_err s) && negb (is_nil (s_recs s)) then
    if x_delassoc (c_x c) =? 1 then nested_delete c (snd (fst (a_tys a))) TKids s
    else if x_delassoc (c_x c) =? 2 then nested_delete c (snd (a_tys a)) TPets s
    else s
  else s.

(* callbacks/preload.go: for each preloaded relation (sorted by name: Kids, Pets) a Find of the rows owned
   by the loaded records into a slice, AfterFind per loaded child; an error stops the remaining preloads *)
Definition nested_query (c : cx) (t : ty) (tb : table) (s : S) : S :=
  if negb (is_nil (s_err s)) then s else
  let cc := nested_cx c t tb (mk_shape CSlice true false) in
  let owners := map m_tag (s_recs s) in
  let rows := fold_right insert_by_tag [] (filter (owned_by owners tb) (s_tbl s)) in
  let recs := map (fun r => mk_rec (snd (fst r)) (snd (fst r)) (snd r) false) rows in
  let s0 := mkS (s_k s) (s_err s) (s_tr s ++ [TStmt VSelect tb (s_pool s)]) recs [] 0 (s_pool s) (s_ntx s) false (s_tbl s) (s_snap s) in
  let s1 := hooks_phase cc PAfterFind s0 in
  let e := if is_nil (s_err s1) then s_err s else s_err s ++ s_err s1 in
  mkS (s_k s1) e (s_tr s1) (s_recs s) (s_pay s) (s_payS s) (s_pool s1) (s_ntx s1) (s_started s) (s_tbl s1) (s_snap s1).

Definition preload_cb (c : cx) (a : assocs) (s : S) : S :=
  if x_preload (c_x c) && is_nil (s_err s) && negb (is_nil (s_recs s))
  then nested_query c (snd (a_tys a)) TPets (nested_query c (snd (fst (a_tys a))) TKids s)
  else s.

(* ------------------------------------------------------------------ the pipelines *)
(* callbacks.go RegisterDefaultCallbacks; FactsOK_C13 checks these lists against the source *)
Inductive cb := CbBeginTx | CbBeforeCreate | CbSaveBeforeAssoc | CbCreate | CbSaveAfterAssoc | CbAfterCreate
              | CbCommitOrRollback | CbSetupReflectValue | CbBeforeUpdate | CbUpdate | CbAfterUpdate
              | CbBeforeDelete | CbDeleteBeforeAssoc | CbDelete | CbAfterDelete
              | CbQuery | CbPreload | CbAfterQuery.

Definition create_pipeline := [CbBeginTx; CbBeforeCreate; CbSaveBeforeAssoc; CbCreate; CbSaveAfterAssoc; CbAfterCreate; CbCommitOrRollback].
Definition update_pipeline := [CbBeginTx; CbSetupReflectValue; CbBeforeUpdate; CbSaveBeforeAssoc; CbUpdate; CbSaveAfterAssoc; CbAfterUpdate; CbCommitOrRollback].
Definition delete_pipeline := [CbBeginTx; CbBeforeDelete; CbDeleteBeforeAssoc; CbDelete; CbAfterDelete; CbCommitOrRollback].
Definition query_pipeline := [CbQuery; CbPreload; CbAfterQuery].

Definition cb_name (x : cb) : string :=
  match x with
  | CbBeginTx => "gorm:begin_transaction" | CbBeforeCreate => "gorm:before_create"
  | CbSaveBeforeAssoc => "gorm:save_before_associations" | CbCreate => "gorm:create"
  | CbSaveAfterAssoc => "gorm:save_after_associations" | CbAfterCreate => "gorm:after_create"
  | CbCommitOrRollback => "gorm:commit_or_rollback_transaction"
  | CbSetupReflectValue => "gorm:setup_reflect_value" | CbBeforeUpdate => "gorm:before_update"
  | CbUpdate => "gorm:update" | CbAfterUpdate => "gorm:after_update"
  | CbBeforeDelete => "gorm:before_delete" | CbDeleteBeforeAssoc => "gorm:delete_before_associations"
  | CbDelete => "gorm:delete" | CbAfterDelete => "gorm:after_delete"
  | CbQuery => "gorm:query" | CbPreload => "gorm:preload" | CbAfterQuery => "gorm:after_query"
  end%string.
(* the function each registered name is bound to in the source *)
Definition cb_func (x : cb) : string :=
  match x with
  | CbBeginTx => "BeginTransaction" | CbBeforeCreate => "BeforeCreate"
  | CbSaveBeforeAssoc => "SaveBeforeAssociations" | CbCreate => "Create"
  | CbSaveAfterAssoc => "SaveAfterAssociations" | CbAfterCreate => "AfterCreate"
  | CbCommitOrRollback => "CommitOrRollbackTransaction"
  | CbSetupReflectValue => "SetupUpdateReflectValue" | CbBeforeUpdate => "BeforeUpdate"
  | CbUpdate => "Update" | CbAfterUpdate => "AfterUpdate"
  | CbBeforeDelete => "BeforeDelete" | CbDeleteBeforeAssoc => "DeleteBeforeAssociations"
  | CbDelete => "Delete" | CbAfterDelete => "AfterDelete"
  | CbQuery => "Query" | CbPreload => "Preload" | CbAfterQuery => "AfterQuery"
  end%string.

Record qarg := mk_qarg { q_first : bool; q_limit : Z }.

Definition run_cb (c : cx) (a : assocs) (q : qarg) (x : cb) (s : S) : S :=
  match x with
  | CbBeginTx => begin_tx c s
  | CbCommitOrRollback => commit_or_rollback c s
  | CbBeforeCreate => hooks_phase c PBeforeCreate s
  | CbAfterCreate => hooks_phase c PAfterCreate s
  | CbBeforeUpdate => hooks_phase c PBeforeUpdate s
  | CbAfterUpdate => hooks_phase c PAfterUpdate s
  | CbBeforeDelete => hooks_phase c PBeforeDelete s
  | CbAfterDelete => hooks_phase c PAfterDelete s
  | CbAfterQuery => hooks_phase c PAfterFind s
  | CbSaveBeforeAssoc => save_before_assoc c a s
  | CbSaveAfterAssoc => save_after_assoc c a s
  | CbCreate => stmt_create c s
  | CbUpdate => stmt_update c s
  | CbDelete => stmt_delete c s
  | CbQuery => stmt_query c (q_first q) (q_limit q) s
  | CbDeleteBeforeAssoc => delete_before_assoc c a s
  | CbPreload => preload_cb c a s
  | CbSetupReflectValue => s
  end.

(* callbacks.go processor.Execute: every callback is called, each guards itself *)
Definition run_pipeline (c : cx) (a : assocs) (q : qarg) (p : list cb) (s : S) : S :=
  fold_left (fun s x => run_cb c a q x s) p s.

(* ------------------------------------------------------------------ operations (finisher_api.go) *)
Inductive okind := OCreate | OSave | OUpdate | OUpdateColumn | ODelete | OFind | OFirst
                 | OCreateInBatches (batch : Z).
Inductive payvia := PVMapDb | PVMapField | PVStruct.

Record op := mk_op {
  o_kind : okind; o_ty : ty; o_shape : shape; o_recs : list mrec; o_assocs : assocs;
  o_skip : bool; o_txmode : txmode; o_fails : list Z; o_sets : list Z; o_setkey : pkey;
  o_pay : Z; o_payvia : payvia; o_limit : Z; o_seed : list row; o_x : opts
}.

Definition op_cx (o : op) (skip : bool) (d : dest) : cx :=
  mk_cx (o_ty o) (o_shape o) TRecs skip (match o_txmode o with TxSkipDefault => true | _ => false end) d
        (o_fails o) (o_sets o) (o_setkey o) (o_x o) false.

Definition init_state (o : op) : S :=
  let pay := match o_payvia o with PVMapDb => [(KDb, o_pay o)] | PVMapField => [(KField, o_pay o)] | PVStruct => [] end in
  let s := mkS 0 [] [] (o_recs o) pay (o_pay o) 0 0 false (o_seed o) (o_seed o) in
  match o_txmode o with
  | TxOuter => mkS 0 [] [TBegin] (o_recs o) pay (o_pay o) 1 1 false (o_seed o) (o_seed o)
  | _ => s
  end.

Definition no_q := mk_qarg false 0.
Definition upd_dest (o : op) : dest := match o_payvia o with PVStruct => DStruct | _ => DMap end.

(* finisher_api.go Create: a record passed by value is refused with ErrInvalidValue before any callback runs *)
Definition by_value_struct (o : op) : bool :=
  match sh_cont (o_shape o) with CStruct => negb (sh_outer_ptr (o_shape o)) | _ => false end.

(* Save on a struct whose primary key is set: Update pipeline (Select "*"), then, when that affected no
   row and returned no error, Session{SkipHooks:true}.Clauses(OnConflict{UpdateAll}).Create(value) *)
Definition run_save_struct (o : op) (s : S) : S :=
  match o_recs o with
  | r :: _ =>
    if m_id r =? 0 then run_pipeline (op_cx o (o_skip o) DSelf) (o_assocs o) no_q create_pipeline s
    else
      let matched := has_row TRecs (m_tag r) (s_tbl s) in
      let s1 := run_pipeline (op_cx o (o_skip o) DSelf) (o_assocs o) no_q update_pipeline s in
      if is_nil (s_err s1) && negb matched
      then (if by_value_struct o then add_err EInvalidValue s1
            else run_pipeline (op_cx o true DSelf) (o_assocs o) no_q create_pipeline s1)
      else s1
  | [] => s
  end.

(* finisher_api.go CreateInBatches over a slice: batches of [b] records, each batch a Create of
   reflectValue.Slice(i, ends) on a fresh instance (subtx), stopping at the first batch that fails;
   when there is more than one batch and the default transaction is on, the loop runs inside
   tx.Transaction(callFc) (inside a caller's transaction that is a save point, which leaves no
   BEGIN/COMMIT in the trace), otherwise every batch runs in its own default transaction *)
Fixpoint chunks (fuel : nat) (b : nat) (l : list mrec) : list (list mrec) :=
  match fuel, l with
  | _, [] => []
  | O, _ => [l]
  | Datatypes.S f, _ => firstn b l :: chunks f b (skipn b l)
  end.

Definition batch_cx (o : op) : cx :=
  let c := op_cx o (o_skip o) DSelf in
  mk_cx (c_ty c) (mk_shape CSlice false (sh_elem_ptr (o_shape o))) (c_table c) (c_skip c) (c_skipdef c) DSelf
        (c_fails c) (c_sets c) (c_setkey c) (c_x c) false.

Definition run_batch (o : op) (ch : list mrec) (s : S) : S :=
  set_recs (s_recs s) (run_pipeline (batch_cx o) (no_assocs (a_tys (o_assocs o))) (mk_qarg false 0) create_pipeline (set_recs ch s)).

Fixpoint run_batches (o : op) (chs : list (list mrec)) (s : S) : S :=
  match chs with
  | [] => s
  | ch :: r => let s1 := run_batch o ch s in if is_nil (s_err s1) then run_batches o r s1 else s1
  end.

Definition run_create_in_batches (o : op) (b : Z) (s : S) : S :=
  let n := Z.of_nat (length (o_recs o)) in
  let bs := Z.to_nat (Z.max 1 b) in
  let chs := chunks (length (o_recs o)) bs (o_recs o) in
  let skipdef := match o_txmode o with TxSkipDefault => true | _ => false end in
  if skipdef || (n <=? b) || negb (s_pool s =? 0) then run_batches o chs s
  else
    (* tx.Transaction(callFc): BEGIN, the batches on the transaction, COMMIT / ROLLBACK *)
    let k := s_ntx s + 1 in
    let s0 := mkS (s_k s) (s_err s) (s_tr s ++ [TBegin]) (s_recs s) (s_pay s) (s_payS s) k k false (s_tbl s) (s_tbl s) in
    let s1 := run_batches o chs s0 in
    if is_nil (s_err s1)
    then mkS (s_k s1) (s_err s1) (s_tr s1 ++ [TCommit]) (s_recs s1) (s_pay s1) (s_payS s1) 0 (s_ntx s1) false (s_tbl s1) (s_tbl s1)
    else mkS (s_k s1) (s_err s1) (s_tr s1 ++ [TRollback]) (s_recs s1) (s_pay s1) (s_payS s1) 0 (s_ntx s1) false (s_snap s0) (s_snap s0).

Definition run_body (o : op) (s : S) : S :=
  match o_kind o with
  | OCreate => if by_value_struct o then add_err EInvalidValue s
               else run_pipeline (op_cx o (o_skip o) DSelf) (o_assocs o) no_q create_pipeline s
  | OSave =>
      match sh_cont (o_shape o) with
      | CStruct => run_save_struct o s
      | _ => run_pipeline (op_cx o (o_skip o) DSelf) (o_assocs o) no_q create_pipeline s
      end
  | OUpdate => run_pipeline (op_cx o (o_skip o) (upd_dest o)) (o_assocs o) no_q update_pipeline s
  | OUpdateColumn => (* tx.Statement.SkipHooks = true *)
      run_pipeline (op_cx o true (upd_dest o)) (o_assocs o) no_q update_pipeline s
  | ODelete => run_pipeline (op_cx o (o_skip o) DSelf) (o_assocs o) no_q delete_pipeline s
  | OFind => run_pipeline (op_cx o (o_skip o) DSelf) (o_assocs o) (mk_qarg false (o_limit o)) query_pipeline (set_recs [] s)
  | OFirst => run_pipeline (op_cx o (o_skip o) DSelf) (o_assocs o) (mk_qarg true (o_limit o)) query_pipeline (set_recs [] s)
  | OCreateInBatches b => run_create_in_batches o b s
  end.

(* the caller of an operation inside an explicit transaction: roll back on error, else commit *)
Definition finish (o : op) (s : S) : S :=
  match o_txmode o with
  | TxOuter => if is_nil (s_err s) then set_tbl (s_tbl s) (emit TCommit s)
               else set_tbl (o_seed o) (emit TRollback s)
  | _ => s
  end.

Definition run (o : op) : S := finish o (run_body o (init_state o)).

(* ------------------------------------------------------------------ projections *)
Definition hev := (hook * Z * Z)%type.     (* hook, type id, record tag *)
Fixpoint hooks_of (tr : list tev) : list hev :=
  match tr with
  | [] => []
  | THook h t g _ :: r => (h, t, g) :: hooks_of r
  | _ :: r => hooks_of r
  end.
Fixpoint hook_pools (tr : list tev) : list Z :=
  match tr with
  | [] => []
  | THook _ _ _ p :: r => p :: hook_pools r
  | _ :: r => hook_pools r
  end.
