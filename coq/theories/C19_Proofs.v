(* C19_Proofs.v — DryRun sends nothing but transaction control, ToSQL nothing at all, and the
   statement a dry run exposes is the first statement the real run sends. *)
From Verif Require Import Base C01_Model C19_Model.

Definition begin_ok (skip : bool) (orc : list dres) : bool :=
  skip || match orc with d :: _ => negb (d_err d) | [] => true end.
Definition builds (k : opk) (b : built) : bool :=
  negb (match k with OpUpdate => b_empty b | _ => false end).

Ltac crush_exec :=
  intros;
  repeat match goal with
         | k : opk |- _ => destruct k
         | b : built |- _ => destruct b as [? ? [] [] []]
         | s : bool |- _ => destruct s
         end;
  match goal with
  | o : list dres |- _ => destruct o as [|[[] ?] [|[[] ?] ?]]
  | _ => idtac
  end;
  cbn in *; try discriminate; try reflexivity; repeat constructor.

Lemma dry_silent : forall skip k b orc,
  forallb is_tx_event (r_log (execute (dry_cfg skip) k b (rst0 orc))) = true.
Proof. crush_exec. Qed.

Lemma tosql_silent : forall k b orc, r_log (execute tosql_cfg k b (rst0 orc)) = [].
Proof. crush_exec. Qed.

Lemma dry_shows_built : forall skip k b orc,
  begin_ok skip orc = true -> builds k b = true ->
  shown (execute (dry_cfg skip) k b (rst0 orc)) = (b_sql b, b_vars b).
Proof. crush_exec. Qed.

Lemma real_sends_built : forall skip k b orc,
  begin_ok skip orc = true -> builds k b = true -> b_err b = false ->
  first_stmt (r_log (execute (real_cfg skip) k b (rst0 orc))) = Some (b_sql b, b_vars b).
Proof. crush_exec. Qed.

Lemma real_sends_only_built : forall skip k b orc x,
  first_stmt (r_log (execute (real_cfg skip) k b (rst0 orc))) = Some x -> x = (b_sql b, b_vars b).
Proof. crush_exec; match goal with H : Some _ = Some _ |- _ => inversion H; reflexivity end. Qed.

Lemma real_keeps_nothing : forall skip k b orc,
  shown (execute (real_cfg skip) k b (rst0 orc)) = (""%string, []).
Proof. crush_exec. Qed.

(* an error while building: nothing is sent in either mode *)
Lemma build_error_sends_nothing : forall c k b orc,
  b_err b = true -> first_stmt (r_log (execute c k b (rst0 orc))) = None.
Proof. intros [[] []]; crush_exec. Qed.

(* Rows / Row / Scan *)
Lemma rows_dry_silent : forall skip b orc,
  r_log (rows_finisher (dry_cfg skip) b (rst0 orc)) = []
  /\ r_err (rows_finisher (dry_cfg skip) b (rst0 orc)) = true
  /\ shown (rows_finisher (dry_cfg skip) b (rst0 orc)) = (b_sql b, b_vars b).
Proof. crush_exec. Qed.

(* Save *)
Lemma save_dry : forall skip bu bc orc,
  forallb is_tx_event (r_log (save (dry_cfg skip) bu bc (rst0 orc))) = true
  /\ (begin_ok skip orc = true -> b_empty bu = false ->
      shown (save (dry_cfg skip) bu bc (rst0 orc)) = (b_sql bu, b_vars bu)).
Proof.
  intros skip bu bc orc.
  assert (E : save (dry_cfg skip) bu bc (rst0 orc) = execute (dry_cfg skip) OpUpdate bu (rst0 orc)).
  { unfold save. cbn [c_dry dry_cfg negb]. rewrite andb_false_r. reflexivity. }
  rewrite E. split; [apply dry_silent|].
  intros Hb He. apply dry_shows_built; [exact Hb|]. unfold builds. rewrite He. reflexivity.
Qed.

(* every step only appends to the log *)
Definition ext (s s' : rst) : Prop := exists l, r_log s' = r_log s ++ l.
Lemma ext_refl : forall s, ext s s. Proof. intro s. exists []. symmetry. apply app_nil_r. Qed.
Lemma ext_trans : forall a b c, ext a b -> ext b c -> ext a c.
Proof. intros a b c [l E] [l' E']. exists (l ++ l'). rewrite E', E, app_assoc. reflexivity. Qed.
Lemma ext_same_log : forall s s', r_log s' = r_log s -> ext s s'.
Proof. intros s s' E. exists []. rewrite E. symmetry. apply app_nil_r. Qed.
Lemma ext_call : forall e s, ext s (fst (call e s)).
Proof. intros e s. exists [e]. reflexivity. Qed.
Lemma ext_send : forall q s, ext s (send q s).
Proof.
  intros q s. unfold send. pose proof (ext_call (EStmt q (r_sql s) (r_vars s)) s) as E.
  destruct (call (EStmt q (r_sql s) (r_vars s)) s) as [s1 d]. cbn [fst] in E.
  destruct (d_err d); (eapply ext_trans; [exact E | apply ext_same_log; reflexivity]).
Qed.
Lemma ext_begin : forall c s, ext s (begin_cb c s).
Proof.
  intros c s. unfold begin_cb. destruct (negb (c_skip c) && negb (r_err s)); [|apply ext_refl].
  pose proof (ext_call EBegin s) as E. destruct (call EBegin s) as [s1 d]. cbn [fst] in E.
  destruct (d_err d); (eapply ext_trans; [exact E | apply ext_same_log; reflexivity]).
Qed.
Lemma ext_commit : forall c s, ext s (commit_cb c s).
Proof.
  intros c s. unfold commit_cb. destruct (negb (c_skip c) && r_started s); [|apply ext_refl].
  eapply ext_trans; [apply ext_call | apply ext_same_log; reflexivity].
Qed.
Lemma ext_set_stmt : forall b s, ext s (set_stmt b s).
Proof. intros. apply ext_same_log. reflexivity. Qed.
Lemma ext_main : forall c k b s, ext s (main_cb c k b s).
Proof.
  intros c k b s. unfold main_cb. cbv zeta.
  destruct k; destruct (sql_empty s); destruct (b_empty b); cbn [andb];
    repeat match goal with |- ext _ (if ?x then _ else _) => destruct x end;
    first [apply ext_refl | apply ext_set_stmt | apply ext_send
          | eapply ext_trans; [apply ext_set_stmt | apply ext_send]].
Qed.
Lemma ext_execute : forall c k b s, ext s (execute c k b s).
Proof.
  intros c k b s. unfold execute.
  assert (E : ext s (if has_tx_callbacks k
                     then commit_cb c (main_cb c k b (if has_tx_callbacks k then begin_cb c s else s))
                     else main_cb c k b (if has_tx_callbacks k then begin_cb c s else s))).
  { destruct (has_tx_callbacks k).
    - eapply ext_trans; [apply ext_begin|]. eapply ext_trans; [apply ext_main | apply ext_commit].
    - apply ext_main. }
  destruct (c_dry c); [exact E | eapply ext_trans; [exact E | apply ext_same_log; reflexivity]].
Qed.

Lemma first_stmt_app : forall l l' x, first_stmt l = Some x -> first_stmt (l ++ l') = Some x.
Proof.
  induction l as [|e l IH]; intros l' x H; [discriminate|].
  destruct e; cbn in *; auto.
Qed.

Lemma save_real_first : forall skip bu bc orc,
  begin_ok skip orc = true -> b_empty bu = false -> b_err bu = false ->
  first_stmt (r_log (save (real_cfg skip) bu bc (rst0 orc))) = Some (b_sql bu, b_vars bu).
Proof.
  intros skip bu bc orc Hb He Hr. unfold save.
  pose proof (real_sends_built skip OpUpdate bu orc Hb) as F. unfold builds in F. rewrite He in F.
  specialize (F eq_refl Hr).
  destruct (negb (r_err (execute (real_cfg skip) OpUpdate bu (rst0 orc))) &&
            (r_ra (execute (real_cfg skip) OpUpdate bu (rst0 orc)) =? 0)%Z && negb (c_dry (real_cfg skip))); [|exact F].
  destruct (ext_execute (real_cfg skip) OpCreate bc (clear_stmt (execute (real_cfg skip) OpUpdate bu (rst0 orc)))) as [l E].
  rewrite E. cbn [clear_stmt r_log]. apply first_stmt_app. exact F.
Qed.

(* ---- CreateInBatches ---- *)
Definition quiet (c : cfg) (s s' : rst) : Prop :=
  exists l, r_log s' = r_log s ++ l /\ forallb is_tx_event l = true /\ (c_skip c = true -> l = []).

Lemma quiet_refl : forall c s s', r_log s' = r_log s -> quiet c s s'.
Proof. intros c s s' E. exists []. rewrite E, app_nil_r. auto. Qed.
Lemma quiet_trans : forall c a b d, quiet c a b -> quiet c b d -> quiet c a d.
Proof.
  intros c a b d [l [E [T S]]] [l' [E' [T' S']]]. exists (l ++ l'). rewrite E', E, app_assoc.
  split; [reflexivity|]. split; [rewrite forallb_app, T, T'; reflexivity|].
  intro H. rewrite (S H), (S' H). reflexivity.
Qed.

Lemma quiet_begin : forall c s, quiet c s (begin_cb c s).
Proof.
  intros c s. unfold begin_cb. destruct (c_skip c) eqn:Sk; cbn [negb andb]; [apply quiet_refl; reflexivity|].
  destruct (r_err s); cbn [negb]; [apply quiet_refl; reflexivity|].
  unfold call. destruct (d_err _); exists [EBegin]; cbn; rewrite Sk; repeat split; discriminate.
Qed.
Lemma quiet_commit : forall c s, quiet c s (commit_cb c s).
Proof.
  intros c s. unfold commit_cb. destruct (c_skip c) eqn:Sk; cbn [negb andb]; [apply quiet_refl; reflexivity|].
  destruct (r_started s); [|apply quiet_refl; reflexivity].
  unfold call. destruct (r_err s); eexists; cbn; rewrite Sk; (split; [reflexivity|]); split; try reflexivity; discriminate.
Qed.
Lemma main_dry_log : forall c k b s, c_dry c = true -> r_log (main_cb c k b s) = r_log s.
Proof.
  intros c k b s Hd. unfold main_cb. rewrite Hd. cbv zeta. cbn [negb andb orb].
  destruct k, (r_err s), (sql_empty s), (b_empty b); cbn [andb orb negb]; rewrite ?andb_false_r;
    try reflexivity; destruct (r_err _); reflexivity.
Qed.
Lemma execute_dry_quiet : forall c k b s, c_dry c = true -> quiet c s (execute c k b s).
Proof.
  intros c k b s Hd. unfold execute. rewrite Hd.
  destruct (has_tx_callbacks k).
  - eapply quiet_trans; [apply quiet_begin|]. eapply quiet_trans; [|apply quiet_commit].
    apply quiet_refl. apply main_dry_log. exact Hd.
  - apply quiet_refl. apply main_dry_log. exact Hd.
Qed.

Lemma run_batches_quiet : forall c bs s, c_dry c = true -> quiet c s (run_batches c bs s).
Proof.
  intros c bs. induction bs as [|b r IH]; intros s Hd; cbn [run_batches]; [apply quiet_refl; reflexivity|].
  destruct (r_err s); [apply quiet_refl; reflexivity|].
  eapply quiet_trans; [|apply IH; exact Hd].
  eapply quiet_trans; [apply (quiet_refl c s (clear_stmt s)); reflexivity | apply execute_dry_quiet; exact Hd].
Qed.

Lemma batches_dry_silent : forall skip bs orc,
  forallb is_tx_event (r_log (create_in_batches (dry_cfg skip) bs (rst0 orc))) = true.
Proof.
  intros skip bs orc. unfold create_in_batches. cbn [c_skip c_dry dry_cfg].
  destruct (skip || (length bs <=? 1)%nat).
  - destruct (run_batches_quiet (dry_cfg skip) bs (rst0 orc) eq_refl) as [l [E [T _]]].
    cbn [clear_stmt r_log]. rewrite E. exact T.
  - unfold call. cbn [rst0 r_or r_log app].
    set (d := match orc with d :: _ => d | [] => ok_res end).
    destruct (d_err d); [reflexivity|].
    match goal with |- context [run_batches ?c bs ?s] =>
      destruct (run_batches_quiet c bs s eq_refl) as [l [E [T S]]]; destruct (r_err (run_batches c bs s)) end;
      cbn [clear_stmt fst r_log]; rewrite E; cbn [r_log app]; rewrite (S eq_refl); reflexivity.
Qed.

Lemma batches_tosql_silent : forall bs orc, r_log (create_in_batches tosql_cfg bs (rst0 orc)) = [].
Proof.
  intros bs orc. unfold create_in_batches. cbn [c_skip tosql_cfg orb].
  destruct (run_batches_quiet tosql_cfg bs (rst0 orc) eq_refl) as [l [E [_ S]]].
  cbn [clear_stmt r_log]. rewrite E, (S eq_refl). reflexivity.
Qed.

(* ---- nested statements ---- *)
Lemma nested_dry_log : forall c b s, c_dry c = true -> nested_send c b s = s.
Proof. intros c b s H. unfold nested_send. rewrite H. reflexivity. Qed.
Lemma run_nested_dry : forall c bs s, c_dry c = true -> run_nested c bs s = s.
Proof.
  intros c bs. induction bs as [|b r IH]; intros s H; [reflexivity|].
  unfold run_nested in *. cbn [fold_left]. rewrite (nested_dry_log c b s H). apply IH. exact H.
Qed.

Lemma execute_nested_dry_quiet : forall c k b bf af s, c_dry c = true -> quiet c s (execute_nested c k b bf af s).
Proof.
  intros c k b bf af s Hd. unfold execute_nested. rewrite Hd, !run_nested_dry by exact Hd.
  destruct (has_tx_callbacks k).
  - eapply quiet_trans; [apply quiet_begin|]. eapply quiet_trans; [|apply quiet_commit].
    apply quiet_refl. apply main_dry_log. exact Hd.
  - apply quiet_refl. apply main_dry_log. exact Hd.
Qed.

Lemma nested_dry_silent : forall skip k b bf af orc,
  forallb is_tx_event (r_log (execute_nested (dry_cfg skip) k b bf af (rst0 orc))) = true.
Proof.
  intros. destruct (execute_nested_dry_quiet (dry_cfg skip) k b bf af (rst0 orc) eq_refl) as [l [E [T _]]].
  rewrite E. exact T.
Qed.
Lemma nested_tosql_silent : forall k b bf af orc,
  r_log (execute_nested tosql_cfg k b bf af (rst0 orc)) = [].
Proof.
  intros. destruct (execute_nested_dry_quiet tosql_cfg k b bf af (rst0 orc) eq_refl) as [l [E [_ S]]].
  rewrite E, (S eq_refl). reflexivity.
Qed.

Lemma manual_tx_dry_silent : forall skip k b orc,
  forallb is_tx_event (r_log (manual_tx (dry_cfg skip) k b (rst0 orc))) = true.
Proof.
  intros skip k b orc. unfold manual_tx, call. cbn [rst0 r_or r_log app c_dry dry_cfg].
  destruct (d_err _); [reflexivity|].
  match goal with |- context [execute ?c k b ?s] =>
    destruct (execute_dry_quiet c k b s eq_refl) as [l [E [T S]]] end.
  cbn [fst r_log]. rewrite E. cbn [r_log]. rewrite (S eq_refl). reflexivity.
Qed.
