(* C19_Proofs.v — DryRun sends nothing but transaction control, ToSQL nothing at all, and the
   statement a dry run exposes is the first statement the real run sends. *)
From Verif Require Import Base C01_Model C19_Model.

Definition begin_ok (skip : bool) (orc : list dres) : bool :=
  skip || match orc with d :: _ => negb (d_err d) | [] => true end.
Definition builds (k : opk) (b : built) : bool :=
  negb (match k with OpUpdate => b_empty b | _ => false end).

Ltac crush_exec :=
  intros;
  repeat match goal with
         | k : opk |- _ => destruct k
         | b : built |- _ => destruct b as [? ? [] [] []]
         | s : bool |- _ => destruct s
         end;
  match goal with
  | o : list dres |- _ => destruct o as [|[[] ?] [|[[] ?] ?]]
  | _ => idtac
  end;
  cbn in *; try discriminate; try reflexivity; repeat constructor.

Lemma dry_silent : forall skip k b orc,
  forallb is_tx_event (r_log (execute (dry_cfg skip) k b (rst0 orc))) = true.
Proof. crush_exec. Qed.

Lemma tosql_silent : forall k b orc, r_log (execute tosql_cfg k b (rst0 orc)) = [].
Proof. crush_exec. Qed.

Lemma dry_shows_built : forall skip k b orc,
  begin_ok skip orc = true -> builds k b = true ->
  shown (execute (dry_cfg skip) k b (rst0 orc)) = (b_sql b, b_vars b).
Proof. crush_exec. Qed.

Lemma real_sends_built : forall skip k b orc,
  begin_ok skip orc = true -> builds k b = true -> b_err b = false ->
  first_stmt (r_log (execute (real_cfg skip) k b (rst0 orc))) = Some (b_sql b, b_vars b).
Proof. crush_exec. Qed.

Lemma real_sends_only_built : forall skip k b orc x,
  first_stmt (r_log (execute (real_cfg skip) k b (rst0 orc))) = Some x -> x = (b_sql b, b_vars b).
Proof. crush_exec; match goal with H : Some _ = Some _ |- _ => inversion H; reflexivity end. Qed.

Lemma real_keeps_nothing : forall skip k b orc,
  shown (execute (real_cfg skip) k b (rst0 orc)) = (""%string, []).
Proof. crush_exec. Qed.

(* an error while building: nothing is sent in either mode *)
Lemma build_error_sends_nothing : forall c k b orc,
  b_err b = true -> first_stmt (r_log (execute c k b (rst0 orc))) = None.
Proof. intros [[] []]; crush_exec. Qed.

(* Rows / Row / Scan *)
Lemma rows_dry_silent : forall skip b orc,
  r_log (rows_finisher (dry_cfg skip) b (rst0 orc)) = []
  /\ r_err (rows_finisher (dry_cfg skip) b (rst0 orc)) = true
  /\ shown (rows_finisher (dry_cfg skip) b (rst0 orc)) = (b_sql b, b_vars b).
Proof. crush_exec. Qed.

(* Save *)
Lemma save_dry : forall skip bu bc orc,
  forallb is_tx_event (r_log (save (dry_cfg skip) bu bc (rst0 orc))) = true
  /\ (begin_ok skip orc = true -> b_empty bu = false ->
      shown (save (dry_cfg skip) bu bc (rst0 orc)) = (b_sql bu, b_vars bu)).
Proof.
  intros skip bu bc orc.
  assert (E : save (dry_cfg skip) bu bc (rst0 orc) = execute (dry_cfg skip) OpUpdate bu (rst0 orc)).
  { unfold save. cbn [c_dry dry_cfg negb]. rewrite andb_false_r. reflexivity. }
  rewrite E. split; [apply dry_silent|].
  intros Hb He. apply dry_shows_built; [exact Hb|]. unfold builds. rewrite He. reflexivity.
Qed.

Lemma save_real_first : forall skip bu bc orc,
  begin_ok skip orc = true -> b_empty bu = false -> b_err bu = false ->
  first_stmt (r_log (save (real_cfg skip) bu bc (rst0 orc))) = Some (b_sql bu, b_vars bu).
Proof.
  intros skip bu bc orc Hb He Hr. unfold save.
  pose proof (real_sends_built skip OpUpdate bu orc Hb) as F. unfold builds in F. rewrite He in F.
  specialize (F eq_refl Hr).
  destruct (negb (r_err (execute (real_cfg skip) OpUpdate bu (rst0 orc))) &&
            (r_ra (execute (real_cfg skip) OpUpdate bu (rst0 orc)) =? 0)%Z && negb (c_dry (real_cfg skip))); [|exact F].
  (* the second Execute appends to a log that already contains the update *)
  remember (execute (real_cfg skip) OpUpdate bu (rst0 orc)) as s1.
  assert (G : forall c k b s, exists l, r_log (execute c k b s) = r_log s ++ l).
  { intros [[] []] k b s; destruct k; unfold execute, has_tx_callbacks, begin_cb, commit_cb, main_cb, send, call,
      set_err, set_started, set_stmt, set_ra, clear_stmt, sql_empty; cbn;
      repeat match goal with
             | |- context [if ?x then _ else _] => destruct x; cbn
             | |- context [let (_, _) := ?x in _] => destruct x; cbn
             end; rewrite <- ?app_assoc; eauto; exists []; rewrite app_nil_r; reflexivity. }
  destruct (G (real_cfg skip) OpCreate bc (clear_stmt s1)) as [l E]. rewrite E. cbn [clear_stmt r_log].
  clear -F. revert F. generalize (r_log s1). intros lg. induction lg as [|e lg IH]; cbn; [discriminate|].
  destruct e; auto.
Qed.
