(* Props_C14.v — property C14: ONLY theorem statements, each closed by [exact] of a lemma
   from C14_Proofs*, followed by Print Assumptions. *)
From Verif Require Import Base C14_Model C14_Proofs.

(* "every statement the cache prepared is eventually closed": REFUTED on the code as it is.
   Witness W1 (ErrBadConn after a Reset), W2 (failed Prepare after a Reset), W4 (failed Tx-level
   Prepare after an upgrade, no Reset at all): all goroutines are done, the cache is closed,
   one pool-level statement was prepared and is never closed.  Each schedule is replayed on the
   real gorm by corpus/C14 (KNOWN-FINDING stale-delete). *)
Theorem c14_closed_eventually_refuted_badconn :
  exists s, run (init w1_progs) w1_sched = Some s /\ all_done s = true /\ s_map s = None
            /\ leaked s = [1] /\ s_stolen s = true.
Proof. exact closed_eventually_refuted_w1. Qed.
Print Assumptions c14_closed_eventually_refuted_badconn.

Theorem c14_closed_eventually_refuted_prepfail :
  exists s, run (init w1_progs) w2_sched = Some s /\ all_done s = true /\ s_map s = None
            /\ leaked s = [0] /\ s_stolen s = true.
Proof. exact closed_eventually_refuted_w2. Qed.
Print Assumptions c14_closed_eventually_refuted_prepfail.

Theorem c14_closed_eventually_refuted_upgrade :
  exists s, run (init w4_progs) w4_sched = Some s /\ all_done s = true /\ s_map s = None
            /\ leaked s = [0] /\ s_stolen s = true /\ ~ In OReset (List.concat w4_progs).
Proof. exact closed_eventually_refuted_w4. Qed.
Print Assumptions c14_closed_eventually_refuted_upgrade.

(* "every operation returns the same rows as in non-prepared mode or a clean error once the
   cache is closed": REFUTED.  W3: no Close anywhere, no driver fault, and an operation fails
   with "sql: statement is closed" (KNOWN-FINDING close-races-use).  W5: a QueryRow after Close
   panics instead of reporting ErrInvalidDB (KNOWN-FINDING row-swallows-error). *)
Theorem c14_transparent_refuted_reset :
  exists s, run (init w3_progs) w3_sched = Some s /\ all_done s = true
            /\ no_faults w3_sched /\ ~ has_close w3_progs
            /\ results s = [[RErrClosed]; [ROk]; []].
Proof. exact transparent_refuted_w3. Qed.
Print Assumptions c14_transparent_refuted_reset.

Theorem c14_clean_error_refuted_queryrow :
  exists s, run (init w5_progs) w5_sched = Some s /\ all_done s = true
            /\ results s = [[ROk]; [RPanic]].
Proof. exact clean_error_refuted_w5. Qed.
Print Assumptions c14_clean_error_refuted_queryrow.
