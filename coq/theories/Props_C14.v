(* Props_C14.v — property C14 (the prepared-statement cache is transparent, leak-free, safe in
   any interleaving): ONLY theorem statements, each closed by [exact] of a lemma from
   C14_Proofs*, followed by Print Assumptions.

   The model (C14_Model.v): goroutines with program counters over the atomic actions of
   prepare_stmt.go; [step s t c] = goroutine t performs its next action, the driver answering c;
   [run s sched] follows ANY list of (goroutine, driver answer): all theorems quantify over every
   program list (any number of goroutines and operations) and every schedule.
   The state carries one constant flag [s_guard]: false = prepare_stmt.go before fix 3544058 ([init]),
   true = with that fix (guarded deletes, [init_g true]; this is what /repo contains now).
   [reach progs s] := exists g sched, run (init_g g progs) sched = Some s: the positive theorems
   hold for both variants; the leak refutations are schedules of [init] (the code before the fix), the
   transparency refutations are schedules of both variants (they involve no delete). *)
From Verif Require Import Base C14_Model C14_Check C14_Proofs C14_Proofs2 C14_Proofs3 C14_Proofs4
  C14_Proofs5 C14_Proofs6 C14_Proofs7 C14_Proofs8 C14_Proofs9 C14_Proofs10 C14_Quiet C14_QuietProofs.

(* ---- 1. no goroutine deadlocks ---------------------------------------------------------- *)
(* In every reachable state in which some goroutine has not finished, some goroutine can take
   a step, provided the driver answers its calls (the step may be the return of a driver call
   with an answer of the environment's choosing).  Rests on: Mux is held only across
   non-blocking sections; every open [prepared] channel has a live owner that will close it. *)
Theorem c14_no_deadlock : forall progs s,
  reach progs s -> all_done s = false -> exists t c, step s t c <> None.
Proof. exact no_deadlock. Qed.
Print Assumptions c14_no_deadlock.

Theorem c14_mutual_exclusion : forall progs s t1 t2 th1 th2,
  reach progs s -> nth_error (s_thr s) t1 = Some th1 -> nth_error (s_thr s) t2 = Some th2 ->
  holder (t_pc th1) = true -> holder (t_pc th2) = true -> t1 = t2.
Proof. exact writer_unique. Qed.
Print Assumptions c14_mutual_exclusion.

(* ---- 1b. what a goroutine can be waiting for (C14_Quiet.v) ---------------------------------- *)
(* The checker follows the recorded trace with the refined step [stepQ]: the model + the one blocking
   rule of database/sql the cache relies on (Stmt.Close waits for the executions of the statement in
   flight, and a new pool-level execution queues behind a pending Close).  Every refined run is a run
   of the model with stutter steps, so every theorem about [reach] holds of its states ... *)
Theorem c14_refined_runs_are_runs : forall progs q, reachQ progs q -> reach progs (q_s q).
Proof. exact reachQ_reach. Qed.
Print Assumptions c14_refined_runs_are_runs.

(* ... it has no deadlock either (a Close waits only for an execution that is with the driver) ... *)
Theorem c14_no_deadlock_refined : forall progs q,
  reachQ progs q -> all_done (q_s q) = false -> exists t c, stepQ q t c <> None.
Proof. exact no_deadlockQ. Qed.
Print Assumptions c14_no_deadlock_refined.

(* ... and "no goroutine deadlocks in ANY order in which the driver completes its calls": in a
   reachable state in which no goroutine of the programs can move on its own (each is waiting to be
   started, finished, inside a driver call, or blocked), a blocked one is
   (a) in prepare, waiting for the [prepared] channel of an entry whose preparer is inside the driver's
       Prepare call for it (the single preparation the property asks for), or
   (b) a pool-level use, at the call of the statement it was handed, behind a pending Stmt.Close of that
       statement (the cache closed a statement in use: known finding close-races-use).
   Nobody waits for the cache mutex; Reset and Close wait for nothing (their closers do the waiting);
   nobody but (b) waits for an execution.  This is what the checker compares at every quiet point
   ([quiet_on], [stuck_on] on the goroutines of the programs). *)
Theorem c14_blocked_only_behind_prepare : forall progs q,
  reachQ progs q -> quiet_on (actors progs) q = true ->
  forall t, In t (stuck_on (actors progs) q) ->
  (exists e u thu, t_pc (thr (q_s q) t) = P3 e /\ e_done (ent (q_s q) e) = false /\
                   nth_error (s_thr (q_s q)) u = Some thu /\ t_pc thu = P9w e /\ u <> t)
  \/ (exists st, t_pc (thr (q_s q) t) = X0 st /\ cur_tx (thr (q_s q) t) = false /\ close_pending q st = true).
Proof. exact stuck_classified. Qed.
Print Assumptions c14_blocked_only_behind_prepare.

Theorem c14_reset_and_close_never_wait : forall progs q t,
  reachQ progs q -> quiet_on (actors progs) q = true -> In t (stuck_on (actors progs) q) ->
  match t_pc (thr (q_s q) t) with P3 _ | X0 _ => True | _ => False end.
Proof. exact stuck_is_use. Qed.
Print Assumptions c14_reset_and_close_never_wait.

(* ---- 2. a text is prepared at most once per cache generation ------------------------------ *)
(* An entry (hence a Prepare call) is published only while no entry able to serve the request
   (ready or in progress) is in the map ... *)
Theorem c14_publish_only_when_unserved : forall s t th c s' l,
  step_th s t th c = Some (s', l) -> length (s_ents s) < length (s_ents s') ->
  t_pc th = P6 /\ match mlookup (s_map s) (cur_q th) with
                  | Some e => servable (ent s e) (cur_tx th) = false
                  | None => True
                  end.
Proof. exact publish_only_when_unserved. Qed.
Print Assumptions c14_publish_only_when_unserved.

(* ... hence, in EVERY reachable state, Prepare calls for a text <= 1 + Reset/Close bodies run
   + failed preparations + ErrBadConn evictions + upgrades (Tx-only entry replaced), all of
   that text ... *)
Theorem c14_single_prepare : forall progs s q,
  reach progs s ->
  count_calls q (s_calls s) <=
  1 + s_cuts s + count_nat q (s_fails s) + count_nat q (s_evicts s) + count_nat q (s_upg s).
Proof. exact single_prepare_ghost. Qed.
Print Assumptions c14_single_prepare.

(* ... and at quiescence the bound that the checker evaluates on gorm's observed history
   ([count_ok], where an upgrade needs one Tx-level and one pool-level preparation). *)
Theorem c14_single_prepare_observable : forall progs s,
  reach progs s -> all_done s = true ->
  count_ok (s_calls s) (s_fails s) (s_evicts s) (s_cuts s) = true.
Proof. exact single_prepare. Qed.
Print Assumptions c14_single_prepare_observable.

(* ---- 3. a failed preparation is reported to all waiters and not cached ---------------------- *)
(* whoever waits on a failed entry is released by the close of the channel and ends with the
   error (QueryRow: with the panic of the swallowed error, see c14_clean_error_refuted_queryrow) *)
Theorem c14_failure_reaches_waiter : forall s t th e,
  t_pc th = P3 e -> e_done (ent s e) = true -> e_err (ent s e) = true ->
  step_th s t th CNone = Some (set_thr s t (set_pc th (Ret (perr th RErrPrep))), None).
Proof. exact waiter_gets_error. Qed.
Print Assumptions c14_failure_reaches_waiter.

(* a closed channel always carries the error or a statement: prepare never returns nil, nil *)
Theorem c14_closed_channel_has_result : forall progs s e,
  reach progs s -> e_done (ent s e) = true ->
  e_err (ent s e) = true \/ exists st, e_stmt (ent s e) = Some st.
Proof. exact closed_channel_has_result. Qed.
Print Assumptions c14_closed_channel_has_result.

Theorem c14_no_nil_statement : forall progs s t th,
  reach progs s -> nth_error (s_thr s) t = Some th -> ~ In RNilStmt (t_res th).
Proof. exact no_nil_stmt. Qed.
Print Assumptions c14_no_nil_statement.

(* a failed entry is in the map only while its preparer is on its way to delete it *)
Theorem c14_failed_not_cached : forall progs s k e,
  reach progs s -> mlookup (s_map s) k = Some e -> e_err (ent s e) = true ->
  exists t th, nth_error (s_thr s) t = Some th /\ (t_pc th = P11 e \/ t_pc th = P11b e).
Proof. exact failed_not_cached. Qed.
Print Assumptions c14_failed_not_cached.

(* ---- 4. every statement the cache prepared is eventually closed ----------------------------- *)
(* REFUTED for the code before fix 3544058 ([init]).  W1 (ErrBadConn after a Reset), W2 (failed Prepare after a
   Reset), W4 (failed Tx-level Prepare after an upgrade, no Reset at all): all goroutines are
   done, the cache is closed, one pool-level statement was prepared and is never closed.  Each
   schedule is replayed on the real gorm by corpus/C14 (finding stale-delete, fixed by 3544058). *)
Theorem c14_closed_eventually_refuted_badconn :
  exists s, run (init w1_progs) w1_sched = Some s /\ all_done s = true /\ s_map s = None
            /\ leaked s = [1] /\ s_stolen s = true.
Proof. exact closed_eventually_refuted_w1. Qed.
Print Assumptions c14_closed_eventually_refuted_badconn.

Theorem c14_closed_eventually_refuted_prepfail :
  exists s, run (init w1_progs) w2_sched = Some s /\ all_done s = true /\ s_map s = None
            /\ leaked s = [0] /\ s_stolen s = true.
Proof. exact closed_eventually_refuted_w2. Qed.
Print Assumptions c14_closed_eventually_refuted_prepfail.

Theorem c14_closed_eventually_refuted_upgrade :
  exists s, run (init w4_progs) w4_sched = Some s /\ all_done s = true /\ s_map s = None
            /\ leaked s = [0] /\ s_stolen s = true /\ ~ In OReset (List.concat w4_progs).
Proof. exact closed_eventually_refuted_w4. Qed.
Print Assumptions c14_closed_eventually_refuted_upgrade.

(* PARTIAL (for the unfixed variant), with the exact missing hypothesis: as long as no delete(Stmts, query) removed an
   entry that was not the deleter's own ([s_stolen] = false: "the entry at q is mine"), every
   successfully prepared pool-level statement is closed, or a spawned goroutine is about to close
   it, or an entry carries it that is in the current map or has a live closer ... *)
Theorem c14_closed_eventually_partial : forall progs s st q,
  reach progs s -> s_stolen s = false -> In (st, q, false) (s_prep s) -> safe s st.
Proof. exact closed_eventually_partial. Qed.
Print Assumptions c14_closed_eventually_partial.

(* ... so at quiescence every statement still open is cached, and after a final Close nothing
   is left open. *)
Theorem c14_quiescent_open_is_cached : forall progs s st,
  reach progs s -> s_stolen s = false -> all_done s = true -> In st (leaked s) ->
  exists k e, mlookup (s_map s) k = Some e /\ e_stmt (ent s e) = Some st.
Proof. exact quiescent_open_is_cached. Qed.
Print Assumptions c14_quiescent_open_is_cached.

Theorem c14_leak_free_partial : forall progs s,
  reach progs s -> s_stolen s = false -> all_done s = true -> s_map s = None -> leaked s = [].
Proof. exact leak_free_partial. Qed.
Print Assumptions c14_leak_free_partial.

(* With fix 3544058 (delete(Stmts, query) only if the slot still holds the entry this
   call created, resp. the entry carrying the statement this call used) the clause holds outright:
   for every program and every schedule, incl. failed Prepares and ErrBadConn. *)
Theorem c14_closed_eventually_patched : forall progs sched s st q,
  run (init_g true progs) sched = Some s -> In (st, q, false) (s_prep s) -> safe s st.
Proof. exact closed_eventually_patched. Qed.
Print Assumptions c14_closed_eventually_patched.

Theorem c14_leak_free_patched : forall progs sched s,
  run (init_g true progs) sched = Some s -> all_done s = true -> s_map s = None -> leaked s = [].
Proof. exact leak_free_patched. Qed.
Print Assumptions c14_leak_free_patched.

(* ---- 5. transparency ------------------------------------------------------------------------ *)
(* the statement a goroutine executes at the driver was prepared for the text it asked for *)
Theorem c14_right_statement : forall progs s t th st,
  reach progs s -> nth_error (s_thr s) t = Some th -> executing (t_pc th) = Some st ->
  exists b, In (st, cur_q th, b) (s_prep s).
Proof. exact right_statement. Qed.
Print Assumptions c14_right_statement.

Theorem c14_map_key_is_text : forall progs s k e,
  reach progs s -> mlookup (s_map s) k = Some e -> e_q (ent s e) = k.
Proof. exact map_key_text. Qed.
Print Assumptions c14_map_key_is_text.

(* "same rows or a clean error once the cache is closed": REFUTED.  W3: no Close anywhere, no
   driver fault, and an operation fails with "sql: statement is closed" (KNOWN-FINDING
   close-races-use).  W5: a QueryRow after Close panics instead of reporting ErrInvalidDB
   (KNOWN-FINDING row-swallows-error). *)
Theorem c14_transparent_refuted_reset : forall g,
  exists s, run (init_g g w3_progs) w3_sched = Some s /\ all_done s = true
            /\ no_faults w3_sched /\ ~ has_close w3_progs
            /\ results s = [[RErrClosed]; [ROk]; []].
Proof. exact transparent_refuted_w3. Qed.
Print Assumptions c14_transparent_refuted_reset.

Theorem c14_clean_error_refuted_queryrow : forall g,
  exists s, run (init_g g w5_progs) w5_sched = Some s /\ all_done s = true
            /\ results s = [[ROk]; [RPanic]].
Proof. exact clean_error_refuted_w5. Qed.
Print Assumptions c14_clean_error_refuted_queryrow.

(* PARTIAL: programs without Reset/Close, driver never failing: whatever the interleaving,
   every operation that returned, returned ROk. *)
Theorem c14_transparent_partial : forall progs sched s,
  (forall p, In p progs -> Forall is_exec p) -> no_faults sched ->
  run (init progs) sched = Some s ->
  forall t th, nth_error (s_thr s) t = Some th -> Forall (eq ROk) (t_res th).
Proof. exact transparent_partial. Qed.
Print Assumptions c14_transparent_partial.

(* ---- 6. session plumbing (gorm.go DB.Session, finisher_api.go Begin/Transaction; C14_Plumb.v) --- *)
(* whatever sessions (plain or PrepareStmt) are derived before or after it, a handle is inside the
   transaction iff a Begin / Transaction block is among the steps: prepared-statement mode never
   moves a statement out of (or into) a transaction ... *)
Theorem c14_session_stays_in_transaction : forall base steps,
  in_tx (pfinal base steps) = existsb is_begin steps.
Proof. exact session_stays_in_transaction. Qed.
Print Assumptions c14_session_stays_in_transaction.

(* ... and once enabled (Open or any Session{PrepareStmt:true}) it stays enabled downstream, unless a
   Connection block switches to its dedicated connection *)
Theorem c14_prepared_mode_is_sticky : forall base steps, existsb is_conn steps = false ->
  prepared (pfinal base steps) = base || existsb is_sessprep steps.
Proof. exact prepared_mode_is_sticky. Qed.
Print Assumptions c14_prepared_mode_is_sticky.

(* the plumbing model satisfies the specification the checker evaluates on gorm's observations *)
Theorem c14_plumbing_model_meets_spec : forall p, valid_steps false (p_steps p) = true ->
  plumb_model_agrees p = true -> plumb_spec p = true.
Proof. exact plumb_model_meets_spec. Qed.
Print Assumptions c14_plumbing_model_meets_spec.

(* ---- non-vacuity ------------------------------------------------------------------------------ *)
(* the hypotheses of c14_leak_free_partial are met by a history with a failed Prepare AND an
   ErrBadConn eviction (each deleting its own entry) *)
Example c14_leak_free_partial_instance :
  exists s, run (init w6_progs) w6_sched = Some s /\ all_done s = true /\ s_stolen s = false
            /\ s_map s = None /\ s_prep s = [(0, 0, false)] /\ s_fails s = [0] /\ s_evicts s = [0].
Proof. exact w6_instance. Qed.

(* the three refutation schedules, run on the patched variant, end with nothing open *)
Example c14_witnesses_patched :
  ends_clean true w1_progs (w1_sched ++ tau 6 2) = true /\
  ends_clean true w1_progs (w2_sched ++ tau 5 2) = true /\
  ends_clean true w4_progs (w4_sched ++ tau 3 2) = true.
Proof. exact witnesses_patched. Qed.

(* the hypotheses of c14_transparent_partial are met by two goroutines racing for one text:
   one Prepare call, both operations ROk *)
Example c14_transparent_partial_instance :
  (forall p, In p w7_progs -> Forall is_exec p) /\ no_faults w7_sched /\
  exists s, run (init w7_progs) w7_sched = Some s /\ all_done s = true /\ s_calls s = [(0, false)]
            /\ results s = [[ROk]; [ROk]].
Proof. exact w7_instance. Qed.

(* both kinds of wait of c14_blocked_only_behind_prepare are reachable: a waiter behind a Prepare call
   that is with the driver; a pool-level use behind the Close that Reset's closer started while the
   statement is being executed *)
Example c14_wait_behind_prepare_instance : exists q, runQ (initQ true w8_progs) w8_sched = Some q
  /\ quiet_on (actors w8_progs) q = true /\ stuck_on (actors w8_progs) q = [1]
  /\ t_pc (thr (q_s q) 0) = P9w 0 /\ t_pc (thr (q_s q) 1) = P3 0.
Proof. exact w8_instance. Qed.

Example c14_wait_behind_close_instance : exists q, runQ (initQ true w9_progs) w9_sched = Some q
  /\ quiet_on (actors w9_progs) q = true /\ stuck_on (actors w9_progs) q = [1]
  /\ t_pc (thr (q_s q) 0) = X1 0 /\ t_pc (thr (q_s q) 1) = X0 0 /\ t_pc (thr (q_s q) 2) = Idle
  /\ q_pend q = [(3, 0)].
Proof. exact w9_instance. Qed.
