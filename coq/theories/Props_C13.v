(* Props_C13.v — property C13 (hooks run once per record, in documented order, in the operation's
   transaction): ONLY theorem statements, each closed by [exact] of a lemma of C13_Proofs*.v.
   All are about [run], the function C13_Check.check_case evaluates on what the real gorm just did. *)
From Verif Require Import Base C13_Model C13_Check C13_Proofs C13_Proofs2 C13_Proofs3 C13_Proofs4 C13_Proofs5 C13_Proofs6 C13_Vals C13_Vals2 C13_Vals3 C13_Vals4 C13_Vals5 C13_Vals6 C13_Vals7.
Open Scope Z_scope.

(* The hook log of every operation (Create, Save, Update(s), UpdateColumn(s), Delete, Find, First), for
   every model type (hook presence x receiver kind), every argument shape reachable through a pointer,
   every number of records, every association values, every set of failing invocations, every
   SetColumn set, every transaction mode: the phases of the operation's schedule [op_sched] in
   registration order, each phase firing every applicable hook of every record once, record by record;
   a phase containing a failing invocation is completed and nothing after it runs. *)
Theorem c13_log : forall o, op_ok o ->
  hooks_of (s_tr (run o)) = sched_log (op_sched o) 0 (o_fails o).
Proof. exact run_log. Qed.
Print Assumptions c13_log.

(* no invocation fails: each applicable hook exactly once per in-memory record, documented order *)
Theorem c13_log_expected : forall o, op_ok o ->
  no_fail 0 (len (expected_log o)) (o_fails o) = true ->
  hooks_of (s_tr (run o)) = expected_log o.
Proof. exact run_log_nofail. Qed.
Print Assumptions c13_log_expected.

(* failure in phase p: the log is a whole number of phases — p is completed (the remaining records
   of p still fire), no event of a later phase *)
Theorem c13_abort_phases : forall o, op_ok o ->
  hooks_of (s_tr (run o)) = concat (firstn (cut (op_sched o) 0 (o_fails o)) (op_sched o)).
Proof. exact run_log_cut. Qed.
Print Assumptions c13_abort_phases.

(* the error is returned exactly when one of the invocations that happened was made to fail *)
Theorem c13_abort_error : forall o, op_ok o -> is_query o = false ->
  is_nil (s_err (run o)) = no_fail 0 (len (hooks_of (s_tr (run o)))) (o_fails o).
Proof. exact run_error. Qed.
Print Assumptions c13_abort_error.

(* ... and everything the operation did is rolled back (default or explicit transaction) *)
Theorem c13_abort_rollback : forall o, op_ok o -> must_tx o = true ->
  s_err (run o) <> [] -> s_tbl (run o) = o_seed o.
Proof. exact run_rollback. Qed.
Print Assumptions c13_abort_rollback.

(* SkipHooks sessions and UpdateColumn(s) run no hook — for every operation, shape and type, also
   outside [op_ok], including the hooks of association values *)
Theorem c13_skip : forall o,
  o_skip o = true \/ o_kind o = OUpdateColumn -> hooks_of (s_tr (run o)) = [].
Proof. exact run_skip. Qed.
Print Assumptions c13_skip.

(* every hook invocation (and every statement) carries the transaction that is open at that moment,
   and write operations under the default / an explicit transaction are never outside one *)
Theorem c13_same_tx : forall o, op_ok o -> tx_ok (must_tx o) 0 0 (s_tr (run o)) = true.
Proof. exact run_tx_ok. Qed.
Print Assumptions c13_same_tx.

(* values set by a before-hook are the values stored.  Local statements about the three functions
   involved (SetColumn on the model itself, the Create statement, the update payload map): *)
Theorem c13_setcolumn_record : forall c i v s r,
  x_setall (c_x c) = false ->
  c_dest c = DSelf -> sh_cont (c_shape c) <> CStruct -> nth_error (s_recs s) i = Some r ->
  nth_error (s_recs (set_column c i v s)) i = Some (mk_rec (m_id r) (m_tag r) v (m_nil r))
  /\ (forall j, j <> i -> nth_error (s_recs (set_column c i v s)) j = nth_error (s_recs s) j)
  /\ s_err (set_column c i v s) = s_err s.
Proof. exact set_column_self. Qed.
Print Assumptions c13_setcolumn_record.

Theorem c13_create_stores_current_values : forall c s r,
  c_keep c = false ->
  s_err s = [] -> existsb m_nil (s_recs s) = false -> NoDup (map m_tag (s_recs s)) -> In r (s_recs s) ->
  In (c_table c, m_tag r, m_val r) (s_tbl (stmt_create c s)).
Proof. exact stmt_create_stores. Qed.
Print Assumptions c13_create_stores_current_values.

(* update payload given as a map: after SetColumn the stored value is the hook's, whatever spelling
   (field name / column name) the hook and the caller used *)
Theorem c13_update_map : forall k v m, map_val (map_set k v m) = Some v.
Proof. exact map_val_set. Qed.
Print Assumptions c13_update_map.

(* END TO END, about [run]: Create (and Save when it inserts) of any type, argument shape and number of
   records, with association values, any set of SetColumn calls, any transaction mode.  When the
   operation returns no error, the row of EVERY record holds the value the LAST before-hook
   (BeforeSave / BeforeCreate) of that record asked for with SetColumn — read off the hook log with the
   checker's own [last_set] — or the record's original value when none asked ([want]). *)
Theorem c13_create_values_stored : forall o, op_ok o -> create_shaped o -> vals_dom o ->
  s_err (run o) = [] ->
  forall r, In r (o_recs o) ->
    In (TRecs, m_tag r, want o (o_ty o) (hooks_of (s_tr (run o))) r) (s_tbl (run o)).
Proof. exact run_create_values. Qed.
Print Assumptions c13_create_values_stored.

(* the clause [vals_ok] that check_case evaluates on gorm's observed log and tables holds of the model's
   own run (operations without association values: the clause is then exactly the statement above) *)
Theorem c13_create_vals_ok : forall o, op_ok o -> create_shaped o -> vals_dom o ->
  a_boss (o_assocs o) = [] -> a_kids (o_assocs o) = [] -> a_pets (o_assocs o) = [] ->
  s_err (run o) = [] ->
  vals_ok o (hooks_of (s_tr (run o))) (s_tbl (run o)) = true.
Proof. exact run_create_vals_ok. Qed.
Print Assumptions c13_create_vals_ok.

(* ... the same for the ASSOCIATION records of the operation (belongs-to / has-many values saved by the nested
   creates of SaveBefore/AfterAssociations): every Boss / Kid / Pet row holds the last value one of that
   record's own before-hooks asked for, or its original value ([full_dom]: per-record SetColumn, all records
   of the operation told apart by their tags, the association values have no row yet) *)
Theorem c13_create_assoc_values_stored : forall o, op_ok o -> create_shaped o -> full_dom o ->
  s_err (run o) = [] ->
  (forall r, In r (a_boss (o_assocs o)) -> In (TBosses, m_tag r, want o (boss_ty o) (hooks_of (s_tr (run o))) r) (s_tbl (run o)))
  /\ (forall r, In r (a_kids (o_assocs o)) -> In (TKids, m_tag r, want o (kid_ty o) (hooks_of (s_tr (run o))) r) (s_tbl (run o)))
  /\ (forall r, In r (a_pets (o_assocs o)) -> In (TPets, m_tag r, want o (pet_ty o) (hooks_of (s_tr (run o))) r) (s_tbl (run o))).
Proof. exact run_create_assoc_values. Qed.
Print Assumptions c13_create_assoc_values_stored.

(* ... hence the checker's clause [vals_ok] IN FULL (own and association records) on the model's own run *)
Theorem c13_create_vals_ok_full : forall o, op_ok o -> create_shaped o -> full_dom o ->
  s_err (run o) = [] ->
  vals_ok o (hooks_of (s_tr (run o))) (s_tbl (run o)) = true.
Proof. exact run_create_vals_ok_full. Qed.
Print Assumptions c13_create_vals_ok_full.

(* END TO END, Update / Updates (payload a map keyed by column or field name, or a struct; any model type,
   Model shape and number of records, any set of SetColumn calls by BeforeSave / BeforeUpdate, any
   transaction mode): when the operation returns no error, EVERY targeted row that existed holds the
   LAST value a before-hook asked for ([of_type]: the hooks of the model type; one payload serves all rows) *)
Theorem c13_update_values_stored : forall o, op_ok o -> o_kind o = OUpdate -> no_assoc_vals (o_assocs o) ->
  s_err (run o) = [] ->
  forall v, last_set o (of_type (o_ty o)) (hooks_of (s_tr (run o))) = Some v ->
  forall r, In r (o_recs o) -> has_row TRecs (m_tag r) (o_seed o) = true ->
    In (TRecs, m_tag r, v) (s_tbl (run o)).
Proof. exact run_update_values. Qed.
Print Assumptions c13_update_values_stored.

(* ... which is the checker's clause [vals_ok] on the model's own run *)
Theorem c13_update_vals_ok : forall o, op_ok o -> o_kind o = OUpdate -> no_assoc_vals (o_assocs o) ->
  s_err (run o) = [] ->
  vals_ok o (hooks_of (s_tr (run o))) (s_tbl (run o)) = true.
Proof. exact run_update_vals_ok. Qed.
Print Assumptions c13_update_vals_ok.

(* ---- refuted at full strength (replayed on the real gorm: corpus/C13/kf_mixed_*.json) ---- *)

(* hooks of one phase declared partly on T and partly on *T: for a single struct the pointer-receiver
   hooks never fire although everything is addressable — [uniform_all] in [op_ok] is the exact
   missing hypothesis *)
Definition t8 := mk_ty 8 RVal RPtr RPtr RVal RPtr RPtr RPtr RPtr RPtr.
Definition leaf_ty i := mk_ty i RPtr RPtr RPtr RPtr RPtr RPtr RPtr RPtr RPtr.
Definition w_mixed : op :=
  mk_op OCreate t8 (mk_shape CStruct true false) [mk_rec 0 101 7 false]
        (no_assocs (leaf_ty 12, leaf_ty 13, leaf_ty 14)) false TxDefault [] [] KField 0 PVMapDb 0 [] no_opts.

Theorem c13_log_refuted : exists o,
  goodk (o_shape o) (rkeys (o_recs o)) /\ o_fails o = [] /\ hooks_of (s_tr (run o)) <> expected_log o.
Proof.
  exists w_mixed. split; [|split; [reflexivity|]].
  - unfold goodk, wf_shape. cbn. repeat split; try reflexivity; [eexists; reflexivity | discriminate].
  - vm_compute. discriminate.
Qed.
Print Assumptions c13_log_refuted.

(* the former counterexample (Update with a map keyed by the column name + a BeforeUpdate hook calling
   SetColumn with the field name; fixed in gorm, corpus/C13/kf_setcolumn_key.json): the hook's value
   is the one stored *)
Definition t1 := mk_ty 1 RPtr RPtr RPtr RPtr RPtr RPtr RPtr RPtr RPtr.
Definition w_setcol : op :=
  mk_op OUpdate t1 (mk_shape CStruct true false) [mk_rec 1 1 10 false]
        (no_assocs (leaf_ty 12, leaf_ty 13, leaf_ty 14)) false TxDefault [] [1] KField 77 PVMapDb 0 [(TRecs, 1, 10)] no_opts.

Example c13_values_update_instance :
  op_ok w_setcol /\ no_assoc_vals (o_assocs w_setcol) /\ s_err (run w_setcol) = []
  /\ nth_error (hooks_of (s_tr (run w_setcol))) 1 = Some (BeforeUpdate, 1, 1)
  /\ s_tbl (run w_setcol) = [(TRecs, 1, 1001)].
Proof.
  split; [|split; [repeat split | vm_compute; repeat split]].
  split; [intro p; left; intros h _; destruct h; cbn; discriminate|]. cbn. split.
  - unfold goodk, wf_shape. cbn. repeat split; try reflexivity; [eexists; reflexivity | discriminate].
  - unfold assocs_ok, assoc_vals_ok. cbn. repeat split; try reflexivity; try lia; try discriminate;
      left; intros h _; destruct h; cbn; discriminate.
Qed.

(* ---- non-vacuity: an operation with associations, two records, a failing invocation, in [op_ok] ---- *)
Definition w_ok : op :=
  mk_op OCreate t1 (mk_shape CSlice true false) [mk_rec 0 101 1 false; mk_rec 0 102 2 false]
        (mk_assocs (leaf_ty 12, leaf_ty 13, leaf_ty 14) [mk_rec 0 301 3 false] [mk_rec 0 201 1 false; mk_rec 0 202 2 false] [] (leaf_ty 15) [])
        false TxDefault [9] [0] KField 0 PVMapDb 0 [] no_opts.
Example c13_ok_instance : op_ok w_ok /\ must_tx w_ok = true
  /\ length (hooks_of (s_tr (run w_ok))) = 12%nat /\ s_err (run w_ok) = [EInj 9] /\ s_tbl (run w_ok) = [].
Proof.
  split.
  - split.
    + intro p. exact I.
    + cbn. split.
      * unfold goodk, wf_shape. cbn. repeat split; try reflexivity. discriminate.
      * unfold assocs_ok, assoc_vals_ok. cbn. repeat split; try reflexivity; try lia; try discriminate.
  - vm_compute. repeat split.
Qed.

(* ---- non-vacuity of the stored-values theorem: two records with association values; the before-hooks of
   record 101 ask for 1000 and then 1001, BeforeCreate of record 102 asks for 1003 ---- *)
Definition w_vals : op :=
  mk_op OCreate t1 (mk_shape CSlice true false) [mk_rec 0 101 1 false; mk_rec 0 102 2 false]
        (mk_assocs (leaf_ty 12, leaf_ty 13, leaf_ty 14) [mk_rec 0 301 3 false] [mk_rec 0 201 1 false; mk_rec 0 202 2 false] [] (leaf_ty 15) [])
        false TxDefault [] [0; 1; 3] KField 0 PVMapDb 0 [] no_opts.
Example c13_vals_instance : op_ok w_vals /\ create_shaped w_vals /\ vals_dom w_vals /\ s_err (run w_vals) = []
  /\ want w_vals t1 (hooks_of (s_tr (run w_vals))) (mk_rec 0 101 1 false) = 1001
  /\ want w_vals t1 (hooks_of (s_tr (run w_vals))) (mk_rec 0 102 2 false) = 1003
  /\ In (TRecs, 101, 1001) (s_tbl (run w_vals)) /\ In (TRecs, 102, 1003) (s_tbl (run w_vals)).
Proof.
  split; [|split; [left; reflexivity|split]].
  - split.
    + intro p. exact I.
    + cbn. split.
      * unfold goodk, wf_shape. cbn. repeat split; try reflexivity. discriminate.
      * unfold assocs_ok, assoc_vals_ok. cbn. repeat split; try reflexivity; try lia; try discriminate.
  - split; [reflexivity|]. split.
    + cbn. repeat constructor; cbn; intuition discriminate.
    + intros x y Hx Hy. cbn in Hx, Hy. intuition (subst; cbn; discriminate).
  - vm_compute. intuition.
Qed.

Example c13_vals_full_dom : full_dom w_vals.
Proof.
  split; [reflexivity|]. split.
  - cbn. repeat constructor; cbn; intuition discriminate.
  - repeat split; intros x Hx; reflexivity.
Qed.
