(* Props_C13.v — property C13: theorem statements only. *)
From Verif Require Import Base C13_Model C13_Proofs.
Open Scope Z_scope.

Theorem c13_skip_phase : forall c p s, c_skip c = true -> hooks_phase c p s = s.
Proof. exact hooks_phase_skip. Qed.
Print Assumptions c13_skip_phase.
