(* C17_Proofs.v — lemmas about one run of sortCallbacks (C17_Model.sort_callbacks):
   the names never change, [sorted] never holds a name twice, every callback ends up in it. *)
From Verif Require Import Base C17_Model.
From Coq Require Import Permutation.
Open Scope string_scope.

(* ------------------------------------------------------------------ getRIndex *)
Lemma rindex_none : forall l s, rindex l s = None <-> ~ In s l.
Proof.
  induction l as [|x l IH]; intro s; cbn.
  - split; [intros _ []|reflexivity].
  - destruct (rindex l s) as [i|] eqn:E.
    + split; [discriminate|]. intro H. exfalso. apply H. right.
      destruct (IH s) as [_ IH2]. destruct (in_dec string_dec s l) as [Hi|Hn]; [exact Hi|].
      rewrite (IH2 Hn) in E. discriminate.
    + destruct (String.eqb x s) eqn:Ex.
      * split; [discriminate|]. intro H. exfalso. apply H. left. apply String.eqb_eq, Ex.
      * split; [|reflexivity]. intros _ [H|H].
        -- apply String.eqb_neq in Ex. congruence.
        -- apply (proj1 (IH s)); assumption.
Qed.

Lemma rindex_nth : forall l s i, rindex l s = Some i -> nth_error l i = Some s.
Proof.
  induction l as [|x l IH]; intros s i; cbn; [discriminate|].
  destruct (rindex l s) as [j|] eqn:E.
  - intros [= <-]. cbn. apply IH, E.
  - destruct (String.eqb x s) eqn:Ex; [|discriminate].
    intros [= <-]. cbn. apply String.eqb_eq in Ex. congruence.
Qed.

Lemma rindex_in : forall l s i, rindex l s = Some i -> In s l.
Proof. intros l s i H. eapply nth_error_In, rindex_nth, H. Qed.

Lemma rindex_some : forall l s, In s l -> exists i, rindex l s = Some i.
Proof.
  intros l s H. destruct (rindex l s) as [i|] eqn:E; [eauto|].
  apply rindex_none in E. contradiction.
Qed.

Lemma absent_true : forall l s, absent l s = true <-> ~ In s l.
Proof.
  intros l s. unfold absent. destruct (rindex l s) as [i|] eqn:E.
  - split; [discriminate|]. intro H. exfalso. apply H. eapply rindex_in, E.
  - split; [|reflexivity]. intros _. apply rindex_none, E.
Qed.

Lemma absent_false : forall l s, absent l s = false <-> In s l.
Proof.
  intros l s. destruct (absent l s) eqn:E.
  - split; [discriminate|]. intro H. apply absent_true in E. contradiction.
  - split; [|reflexivity]. intros _. destruct (in_dec string_dec s l) as [H|H]; [exact H|].
    apply absent_true in H. congruence.
Qed.

(* ------------------------------------------------------------------ update / insert_at *)
Lemma update_length : forall A (l : list A) i f, length (update l i f) = length l.
Proof. induction l as [|x l IH]; intros [|i] f; cbn; auto. Qed.

Lemma map_update_same : forall A B (g : A -> B) (f : A -> A) (l : list A) i,
  (forall x, g (f x) = g x) -> map g (update l i f) = map g l.
Proof.
  intros A B g f l. induction l as [|x l IH]; intros [|i] H; cbn; auto.
  - now rewrite H.
  - now rewrite IH.
Qed.

Lemma nth_error_update_eq : forall A (l : list A) i f x,
  nth_error l i = Some x -> nth_error (update l i f) i = Some (f x).
Proof. induction l as [|y l IH]; intros [|i] f x; cbn; try discriminate; [now intros [= ->]|apply IH]. Qed.

Lemma nth_error_update_neq : forall A (l : list A) i j f,
  i <> j -> nth_error (update l i f) j = nth_error l j.
Proof.
  induction l as [|y l IH]; intros [|i] [|j] f H; cbn; auto; try congruence.
  all: try (apply IH; congruence).
Qed.

Lemma insert_at_perm : forall l i x, Permutation (insert_at l i x) (x :: l).
Proof.
  intros l i x. unfold insert_at. rewrite <- (firstn_skipn i l) at 3.
  symmetry. apply Permutation_middle.
Qed.

Lemma in_insert_at : forall l i x y, In y (insert_at l i x) <-> y = x \/ In y l.
Proof.
  intros l i x y. split; intro H.
  - apply (Permutation_in _ (insert_at_perm l i x)) in H. destruct H; auto.
  - apply (Permutation_in _ (Permutation_sym (insert_at_perm l i x))). destruct H; [left|right]; auto.
Qed.

Lemma nodup_insert_at : forall l i x, NoDup l -> ~ In x l -> NoDup (insert_at l i x).
Proof.
  intros l i x Hn Hx. apply (Permutation_NoDup (Permutation_sym (insert_at_perm l i x))).
  constructor; assumption.
Qed.

Lemma nodup_snoc : forall (l : list string) x, NoDup l -> ~ In x l -> NoDup (l ++ [x]).
Proof.
  intros l x Hn Hx. apply (Permutation_NoDup (l := x :: l)).
  - apply Permutation_cons_append.
  - constructor; assumption.
Qed.

(* ------------------------------------------------------------------ the pre-sort is a permutation *)
Lemma ins_perm : forall x rp, Permutation (ins x rp) (x :: rp).
Proof.
  intros x rp. induction rp as [|y r IH]; cbn; [reflexivity|].
  destruct (less_cb x y); [|reflexivity].
  rewrite IH. apply perm_swap.
Qed.

Lemma fold_ins_perm : forall cs acc,
  Permutation (fold_left (fun rp x => ins x rp) cs acc) (cs ++ acc).
Proof.
  induction cs as [|x cs IH]; intro acc; cbn; [reflexivity|].
  rewrite IH. rewrite ins_perm. symmetry. apply Permutation_middle.
Qed.

Lemma presort_perm : forall cs, Permutation (presort cs) cs.
Proof.
  intro cs. unfold presort. rewrite <- Permutation_rev.
  rewrite fold_ins_perm. now rewrite app_nil_r.
Qed.

(* ------------------------------------------------------------------ what sortCallback never touches *)
(* everything of a callback except before/after *)
Definition key (c : cb) : string * bool * bool * bool * N :=
  (cb_name c, cb_remove c, cb_replace c, cb_matched c, cb_hid c).
Definition kname (k : string * bool * bool * bool * N) : string := fst (fst (fst (fst k))).

Lemma key_name : forall c, kname (key c) = cb_name c.
Proof. reflexivity. Qed.
Lemma keys_names : forall cs, map kname (map key cs) = map cb_name cs.
Proof. intro cs. rewrite map_map. reflexivity. Qed.

(* invariant of the closure: keys fixed, [names] are the names, sorted has no duplicate, sorted ⊆ names *)
Record inv (ks : list (string * bool * bool * bool * N)) (names : list string) (st : sst) : Prop := {
  inv_keys : map key (s_cs st) = ks;
  inv_names : names = map kname ks;
  inv_nodup : NoDup (s_sorted st);
  inv_incl : incl (s_sorted st) names
}.

Lemma inv_nth_name : forall ks names st i c,
  inv ks names st -> nth_error (s_cs st) i = Some c -> nth_error names i = Some (cb_name c).
Proof.
  intros ks names st i c [Hk Hn _ _] H. subst names. rewrite <- Hk, keys_names.
  rewrite nth_error_map, H. reflexivity.
Qed.

Lemma inv_name_in : forall ks names st i c,
  inv ks names st -> nth_error (s_cs st) i = Some c -> In (cb_name c) names.
Proof. intros. eapply nth_error_In, inv_nth_name; eauto. Qed.

(* results of the two halves, stated once *)
Definition grows (st st' : sst) : Prop := incl (s_sorted st) (s_sorted st').

Lemma do_before_inv : forall ks names st c st',
  inv ks names st -> In (cb_name c) names ->
  do_before names st c = Done st' -> inv ks names st' /\ grows st st'.
Proof.
  intros ks names st c st' I Hin. unfold do_before.
  destruct I as [Hk Hn Hd Hi].
  destruct (is_none (cb_before c)); [intros [= <-]; split; [constructor; auto|red; auto with datatypes]|].
  destruct (is_star (cb_before c) && nonempty (s_sorted st)).
  { destruct (absent (s_sorted st) (cb_name c)) eqn:Ea; intros [= <-].
    - apply absent_true in Ea. split.
      + constructor; cbn; auto. * constructor; auto. * intros y [<-|Hy]; auto.
      + red. cbn. auto with datatypes.
    - split; [constructor; auto|red; auto with datatypes]. }
  destruct (rindex (s_sorted st) (cb_before c)) as [sidx|].
  { destruct (rindex (s_sorted st) (cb_name c)) as [cidx|] eqn:Ec.
    - destruct (Nat.ltb sidx cidx); [discriminate|]. intros [= <-].
      split; [constructor; auto|red; auto with datatypes].
    - intros [= <-]. apply rindex_none in Ec. split.
      + constructor; cbn; auto.
        * apply nodup_insert_at; auto.
        * intros y Hy. apply in_insert_at in Hy. destruct Hy as [->|Hy]; auto.
      + red. cbn. intros y Hy. apply in_insert_at. auto. }
  destruct (rindex names (cb_before c)) as [idx|]; intros [= <-].
  - split; [|red; cbn; auto with datatypes]. constructor; cbn; auto.
    rewrite map_update_same; auto.
  - split; [constructor; auto|red; auto with datatypes].
Qed.

Lemma do_before_conflict : forall ks names st c st' n t,
  inv ks names st -> do_before names st c = Conflict st' n t -> st' = st.
Proof.
  intros ks names st c st' n t _. unfold do_before.
  destruct (is_none (cb_before c)); [discriminate|].
  destruct (is_star (cb_before c) && nonempty (s_sorted st)).
  { destruct (absent (s_sorted st) (cb_name c)); discriminate. }
  destruct (rindex (s_sorted st) (cb_before c)) as [sidx|].
  { destruct (rindex (s_sorted st) (cb_name c)) as [cidx|]; [|discriminate].
    destruct (Nat.ltb sidx cidx); [|discriminate]. now intros [= <- _ _]. }
  destruct (rindex names (cb_before c)); discriminate.
Qed.

Lemma do_before_fuel : forall names st c st' n, do_before names st c <> Cyclic st' n.
Proof.
  intros names st c st' n. unfold do_before.
  destruct (is_none (cb_before c)); [discriminate|].
  destruct (is_star (cb_before c) && nonempty (s_sorted st)).
  { destruct (absent (s_sorted st) (cb_name c)); discriminate. }
  destruct (rindex (s_sorted st) (cb_before c)) as [sidx|].
  { destruct (rindex (s_sorted st) (cb_name c)) as [cidx|]; [|discriminate].
    destruct (Nat.ltb sidx cidx); discriminate. }
  destruct (rindex names (cb_before c)); discriminate.
Qed.

Lemma do_after_inv : forall ks names st c,
  inv ks names st -> In (cb_name c) names ->
  match do_after names st c with
  | ADone (Done st') => inv ks names st' /\ grows st st'
  | ADone (Conflict st' _ _) => st' = st
  | ADone (Cyclic _ _) => False
  | ARec idx st2 => inv ks names st2 /\ s_sorted st2 = s_sorted st
                    /\ rindex names (cb_after c) = Some idx
  end.
Proof.
  intros ks names st c I Hin. unfold do_after.
  destruct I as [Hk Hn Hd Hi].
  assert (I0 : inv ks names st) by (constructor; auto).
  assert (G0 : grows st st) by (red; auto with datatypes).
  destruct (is_none (cb_after c)); [split; assumption|].
  destruct (is_star (cb_after c) && nonempty (s_sorted st)).
  { destruct (absent (s_sorted st) (cb_name c)) eqn:Ea; [|split; assumption].
    apply absent_true in Ea. split.
    - constructor; cbn; auto. + apply nodup_snoc; auto.
      + intros y Hy. apply in_app_iff in Hy. destruct Hy as [Hy|[<-|[]]]; auto.
    - red; cbn; auto with datatypes. }
  destruct (rindex (s_sorted st) (cb_after c)) as [sidx|].
  { destruct (rindex (s_sorted st) (cb_name c)) as [cidx|] eqn:Ec.
    - destruct (Nat.ltb cidx sidx); [reflexivity|split; assumption].
    - apply rindex_none in Ec. split.
      + constructor; cbn; auto. * apply nodup_snoc; auto.
        * intros y Hy. apply in_app_iff in Hy. destruct Hy as [Hy|[<-|[]]]; auto.
      + red; cbn; auto with datatypes. }
  destruct (rindex names (cb_after c)) as [idx|] eqn:Er; [|split; assumption].
  split; [|split; reflexivity].
  constructor; cbn; auto.
  destruct (nth_error (s_cs st) idx) as [a|]; auto.
  destruct (is_none (cb_before a)); auto.
  rewrite map_update_same; auto.
Qed.

Lemma finish_inv : forall ks names st n,
  inv ks names st -> In n names ->
  inv ks names (finish st n) /\ grows st (finish st n) /\ In n (s_sorted (finish st n)).
Proof.
  intros ks names st n [Hk Hn Hd Hi] Hin. unfold finish.
  destruct (absent (s_sorted st) n) eqn:Ea.
  - apply absent_true in Ea. repeat split; cbn; auto.
    + apply nodup_snoc; auto.
    + intros y Hy. apply in_app_iff in Hy. destruct Hy as [Hy|[<-|[]]]; auto.
    + red; cbn; auto with datatypes.
    + apply in_app_iff. right. left. reflexivity.
  - apply absent_false in Ea. repeat split; auto. red; auto with datatypes.
Qed.

Lemma finish_cs : forall st n, s_cs (finish st n) = s_cs st.
Proof. intros st n. unfold finish. destruct (absent (s_sorted st) n); reflexivity. Qed.

(* the closure itself *)
Lemma sort_cb_inv : forall fuel ks names st i,
  inv ks names st ->
  match sort_cb fuel names st i with
  | Done st' => inv ks names st' /\ grows st st'
                /\ (forall c, nth_error (s_cs st) i = Some c -> In (cb_name c) (s_sorted st'))
  | Conflict st' _ _ => inv ks names st'
  | Cyclic st' _ => inv ks names st'
  end.
Proof.
  induction fuel as [|f IH]; intros ks names st i I; cbn [sort_cb].
  { destruct (nth_error (s_cs st) i) as [c|]; [exact I|].
    split; [exact I|]. split; [red; auto with datatypes|]. intros c0 H. discriminate. }
  destruct (nth_error (s_cs st) i) as [c|] eqn:Ec.
  2:{ split; [exact I|]. split; [red; auto with datatypes|]. intros c0 H. discriminate. }
  assert (Hin : In (cb_name c) names) by (eapply inv_name_in; eauto).
  destruct (do_before names st c) as [st1|st1 n t|st1 n] eqn:Eb.
  3:{ exfalso. eapply do_before_fuel; eauto. }
  2:{ apply (do_before_conflict ks) in Eb; auto. subst st1. exact I. }
  destruct (do_before_inv _ _ _ _ _ I Hin Eb) as [I1' G1].
  destruct (nth_error (s_cs st1) i) as [c1|] eqn:Ec1.
  2:{ (* impossible: the slice keeps its length *)
      exfalso. apply nth_error_None in Ec1.
      assert (L : length (s_cs st1) = length (s_cs st)).
      { rewrite <- (map_length key (s_cs st1)), <- (map_length key (s_cs st)).
        now rewrite (inv_keys _ _ _ I1'), (inv_keys _ _ _ I). }
      assert (i < length (s_cs st)) by (apply nth_error_Some; congruence). lia. }
  assert (Hn1 : cb_name c1 = cb_name c).
  { pose proof (inv_nth_name _ _ _ _ _ I Ec) as A. pose proof (inv_nth_name _ _ _ _ _ I1' Ec1) as B. congruence. }
  assert (Hin1 : In (cb_name c1) names) by (rewrite Hn1; exact Hin).
  pose proof (do_after_inv ks names st1 c1 I1' Hin1) as HA.
  destruct (do_after names st1 c1) as [[st4|st4 n t|st4 n]|idx st2] eqn:Ea.
  - destruct HA as [I4 G4].
    destruct (finish_inv ks names st4 (cb_name c) I4 Hin) as (I5 & G5 & H5).
    split; [exact I5|]. split.
    + red in G1, G4, G5 |- *. eapply incl_tran; [exact G1|]. eapply incl_tran; [exact G4|exact G5].
    + intros c0 [= <-]. exact H5.
  - subst st4. exact I1'.
  - destruct HA.
  - destruct HA as (I2 & S2 & _).
    pose proof (IH ks names st2 idx I2) as H3.
    destruct (sort_cb f names st2 idx) as [st3|st3 n t|st3 n]; [|exact H3|exact H3].
    destruct H3 as (I3 & G3 & _).
    pose proof (IH ks names st3 i I3) as H4.
    destruct (sort_cb f names st3 i) as [st4|st4 n t|st4 n]; [|exact H4|exact H4].
    destruct H4 as (I4 & G4 & _).
    destruct (finish_inv ks names st4 (cb_name c) I4 Hin) as (I5 & G5 & H5).
    split; [exact I5|]. split.
    + red in G1, G3, G4, G5 |- *. rewrite S2 in G3.
      eapply incl_tran; [exact G1|]. eapply incl_tran; [exact G3|]. eapply incl_tran; [exact G4|exact G5].
    + intros c0 [= <-]. exact H5.
Qed.

(* ------------------------------------------------------------------ the loop over cs *)
Lemma inv_nth_inv : forall ks names st i s,
  inv ks names st -> nth_error names i = Some s ->
  exists c, nth_error (s_cs st) i = Some c /\ cb_name c = s.
Proof.
  intros ks names st i s [Hk Hn _ _] H. subst names. rewrite <- Hk, keys_names, nth_error_map in H.
  destruct (nth_error (s_cs st) i) as [c|]; [|discriminate]. cbn in H. injection H as <-. eauto.
Qed.

Lemma sort_loop_inv : forall n fuel ks names st i,
  inv ks names st ->
  match sort_loop fuel names st i n with
  | Done st' => inv ks names st' /\ grows st st'
                /\ (forall j s, i <= j < i + n -> nth_error names j = Some s -> In s (s_sorted st'))
  | Conflict st' _ _ => inv ks names st'
  | Cyclic st' _ => inv ks names st'
  end.
Proof.
  induction n as [|m IH]; intros fuel ks names st i I; cbn [sort_loop].
  - split; [exact I|]. split; [red; auto with datatypes|]. intros j s Hj. lia.
  - pose proof (sort_cb_inv fuel ks names st i I) as H1.
    destruct (sort_cb fuel names st i) as [st1|st1 n t|st1 n]; [|exact H1|exact H1].
    destruct H1 as (I1 & G1 & C1).
    pose proof (IH fuel ks names st1 (S i) I1) as H2.
    destruct (sort_loop fuel names st1 (S i) m) as [st2|st2 n t|st2 n]; [|exact H2|exact H2].
    destruct H2 as (I2 & G2 & C2).
    split; [exact I2|]. split; [red in G1, G2 |- *; eapply incl_tran; eassumption|].
    intros j s Hj Hs. destruct (Nat.eq_dec j i) as [->|Hne].
    + destruct (inv_nth_inv _ _ _ _ _ I Hs) as (c & Hc & <-). apply G2. apply C1, Hc.
    + apply (C2 j s); [lia|exact Hs].
Qed.

(* ------------------------------------------------------------------ the final pick *)
Lemma pick_fst : forall cs names sorted,
  names = map cb_name cs -> incl sorted names -> (forall c, In c cs -> cb_remove c = false) ->
  map fst (pick cs names sorted) = sorted.
Proof.
  intros cs names sorted Hn. induction sorted as [|n r IH]; intros Hi Hr; cbn; [reflexivity|].
  assert (Hin : In n names) by (apply Hi; left; reflexivity).
  destruct (rindex_some _ _ Hin) as [idx E]. rewrite E.
  pose proof (rindex_nth _ _ _ E) as Hnth. rewrite Hn, nth_error_map in Hnth.
  destruct (nth_error cs idx) as [c|] eqn:Ec; [|discriminate].
  rewrite (Hr c (nth_error_In _ _ Ec)). cbn. f_equal. apply IH; auto.
  intros y Hy. apply Hi. right. exact Hy.
Qed.

Lemma pick_in : forall cs names sorted n h,
  In (n, h) (pick cs names sorted) ->
  In n sorted /\ exists idx c, rindex names n = Some idx /\ nth_error cs idx = Some c /\ cb_hid c = h.
Proof.
  intros cs names sorted n h. induction sorted as [|m r IH]; cbn; [intros []|].
  destruct (rindex names m) as [idx|] eqn:E.
  2:{ intro H. destruct (IH H) as [A B]. split; auto. }
  destruct (nth_error cs idx) as [c|] eqn:Ec.
  2:{ intro H. destruct (IH H) as [A B]. split; auto. }
  destruct (cb_remove c).
  { intro H. destruct (IH H) as [A B]. split; auto. }
  intros [H|H].
  - injection H as -> <-. split; [left; reflexivity|]. exists idx, c. auto.
  - destruct (IH H) as [A B]. split; auto.
Qed.

(* ------------------------------------------------------------------ one compile *)
Lemma inv_init : forall cs, inv (map key cs) (map cb_name cs) (mk_sst cs []).
Proof.
  intro cs. constructor; cbn; auto.
  - symmetry. apply keys_names.
  - constructor.
  - intros x [].
Qed.

Lemma keys_remove : forall cs cs',
  map key cs = map key cs' -> (forall c, In c cs' -> cb_remove c = false) ->
  forall c, In c cs -> cb_remove c = false.
Proof.
  intros cs cs' Hk Hr c Hc.
  apply (in_map key) in Hc. rewrite Hk in Hc. apply in_map_iff in Hc.
  destruct Hc as (c' & Hkey & Hc'). specialize (Hr c' Hc').
  unfold key in Hkey. injection Hkey as _ H _ _ _. congruence.
Qed.

Theorem sort_callbacks_once : forall cs0 cs fns,
  sort_callbacks cs0 = SOk cs fns ->
  (forall c, In c cs0 -> cb_remove c = false) ->
  map key cs = map key (presort cs0)
  /\ NoDup (map fst fns)
  /\ (forall n, In n (map fst fns) <-> In n (map cb_name cs0)).
Proof.
  intros cs0 cs fns H Hr. unfold sort_callbacks in H.
  set (ps := presort cs0) in *.
  pose proof (sort_loop_inv (length ps) (depth_fuel ps) _ _ _ O (inv_init ps)) as L.
  destruct (sort_loop (depth_fuel ps) (map cb_name ps) (mk_sst ps []) 0 (length ps)) as [st|st n t|st n];
    [|discriminate|discriminate].
  injection H as <- <-. destruct L as (I & _ & C).
  assert (Hrem : forall c, In c (s_cs st) -> cb_remove c = false).
  { apply (keys_remove _ ps); [apply (inv_keys _ _ _ I)|].
    intros c Hc. apply Hr. apply (Permutation_in _ (presort_perm cs0)). exact Hc. }
  assert (Hnames : map cb_name ps = map cb_name (s_cs st)).
  { rewrite <- !keys_names. now rewrite (inv_keys _ _ _ I). }
  rewrite (pick_fst (s_cs st) (map cb_name ps) (s_sorted st) Hnames (inv_incl _ _ _ I) Hrem).
  split; [apply (inv_keys _ _ _ I)|]. split; [apply (inv_nodup _ _ _ I)|].
  intro n. split; intro Hn.
  - apply (inv_incl _ _ _ I) in Hn.
    apply (Permutation_in _ (Permutation_map cb_name (presort_perm cs0))). exact Hn.
  - assert (Hn' : In n (map cb_name ps)).
    { apply (Permutation_in _ (Permutation_sym (Permutation_map cb_name (presort_perm cs0)))). exact Hn. }
    destruct (In_nth_error _ _ Hn') as [j Hj].
    apply (C j n); [|exact Hj].
    split; [lia|]. cbn. rewrite <- (map_length cb_name ps). apply nth_error_Some. congruence.
Qed.

Lemma sort_callbacks_err_keys : forall cs0 cs n t,
  sort_callbacks cs0 = SErr cs n t -> map key cs = map key (presort cs0).
Proof.
  intros cs0 cs n t H. unfold sort_callbacks in H.
  set (ps := presort cs0) in *.
  pose proof (sort_loop_inv (length ps) (depth_fuel ps) _ _ _ O (inv_init ps)) as L.
  destruct (sort_loop (depth_fuel ps) (map cb_name ps) (mk_sst ps []) 0 (length ps)) as [st|st n' t'|st n'];
    [discriminate| |discriminate].
  injection H as <- _ _. apply (inv_keys _ _ _ L).
Qed.

Lemma sort_callbacks_cyc_keys : forall cs0 cs n,
  sort_callbacks cs0 = SCyc cs n -> map key cs = map key (presort cs0).
Proof.
  intros cs0 cs n H. unfold sort_callbacks in H.
  set (ps := presort cs0) in *.
  pose proof (sort_loop_inv (length ps) (depth_fuel ps) _ _ _ O (inv_init ps)) as L.
  destruct (sort_loop (depth_fuel ps) (map cb_name ps) (mk_sst ps []) 0 (length ps)) as [st|st n' t'|st n'];
    [discriminate|discriminate|].
  injection H as <- _. apply (inv_keys _ _ _ L).
Qed.
