(* C13_Proofs4.v — the hook log and the error of [run], for every operation. *)
From Verif Require Import Base C13_Model C13_Proofs C13_Proofs2 C13_Proofs3.
Open Scope Z_scope.

(* ---------------------------------------------------------------- schedules cut at a failure *)
Fixpoint cut (ps : list (list hev)) (k : Z) (F : list Z) : nat :=
  match ps with
  | [] => O
  | p :: r => Datatypes.S (if no_fail k (k + len p) F then cut r (k + len p) F else O)
  end.

Lemma sched_log_cut : forall ps k F, sched_log ps k F = concat (firstn (cut ps k F) ps).
Proof.
  induction ps as [|p r IH]; intros k F; [reflexivity|].
  cbn [sched_log cut firstn concat]. f_equal.
  destruct (no_fail k (k + len p) F); [apply IH | reflexivity].
Qed.

Lemma sched_log_nofail : forall ps k F, no_fail k (k + len (concat ps)) F = true -> sched_log ps k F = concat ps.
Proof.
  induction ps as [|p r IH]; intros k F H; [reflexivity|].
  cbn [sched_log concat] in *. rewrite len_app in H.
  rewrite (no_fail_split k (k + len p)) in H; try (pose proof (len_nonneg p); pose proof (len_nonneg (concat r)); lia).
  apply andb_prop in H. destruct H as [H1 H2]. rewrite H1. f_equal. apply IH.
  rewrite <- Z.add_assoc. exact H2.
Qed.

(* ---------------------------------------------------------------- the domain of the theorems *)
Definition save_is_create (o : op) : bool :=
  match sh_cont (o_shape o), o_recs o with
  | CStruct, r :: _ => m_id r =? 0
  | _, _ => true
  end.

Definition uniform_all (o : op) : Prop :=
  forall p, uniform_phase (o_shape o) (o_ty o) (fc_hooks p).

Definition op_ok (o : op) : Prop :=
  uniform_all o /\
  match o_kind o with
  | OFind | OFirst => query_shape_ok (o_shape o) /\ x_preload (o_x o) = false
  | OCreateInBatches _ => False      (* CreateInBatches: tied by the correspondence and the spec half only *)
  | _ => goodk (o_shape o) (rkeys (o_recs o))
         /\ (assocs_ok (op_cx o (o_skip o) DSelf) (o_assocs o) /\ x_delassoc (o_x o) = 0)
  end.

Definition op_sched (o : op) : list (list hev) :=
  let tags := map m_tag (o_recs o) in
  let a := o_assocs o in
  match o_kind o with
  | OCreate => cu_sched (op_cx o (o_skip o) DSelf) PBeforeCreate PAfterCreate tags a
  | OSave => if save_is_create o
             then cu_sched (op_cx o (o_skip o) DSelf) PBeforeCreate PAfterCreate tags a
             else cu_sched (op_cx o (o_skip o) DSelf) PBeforeUpdate PAfterUpdate tags a
  | OUpdate => cu_sched (op_cx o (o_skip o) (upd_dest o)) PBeforeUpdate PAfterUpdate tags a
  | OUpdateColumn => cu_sched (op_cx o true (upd_dest o)) PBeforeUpdate PAfterUpdate tags a
  | ODelete => del_sched (op_cx o (o_skip o) DSelf) tags
  | OFind | OFirst => [ph (op_cx o (o_skip o) DSelf) PAfterFind (loaded (op_cx o (o_skip o) DSelf) (o_limit o) (o_seed o))]
  | OCreateInBatches _ => []
  end.

(* each applicable hook once per record, phase by phase in the documented order *)
Definition expected_log (o : op) : list hev := concat (op_sched o).

(* ---------------------------------------------------------------- init / finish *)
Lemma init_facts : forall o,
  s_k (init_state o) = 0 /\ s_err (init_state o) = [] /\ hooks_of (s_tr (init_state o)) = []
  /\ keys (init_state o) = rkeys (o_recs o) /\ s_tbl (init_state o) = o_seed o.
Proof. intro o. unfold init_state. destruct (o_txmode o); cbn; repeat split; reflexivity. Qed.

Lemma finish_facts : forall o s,
  hooks_of (s_tr (finish o s)) = hooks_of (s_tr s) /\ s_err (finish o s) = s_err s /\ s_k (finish o s) = s_k s.
Proof.
  intros o s. unfold finish. destruct (o_txmode o); try (repeat split; reflexivity).
  destruct (is_nil (s_err s)); cbn; rewrite hooks_of_app; cbn; rewrite app_nil_r; repeat split; reflexivity.
Qed.

Lemma assocs_ok_shape : forall c c' a, c_shape c = c_shape c' -> assocs_ok c a -> assocs_ok c' a.
Proof. intros c c' a E H. unfold assocs_ok, is_struct in *. rewrite <- E. exact H. Qed.

Lemma tags_rkeys : forall l, map fst (rkeys l) = map m_tag l.
Proof. intro l. unfold rkeys. rewrite map_map. reflexivity. Qed.

(* with SkipHooks every phase of a schedule is empty *)
Lemma ph_skip : forall c p tags, c_skip c = true -> ph c p tags = [].
Proof. intros c p tags H. unfold ph. rewrite H. reflexivity. Qed.

Lemma cu_sched_skip : forall c pb pa tags a, c_skip c = true -> Forall (fun p => p = []) (cu_sched c pb pa tags a).
Proof.
  intros c pb pa tags a H. unfold cu_sched, before_sched, after_sched, assoc_sched, leaf_sched.
  assert (X : forall t tb sg p tg, ph (assoc_cx c t tb sg) p tg = []) by (intros; apply ph_skip; exact H).
  cbn [app]. repeat constructor; rewrite ?X; try reflexivity; apply ph_skip; exact H.
Qed.

(* ---------------------------------------------------------------- the body of every write operation is a scheduled step *)
Definition is_query (o : op) : bool := match o_kind o with OFind | OFirst => true | _ => false end.

Lemma goodk_not_by_value : forall o ks, goodk (o_shape o) ks -> by_value_struct o = false.
Proof.
  intros o ks (W & _). unfold by_value_struct, wf_shape in *.
  destruct (sh_cont (o_shape o)); try reflexivity. rewrite W. reflexivity.
Qed.

Lemma run_body_step : forall o s, op_ok o -> is_query o = false -> keys s = rkeys (o_recs o) ->
  hstep (o_fails o) s (run_body o s) (gated s (sched_log (op_sched o) (s_k s) (o_fails o))).
Proof.
  intros o s (U & OK) NQ K. unfold is_query in NQ. unfold run_body, op_sched.
  assert (TG : map fst (keys s) = map m_tag (o_recs o)) by (rewrite K; apply tags_rkeys).
  destruct (o_kind o) eqn:KD; try discriminate; try contradiction; destruct OK as (G & AO & XD); rewrite <- K in G.
  - (* Create *)
    rewrite (goodk_not_by_value o _ G).
    rewrite create_pipeline_eq, <- TG.
    apply (cu_body_step (op_cx o (o_skip o) DSelf)); try assumption; try apply U.
    intros s0 G0. apply stmt_create_step. exact G0.
  - (* Save *)
    assert (CR : forall s0, keys s0 = keys s ->
              hstep (o_fails o) s0 (run_pipeline (op_cx o (o_skip o) DSelf) (o_assocs o) no_q create_pipeline s0)
                (gated s0 (sched_log (cu_sched (op_cx o (o_skip o) DSelf) PBeforeCreate PAfterCreate (map m_tag (o_recs o)) (o_assocs o)) (s_k s0) (o_fails o)))).
    { intros s0 K0. rewrite create_pipeline_eq, <- TG, <- K0.
      apply (cu_body_step (op_cx o (o_skip o) DSelf)); try assumption; try apply U; try (rewrite K0; exact G).
      intros s1 G1. apply stmt_create_step. exact G1. }
    unfold save_is_create. destruct (sh_cont (o_shape o)) eqn:C; try (apply CR; reflexivity).
    unfold run_save_struct.
    destruct (o_recs o) as [|r rs] eqn:R.
    { exfalso. destruct G as (_ & _ & _ & NE & _). apply NE. rewrite K. reflexivity. }
    destruct (m_id r =? 0); [apply CR; reflexivity|].
    set (cU := op_cx o (o_skip o) DSelf).
    set (s1 := run_pipeline cU (o_assocs o) no_q update_pipeline s).
    assert (UP : hstep (o_fails o) s s1
              (gated s (sched_log (cu_sched cU PBeforeUpdate PAfterUpdate (map m_tag (r :: rs)) (o_assocs o)) (s_k s) (o_fails o)))).
    { subst s1. rewrite update_pipeline_eq, <- TG.
      apply (cu_body_step cU); try assumption; try apply U.
      intros s0 G0. apply stmt_update_step. exact G0. }
    destruct (is_nil (s_err s1) && negb (has_row TRecs (m_tag r) (s_tbl s))); [|exact UP].
    rewrite (goodk_not_by_value o _ G).
    (* the upsert fallback runs with SkipHooks *)
    set (cF := op_cx o true DSelf).
    assert (K1 : keys s1 = keys s) by (destruct UP; assumption).
    assert (FB : hstep (o_fails o) s1 (run_pipeline cF (o_assocs o) no_q create_pipeline s1)
              (gated s1 (sched_log (cu_sched cF PBeforeCreate PAfterCreate (map fst (keys s1)) (o_assocs o)) (s_k s1) (o_fails o)))).
    { rewrite create_pipeline_eq. apply (cu_body_step cF); try apply U.
      - intros s0 G0. apply stmt_create_step. exact G0.
      - rewrite K1. exact G.
      - eapply assocs_ok_shape; [|exact AO]. reflexivity. }
    rewrite (sched_log_nils (cu_sched cF _ _ _ _)) in FB by (apply cu_sched_skip; reflexivity).
    eapply hstep_seq_quiet_r; [exact UP|].
    unfold gated in FB. destruct (is_nil (s_err s1)); exact FB.
  - (* Update *)
    rewrite update_pipeline_eq, <- TG.
    apply (cu_body_step (op_cx o (o_skip o) (upd_dest o))); try assumption; try apply U.
    intros s0 G0. apply stmt_update_step. exact G0.
  - (* UpdateColumn *)
    rewrite update_pipeline_eq, <- TG.
    apply (cu_body_step (op_cx o true (upd_dest o))); try assumption; try apply U.
    intros s0 G0. apply stmt_update_step. exact G0.
  - (* Delete *)
    rewrite <- TG. apply (delete_pipeline_step (op_cx o (o_skip o) DSelf)); try assumption; try apply U.
Qed.

(* ---------------------------------------------------------------- the theorems about [run] *)
Theorem run_log : forall o, op_ok o ->
  hooks_of (s_tr (run o)) = sched_log (op_sched o) 0 (o_fails o).
Proof.
  intros o OK. unfold run.
  destruct (finish_facts o (run_body o (init_state o))) as (FH & _ & _). rewrite FH.
  destruct (init_facts o) as (K0 & E0 & H0 & KS & TB).
  destruct (is_query o) eqn:Q.
  - (* queries *)
    destruct OK as (U & OK). unfold is_query in Q. unfold run_body, op_sched.
    destruct (o_kind o) eqn:KD; try discriminate.
    + destruct OK as (OK & XP).
      destruct (query_pipeline_hooks (op_cx o (o_skip o) DSelf) (o_assocs o) false (o_limit o) (set_recs [] (init_state o)) XP OK (U PAfterFind) E0) as (H & _ & _).
      rewrite H. cbn [s_tr set_recs s_tbl]. rewrite H0, TB, sched_log_single. reflexivity.
    + destruct OK as (OK & XP).
      destruct (query_pipeline_hooks (op_cx o (o_skip o) DSelf) (o_assocs o) true (o_limit o) (set_recs [] (init_state o)) XP OK (U PAfterFind) E0) as (H & _ & _).
      rewrite H. cbn [s_tr set_recs s_tbl]. rewrite H0, TB, sched_log_single. reflexivity.
  - destruct (run_body_step o (init_state o) OK Q KS) as [_ H _ _].
    rewrite H, H0. unfold gated. rewrite E0, K0. reflexivity.
Qed.

(* no failing invocation: exactly the expected log *)
Theorem run_log_nofail : forall o, op_ok o ->
  no_fail 0 (len (expected_log o)) (o_fails o) = true ->
  hooks_of (s_tr (run o)) = expected_log o.
Proof.
  intros o OK NF. rewrite run_log by exact OK. apply sched_log_nofail. exact NF.
Qed.

(* a failure: the phases up to and including the failing one, complete; nothing of a later phase *)
Theorem run_log_cut : forall o, op_ok o ->
  hooks_of (s_tr (run o)) = concat (firstn (cut (op_sched o) 0 (o_fails o)) (op_sched o)).
Proof. intros o OK. rewrite run_log by exact OK. apply sched_log_cut. Qed.

(* the error is returned exactly when an invocation that happened was told to fail *)
Theorem run_error : forall o, op_ok o -> is_query o = false ->
  is_nil (s_err (run o)) = no_fail 0 (len (hooks_of (s_tr (run o)))) (o_fails o).
Proof.
  intros o OK Q. unfold run.
  destruct (finish_facts o (run_body o (init_state o))) as (FH & FE & _). rewrite FH, FE.
  destruct (init_facts o) as (K0 & E0 & H0 & KS & TB).
  destruct (run_body_step o (init_state o) OK Q KS) as [_ H K E].
  rewrite K0, E0, H0 in *. rewrite E, K, H. cbn [is_nil andb app]. rewrite Z.add_0_l. reflexivity.
Qed.

(* ---------------------------------------------------------------- SkipHooks / UpdateColumn(s): no hook at all, for EVERY operation *)
Lemma fc_skipless : True. Proof. exact I. Qed.

Lemma stmt_create_hooks : forall c s, hooks_of (s_tr (stmt_create c s)) = hooks_of (s_tr s).
Proof.
  intros c s. unfold stmt_create. destruct (negb (is_nil (s_err s))); [reflexivity|].
  destruct (s_recs s); [reflexivity|]. destruct (existsb m_nil (m :: l)); [reflexivity|].
  cbn. rewrite hooks_of_app. cbn. apply app_nil_r.
Qed.
Lemma stmt_update_hooks : forall c s, hooks_of (s_tr (stmt_update c s)) = hooks_of (s_tr s).
Proof.
  intros c s. unfold stmt_update. destruct (negb (is_nil (s_err s))); [reflexivity|].
  destruct (s_recs s); [reflexivity|]. cbn. rewrite hooks_of_app. cbn. apply app_nil_r.
Qed.
Lemma stmt_delete_hooks : forall c s, hooks_of (s_tr (stmt_delete c s)) = hooks_of (s_tr s).
Proof.
  intros c s. unfold stmt_delete. destruct (negb (is_nil (s_err s))); [reflexivity|].
  destruct (s_recs s); [reflexivity|]. cbn. rewrite hooks_of_app. cbn. apply app_nil_r.
Qed.
Lemma stmt_query_hooks : forall c f l s, hooks_of (s_tr (stmt_query c f l s)) = hooks_of (s_tr s).
Proof.
  intros c f l s. unfold stmt_query. destruct (negb (is_nil (s_err s))); [reflexivity|].
  match goal with |- context [if ?b then _ else _] => destruct b end;
    cbn; rewrite hooks_of_app; cbn; apply app_nil_r.
Qed.
Lemma begin_tx_hooks : forall c s, hooks_of (s_tr (begin_tx c s)) = hooks_of (s_tr s).
Proof. intros c s. destruct (begin_tx_step [] c s) as [_ H _ _]. rewrite H. apply app_nil_r. Qed.
Lemma commit_hooks : forall c s, hooks_of (s_tr (commit_or_rollback c s)) = hooks_of (s_tr s).
Proof. intros c s. destruct (commit_step [] c s) as [_ H _ _]. rewrite H. apply app_nil_r. Qed.

Lemma save_assoc_skip_hooks : forall c t tb sg vals s, c_skip c = true ->
  hooks_of (s_tr (save_assoc c t tb sg vals s)) = hooks_of (s_tr s).
Proof.
  intros c t tb sg vals s H. unfold save_assoc. destruct vals as [|v vr]; [reflexivity|].
  cbn [s_tr]. unfold leaf_create.
  rewrite commit_hooks, hooks_phase_skip by exact H.
  rewrite stmt_create_hooks, hooks_phase_skip by exact H.
  rewrite begin_tx_hooks. reflexivity.
Qed.

Lemma save_kids_keepers_skip_hooks : forall c t vals kt ks s, c_skip c = true ->
  hooks_of (s_tr (save_kids_keepers c t vals kt ks s)) = hooks_of (s_tr s).
Proof.
  intros c t vals kt ks s H. unfold save_kids_keepers. destruct vals as [|v vr]; [reflexivity|].
  cbn [s_tr]. unfold kids_create.
  rewrite commit_hooks, hooks_phase_skip by exact H.
  rewrite stmt_create_hooks. unfold save_keepers.
  match goal with |- context [if ?b then _ else _] => destruct b end;
    rewrite ?save_assoc_skip_hooks by exact H; rewrite hooks_phase_skip by exact H; rewrite begin_tx_hooks; reflexivity.
Qed.

Lemma nested_delete_skip_hooks : forall c t tb s, c_skip c = true ->
  hooks_of (s_tr (nested_delete c t tb s)) = hooks_of (s_tr s).
Proof.
  intros c t tb s H. unfold nested_delete. cbn [s_tr].
  rewrite commit_hooks. rewrite !hooks_phase_skip by exact H.
  match goal with |- context [if ?b then _ else _] => destruct b end;
    cbn [s_tr set_tbl emit set_tr]; rewrite ?hooks_of_app, ?begin_tx_hooks; cbn; rewrite ?app_nil_r; reflexivity.
Qed.

Lemma nested_query_skip_hooks : forall c t tb s, c_skip c = true ->
  hooks_of (s_tr (nested_query c t tb s)) = hooks_of (s_tr s).
Proof.
  intros c t tb s H. unfold nested_query. destruct (negb (is_nil (s_err s))); [reflexivity|].
  cbn [s_tr]. rewrite hooks_phase_skip by exact H. cbn [s_tr]. rewrite hooks_of_app. cbn. apply app_nil_r.
Qed.

Lemma run_cb_skip_hooks : forall c a q x s, c_skip c = true ->
  hooks_of (s_tr (run_cb c a q x s)) = hooks_of (s_tr s).
Proof.
  intros c a q x s H. destruct x; cbn [run_cb];
    rewrite ?hooks_phase_skip by exact H;
    rewrite ?begin_tx_hooks, ?commit_hooks, ?stmt_create_hooks, ?stmt_update_hooks, ?stmt_delete_hooks, ?stmt_query_hooks;
    try reflexivity.
  - unfold save_before_assoc. destruct (is_nil (s_err s)); [|reflexivity]. apply save_assoc_skip_hooks. exact H.
  - unfold save_after_assoc. destruct (is_nil (s_err s)); [|reflexivity].
    rewrite save_assoc_skip_hooks by exact H.
    destruct (is_nil (a_keepers a)); [apply save_assoc_skip_hooks | apply save_kids_keepers_skip_hooks]; exact H.
  - unfold delete_before_assoc. destruct (is_nil (s_err s) && negb (is_nil (s_recs s))); [|reflexivity].
    destruct (x_delassoc (c_x c) =? 1); [apply nested_delete_skip_hooks; exact H|].
    destruct (x_delassoc (c_x c) =? 2); [apply nested_delete_skip_hooks; exact H|reflexivity].
  - unfold preload_cb. match goal with |- context [if ?b then _ else _] => destruct b end; [|reflexivity].
    rewrite !nested_query_skip_hooks by exact H. reflexivity.
Qed.

Lemma run_pipeline_skip_hooks : forall c a q p s, c_skip c = true ->
  hooks_of (s_tr (run_pipeline c a q p s)) = hooks_of (s_tr s).
Proof.
  intros c a q p. unfold run_pipeline. induction p as [|x p IH]; intros s H; [reflexivity|].
  cbn [fold_left]. rewrite IH by exact H. apply run_cb_skip_hooks. exact H.
Qed.

Lemma run_batches_skip_hooks : forall o chs s, o_skip o = true ->
  hooks_of (s_tr (run_batches o chs s)) = hooks_of (s_tr s).
Proof.
  intros o chs. induction chs as [|ch r IH]; intros s H; [reflexivity|].
  cbn [run_batches].
  assert (B : hooks_of (s_tr (run_batch o ch s)) = hooks_of (s_tr s)).
  { unfold run_batch. cbn [s_tr set_recs]. rewrite run_pipeline_skip_hooks by (cbn; exact H). reflexivity. }
  destruct (is_nil (s_err (run_batch o ch s))); [rewrite IH by exact H|]; exact B.
Qed.

Lemma run_create_in_batches_skip_hooks : forall o b s, o_skip o = true ->
  hooks_of (s_tr (run_create_in_batches o b s)) = hooks_of (s_tr s).
Proof.
  intros o b s H. unfold run_create_in_batches.
  match goal with |- context [if ?c then _ else _] => destruct c end; [apply run_batches_skip_hooks; exact H|].
  match goal with |- context [run_batches o ?chs ?s0] =>
    pose proof (run_batches_skip_hooks o chs s0 H) as B; destruct (is_nil (s_err (run_batches o chs s0))) end;
    cbn [s_tr] in *; rewrite hooks_of_app, B, hooks_of_app; cbn; rewrite !app_nil_r; reflexivity.
Qed.

Theorem run_skip : forall o,
  o_skip o = true \/ o_kind o = OUpdateColumn -> hooks_of (s_tr (run o)) = [].
Proof.
  intros o H. unfold run.
  destruct (finish_facts o (run_body o (init_state o))) as (FH & _ & _). rewrite FH.
  destruct (init_facts o) as (_ & _ & H0 & _ & _).
  unfold run_body.
  destruct H as [H|H].
  - assert (SK : forall d, c_skip (op_cx o (o_skip o) d) = true) by (intro d; cbn; exact H).
    destruct (o_kind o).
    + destruct (by_value_struct o); [exact H0 | rewrite run_pipeline_skip_hooks by apply SK; exact H0].
    + destruct (sh_cont (o_shape o)); try (rewrite run_pipeline_skip_hooks by apply SK; exact H0).
      unfold run_save_struct. destruct (o_recs o) as [|r rs]; [exact H0|].
      destruct (m_id r =? 0); [rewrite run_pipeline_skip_hooks by apply SK; exact H0|].
      match goal with |- context [if ?b then _ else _] => destruct b end.
      * destruct (by_value_struct o); [cbn [s_tr add_err set_err] |];
          rewrite ?run_pipeline_skip_hooks by (try apply SK; reflexivity); exact H0.
      * rewrite run_pipeline_skip_hooks by apply SK. exact H0.
    + rewrite run_pipeline_skip_hooks by apply SK. exact H0.
    + rewrite run_pipeline_skip_hooks by reflexivity. exact H0.
    + rewrite run_pipeline_skip_hooks by apply SK. exact H0.
    + rewrite run_pipeline_skip_hooks by apply SK. exact H0.
    + rewrite run_pipeline_skip_hooks by apply SK. exact H0.
    + rewrite run_create_in_batches_skip_hooks by exact H. exact H0.
  - rewrite H. rewrite run_pipeline_skip_hooks by reflexivity. exact H0.
Qed.
