(* C09_Proofs.v — a chain yields no WHERE expression exactly when it supplies no effective
   condition; hence the guard rejects exactly the condition-free chains. *)
From Verif Require Import Base Sem Where_Model Where_Proofs.

Local Arguments lex : simpl never.
Local Arguments parse : simpl never.
Local Arguments wrap_test : simpl never.
Local Arguments String.eqb : simpl never.

(* induction principle for the nested type unit_ *)
Section UnitInd.
  Variable P : unit_ -> Prop.
  Hypothesis Hraw : forall a b, P (URaw a b).
  Hypothesis Hnamed : forall a b, P (UNamed a b).
  Hypothesis Hmap : forall ms, P (UMap ms).
  Hypothesis Hstruct : forall ms, P (UStruct ms).
  Hypothesis Hexpr : forall c, P (UExpr c).
  Hypothesis Hgroup : forall cs, Forall (fun c => P (snd c)) cs -> P (UGroup cs).
  Fixpoint unit_ind' (u : unit_) : P u :=
    match u with
    | URaw a b => Hraw a b
    | UNamed a b => Hnamed a b
    | UMap ms => Hmap ms
    | UStruct ms => Hstruct ms
    | UExpr c => Hexpr c
    | UGroup cs =>
      Hgroup cs ((fix go (l : list (ckind * unit_)) : Forall (fun c => P (snd c)) l :=
                    match l with
                    | [] => Forall_nil _
                    | c :: r => Forall_cons c (unit_ind' (snd c)) (go r)
                    end) cs)
    end.
End UnitInd.

(* clause expressions that are not the nil Expression (clause.And() with no operand etc.) *)
Definition cexpr_ok (tbl : atom_table) (c : cexpr) : bool :=
  match cx tbl c with Some None => false | _ => true end.
Fixpoint unit_ok (tbl : atom_table) (u : unit_) : bool :=
  match u with
  | UExpr c => cexpr_ok tbl c
  | UGroup cs => forallb (fun c => unit_ok tbl (snd c)) cs
  | _ => true
  end.
Definition chain_ok (tbl : atom_table) (cs : list call) : bool := forallb (fun c => unit_ok tbl (snd c)) cs.

Lemma mk_and_nonempty l : l <> [] -> exists x, mk_and l = Some x.
Proof. destruct l as [|a [|b r]]; [congruence| |]; cbn; intros _; [destruct (is_or a)|]; eexists; reflexivity. Qed.
Lemma mk_not_nonempty l : l <> [] -> exists x, mk_not l = Some x.
Proof.
  destruct l as [|a [|b r]]; [congruence| |]; cbn; intros _; destruct a; eexists; reflexivity.
Qed.

(* the contribution of one call to the expression list is empty iff its conditions are *)
Definition add_of (k : ckind) (conds : list expr) : list expr :=
  match k with
  | KWhere => conds
  | KNot => olist (mk_not conds)
  | KOr => match mk_and conds with Some a => [XOr [a]] | None => [] end
  end.
Lemma add_of_nonempty k conds : conds <> [] -> add_of k conds <> [].
Proof.
  intros H. destruct k; cbn; [exact H| |].
  - destruct (mk_not_nonempty _ H) as [x ->]. discriminate.
  - destruct (mk_and_nonempty _ H) as [x ->]. discriminate.
Qed.

(* top-level versions of the local fixpoints *)
Fixpoint mean_calls (tbl : atom_table) (cs : list call) : option (list (ckind * (sem * sem))) :=
  match cs with
  | [] => Some []
  | (k, u) :: r =>
    match umean tbl u, mean_calls tbl r with
    | Some None, Some l => Some l
    | Some (Some mn), Some l => Some ((k, mn) :: l)
    | _, _ => None
    end
  end.

Lemma build_chain_from_app_nonempty tbl cs : forall acc res,
  build_chain_from tbl acc cs = Some res -> acc <> [] -> res <> [].
Proof.
  induction cs as [|[k u] r IH]; cbn; intros acc res H Hacc; [congruence|].
  destruct (build_cond tbl u) as [[|c conds]|]; [eauto| |discriminate].
  eapply IH; [exact H|]. destruct acc; [congruence|discriminate].
Qed.

(* key lemma: a unit builds no expression iff it has no meaning to contribute *)
Lemma unit_empty_iff tbl : forall u l m,
  unit_ok tbl u = true -> build_cond tbl u = Some l -> umean tbl u = Some m ->
  (l = [] <-> m = None).
Proof.
  induction u as [tmpl txt|tmpl txt|ms|ms|c|cs IH] using unit_ind'; intros l m Hok Hb Hm.
  - cbn in Hb, Hm. destruct (String.eqb tmpl ""); [inversion Hb; inversion Hm; tauto|].
    destruct (lex tbl txt) as [ts|]; [|discriminate]. destruct (parse ts); [|discriminate].
    inversion Hb; inversion Hm; subst. split; discriminate.
  - cbn in Hb, Hm. destruct (lex tbl txt) as [ts|]; [|discriminate]. destruct (parse ts); [|discriminate].
    inversion Hb; inversion Hm; subst. split; discriminate.
  - cbn in Hb, Hm. destruct ms as [|p [|q r]]; inversion Hb; inversion Hm; subst; cbn; split; try tauto; discriminate.
  - cbn in Hb, Hm. destruct ms as [|p [|q r]]; inversion Hb; inversion Hm; subst; cbn; split; try tauto; discriminate.
  - cbn in Hb, Hm, Hok. unfold cexpr_ok in Hok.
    destruct (cx tbl c) as [[x|]|]; [|discriminate|discriminate].
    destruct (csem tbl c); [|discriminate]. inversion Hm; subst.
    cbn in Hb. destruct (is_or x); inversion Hb; split; discriminate.
  - (* group *)
    revert l m Hok Hb Hm.
    assert (Hin : forall acc wh lm,
      (fix chain (acc : list expr) (cs : list (ckind * unit_)) : option (list expr) :=
         match cs with
         | [] => Some acc
         | (k, u) :: r =>
           match build_cond tbl u with
           | None => None
           | Some [] => chain acc r
           | Some conds =>
             chain (acc ++ match k with
                           | KWhere => conds
                           | KNot => olist (mk_not conds)
                           | KOr => match mk_and conds with Some a => [XOr [a]] | None => [] end
                           end) r
           end
         end) acc cs = Some wh ->
      (fix chain (cs : list (ckind * unit_)) : option (list (ckind * (sem * sem))) :=
         match cs with
         | [] => Some []
         | (k, u) :: r =>
           match umean tbl u, chain r with
           | Some None, Some l => Some l
           | Some (Some mn), Some l => Some ((k, mn) :: l)
           | _, _ => None
           end
         end) cs = Some lm ->
      forallb (fun c => unit_ok tbl (snd c)) cs = true ->
      (wh = [] <-> acc = [] /\ lm = [])).
    { induction cs as [|[k u] r IHr]; intros acc wh lm H1 H2 H3.
      - inversion H1; inversion H2; subst. tauto.
      - cbn in H3. apply andb_prop in H3. destruct H3 as [Hu Hr].
        inversion IH as [|? ? IHu IHrest]; subst. cbn in IHu.
        destruct (build_cond tbl u) as [conds|] eqn:Eb; [|discriminate].
        destruct (umean tbl u) as [mu|] eqn:Em; [|discriminate].
        pose proof (IHu conds mu Hu eq_refl eq_refl) as Hiff.
        destruct mu as [mn|].
        + destruct ((fix chain (cs : list (ckind * unit_)) := _) r) as [lr|] eqn:Er in H2; [|discriminate].
          inversion H2; subst. destruct conds as [|c0 conds]; [destruct Hiff as [Hc _]; discriminate (Hc eq_refl)|].
          specialize (IHr IHrest _ _ _ H1 Er Hr).
          split; [|intros [_ Hx]; discriminate].
          intros Hw. apply IHr in Hw. destruct Hw as [Hacc _].
          exfalso. apply app_eq_nil in Hacc. destruct Hacc as [_ Hadd].
          revert Hadd. apply (add_of_nonempty k (c0 :: conds)). discriminate.
        + destruct ((fix chain (cs : list (ckind * unit_)) := _) r) as [lr|] eqn:Er in H2; [|discriminate].
          inversion H2; subst. destruct conds as [|c0 conds]; [|destruct Hiff as [_ Hc]; discriminate (Hc eq_refl)].
          exact (IHr IHrest _ _ _ H1 Er Hr). }
    intros l m Hok Hb Hm. cbn in Hb, Hm, Hok.
    match type of Hb with match ?X with _ => _ end = _ => destruct X as [wh|] eqn:E1; [|discriminate] end.
    match type of Hm with match ?X with _ => _ end = _ => destruct X as [lm|] eqn:E2; [|discriminate] end.
    pose proof (Hin [] wh lm E1 eq_refl Hok) as Hiff.
    destruct wh as [|w wh].
    + destruct Hiff as [Hx _]. destruct (Hx eq_refl) as [_ ->]. inversion Hb; inversion Hm; subst. tauto.
    + assert (lm <> []) by (intros ->; destruct Hiff as [_ Hx]; discriminate (Hx (conj eq_refl eq_refl))).
      assert (Hl : l <> []).
      { set (wh' := match w :: wh with [XOr l0] => [XAnd l0] | _ => w :: wh end) in Hb.
        assert (Hwh' : wh' <> []) by (unfold wh'; destruct w; try discriminate; destruct wh; try discriminate; destruct l0; discriminate).
        destruct (mk_and_nonempty _ Hwh') as [a Ha]. rewrite Ha in Hb. cbn in Hb.
        destruct (is_or a); inversion Hb; discriminate. }
      assert (Hm' : m <> None).
      { destruct lm as [|[k1 [m1 n1]] lm']; [congruence|]; destruct k1; destruct lm'; inversion Hm; discriminate. }
      split; intros; congruence.
Qed.

Lemma chain_empty_iff tbl : forall cs acc exprs seq,
  chain_ok tbl cs = true ->
  build_chain_from tbl acc cs = Some exprs -> chain_seq tbl cs = Some seq ->
  (exprs = [] <-> acc = [] /\ seq = []).
Proof.
  induction cs as [|[k u] r IH]; intros acc exprs sq Hok Hb Hs.
  - inversion Hb; inversion Hs; subst. tauto.
  - cbn in Hok, Hb, Hs. apply andb_prop in Hok. destruct Hok as [Hu Hr].
    destruct (build_cond tbl u) as [conds|] eqn:Eb; [|discriminate].
    destruct (umean tbl u) as [mu|] eqn:Em; [|discriminate].
    pose proof (unit_empty_iff tbl u conds mu Hu Eb Em) as Hiff.
    destruct (chain_seq tbl r) as [sr|] eqn:Er; [|destruct mu as [[? ?]|]; discriminate].
    destruct mu as [[m n]|].
    + inversion Hs; subst. destruct conds as [|c0 conds]; [destruct Hiff as [Hc _]; discriminate (Hc eq_refl)|].
      split; [|intros [_ Hx]; discriminate]. intros He.
      destruct (proj1 (IH _ _ _ Hr Hb eq_refl) He) as [Hacc _].
      exfalso. apply app_eq_nil in Hacc. destruct Hacc as [_ Hadd].
      revert Hadd. apply (add_of_nonempty k (c0 :: conds)). discriminate.
    + inversion Hs; subst. destruct conds as [|c0 conds]; [|destruct Hiff as [_ Hc]; discriminate (Hc eq_refl)].
      exact (IH _ _ _ Hr Hb eq_refl).
Qed.

(* the guard of Update / Delete, for every chain, model kind and primary-key situation *)
Lemma guard_iff tbl cs exprs eff (soft_on pk : bool) live nlive pka npka :
  chain_ok tbl cs = true ->
  build_chain tbl cs = Some exprs -> effective tbl cs = Some eff ->
  let exprs1 := if pk then exprs ++ [XAtom pka npka] else exprs in
  let exprs2 := if soft_on then soft_delete_exprs live nlive exprs1 else exprs1 in
  missing_where false soft_on exprs2 = negb (eff || pk).
Proof.
  intros Hok Hb He. unfold effective in He.
  destruct (chain_seq tbl cs) as [sq|] eqn:Es; [|discriminate].
  pose proof (chain_empty_iff tbl cs [] exprs sq Hok Hb Es) as Hiff.
  assert (Heff : eff = negb (match exprs with [] => true | _ => false end)).
  { destruct sq; inversion He; subst; destruct exprs; try reflexivity.
    - destruct Hiff as [_ Hx]. discriminate (Hx (conj eq_refl eq_refl)).
    - destruct Hiff as [Hx _]. destruct (Hx eq_refl) as [_ Hy]. discriminate. }
  cbn zeta. destruct soft_on.
  - rewrite soft_delete_guard. destruct pk; subst eff.
    + destruct exprs; cbn; rewrite ?orb_true_r; reflexivity.
    + rewrite orb_false_r. destruct exprs; reflexivity.
  - rewrite plain_guard. destruct pk; subst eff.
    + destruct exprs; cbn; rewrite ?orb_true_r; reflexivity.
    + rewrite orb_false_r. destruct exprs; reflexivity.
Qed.
