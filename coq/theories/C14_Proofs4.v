(* C14_Proofs4.v — "a statement text is prepared at most once per cache generation":
   counting invariants linking Prepare calls, entries, deletions, upgrades and Reset/Close. *)
From Verif Require Import Base C14_Model C14_Check C14_Proofs2.

Definition ent_is (q : nat) (b : bool) (e : entry) : bool := (e_q e =? q) && Bool.eqb (e_tx e) b.
Definition creates (q : nat) (b : bool) (l : list entry) : nat := length (filter (ent_is q b) l).
Definition at_p9 (q : nat) (b : bool) (th : thread) : bool :=
  match t_pc th with P9 _ => (cur_q th =? q) && Bool.eqb (cur_tx th) b | _ => false end.
Definition at_del (q : nat) (th : thread) : bool :=
  match t_pc th with P11 _ | P11b _ => cur_q th =? q | _ => false end.
Definition absent (s : state) (q : nat) : nat := match mlookup (s_map s) q with Some _ => 0 | None => 1 end.
Definition txpresent (s : state) (q : nat) : nat :=
  match mlookup (s_map s) q with Some e => C14_Proofs2.b2n (e_tx (ent s e)) | None => 0 end.

Lemma filter_len_upd_same {A} (f : A -> bool) (l : list A) e x d :
  f x = f (nth e l d) -> length (filter f (upd l e x)) = length (filter f l).
Proof.
  revert e; induction l as [|y l IH]; intros [|e] H; cbn in *; auto.
  - rewrite H. destruct (f y); reflexivity.
  - specialize (IH _ H). destruct (f y); cbn; rewrite IH; reflexivity.
Qed.

Lemma creates_app q b l x : creates q b (l ++ [x]) = creates q b l + C14_Proofs2.b2n (ent_is q b x).
Proof. unfold creates. rewrite filter_app, app_length. cbn. destruct (ent_is q b x); reflexivity. Qed.

Lemma count_tx_app q b l x :
  count_tx q b (l ++ [x]) = count_tx q b l + C14_Proofs2.b2n ((fst x =? q) && Bool.eqb (snd x) b).
Proof. unfold count_tx. rewrite filter_app, app_length. cbn. destruct ((fst x =? q) && Bool.eqb (snd x) b); reflexivity. Qed.

Lemma count_nat_app q l x : count_nat q (l ++ [x]) = count_nat q l + C14_Proofs2.b2n (q =? x).
Proof. unfold count_nat. rewrite filter_app, app_length. cbn. destruct (q =? x); reflexivity. Qed.

Lemma cnt_closers_f f m : (forall e, f (mkT (C0 e) [] []) = false) -> cnt f (map closer_of m) = 0.
Proof. intro H. unfold cnt. induction m as [|p m IH]; cbn; [reflexivity|]. unfold closer_of at 1. rewrite H. exact IH. Qed.

(* B1: every entry gets exactly one Prepare call, issued by the goroutine that published it *)
Definition invB1 (s : state) : Prop :=
  forall q b, count_tx q b (s_calls s) + cnt (at_p9 q b) (s_thr s) = creates q b (s_ents s).

Lemma invB1_step s t th c s' l :
  nth_error (s_thr s) t = Some th -> step_th s t th c = Some (s', l) -> invB1 s -> invB1 s'.
Proof.
  intros Ht H I q0 b0. specialize (I q0 b0).
  step_cases H.
  all: autorewrite with st; norm_thr.
  all: rewrite cnt_app; try rewrite (cnt_closers_f (at_p9 q0 b0)) by reflexivity;
    match goal with |- context [upd _ _ ?x] => pose proof (cnt_upd (at_p9 q0 b0) _ _ _ x Ht) as Hc end;
    set (A := cnt (at_p9 q0 b0) (upd _ _ _)) in *; set (B := cnt (at_p9 q0 b0) (s_thr s)) in *;
    unfold at_p9 in Hc; cbn [t_pc set_pc finish cur_q cur_tx t_ops] in Hc; rewrite Heqp in Hc;
    cbn [C14_Proofs2.b2n] in Hc; cbn [cnt filter length t_pc at_p9].
  all: try rewrite creates_app; try rewrite count_tx_app; cbn [fst snd ent_is e_q e_tx].
  all: try (unfold creates; rewrite filter_len_upd_same with (d := dflt_entry) by reflexivity; fold (creates q0 b0 (s_ents s))).
  all: try lia.
  all: rewrite cur_q_set_pc, cur_tx_set_pc in Hc; unfold ent_is; cbn [e_q e_tx]; lia.
Qed.

(* ---- the map ---- *)
Lemma mlookup_insert_some q e m0 k :
  mlookup (Some (insert q e m0)) k = if k =? q then Some e else mlookup (Some m0) k.
Proof. cbn. apply lookup_insert. Qed.
Lemma mlookup_remove q m k :
  mlookup (option_map (remove_key q) m) k = if k =? q then None else mlookup m k.
Proof. destruct m as [m0|]; cbn; [apply lookup_remove_key | destruct (k =? q); reflexivity]. Qed.
Lemma mlookup_insert_hit q e m k n :
  mlookup m q = Some n -> mlookup (option_map (insert q e) m) k = if k =? q then Some e else mlookup m k.
Proof. destruct m as [m0|]; [intros _; apply mlookup_insert_some | discriminate]. Qed.
Lemma mlookup_empty k : mlookup (Some []) k = None. Proof. reflexivity. Qed.
Lemma mlookup_nil k : mlookup None k = None. Proof. reflexivity. Qed.

(* B0: the map only holds allocated entries *)
Definition invB0 (s : state) : Prop :=
  forall k e, mlookup (s_map s) k = Some e -> e < length (s_ents s).

Lemma invB0_step s t th c s' l :
  nth_error (s_thr s) t = Some th -> step_th s t th c = Some (s', l) -> invB0 s -> invB0 s'.
Proof.
  intros Ht H I.
  step_cases H.
  all: intros k e0; autorewrite with st; try rewrite upd_length; try rewrite app_length; cbn [length].
  all: try (intro Hk; apply I in Hk; lia).
  all: try (rewrite mlookup_remove; destruct (k =? cur_q th); [discriminate | intro Hk; apply I in Hk; lia]).
  all: try (cbn; discriminate).
  - (* upgrade *)
    destruct (s_map s) as [m0|] eqn:Em; [|discriminate Heqo].
    cbn [option_map]. rewrite mlookup_insert_some. destruct (k =? cur_q th).
    + intro Hk; inversion Hk; lia.
    + rewrite <- Em. intro Hk; apply I in Hk; lia.
  - rewrite mlookup_insert_some. destruct (k =? cur_q th).
    + intro Hk; inversion Hk; lia.
    + rewrite <- Heqo0. intro Hk; apply I in Hk; lia.
Qed.

(* B2: entries of a text <= 1 + cuts + failures + evictions + upgrades (a pending delete of a
   failed Prepare is a credit; an absent slot is a debit) *)
Definition invB2 (s : state) : Prop :=
  forall q, creates q true (s_ents s) + creates q false (s_ents s) + absent s q + cnt (at_del q) (s_thr s)
            <= 1 + s_cuts s + count_nat q (s_fails s) + count_nat q (s_evicts s) + count_nat q (s_upg s).

Lemma creates_upd_same q b s e en :
  e_q en = e_q (ent s e) -> e_tx en = e_tx (ent s e) ->
  creates q b (upd (s_ents s) e en) = creates q b (s_ents s).
Proof.
  intros H1 H2. unfold creates. apply filter_len_upd_same with (d := dflt_entry).
  unfold ent_is. fold (ent s e). rewrite H1, H2. reflexivity.
Qed.

Lemma absent_le1 s q : absent s q <= 1.
Proof. unfold absent. destruct (mlookup (s_map s) q); lia. Qed.

Lemma invB2_step s t th c s' l :
  nth_error (s_thr s) t = Some th -> step_th s t th c = Some (s', l) -> invB2 s -> invB2 s'.
Proof.
  intros Ht H I q0. specialize (I q0). pose proof (absent_le1 s q0) as Ha.
  step_cases H.
  all: unfold absent in *; autorewrite with st; norm_thr.
  all: rewrite cnt_app; try rewrite (cnt_closers_f (at_del q0)) by reflexivity;
    match goal with |- context [upd _ _ ?x] => pose proof (cnt_upd (at_del q0) _ _ _ x Ht) as Hc end;
    set (A := cnt (at_del q0) (upd _ _ _)) in *; set (B := cnt (at_del q0) (s_thr s)) in *;
    unfold at_del in Hc; cbn [t_pc set_pc finish] in Hc; rewrite Heqp in Hc;
    autorewrite with st in Hc;
    cbn [C14_Proofs2.b2n] in Hc; cbn [cnt filter length t_pc at_del].
  all: repeat rewrite creates_app; repeat rewrite count_nat_app; unfold ent_is; cbn [fst snd e_q e_tx].
  all: repeat rewrite creates_upd_same by reflexivity.
  all: try lia.
  all: try rewrite (mlookup_insert_hit _ _ _ _ _ Heqo).
  all: rewrite ?mlookup_remove, ?mlookup_insert_some, ?mlookup_empty, ?mlookup_nil;
    try rewrite (Nat.eqb_sym q0 (cur_q th)) in *;
    try rewrite <- Heqo0.
  all: destruct (cur_q th =? q0) eqn:Eq;
    [ apply Nat.eqb_eq in Eq; subst q0; try rewrite Heqo in * | ];
    destruct (cur_tx th); try destruct (mlookup (s_map s) q0); cbn [C14_Proofs2.b2n andb Bool.eqb] in *; try lia.
  all: rewrite Heqo0, Heqo in I; lia.
Qed.
