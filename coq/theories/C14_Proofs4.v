(* C14_Proofs4.v — "a statement text is prepared at most once per cache generation":
   counting invariants linking Prepare calls, entries, deletions, upgrades and Reset/Close. *)
From Verif Require Import Base C14_Model C14_Count C14_Proofs2.

Definition ent_is (q : nat) (b : bool) (e : entry) : bool := (e_q e =? q) && Bool.eqb (e_tx e) b.
Definition creates (q : nat) (b : bool) (l : list entry) : nat := length (filter (ent_is q b) l).
Definition at_p9 (q : nat) (b : bool) (th : thread) : bool :=
  match t_pc th with P9 _ => (cur_q th =? q) && Bool.eqb (cur_tx th) b | _ => false end.
Definition at_del (q : nat) (th : thread) : bool :=
  match t_pc th with P11 _ | P11b _ => cur_q th =? q | _ => false end.
Definition absent (s : state) (q : nat) : nat := match mlookup (s_map s) q with Some _ => 0 | None => 1 end.
Definition txpresent (s : state) (q : nat) : nat :=
  match mlookup (s_map s) q with Some e => C14_Proofs2.b2n (e_tx (ent s e)) | None => 0 end.

Lemma filter_len_upd_same {A} (f : A -> bool) (l : list A) e x d :
  f x = f (nth e l d) -> length (filter f (upd l e x)) = length (filter f l).
Proof.
  revert e; induction l as [|y l IH]; intros [|e] H; cbn in *; auto.
  - rewrite H. destruct (f y); reflexivity.
  - specialize (IH _ H). destruct (f y); cbn; rewrite IH; reflexivity.
Qed.

Lemma creates_app q b l x : creates q b (l ++ [x]) = creates q b l + C14_Proofs2.b2n (ent_is q b x).
Proof. unfold creates. rewrite filter_app, app_length. cbn. destruct (ent_is q b x); reflexivity. Qed.

Lemma count_tx_app q b l x :
  count_tx q b (l ++ [x]) = count_tx q b l + C14_Proofs2.b2n ((fst x =? q) && Bool.eqb (snd x) b).
Proof. unfold count_tx. rewrite filter_app, app_length. cbn. destruct ((fst x =? q) && Bool.eqb (snd x) b); reflexivity. Qed.

Lemma count_nat_app q l x : count_nat q (l ++ [x]) = count_nat q l + C14_Proofs2.b2n (q =? x).
Proof. unfold count_nat. rewrite filter_app, app_length. cbn. destruct (q =? x); reflexivity. Qed.

Lemma cnt_closers_f f m : (forall e, f (mkT (C0 e) [] []) = false) -> cnt f (map closer_of m) = 0.
Proof. intro H. unfold cnt. induction m as [|p m IH]; cbn; [reflexivity|]. unfold closer_of at 1. rewrite H. exact IH. Qed.

(* B1: every entry gets exactly one Prepare call, issued by the goroutine that published it *)
Definition invB1 (s : state) : Prop :=
  forall q b, count_tx q b (s_calls s) + cnt (at_p9 q b) (s_thr s) = creates q b (s_ents s).

Lemma invB1_step s t th c s' l :
  nth_error (s_thr s) t = Some th -> step_th s t th c = Some (s', l) -> invB1 s -> invB1 s'.
Proof.
  intros Ht H I q0 b0. specialize (I q0 b0).
  step_cases H.
  all: autorewrite with st; norm_thr.
  all: rewrite cnt_app; try rewrite (cnt_closers_f (at_p9 q0 b0)) by reflexivity;
    match goal with |- context [upd _ _ ?x] => pose proof (cnt_upd (at_p9 q0 b0) _ _ _ x Ht) as Hc end;
    set (A := cnt (at_p9 q0 b0) (upd _ _ _)) in *; set (B := cnt (at_p9 q0 b0) (s_thr s)) in *;
    unfold at_p9 in Hc; cbn [t_pc set_pc finish cur_q cur_tx t_ops] in Hc; rewrite Heqp in Hc;
    cbn [C14_Proofs2.b2n] in Hc; cbn [cnt filter length t_pc at_p9].
  all: try rewrite creates_app; try rewrite count_tx_app; cbn [fst snd ent_is e_q e_tx].
  all: try (unfold creates; rewrite filter_len_upd_same with (d := dflt_entry) by reflexivity; fold (creates q0 b0 (s_ents s))).
  all: try lia.
  all: rewrite cur_q_set_pc, cur_tx_set_pc in Hc; unfold ent_is; cbn [e_q e_tx]; lia.
Qed.

(* ---- the map ---- *)
Lemma mlookup_insert_some q e m0 k :
  mlookup (Some (insert q e m0)) k = if k =? q then Some e else mlookup (Some m0) k.
Proof. cbn. apply lookup_insert. Qed.
Lemma mlookup_remove q m k :
  mlookup (option_map (remove_key q) m) k = if k =? q then None else mlookup m k.
Proof. destruct m as [m0|]; cbn; [apply lookup_remove_key | destruct (k =? q); reflexivity]. Qed.
Lemma mlookup_insert_hit q e m k n :
  mlookup m q = Some n -> mlookup (option_map (insert q e) m) k = if k =? q then Some e else mlookup m k.
Proof. destruct m as [m0|]; [intros _; apply mlookup_insert_some | discriminate]. Qed.
Lemma mlookup_empty k : mlookup (Some []) k = None. Proof. reflexivity. Qed.
Lemma mlookup_nil k : mlookup None k = None. Proof. reflexivity. Qed.

(* B0: the map only holds allocated entries *)
Definition invB0 (s : state) : Prop :=
  forall k e, mlookup (s_map s) k = Some e -> e < length (s_ents s).

Lemma invB0_step s t th c s' l :
  nth_error (s_thr s) t = Some th -> step_th s t th c = Some (s', l) -> invB0 s -> invB0 s'.
Proof.
  intros Ht H I.
  step_cases H.
  all: intros k e0; autorewrite with st; try rewrite upd_length; try rewrite app_length; cbn [length].
  all: try (intro Hk; apply I in Hk; lia).
  all: try (rewrite mlookup_remove; destruct (k =? cur_q th); [discriminate | intro Hk; apply I in Hk; lia]).
  all: try (cbn; discriminate).
  - (* upgrade *)
    destruct (s_map s) as [m0|] eqn:Em; [|discriminate Heqo].
    cbn [option_map]. rewrite mlookup_insert_some. destruct (k =? cur_q th).
    + intro Hk; inversion Hk; lia.
    + rewrite <- Em. intro Hk; apply I in Hk; lia.
  - rewrite mlookup_insert_some. destruct (k =? cur_q th).
    + intro Hk; inversion Hk; lia.
    + rewrite <- Heqo0. intro Hk; apply I in Hk; lia.
Qed.

(* B2: entries of a text <= 1 + cuts + failures + evictions + upgrades (a pending delete of a
   failed Prepare is a credit; an absent slot is a debit) *)
Definition invB2 (s : state) : Prop :=
  forall q, creates q true (s_ents s) + creates q false (s_ents s) + absent s q + cnt (at_del q) (s_thr s)
            <= 1 + s_cuts s + count_nat q (s_fails s) + count_nat q (s_evicts s) + count_nat q (s_upg s).

Lemma creates_upd_same q b s e en :
  e_q en = e_q (ent s e) -> e_tx en = e_tx (ent s e) ->
  creates q b (upd (s_ents s) e en) = creates q b (s_ents s).
Proof.
  intros H1 H2. unfold creates. apply filter_len_upd_same with (d := dflt_entry).
  unfold ent_is. fold (ent s e). rewrite H1, H2. reflexivity.
Qed.

Lemma absent_le1 s q : absent s q <= 1.
Proof. unfold absent. destruct (mlookup (s_map s) q); lia. Qed.

Lemma invB2_step s t th c s' l :
  nth_error (s_thr s) t = Some th -> step_th s t th c = Some (s', l) -> invB2 s -> invB2 s'.
Proof.
  intros Ht H I q0. specialize (I q0). pose proof (absent_le1 s q0) as Ha.
  step_cases H.
  all: unfold absent in *; autorewrite with st; norm_thr.
  all: rewrite cnt_app; try rewrite (cnt_closers_f (at_del q0)) by reflexivity;
    match goal with |- context [upd _ _ ?x] => pose proof (cnt_upd (at_del q0) _ _ _ x Ht) as Hc end;
    set (A := cnt (at_del q0) (upd _ _ _)) in *; set (B := cnt (at_del q0) (s_thr s)) in *;
    unfold at_del in Hc; cbn [t_pc set_pc finish] in Hc; rewrite Heqp in Hc;
    autorewrite with st in Hc;
    cbn [C14_Proofs2.b2n] in Hc; cbn [cnt filter length t_pc at_del].
  all: repeat rewrite creates_app; repeat rewrite count_nat_app; unfold ent_is; cbn [fst snd e_q e_tx].
  all: repeat rewrite creates_upd_same by reflexivity.
  all: try lia.
  all: try rewrite (mlookup_insert_hit _ _ _ _ _ Heqo).
  all: rewrite ?mlookup_remove, ?mlookup_insert_some, ?mlookup_empty, ?mlookup_nil;
    try rewrite (Nat.eqb_sym q0 (cur_q th)) in *;
    try rewrite <- Heqo0.
  all: destruct (cur_q th =? q0) eqn:Eq;
    [ apply Nat.eqb_eq in Eq; subst q0; try rewrite Heqo in * | ];
    destruct (cur_tx th); try destruct (mlookup (s_map s) q0); cbn [C14_Proofs2.b2n andb Bool.eqb] in *; try lia.
  all: rewrite Heqo0, Heqo in I; lia.
Qed.

(* B3/B4: an upgrade consumes one Tx-level entry and produces one pool-level entry *)
Definition txp (s : state) (o : option nat) : nat :=
  match o with Some e => C14_Proofs2.b2n (e_tx (ent s e)) | None => 0 end.
Definition invB3 (s : state) : Prop :=
  forall q, count_nat q (s_upg s) + txp s (mlookup (s_map s) q) <= creates q true (s_ents s).
Definition invB4 (s : state) : Prop :=
  forall q, count_nat q (s_upg s) <= creates q false (s_ents s).

Lemma e_tx_set_ent s e1 en e :
  e_tx en = e_tx (ent s e1) -> e_tx (ent (set_ent s e1 en) e) = e_tx (ent s e).
Proof.
  intro H. rewrite ent_set_ent. destruct ((e =? e1) && (e1 <? length (s_ents s))) eqn:E; [|reflexivity].
  apply andb_prop in E. destruct E as [E _]. apply Nat.eqb_eq in E. subst. exact H.
Qed.

Lemma txp_ext s s' o : (forall e, e_tx (ent s' e) = e_tx (ent s e)) -> txp s' o = txp s o.
Proof. intro H. destruct o as [e|]; cbn; [rewrite H|]; reflexivity. Qed.

(* after an append, the lookups of the old map still see the old entries *)
Lemma txp_app s s' x o :
  (forall e, ent s' e = if e =? length (s_ents s) then x else ent s e) ->
  (forall e, o = Some e -> e < length (s_ents s)) -> txp s' o = txp s o.
Proof.
  intros H Hv. destruct o as [e|]; cbn; [|reflexivity]. rewrite H.
  specialize (Hv e eq_refl). destruct (e =? length (s_ents s)) eqn:E; [|reflexivity].
  apply Nat.eqb_eq in E. lia.
Qed.

Lemma servable_false en b : servable en b = false -> e_tx en = true /\ b = false.
Proof. unfold servable. destruct (e_tx en), b; cbn; intro H; try discriminate; auto. Qed.

Ltac ent_same := intro; autorewrite with st; try rewrite e_tx_set_ent by reflexivity; reflexivity.
Ltac ent_app := intro; autorewrite with st; rewrite ent_w_ents_app; reflexivity.

Lemma invB3_step s t th c s' l :
  nth_error (s_thr s) t = Some th -> step_th s t th c = Some (s', l) -> invB0 s -> invB3 s -> invB3 s'.
Proof.
  intros Ht H I0 I q0. specialize (I q0).
  step_cases H.
  all: match goal with |- context [txp ?s1 _] =>
         first [ rewrite (txp_ext s s1) by ent_same | idtac ] end.
  all: autorewrite with st.
  all: repeat rewrite creates_app; repeat rewrite count_nat_app; unfold ent_is; cbn [fst snd e_q e_tx].
  all: repeat rewrite creates_upd_same by reflexivity.
  all: try exact I.
  all: try rewrite (mlookup_insert_hit _ _ _ _ _ Heqo).
  all: rewrite ?mlookup_remove, ?mlookup_insert_some, ?mlookup_empty, ?mlookup_nil;
    try rewrite (Nat.eqb_sym q0 (cur_q th)) in *; try rewrite <- Heqo0.
  all: cbn [txp] in *; try lia.
  all: destruct (cur_q th =? q0) eqn:Eq; [ apply Nat.eqb_eq in Eq; subst q0 | ]; cbn [txp]; try lia.
  - autorewrite with st. rewrite ent_w_ents_app, Nat.eqb_refl. cbn [e_tx].
    apply servable_false in Heqb0. destruct Heqb0 as [Htx Hb]. rewrite Heqo in I. cbn [txp] in I.
    rewrite Htx in I. rewrite Hb. cbn in *. lia.
  - rewrite (txp_app s _ (mkE (cur_q th) (cur_tx th) None false false)); [cbn [andb C14_Proofs2.b2n]; lia | ent_app |].
    intros e0 He0. eapply I0; eauto.
  - autorewrite with st. rewrite ent_w_ents_app, Nat.eqb_refl. cbn [e_tx].
    rewrite Heqo in I. cbn [txp] in I. destruct (cur_tx th); cbn; lia.
  - rewrite (txp_app s _ (mkE (cur_q th) (cur_tx th) None false false)); [cbn [andb C14_Proofs2.b2n]; rewrite Heqo0; lia | ent_app |].
    intros e0 He0. eapply I0; eauto.
  - rewrite Heqo0. exact I.
  - rewrite Heqo0. exact I.
Qed.

Lemma creates_mono_upd q b s e en :
  e_q en = e_q (ent s e) -> e_tx en = e_tx (ent s e) ->
  creates q b (s_ents s) <= creates q b (upd (s_ents s) e en).
Proof. intros. rewrite creates_upd_same; auto. Qed.

Lemma invB4_step s t th c s' l :
  nth_error (s_thr s) t = Some th -> step_th s t th c = Some (s', l) -> invB4 s -> invB4 s'.
Proof.
  intros Ht H I q0. specialize (I q0).
  step_cases H.
  all: autorewrite with st.
  all: repeat rewrite creates_app; repeat rewrite count_nat_app; unfold ent_is; cbn [fst snd e_q e_tx].
  all: repeat rewrite creates_upd_same by reflexivity.
  all: try lia.
  apply servable_false in Heqb0. destruct Heqb0 as [_ Hb]. rewrite Hb.
  rewrite (Nat.eqb_sym q0). destruct (cur_q th =? q0); cbn; lia.
Qed.

(* ---- assembly ---- *)
Record invB (s : state) : Prop := { IB0 : invB0 s; IB1 : invB1 s; IB2 : invB2 s; IB3 : invB3 s; IB4 : invB4 s }.

Lemma cnt_idle f progs : (forall p, f (mkT Idle p []) = false) -> cnt f (map (fun p => mkT Idle p []) progs) = 0.
Proof. intro H. unfold cnt. induction progs as [|p l IH]; cbn; [reflexivity|]. rewrite H. exact IH. Qed.

Lemma invB_init g progs : invB (init_g g progs).
Proof.
  split.
  - intros k e H. cbn in H. discriminate.
  - intros q b. unfold init_g; cbn [s_calls s_thr s_ents]. rewrite cnt_idle by reflexivity. reflexivity.
  - intros q. unfold absent, init_g; cbn [s_calls s_thr s_ents s_map s_cuts s_fails s_evicts s_upg].
    rewrite cnt_idle by reflexivity. cbn. lia.
  - intros q. cbn. lia.
  - intros q. cbn. lia.
Qed.

Lemma invB_reach progs s : reach progs s -> invB s.
Proof.
  apply reach_ind; [intro g; apply invB_init|].
  intros s0 t c s1 [I0 I1 I2 I3 I4] H. apply step_inv in H. destruct H as [th [l [Ht H]]].
  split.
  - eapply invB0_step; eauto.
  - eapply invB1_step; eauto.
  - eapply invB2_step; eauto.
  - eapply invB3_step; eauto.
  - eapply invB4_step; eauto.
Qed.

Lemma count_calls_split q l : count_calls q l = count_tx q true l + count_tx q false l.
Proof.
  unfold count_calls, count_tx. induction l as [|[a b] l IH]; cbn; [reflexivity|].
  destruct (a =? q), b; cbn; lia.
Qed.

Lemma all_done_cnt f s : (forall th, thread_done th = true -> f th = false) -> all_done s = true -> cnt f (s_thr s) = 0.
Proof.
  intros Hf. unfold all_done, cnt. induction (s_thr s) as [|x l IH]; cbn; [reflexivity|].
  intro H. apply andb_prop in H. destruct H as [H1 H2]. rewrite (Hf _ H1). auto.
Qed.

(* the bound with the ghost upgrade log: holds in EVERY reachable state *)
Lemma single_prepare_ghost progs s q :
  reach progs s ->
  count_calls q (s_calls s) <= 1 + s_cuts s + count_nat q (s_fails s) + count_nat q (s_evicts s) + count_nat q (s_upg s).
Proof.
  intro Hr. destruct (invB_reach _ _ Hr) as [_ I1 I2 _ _].
  rewrite count_calls_split. pose proof (I1 q true). pose proof (I1 q false). specialize (I2 q). lia.
Qed.

(* the bound the checker evaluates on the observed history: at quiescence *)
Lemma single_prepare progs s :
  reach progs s -> all_done s = true ->
  count_ok (s_calls s) (s_fails s) (s_evicts s) (s_cuts s) = true.
Proof.
  intros Hr Hd. destruct (invB_reach _ _ Hr) as [_ I1 I2 I3 I4].
  unfold count_ok. apply forallb_forall. intros q _. apply Nat.leb_le.
  assert (Z : forall b, cnt (at_p9 q b) (s_thr s) = 0).
  { intro b. apply all_done_cnt; [|exact Hd]. intros th H. unfold thread_done in H. unfold at_p9.
    destruct (t_pc th); try discriminate; reflexivity. }
  pose proof (I1 q true) as T. pose proof (I1 q false) as F. rewrite Z in T, F.
  specialize (I2 q). specialize (I3 q). specialize (I4 q).
  rewrite count_calls_split. lia.
Qed.

(* an entry (hence a Prepare call) is published only while no entry able to serve the request
   is in the map *)
Lemma publish_only_when_unserved s t th c s' l :
  step_th s t th c = Some (s', l) -> length (s_ents s) < length (s_ents s') ->
  t_pc th = P6 /\ match mlookup (s_map s) (cur_q th) with
                  | Some e => servable (ent s e) (cur_tx th) = false
                  | None => True
                  end.
Proof.
  intros H Hl. step_cases H.
  all: autorewrite with st in Hl; try rewrite upd_length in Hl; try lia.
  all: split; auto.
Qed.
