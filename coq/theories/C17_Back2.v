(* C17_Back2.v — the backward domain, part 2: whole histories.  Invariant tying the processor state of the
   model to the checker's book; what a nil answer then looks like, clause by clause.
   F = the names that have been used as a Before/After target so far (they may not be registered any more). *)
From Verif Require Import Base C17_Model C17_Check C17_Proofs C17_Proofs2 C17_Plugin C17_Plugin2 C17_Plugin3 C17_Back.
From Coq Require Import Permutation.
Open Scope string_scope.
Open Scope list_scope.

(* a request: nothing, or a name (not "*") noted in F that stands in front of the callback or nowhere *)
Definition btgt (F front all : list string) (t : string) : Prop :=
  is_none t = true \/ (is_star t = false /\ In t F /\ (In t front \/ ~ In t all)).

Lemma btgt_none : forall F front all, btgt F front all "".
Proof. intros. left. reflexivity. Qed.

Lemma btgt_mono : forall F F' front all t, incl F F' -> btgt F front all t -> btgt F' front all t.
Proof. intros F F' front all t Hi [H|(Hs & Hf & H)]; [left; exact H|right; auto]. Qed.

Record binv (F : list string) (p : proc) (r : rstate) (B U : list cb) : Prop := {
  bi_rel : rel p r;
  bi_cs : p_cs p = B ++ U;
  bi_plain : forall b, In b B -> plain b;
  bi_Bn : map cb_name B = builtin_names (r_live r);
  bi_U0 : r_user r = false -> U = [];
  bi_tgt : forall pre c post, U = pre ++ c :: post ->
           btgt F (map cb_name (B ++ pre)) (map cb_name (B ++ U)) (cb_before c)
           /\ btgt F (map cb_name (B ++ pre)) (map cb_name (B ++ U)) (cb_after c);
  bi_bi : forall e, In e (r_live r) -> e_builtin e = true -> e_before e = "" /\ e_after e = "";
  bi_nb : forall e, In e (r_live r) -> e_builtin e = false ->
          exists pre c post, U = pre ++ c :: post /\ cb_name c = e_name e
               /\ ~ In (e_name e) (map cb_name pre)
               /\ cb_before c = e_before e /\ cb_after c = e_after e;
  bi_hid : forall e, In e (r_live r) ->
           exists c, last_named (p_cs p) (e_name e) = Some c /\ cb_hid c = e_hid e
}.

Lemma binv_mono : forall F F' p r B U, incl F F' -> binv F p r B U -> binv F' p r B U.
Proof.
  intros F F' p r B U Hi [R Hcs Hp HBn HU0 Ht Hbi Hnb Hhid]. constructor; auto.
  intros pre c post E. destruct (Ht pre c post E) as [Tb Ta]. split; eapply btgt_mono; eauto.
Qed.

Lemma btgt_nostar : forall F front all t, btgt F front all t -> is_star t = false.
Proof.
  intros F front all t [T|[T _]]; [|exact T]. unfold is_none in T. apply String.eqb_eq in T. now subst.
Qed.

(* the state is a "backward" one: sortCallbacks behaves as the simple procedure on it *)
Lemma binv_back_ok : forall F p r B U, binv F p r B U -> back_ok B U.
Proof.
  intros F p r B U I. destruct I as [R Hcs Hp HBn HU0 Ht Hbi Hnb _].
  constructor.
  - exact Hp.
  - rewrite HBn. unfold builtin_names. apply nodup_map_filter. apply (rel_nodup _ _ R).
  - intros pre c post E. destruct (Ht pre c post E) as [Tb Ta].
    assert (Inert : forall t, btgt F (map cb_name (B ++ pre)) (map cb_name (B ++ U)) t ->
                    inert (map cb_name (B ++ pre)) (map cb_name (B ++ U)) t).
    { intros t [T|(_ & _ & [T|T])]; unfold inert; auto. }
    split; [split; eapply btgt_nostar; eauto|]. split; apply Inert; assumption.
Qed.

Lemma binv_clauses : forall F p r B U s,
  binv F p r B U ->
  simple_loop [] (B ++ U) = Some s ->
  let f := pick (B ++ U) (map cb_name (B ++ U)) s in
  map fst f = s /\ spec_handler (r_live r) f = true /\ spec_sides (r_live r) f = true
  /\ spec_builtin (r_live r) f = true.
Proof.
  intros F p r B U s I Hs. cbn zeta.
  pose proof (binv_back_ok _ _ _ _ _ I) as OK.
  destruct I as [R Hcs Hp HBn HU0 Ht Hbi Hnb Hhid].
  set (cs := B ++ U) in *. set (names := map cb_name cs).
  (* the loop after the built-ins *)
  assert (HsU : simple_loop (map cb_name B) U = Some s).
  { unfold cs in Hs. rewrite simple_loop_app in Hs.
    rewrite (simple_loop_plain B [] (bo_plain _ _ OK) (bo_nodup _ _ OK) (fun _ _ H => H)) in Hs. exact Hs. }
  destruct (simple_loop_props _ _ _ HsU (bo_nodup _ _ OK)) as (Nd & G & _ & A & Up & Fl).
  assert (Hincl : incl s names).
  { intros y Hy. apply Up in Hy. unfold names, cs. rewrite map_app. exact Hy. }
  assert (Hrem : forall c, In c cs -> cb_remove c = false).
  { intros c Hc. apply (rel_flags _ _ R). rewrite Hcs. exact Hc. }
  assert (Hfst : map fst (pick cs names s) = s) by (apply pick_fst; auto).
  split; [exact Hfst|]. split; [|split].
  - (* handler *)
    unfold spec_handler. apply forallb_forall. intros [n h] Hin. cbn [fst snd].
    destruct (pick_in _ _ _ _ _ Hin) as (Hns & idx & c & Er & Ec & Eh).
    assert (Hlive : In n (live_names r)).
    { apply (rel_names _ _ R). rewrite Hcs. apply Hincl, Hns. }
    unfold live_names in Hlive. apply in_map_iff in Hlive. destruct Hlive as (e & He & Hel).
    rewrite (find_live_named _ _ e (rel_nodup _ _ R) Hel He).
    destruct (Hhid e Hel) as (c' & Hl & Hh). rewrite Hcs, He in Hl.
    rewrite <- (rindex_last_named cs n idx Er), Ec in Hl. injection Hl as <-.
    apply N.eqb_eq. congruence.
  - (* sides *)
    unfold spec_sides. apply forallb_forall. intros e Hel. unfold side_ok.
    destruct (e_builtin e) eqn:Eb.
    { destruct (Hbi e Hel Eb) as [-> ->]. reflexivity. }
    destruct (Hnb e Hel Eb) as (pre & c & post & EU & Ecn & Hpre & Ecb & Eca).
    destruct (Ht pre c post EU) as [Tb Ta]. rewrite Ecb in Tb. rewrite Eca in Ta.
    assert (HnB : ~ In (e_name e) (map cb_name B)).
    { rewrite HBn. intro H. apply builtin_names_in in H. destruct H as (e' & He' & Hb' & Hn').
      assert (e' = e).
      { pose proof (find_live_named _ _ e (rel_nodup _ _ R) Hel eq_refl) as F1.
        pose proof (find_live_named _ _ e' (rel_nodup _ _ R) He' Hn') as F2. congruence. }
      subst e'. congruence. }
    rewrite EU in HsU.
    destruct (simple_loop_sides_back pre c post (map cb_name B) s HsU (bo_nodup _ _ OK)) as [SB SA].
    { now rewrite Ecn. } { now rewrite Ecn. }
    assert (LiveP : forall t, btgt F (map cb_name (B ++ pre)) (map cb_name (B ++ U)) t -> is_none t = false ->
                    is_live (r_live r) t = true -> In t (map cb_name B ++ map cb_name pre)).
    { intros t T Hn Hl. apply is_live_true in Hl. rewrite <- map_app.
      destruct T as [T|(_ & _ & [T|T])]; [congruence|exact T|].
      exfalso. apply T. fold cs. rewrite <- Hcs. apply (rel_names _ _ R). exact Hl. }
    apply andb_true_iff. split.
    + destruct (is_none (e_before e)) eqn:En; [reflexivity|].
      rewrite (btgt_nostar _ _ _ _ Tb).
      destruct (is_live (r_live r) (e_before e)) eqn:El; [|reflexivity]. cbn.
      apply ord_fires; [rewrite Hfst; exact Nd|]. rewrite Hfst.
      pose proof (LiveP _ Tb En El) as HinB.
      rewrite <- Ecn. rewrite <- Ecb in HinB, En |- *. apply SB; assumption.
    + destruct (is_none (e_after e)) eqn:En; [reflexivity|].
      rewrite (btgt_nostar _ _ _ _ Ta).
      destruct (is_live (r_live r) (e_after e)) eqn:El; [|reflexivity]. cbn.
      apply ord_fires; [rewrite Hfst; exact Nd|]. rewrite Hfst.
      pose proof (LiveP _ Ta En El) as HinB.
      assert (Hne : e_after e <> e_name e).
      { intro E. rewrite E in HinB. apply in_app_iff in HinB. tauto. }
      rewrite <- Ecn in Hne |- *. rewrite <- Eca in HinB, En, Hne |- *. apply SA; assumption.
  - (* built-in order *)
    unfold spec_builtin. rewrite Hfst, <- HBn.
    apply (proj2 (list_eqb_spec String.eqb String.eqb_eq _ _)).
    rewrite (Fl (mem (map cb_name B))).
    + apply filter_all. intros x Hx. apply mem_true, Hx.
    + intros c _. destruct (mem (map cb_name B) (cb_name c)) eqn:Em; [right; apply mem_true, Em|left; reflexivity].
Qed.

(* ------------------------------------------------------------------ list splitting helpers *)
Lemma snoc_split : forall A (U : list A) c pre d post,
  U ++ [c] = pre ++ d :: post ->
  (exists post', post = post' ++ [c] /\ U = pre ++ d :: post') \/ (pre = U /\ d = c /\ post = []).
Proof.
  intros A U. induction U as [|x U IH]; intros c pre d post E.
  - right. destruct pre as [|y pre]; cbn in E.
    + injection E as -> <-. auto.
    + injection E as _ E. destruct pre; discriminate.
  - destruct pre as [|y pre]; cbn in E.
    + injection E as -> <-. left. exists U. auto.
    + injection E as -> E. destruct (IH _ _ _ _ E) as [(post' & -> & ->)|(-> & -> & ->)].
      * left. exists post'. auto.
      * right. auto.
Qed.

Lemma filter_split : forall A (f : A -> bool) U pre' d post',
  filter f U = pre' ++ d :: post' ->
  exists pre post, U = pre ++ d :: post /\ filter f pre = pre' /\ filter f post = post'.
Proof.
  intros A f U. induction U as [|x U IH]; intros pre' d post' E; cbn in E.
  - destruct pre'; discriminate.
  - destruct (f x) eqn:Ef.
    + destruct pre' as [|y pre']; cbn in E.
      * injection E as -> E. exists [], U. auto.
      * injection E as -> E. destruct (IH _ _ _ E) as (pre & post & -> & <- & <-).
        exists (y :: pre), post. cbn. rewrite Ef. auto.
    + destruct (IH _ _ _ E) as (pre & post & -> & <- & <-).
      exists (x :: pre), post. cbn. rewrite Ef. auto.
Qed.
