(* C13_Vals2.v — values set by before-hooks, part 2: tables and errors through the steps of a pipeline. *)
From Verif Require Import Base C13_Model C13_Check C13_Proofs C13_Proofs2 C13_Proofs3 C13_Proofs6 C13_Vals.
Open Scope Z_scope.

(* ---------------------------------------------------------------- steps that never touch the tables *)
(* errors only accumulate; the tables are the statement's business *)
Definition quietT (s s' : S) : Prop :=
  s_tbl s' = s_tbl s /\ (is_nil (s_err s') = true -> is_nil (s_err s) = true).

Lemma quietT_refl : forall s, quietT s s.
Proof. intro s. split; auto. Qed.
Lemma quietT_trans : forall a b c, quietT a b -> quietT b c -> quietT a c.
Proof. intros a b c [T1 E1] [T2 E2]. split; [congruence | auto]. Qed.

Lemma add_err_quietT : forall e s, quietT s (add_err e s).
Proof. intros e s. split; [reflexivity|]. cbn. rewrite is_nil_app_cons. discriminate. Qed.

Lemma set_column_quietT : forall c i v s, quietT s (set_column c i v s).
Proof.
  intros c i v s. unfold set_column.
  destruct (c_dest c); destruct (sh_cont (c_shape c)); try destruct (sh_outer_ptr (c_shape c));
    try (split; [reflexivity | cbn -[set_nth_val set_rec_val]; auto; fail]);
    (split; [reflexivity | cbn; rewrite is_nil_app_cons; discriminate]).
Qed.

Lemma invoke_quietT : forall c h tag i s, quietT s (invoke c h tag i s).
Proof.
  intros c h tag i s. unfold invoke.
  set (s1 := set_k (s_k s + 1) (emit (THook h (ty_id (c_ty c)) tag (s_pool s)) s)).
  assert (Q1 : quietT s s1) by (split; [reflexivity | auto]).
  match goal with |- context [if ?b then set_column _ _ _ _ else _] => destruct b end;
    destruct (memz (s_k s) (c_fails c));
    repeat (first [exact Q1 | eapply quietT_trans; [|apply add_err_quietT] | eapply quietT_trans; [|apply set_column_quietT]]).
Qed.

Lemma fc_quietT : forall c hs vf tag i s, quietT s (snd (fc c hs vf tag i s)).
Proof.
  intros c hs vf tag i. induction hs as [|h hs IH]; intro s; [apply quietT_refl|].
  cbn [fc]. destruct (flag (c_ty c) h && in_mset vf (recv_of (c_ty c) h)); [|apply IH].
  cbn [snd]. eapply quietT_trans; [apply invoke_quietT | apply IH].
Qed.

Lemma loop_quietT : forall c hs recs i s, quietT s (loop c hs recs i s).
Proof.
  intros c hs recs. induction recs as [|r rs IH]; intros i s; [apply quietT_refl|].
  cbn [loop]. destruct (elem_addr (c_shape c) r); [|apply add_err_quietT].
  eapply quietT_trans; [apply fc_quietT | apply IH].
Qed.

Lemma call_method_quietT : forall c hs s, quietT s (call_method c hs s).
Proof.
  intros c hs s. unfold call_method. destruct (sh_cont (c_shape c)); try apply loop_quietT.
  destruct (s_recs s) as [|r l]; [apply quietT_refl|].
  pose proof (fc_quietT c hs VVal (m_tag r) 0%nat s) as A.
  destruct (fc c hs VVal (m_tag r) 0 s) as [called s1]. cbn [snd] in A.
  destruct called; [exact A|].
  destruct (sh_outer_ptr (c_shape c)); [apply fc_quietT | apply add_err_quietT].
Qed.

Lemma hooks_phase_quietT : forall c p s, quietT s (hooks_phase c p s).
Proof.
  intros c p s. unfold hooks_phase.
  match goal with |- context [if ?b then _ else _] => destruct b end; [apply call_method_quietT | apply quietT_refl].
Qed.

Lemma begin_tx_quietT : forall c s, quietT s (begin_tx c s).
Proof.
  intros c s. unfold begin_tx. destruct (_ && _); [|apply quietT_refl].
  destruct (s_pool s =? 0); [|apply quietT_refl]. split; [reflexivity | auto].
Qed.

(* commit keeps the tables; a rollback only happens with an error *)
Lemma commit_quietT : forall c s, is_nil (s_err (commit_or_rollback c s)) = true -> quietT s (commit_or_rollback c s).
Proof.
  intros c s. unfold commit_or_rollback. destruct (_ && _); [|intros _; apply quietT_refl].
  destruct (is_nil (s_err s)) eqn:E; cbn [s_err]; intro H; [|congruence].
  split; [reflexivity | auto].
Qed.

(* ---------------------------------------------------------------- steps that keep the rows of table T *)
Definition keepsT (T : table) (s s' : S) : Prop :=
  is_nil (s_err s') = true ->
  is_nil (s_err s) = true /\ forall g v, In (T, g, v) (s_tbl s) -> In (T, g, v) (s_tbl s').

Lemma quiet_keeps : forall T s s', quietT s s' -> keepsT T s s'.
Proof. intros T s s' [TB E] H. split; [auto|]. intros g v I. rewrite TB. exact I. Qed.

Lemma keepsT_trans : forall T a b c, keepsT T a b -> keepsT T b c -> keepsT T a c.
Proof.
  intros T a b c K1 K2 H. destruct (K2 H) as [E2 I2]. destruct (K1 E2) as [E1 I1]. split; [exact E1|].
  intros g v I. apply I2, I1, I.
Qed.

Lemma table_eqb_eq : forall a b, table_eqb a b = true -> a = b.
Proof. intros a b; destruct a, b; cbn; congruence. Qed.

Lemma fold_create_keeps : forall T c recs tb g v, c_table c <> T -> In (T, g, v) tb ->
  In (T, g, v) (fold_left (fun tb r => if c_keep c && has_row (c_table c) (m_tag r) tb then tb
                                       else upsert (c_table c) (m_tag r) (m_val r) tb) recs tb).
Proof.
  intros T c recs. induction recs as [|r l IH]; intros tb g v NE I; [exact I|].
  cbn [fold_left]. apply IH; [exact NE|].
  destruct (c_keep c && has_row (c_table c) (m_tag r) tb); [exact I|].
  apply upsert_keeps; [|exact I]. intro E. apply NE. congruence.
Qed.

Lemma stmt_create_keeps : forall T c s, c_table c <> T -> keepsT T s (stmt_create c s).
Proof.
  intros T c s NE. unfold stmt_create.
  destruct (is_nil (s_err s)) eqn:E; cbn [negb]; [|intro H; congruence].
  destruct (s_recs s) as [|r l]; [apply quiet_keeps, add_err_quietT|].
  destruct (existsb m_nil (r :: l)); [apply quiet_keeps, add_err_quietT|].
  intros _. split; [exact E|]. intros g v I. cbn [s_tbl set_tbl emit set_tr]. apply fold_create_keeps; assumption.
Qed.

Lemma leaf_create_keeps : forall T c s, c_table c <> T -> keepsT T s (leaf_create c s).
Proof.
  intros T c s NE H. unfold leaf_create in *.
  set (s1 := begin_tx c s) in *. set (s2 := hooks_phase c PBeforeCreate s1) in *.
  set (s3 := stmt_create c s2) in *. set (s4 := hooks_phase c PAfterCreate s3) in *.
  assert (K : keepsT T s (commit_or_rollback c s4)).
  { eapply keepsT_trans; [apply quiet_keeps, begin_tx_quietT|]. fold s1.
    eapply keepsT_trans; [apply quiet_keeps, hooks_phase_quietT|]. fold s2.
    eapply keepsT_trans; [apply stmt_create_keeps; exact NE|]. fold s3.
    eapply keepsT_trans; [apply quiet_keeps, hooks_phase_quietT|]. fold s4.
    apply quiet_keeps, commit_quietT. exact H. }
  exact (K H).
Qed.

Lemma save_assoc_recs : forall c t tb sg vals s, s_recs (save_assoc c t tb sg vals s) = s_recs s.
Proof. intros. unfold save_assoc. destruct vals; reflexivity. Qed.

Lemma app_nil_is_nil : forall {A} (a b : list A), is_nil (a ++ b) = true -> is_nil a = true /\ is_nil b = true.
Proof. intros A a b. destruct a; destruct b; cbn; auto; discriminate. Qed.

Lemma save_assoc_keeps : forall T c t tb sg vals s, tb <> T -> keepsT T s (save_assoc c t tb sg vals s).
Proof.
  intros T c t tb sg vals s NE. unfold save_assoc. destruct vals as [|v0 vr]; [apply quiet_keeps, quietT_refl|].
  set (cc := assoc_cx c t tb sg).
  set (s0 := mkS (s_k s) (s_err s) (s_tr s) (v0 :: vr) [] 0 (s_pool s) (s_ntx s) false (s_tbl s) (s_snap s)).
  set (s1 := leaf_create cc s0). cbn [s_err s_tbl]. intro H.
  destruct (is_nil (s_err s1)) eqn:E1.
  - destruct (leaf_create_keeps T cc s0 NE E1) as [_ I]. split; [exact H | exact I].
  - apply app_nil_is_nil in H. destruct H as [_ H]. congruence.
Qed.

Lemma save_before_keeps : forall T c a s, T <> TBosses -> keepsT T s (save_before_assoc c a s).
Proof.
  intros T c a s NE. unfold save_before_assoc. destruct (is_nil (s_err s)); [|apply quiet_keeps, quietT_refl].
  apply save_assoc_keeps. congruence.
Qed.

Lemma save_after_keeps : forall T c a s, T <> TKids -> T <> TPets -> a_keepers a = [] -> keepsT T s (save_after_assoc c a s).
Proof.
  intros T c a s N1 N2 NK. unfold save_after_assoc. rewrite NK. cbn [is_nil].
  destruct (is_nil (s_err s)); [|apply quiet_keeps, quietT_refl].
  eapply keepsT_trans; apply save_assoc_keeps; congruence.
Qed.

Lemma save_before_recs : forall c a s, s_recs (save_before_assoc c a s) = s_recs s.
Proof. intros. unfold save_before_assoc. destruct (is_nil (s_err s)); [apply save_assoc_recs | reflexivity]. Qed.
Lemma save_after_recs : forall c a s, a_keepers a = [] -> s_recs (save_after_assoc c a s) = s_recs s.
Proof.
  intros c a s NK. unfold save_after_assoc. rewrite NK. cbn [is_nil].
  destruct (is_nil (s_err s)); [rewrite !save_assoc_recs|]; reflexivity.
Qed.

(* ---------------------------------------------------------------- tags of scheduled events *)
Lemma sched_log_incl : forall ps k F e, In e (sched_log ps k F) -> In e (concat ps).
Proof.
  induction ps as [|p r IH]; intros k F e H; [exact H|].
  cbn [sched_log concat] in *. apply in_app_or in H. apply in_or_app. destruct H as [H|H]; [left; exact H|].
  right. destruct (no_fail _ _ _); [eapply IH; exact H | contradiction].
Qed.

Lemma gated_incl : forall s l e, In e (gated s l) -> In e l.
Proof. intros s l e. unfold gated. destruct (is_nil (s_err s)); [auto | contradiction]. Qed.

Lemma ph_event : forall c p tags e, In e (ph c p tags) ->
  In (snd e) tags /\ snd (fst e) = ty_id (c_ty c) /\ In (fst (fst e)) (fc_hooks p).
Proof.
  intros c p tags e. unfold ph. destruct (c_skip c); [contradiction|].
  unfold phase_events. rewrite in_flat_map. intros (g & Hg & He). unfold evs_of in He.
  apply in_map_iff in He. destruct He as (h & <- & Hh). apply filter_In in Hh. cbn. tauto.
Qed.

Lemma assoc_sched_tags : forall c t tb sg vals e, In e (concat (assoc_sched c t tb sg vals)) -> In (snd e) (map m_tag vals).
Proof.
  intros c t tb sg vals e. unfold assoc_sched, leaf_sched. cbn [concat]. rewrite app_nil_r.
  intro H. apply in_app_or in H. destruct H as [H|H]; apply ph_event in H; apply H.
Qed.
