(* C19_Facts.v — vocabulary of the facts regenerated from /repo by harness/facts/c19.go. *)
From Verif Require Import Base.

(* how a ConnPool.{Exec,Query,QueryRow,Prepare}Context call site is dominated by a DryRun test *)
Inductive site_class :=
| SIfNotDry         (* inside the body of `if ... && !x.DryRun && ... {` *)
| SAfterDryReturn   (* after `if x.DryRun || ... { return }` in an enclosing block *)
| SAfterVarReturn   (* after `v := !x.DryRun && ...; if !v { return }` *)
| SCallerGuard      (* in an unexported helper that is only ever entered through calls standing behind such a test
                       (in the caller, or in the caller's callers ...) and never used as a value *)
| SWrapper          (* inside a ConnPool implementation forwarding the call it received (prepared-statement wrappers) *)
| SUnknown.         (* the extractor could not find a dominating test *)

(* how an occurrence of the selector `.DryRun` is used *)
Inductive read_class :=
| RGuard            (* in the condition of an if statement *)
| RGuardVar         (* in the definition of a variable that is the condition of an early return *)
| RSet              (* assigned to *)
| ROther.

Definition site_guarded (c : site_class) : bool := match c with SUnknown => false | _ => true end.
Definition read_ok (c : read_class) : bool := match c with ROther => false | _ => true end.
Definition str_in (s : string) (l : list string) : bool := existsb (String.eqb s) l.
