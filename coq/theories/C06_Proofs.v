(* C06_Proofs.v — witnesses (refutations) and elementary facts about the HEAP model.
   The isolation proof itself is in C06_Proofs2.v .. *)
From Verif Require Import Base C06_Model.
Open Scope Z_scope.

(* ---- the Returning defect (fixed in /repo by 6cb0e65): witnesses against the OLD MergeClause body ---- *)
(* the lead's witness: three Returning merges -> Session -> two children add a column each *)
Definition wit_returning : list step :=
  [Derive 0 (OReturning (Some ([10], 1%nat))); Derive 1 (OReturning (Some ([11], 1%nat)));
   Derive 2 (OReturning (Some ([12], 1%nat))); Sess 3 SPlain;
   Derive 4 (OReturning (Some ([13], 1%nat))); Derive 4 (OReturning (Some ([14], 1%nat)));
   Finish 5 FDelete].
(* a caller-made slice with spare capacity: no dependence on the growth policy *)
Definition wit_returning_cap : list step :=
  [Derive 0 (OReturning (Some ([10; 11; 12], 8%nat))); Sess 1 SPlain;
   Derive 2 (OReturning (Some ([13], 1%nat))); Derive 2 (OReturning (Some ([14], 1%nat)));
   Finish 3 FDelete].

Definition isolated (st : state) : Prop :=
  forall chain out, In (chain, out) (st_outs st) -> out = render_alone chain.

Definition out_eqb (a b : list Z * list Z) : bool :=
  zlist_eqb (fst a) (fst b) && zlist_eqb (snd a) (snd b).
Lemma zlist_eqb_spec : forall a b, zlist_eqb a b = true <-> a = b.
Proof. apply list_eqb_spec. intros x y. apply Z.eqb_eq. Qed.
Lemma out_eqb_spec : forall a b, out_eqb a b = true <-> a = b.
Proof.
  intros [a1 a2] [b1 b2]. unfold out_eqb. cbn [fst snd]. rewrite andb_true_iff, !zlist_eqb_spec.
  split; [intros [-> ->]; reflexivity | intro E; inversion E; auto].
Qed.
Definition isolatedb (st : state) : bool :=
  forallb (fun x => out_eqb (snd x) (render_alone (fst x))) (st_outs st).
Lemma isolatedb_spec : forall st, isolatedb st = true <-> isolated st.
Proof.
  intro st. unfold isolatedb, isolated. rewrite forallb_forall. split.
  - intros H chain out Hin. apply out_eqb_spec. exact (H (chain, out) Hin).
  - intros H [chain out] Hin. apply out_eqb_spec. cbn [fst snd]. apply H, Hin.
Qed.

Lemma returning_refuted :
  exists hist, ~ isolated (run_hist go_grow old_md hist).
Proof.
  exists wit_returning. intro H. apply isolatedb_spec in H. vm_compute in H. discriminate H.
Qed.

Lemma returning_refuted_any_grow : forall grow,
  exists hist, ~ isolated (run_hist grow old_md hist).
Proof.
  intro grow. exists wit_returning_cap. intro H. apply isolatedb_spec in H. vm_compute in H. discriminate H.
Qed.

(* with the proposed patch (copy before append) the same histories are isolated *)
Lemma returning_witness_patched :
  isolated (run_hist go_grow tree_md wit_returning) /\ isolated (run_hist go_grow tree_md wit_returning_cap).
Proof. split; apply isolatedb_spec; vm_compute; reflexivity. Qed.
