(* C16_Check.v — correspondence checker for C16.  One case = one step that real gorm executed:
   model_agrees: the model of the code as it is (C16_Model.step_repo) returns the same record,
                 RowsAffected, error flag and table;
   spec_holds:   the property (C16_Spec.spec_step, chain read with Session/WithContext erased)
                 holds of what gorm returned. *)
From Verif Require Export Base C16_Model C16_Spec.
Open Scope Z_scope.

Record case := mk_case {
  c_tbl : table; c_now : Z; c_chain : list cel; c_fin : fin;
  (* observed from gorm *)
  k_ret : rec; k_rets : list rec (* the caller's slice after Save(&slice) *); k_ra : Z; k_err : bool; k_writes : Z; k_tbl : table;
  k_setup_failed : bool;    (* the harness could not set the table up / dump it *)
  k_ra_judged : bool        (* false: DO NOTHING slice create on a RETURNING dialect (see C16_Spec.spec_oc_slice) *)
}.

Definition obs_of (c : case) : obs := mk_obs (k_ret c) (k_ra c) (k_err c) (k_writes c) (k_tbl c).

Definition model_agrees (c : case) : bool :=
  let m := step_repo (c_tbl c) (c_now c) (c_chain c) (c_fin c) in
  negb (k_setup_failed c)
  (* the hypotheses of model_meets_spec hold of this case *)
  && (is_composite (c_fin c) || sortedb (c_tbl c)) && (in_domain (c_chain c) (c_fin c) || slice_dom (c_fin c))
  (* composite-key tables: no STORED row has a zero-valued key member (a value may have one) *)
  && (negb (is_composite (c_fin c)) || forallb (fun r => negb (ckey_zero r)) (c_tbl c))
  && Bool.eqb (k_err c) (res_err m)
  && (k_err c || rec_eqb (k_ret c) (res_ret m))
  && list_eqb rec_eqb (k_rets c) (step_rets (c_tbl c) (c_now c) (c_fin c))
  && (negb (k_ra_judged c) || (k_ra c =? res_ra m))
  && (k_writes c =? res_writes m)
  && tbl_eqb (k_tbl c) (res_tbl m).

Definition spec_holds (c : case) : bool :=
  negb (k_setup_failed c)
  && spec_case (c_tbl c) (c_now c) (c_chain c) (c_fin c) (k_rets c) (k_ra_judged c) (obs_of c).

Definition check_case (c : case) : N := code_of (model_agrees c) (spec_holds c).
