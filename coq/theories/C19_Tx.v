(* C19_Tx.v — user transaction blocks and savepoints around operations (model, no proofs).
   Modelled code (as it is in /repo now):
     finisher_api.go  DB.Transaction (ConnPool is a TxCommitter: nested block = SavePoint(sp<id>) ...
                      RollbackTo(sp<id>) when the closure fails; else Begin ... Commit / Rollback),
                      DB.SavePoint / DB.RollbackTo (the dialector's SavePoint / RollbackTo)
     gorm.io/driver/sqlite  SavePoint = tx.Exec("SAVEPOINT " + name), RollbackTo = tx.Exec("ROLLBACK TO
                      SAVEPOINT " + name): a raw-exec operation on its own Statement, i.e. it goes through
                      callbacks.RawExec and its DryRun test; the error of that Exec stays on the instance
                      Exec made and is dropped
     callbacks/transaction.go  BeginTransaction inside a transaction: db.Begin() answers
                      ErrInvalidTransaction, which is ignored: no default transaction of its own
   A script is what a closure does with the handle it gets: operations (each on a fresh Statement),
   nested blocks, explicit savepoints.  The savepoint names gorm invents (maphash) are numbered in the
   order of creation: sp1, sp2, ... (the harness renames them the same way). *)
From Verif Require Import Base C01_Model C19_Model.

Inductive tstep :=
| TOp (k : opk) (b : built)                              (* an operation on the handle of the closure *)
| TBlock (fail swallow : bool) (body : list tstep)       (* tx.Transaction(func(tx2) { body; return err-if-fail }) ;
                                                            swallow: the enclosing closure ignores its error *)
| TSave (name : string)                                  (* tx.SavePoint(name) *)
| TRollTo (name : string).                               (* tx.RollbackTo(name) *)

Record tst := mk_tst {
  ts : rst;                                   (* r_err = the error the closure is about to return *)
  tn : N;                                     (* savepoints invented so far *)
  tshown : list (string * list scalar)        (* Statement.SQL / Vars of every operation, in order *)
}.

(* a fresh Statement on the same connection: log and oracle go on *)
Definition fresh (s : rst) : rst := mk_rst false "" [] false 0 (r_log s) (r_or s).
Definition keep_err (e : bool) (s : rst) : rst := mk_rst e "" [] false 0 (r_log s) (r_or s).

(* tx.Exec(sql) as the dialector's SavePoint / RollbackTo call it: the raw processor on a Statement
   of its own; its error is dropped *)
Definition raw_exec (c : cfg) (sql : string) (s : rst) : rst :=
  let s1 := execute c OpRaw (mk_built sql [] false false false) (fresh s) in
  keep_err (r_err s) s1.

Definition sp_name (n : N) : string := l2s (s2l "sp" ++ dec_n n).
Definition savepoint_sql (name : string) : string := l2s (s2l "SAVEPOINT " ++ s2l name).
Definition rollback_to_sql (name : string) : string := l2s (s2l "ROLLBACK TO SAVEPOINT " ++ s2l name).

(* inside a transaction the operations do not open a default transaction of their own *)
Definition op_cfg (c : cfg) (intx : bool) : cfg := mk_cfg (c_dry c) (c_skip c || intx).

Fixpoint run_step (c : cfg) (intx : bool) (t : tstep) (st : tst) {struct t} : tst :=
  let run_list := fix run_list (l : list tstep) (intx' : bool) (st : tst) {struct l} : tst :=
    match l with
    | [] => st
    | t' :: r => let st1 := run_step c intx' t' st in
                 if r_err (ts st1) then st1 else run_list r intx' st1
    end in
  match t with
  | TOp k b =>
    let s1 := execute (op_cfg c intx) k b (fresh (ts st)) in
    mk_tst (keep_err (r_err s1) s1) (tn st) (tshown st ++ [shown s1])
  | TSave name => mk_tst (raw_exec c (savepoint_sql name) (ts st)) (tn st) (tshown st)
  | TRollTo name => mk_tst (raw_exec c (rollback_to_sql name) (ts st)) (tn st) (tshown st)
  | TBlock fail swallow body =>
    if intx then
      (* nested: SavePoint, closure, RollbackTo when it failed *)
      let n1 := N.succ (tn st) in
      let s1 := raw_exec c (savepoint_sql (sp_name n1)) (ts st) in
      let st2 := run_list body true (mk_tst s1 n1 (tshown st)) in
      let e := r_err (ts st2) || fail in
      let s3 := if e then raw_exec c (rollback_to_sql (sp_name n1)) (ts st2) else ts st2 in
      mk_tst (keep_err (e && negb swallow) s3) (tn st2) (tshown st2)
    else
      (* outermost: Begin (a driver call also in DryRun), closure, Commit or Rollback *)
      let (s1, d) := call EBegin (fresh (ts st)) in
      if d_err d then mk_tst (keep_err (negb swallow) s1) (tn st) (tshown st) else
      let st2 := run_list body true (mk_tst s1 (tn st) (tshown st)) in
      let e := r_err (ts st2) || fail in
      let (s3, d3) := call (if e then ERollback else ECommit) (ts st2) in
      mk_tst (keep_err ((e || d_err d3) && negb swallow) s3) (tn st2) (tshown st2)
  end.

Fixpoint run_steps (c : cfg) (intx : bool) (l : list tstep) (st : tst) {struct l} : tst :=
  match l with
  | [] => st
  | t :: r => let st1 := run_step c intx t st in
              if r_err (ts st1) then st1 else run_steps c intx r st1
  end.

(* a script as a whole: [encl] = the handle was made inside Begin() ... Rollback() of the caller
   (tx := db.Begin(); h := tx.Session(&Session{DryRun: ...}); script on h; tx.Rollback()) *)
Definition run_script (c : cfg) (encl : bool) (l : list tstep) (s0 : rst) : tst :=
  if encl then
    let (s1, d) := call EBegin s0 in
    if d_err d then mk_tst (set_err s1) 0 [] else
    let st2 := run_steps c true l (mk_tst s1 0 []) in
    mk_tst (keep_err (r_err (ts st2)) (fst (call ERollback (ts st2)))) (tn st2) (tshown st2)
  else run_steps c false l (mk_tst s0 0 []).

(* the statements of a log that are not savepoint control *)
Definition is_sp_sql (s : string) : bool :=
  prefix (s2l "SAVEPOINT ") (s2l s) || prefix (s2l "ROLLBACK TO SAVEPOINT ") (s2l s).
Fixpoint main_stmts (l : list ev) : list (string * list scalar) :=
  match l with
  | [] => []
  | EStmt _ q v :: r => if is_sp_sql q then main_stmts r else (q, v) :: main_stmts r
  | _ :: r => main_stmts r
  end.
