(* C05_Proofs.v — lemmas about the C05 model: one pipeline is all-or-nothing for every body,
   every set of failing driver operations and failing hooks; the reported error is exactly the
   accumulation of the failed events; every transaction that was begun is ended. *)
From Verif Require Import Base C05_Model C05_Check.


(* db.Error is exactly the accumulation of the failed events, in order *)
Definition ErrInv (s : st) : Prop := s_err s = map ev_errk (filter ev_failed (rev (s_out s))).

Lemma errinv_push_ok : forall err out e, ev_failed e = false ->
  err = map ev_errk (filter ev_failed (rev out)) -> err = map ev_errk (filter ev_failed (rev (e :: out))).
Proof. intros err out e He H. cbn [rev]. rewrite filter_app. cbn [filter]. rewrite He, app_nil_r. exact H. Qed.
Lemma errinv_push_fail : forall err out e, ev_failed e = true ->
  err = map ev_errk (filter ev_failed (rev out)) ->
  err ++ [ev_errk e] = map ev_errk (filter ev_failed (rev (e :: out))).
Proof. intros err out e He H. cbn [rev]. rewrite filter_app, map_app. cbn [filter]. rewrite He. cbn [map]. rewrite H. reflexivity. Qed.

Lemma app_not_nil : forall (A : Type) (l : list A) x, l ++ [x] <> [].
Proof. intros A l x H. destruct l; discriminate. Qed.

Section Facts.
Variable dfault : nat -> bool.
Variable hfault : nat -> bool.

Record step_ok (s s' : st) (e : ev) : Prop := {
  so_db : s_db s' = s_db s;
  so_commits : s_commits s' = s_commits s;
  so_open : s_open s' = s_open s;
  so_stop : s_stop s' = s_stop s;
  so_sid : s_sid s' = (s_sid s + (if is_stmt e then 1 else 0))%nat;
  so_mono : s_err s <> [] -> s_err s' <> [];
  so_clean : s_err s' = [] -> s_err s = [] /\ s_work s' = s_work s ++ (if is_stmt e then [s_sid s] else []);
  so_inv : ErrInv s -> ErrInv s'
}.

Lemma step_facts : forall s e, step_ok s (step dfault hfault s e) e.
Proof.
  assert (Same : forall s e, is_stmt e = false -> step_ok s s e).
  { intros s e He. apply Build_step_ok; rewrite ?He; auto; try lia.
    intro H; split; [exact H | rewrite app_nil_r; reflexivity]. }
  intros s e. destruct e as [[| | |] f | f |]; cbn [step]; try (apply Same; reflexivity).
  - (* statement *)
    destruct (is_nil (s_err s)) eqn:En.
    + unfold issue; cbn [s_err s_nops s_out s_live s_stop s_nhooks s_sid s_work s_db s_commits s_open].
      destruct (dfault (s_nops s)) eqn:Ef;
        apply Build_step_ok; cbn [s_err s_nops s_out s_live s_stop s_nhooks s_sid s_work s_db s_commits s_open is_stmt];
        try reflexivity; try lia.
      * intros _; apply app_not_nil.
      * intro H; contradiction (app_not_nil _ _ _ H).
      * unfold ErrInv; cbn [s_err s_out]. intro H. apply (errinv_push_fail _ (s_out s) (EOp DStmt true) eq_refl H).
      * auto.
      * intro H; split; [exact H | reflexivity].
      * unfold ErrInv; cbn [s_err s_out]. intro H. apply (errinv_push_ok _ (s_out s) (EOp DStmt false) eq_refl H).
    + apply Build_step_ok; cbn [s_err s_nops s_out s_live s_stop s_nhooks s_sid s_work s_db s_commits s_open is_stmt];
        try reflexivity; try lia; auto.
      intro H. rewrite H in En. discriminate.
  - (* hook *)
    destruct (s_live s); [|apply Same; reflexivity].
    destruct (hfault (s_nhooks s)) eqn:Ef;
      apply Build_step_ok; cbn [s_err s_nops s_out s_live s_stop s_nhooks s_sid s_work s_db s_commits s_open is_stmt];
      try reflexivity; try lia.
    + intros _; apply app_not_nil.
    + intro H; contradiction (app_not_nil _ _ _ H).
    + unfold ErrInv; cbn [s_err s_out]. intro H. apply (errinv_push_fail _ (s_out s) (EHook true) eq_refl H).
    + auto.
    + intro H; split; [exact H | rewrite app_nil_r; reflexivity].
    + unfold ErrInv; cbn [s_err s_out]. intro H. apply (errinv_push_ok _ (s_out s) (EHook false) eq_refl H).
  - (* mark *)
    apply Build_step_ok; cbn [s_err s_nops s_out s_live s_stop s_nhooks s_sid s_work s_db s_commits s_open is_stmt];
      try reflexivity; try lia; auto.
    intro H; split; [exact H | rewrite app_nil_r; reflexivity].
Qed.

(* a whole body *)
Lemma body_facts : forall b s, let s' := fold_left (step dfault hfault) b s in
  s_db s' = s_db s /\ s_commits s' = s_commits s /\ s_open s' = s_open s /\ s_stop s' = s_stop s
  /\ s_sid s' = (s_sid s + nstmts b)%nat
  /\ (s_err s <> [] -> s_err s' <> [])
  /\ (s_err s' = [] -> s_err s = [] /\ s_work s' = s_work s ++ seq (s_sid s) (nstmts b))
  /\ (ErrInv s -> ErrInv s').
Proof.
  induction b as [|e b IH]; intro s; cbn [fold_left].
  - unfold nstmts; cbn. rewrite Nat.add_0_r, app_nil_r. repeat split; auto.
  - destruct (step_facts s e) as [A1 A2 A3 A4 A5 A6 A7 A8].
    specialize (IH (step dfault hfault s e)). cbv zeta in IH.
    destruct IH as (B1 & B2 & B3 & B4 & B5 & B6 & B7 & B8).
    unfold nstmts in *. cbn [filter]. cbv zeta.
    split; [congruence|]. split; [congruence|]. split; [congruence|]. split; [congruence|].
    split. { rewrite B5, A5. destruct (is_stmt e); cbn [length]; lia. }
    split. { auto. }
    split; [|auto].
    intro H. destruct (B7 H) as [C1 C2]. destruct (A7 C1) as [D1 D2]. split; [exact D1|].
    rewrite C2, D2, A5. destruct (is_stmt e); cbn [length seq].
    + rewrite <- app_assoc. cbn [app]. rewrite Nat.add_1_r. reflexivity.
    + rewrite app_nil_r, Nat.add_0_r. reflexivity.
Qed.

Lemma issue_inv : forall k s f s1, issue dfault k s = (f, s1) -> ErrInv s -> ErrInv s1.
Proof.
  intros k s f s1 H Hi. unfold issue in H. inversion H; subst. unfold ErrInv in *; cbn [s_err s_out].
  destruct (dfault (s_nops s)).
  - apply (errinv_push_fail _ (s_out s) (EOp k true) eq_refl Hi).
  - apply (errinv_push_ok _ (s_out s) (EOp k false) eq_refl Hi).
Qed.

(* ONE PIPELINE, entered with db.Error == nil: it either commits everything (no event failed)
   or nothing (Error set, the operation stops); the transaction is ended either way *)
Lemma pipe_facts : forall s b, s_stop s = false -> s_err s = [] ->
  let s' := run_pipe dfault hfault s b in
  s_open s' = s_open s /\ s_sid s' = (s_sid s + nstmts b)%nat /\ (ErrInv s -> ErrInv s') /\
  ((s_err s' = [] /\ s_stop s' = false /\ s_db s' = s_db s ++ seq (s_sid s) (nstmts b)
     /\ s_commits s' = S (s_commits s))
   \/ (s_err s' <> [] /\ s_stop s' = true /\ s_db s' = s_db s /\ s_commits s' = s_commits s)).
Proof.
  intros s b Hstop Herr. unfold run_pipe. rewrite Hstop, Herr. cbn [is_nil negb]. cbv zeta.
  destruct (issue dfault DBegin s) as [f0 s0] eqn:Ei. unfold issue in Ei. inversion Ei; subst f0 s0. clear Ei.
  cbn [s_err s_nops s_out s_live s_stop s_nhooks s_sid s_work s_db s_commits s_open].
  destruct (dfault (s_nops s)) eqn:Ef.
  - (* BEGIN failed *)
    cbn [s_err s_open s_sid s_stop s_db s_commits s_out]. rewrite Herr.
    split; [reflexivity|]. split; [reflexivity|].
    split. { unfold ErrInv; cbn [s_err s_out]. intro H. rewrite Herr in H.
             apply (errinv_push_fail [] (s_out s) (EOp DBegin true) eq_refl H). }
    right. repeat split; auto. discriminate.
  - match goal with |- context [fold_left (step dfault hfault) b ?sx] => set (s1 := sx) end.
    pose proof (body_facts b s1) as HB. cbv zeta in HB.
    set (s2 := fold_left (step dfault hfault) b s1) in *.
    destruct HB as (B1 & B2 & B3 & B4 & B5 & B6 & B7 & B8).
    assert (I1 : ErrInv s -> ErrInv s1).
    { unfold ErrInv; subst s1; cbn [s_err s_out]. intro H. rewrite Herr in *.
      apply (errinv_push_ok [] (s_out s) (EOp DBegin false) eq_refl H). }
    subst s1. cbn [s_err s_open s_sid s_stop s_db s_commits s_out s_work] in *.
    destruct (is_nil (s_err s2)) eqn:En.
    + assert (Ee : s_err s2 = []) by (destruct (s_err s2); [reflexivity | discriminate]).
      destruct (B7 Ee) as [_ Hw]. cbn [app] in Hw.
      destruct (issue dfault DCommit s2) as [fc s3] eqn:Ei. unfold issue in Ei. inversion Ei; subst fc s3. clear Ei.
      destruct (dfault (s_nops s2)) eqn:Efc; cbn [s_err s_open s_sid s_stop s_db s_commits s_out s_work].
      * (* COMMIT failed *)
        rewrite Ee, B3. split; [lia|]. split; [exact B5|].
        split. { intro H. specialize (B8 (I1 H)). unfold ErrInv in *; cbn [s_err s_out]. rewrite Ee in B8.
                 apply (errinv_push_fail [] (s_out s2) (EOp DCommit true) eq_refl B8). }
        right. split; [discriminate|]. split; [reflexivity|]. split; [exact B1 | exact B2].
      * rewrite Ee, B3, Hw, B1, B2. split; [lia|]. split; [exact B5|].
        split. { intro H. specialize (B8 (I1 H)). unfold ErrInv in *; cbn [s_err s_out]. rewrite Ee in B8.
                 apply (errinv_push_ok [] (s_out s2) (EOp DCommit false) eq_refl B8). }
        left. repeat split; reflexivity.
    + (* an event of the body failed: ROLLBACK *)
      assert (Hne : s_err s2 <> []) by (intro H; rewrite H in En; discriminate).
      destruct (issue dfault DRollback s2) as [fr s3] eqn:Ei. unfold issue in Ei. inversion Ei; subst fr s3. clear Ei.
      cbn [s_err s_open s_sid s_stop s_db s_commits s_out s_work].
      rewrite B3. split; [lia|]. split; [exact B5|].
      split. { intro H. specialize (B8 (I1 H)). unfold ErrInv in *; cbn [s_err s_out].
               destruct (dfault (s_nops s2)).
               - apply (errinv_push_fail _ (s_out s2) (EOp DRollback true) eq_refl B8).
               - apply (errinv_push_ok _ (s_out s2) (EOp DRollback false) eq_refl B8). }
      right. split. { destruct (dfault (s_nops s2)); [apply app_not_nil | exact Hne]. }
      split; [reflexivity|]. split; [exact B1 | exact B2].
Qed.

(* after a failed pipeline nothing more happens *)
Lemma pipe_stopped : forall s b, s_stop s = true ->
  let s' := run_pipe dfault hfault s b in
  s_open s' = s_open s /\ s_sid s' = (s_sid s + nstmts b)%nat /\ s_err s' = s_err s /\ s_stop s' = true
  /\ s_db s' = s_db s /\ s_commits s' = s_commits s /\ s_out s' = s_out s.
Proof. intros s b H. unfold run_pipe. rewrite H. cbn. repeat split; reflexivity. Qed.

End Facts.
