(* C05_Proofs.v — lemmas about the C05 model. *)
From Verif Require Import Base C05_Model C05_Check.

Lemma run_op_nil : forall df hf db, s_db (run_op df hf [] db) = db.
Proof. reflexivity. Qed.
