(* C13_Vals3.v — values set by before-hooks, part 3: the create pipeline end to end, and [run]. *)
From Verif Require Import Base C13_Model C13_Check C13_Proofs C13_Proofs2 C13_Proofs3 C13_Proofs4 C13_Proofs6 C13_Vals C13_Vals2.
Open Scope Z_scope.

Lemma is_nil_true : forall {A} (l : list A), is_nil l = true -> l = [].
Proof. intros A l; destruct l; [reflexivity | discriminate]. Qed.

Lemma hstep_err_back : forall F s s' e, hstep F s s' e -> is_nil (s_err s') = true -> is_nil (s_err s) = true.
Proof. intros F s s' e [_ _ _ E] H. rewrite E in H. apply andb_prop in H. apply H. Qed.

Lemma TR_hstep : forall o t orig F s s' evs,
  hstep F s s' evs -> s_recs s' = s_recs s ->
  (forall e r0, In e evs -> In r0 orig -> ev_of t (m_tag r0) e && is_before_save_hook (fst (fst e)) = false) ->
  TR o t orig s -> TR o t orig s'.
Proof. intros o t orig F s s' evs [_ H K _] R I T. eapply TR_frame; eassumption. Qed.

Lemma begin_tx_recs : forall c s, s_recs (begin_tx c s) = s_recs s.
Proof. intros c s. unfold begin_tx. destruct (_ && _); [destruct (s_pool s =? 0)|]; reflexivity. Qed.

Lemma ev_of_tag_false : forall t g e, snd e <> g -> ev_of t g e = false.
Proof. intros t g e NE. unfold ev_of. destruct (Z.eqb_spec (snd e) g); [congruence | apply andb_false_r]. Qed.

Lemma after_hooks_not_before : forall h, In h (fc_hooks PAfterCreate) \/ In h (fc_hooks PAfterUpdate) -> is_before_save_hook h = false.
Proof. intros h [H|H]; cbn in H; destruct H as [<-|[<-|[]]]; reflexivity. Qed.

Lemma in_row_has : forall t g v tb, In (t, g, v) tb -> row_has t g v tb = true.
Proof.
  intros t g v tb H. unfold row_has. apply existsb_exists. exists (t, g, v). split; [exact H|].
  unfold row_eqb. cbn [fst snd]. rewrite !Z.eqb_refl. destruct t; reflexivity.
Qed.

Definition tags_disjoint (a b : list mrec) : Prop := forall x y, In x a -> In y b -> m_tag x <> m_tag y.

Section CreateVals.
  Variables (o : op) (c : cx) (a : assocs).
  Hypothesis SC : self_cx o c.
  Hypothesis CK : c_keep c = false.
  Hypothesis TB1 : c_table c <> TBosses.
  Hypothesis TB2 : c_table c <> TKids.
  Hypothesis TB3 : c_table c <> TPets.
  Hypothesis AO : assocs_ok c a.
  Hypothesis U1 : uniform_phase (c_shape c) (c_ty c) (fc_hooks PBeforeCreate).
  Hypothesis U2 : uniform_phase (c_shape c) (c_ty c) (fc_hooks PAfterCreate).

  Lemma create_body_vals : forall s orig,
    goodk (c_shape c) (keys s) -> NoDup (map m_tag orig) ->
    tags_disjoint orig (a_boss a ++ a_kids a ++ a_pets a) ->
    TR o (c_ty c) orig s ->
    let sf := cu_body c a PBeforeCreate PAfterCreate stmt_create s in
    is_nil (s_err sf) = true ->
    forall r0, In r0 orig -> In (c_table c, m_tag r0, want o (c_ty c) (hooks_of (s_tr sf)) r0) (s_tbl sf).
  Proof.
    intros s orig G ND DJ T sf HF r0 IN0. subst sf. unfold cu_body in *.
    destruct AO as (_ & _ & _ & _ & NK).
    set (tags := map fst (keys s)).
    set (s1 := begin_tx c s) in *.
    pose proof (begin_tx_step (c_fails c) c s) as B. fold s1 in B.
    pose proof (hs_keys' _ _ _ _ B) as K1.
    assert (G1 : goodk (c_shape c) (keys s1)) by (rewrite K1; exact G).
    set (s2 := hooks_phase c PBeforeCreate s1) in *.
    assert (P1 := hooks_phase_step' c PBeforeCreate s1 tags G1 U1 ltac:(rewrite K1; reflexivity)). fold s2 in P1.
    pose proof (hs_keys' _ _ _ _ P1) as K2.
    set (s3 := save_before_assoc c a s2) in *.
    pose proof (save_before_step c a s2 AO) as SB. fold s3 in SB.
    pose proof (hs_keys' _ _ _ _ SB) as K3.
    assert (G3 : goodk (c_shape c) (keys s3)) by (rewrite K3, K2; exact G1).
    set (s4 := stmt_create c s3) in *.
    pose proof (stmt_create_step (c_fails c) c s3 G3) as ST. fold s4 in ST.
    pose proof (hs_keys' _ _ _ _ ST) as K4.
    set (s5 := save_after_assoc c a s4) in *.
    pose proof (save_after_step c a s4 AO) as SA. fold s5 in SA.
    pose proof (hs_keys' _ _ _ _ SA) as K5.
    assert (G5 : goodk (c_shape c) (keys s5)) by (rewrite K5, K4; exact G3).
    set (s6 := hooks_phase c PAfterCreate s5) in *.
    assert (P2 := hooks_phase_step' c PAfterCreate s5 tags G5 U2 ltac:(rewrite K5, K4, K3, K2, K1; reflexivity)). fold s6 in P2.
    pose proof (commit_step (c_fails c) c s6) as CM.
    (* no error anywhere on the way *)
    pose proof (hstep_err_back _ _ _ _ CM HF) as E6.
    pose proof (hstep_err_back _ _ _ _ P2 E6) as E5.
    pose proof (hstep_err_back _ _ _ _ SA E5) as E4.
    pose proof (hstep_err_back _ _ _ _ ST E4) as E3.
    (* the records up to the statement *)
    assert (T1 : TR o (c_ty c) orig s1).
    { eapply TR_hstep; [exact B | apply begin_tx_recs | intros e r [] | exact T]. }
    assert (T2 : TR o (c_ty c) orig s2) by (apply hooks_phase_TR; [exact SC | exact ND | left; reflexivity | exact T1]).
    assert (IRR : forall vals t tb sg e r, In e (concat (assoc_sched c t tb sg vals)) -> In r orig ->
                  (forall y, In y vals -> In y (a_boss a ++ a_kids a ++ a_pets a)) ->
                  ev_of (c_ty c) (m_tag r) e && is_before_save_hook (fst (fst e)) = false).
    { intros vals t tb sg e r He Hr SUB. apply assoc_sched_tags in He. apply in_map_iff in He.
      destruct He as (y & Ey & Hy). rewrite ev_of_tag_false; [reflexivity|].
      rewrite <- Ey. intro X. apply (DJ r y Hr (SUB y Hy)). congruence. }
    assert (T3 : TR o (c_ty c) orig s3).
    { eapply TR_hstep; [exact SB | apply save_before_recs | | exact T2].
      intros e r He Hr. apply gated_incl, sched_log_incl in He. unfold before_sched in He.
      eapply IRR; [exact He | exact Hr |]. intros y Hy. apply in_or_app. left. exact Hy. }
    (* the statement stores what the records hold *)
    destruct T3 as (K3' & TG3 & V3).
    destruct (In_nth_error _ _ IN0) as (j & Hj).
    destruct (V3 j r0 Hj) as (r & Nr & Tg & Nl & Vl).
    assert (ST4 : In (c_table c, m_tag r, m_val r) (s_tbl s4)).
    { apply stmt_create_stores; [exact CK | apply is_nil_true; exact E3 | apply (goodk_no_nil _ _ G3)
                                | rewrite TG3; exact ND | eapply nth_error_In; exact Nr]. }
    rewrite Tg, Vl in ST4.
    (* the rows survive the rest of the pipeline *)
    assert (KP : keepsT (c_table c) s4 (commit_or_rollback c s6)).
    { eapply keepsT_trans; [apply save_after_keeps; [exact TB2 | exact TB3 | exact NK]|]. fold s5.
      eapply keepsT_trans; [apply quiet_keeps, hooks_phase_quietT|]. fold s6.
      apply quiet_keeps, commit_quietT. exact HF. }
    destruct (KP HF) as [_ KI]. specialize (KI _ _ ST4).
    (* ... and nothing later in the log is a before-hook of the record *)
    assert (WE : want o (c_ty c) (hooks_of (s_tr (commit_or_rollback c s6))) r0 = want o (c_ty c) (hooks_of (s_tr s3)) r0).
    { destruct CM as [_ HC _ _]. destruct P2 as [_ HP _ _]. destruct SA as [_ HA _ _]. destruct ST as [_ HS _ _].
      rewrite HC, HP, HA, HS, !app_nil_r. unfold want.
      rewrite last_set_app_irrelevant.
      - rewrite last_set_app_irrelevant; [reflexivity|].
        intros e He. apply gated_incl, sched_log_incl in He. unfold after_sched in He. rewrite concat_app in He.
        apply in_app_or in He. destruct He as [He|He].
        + eapply IRR; [exact He | exact IN0 |]. intros y Hy. apply in_or_app. right. apply in_or_app. left. exact Hy.
        + eapply IRR; [exact He | exact IN0 |]. intros y Hy. apply in_or_app. right. apply in_or_app. right. exact Hy.
      - intros e He. apply gated_incl, sched_log_incl in He. cbn [concat] in He. rewrite app_nil_r in He.
        apply ph_event in He. destruct He as (_ & _ & Hh).
        rewrite (after_hooks_not_before _ (or_introl Hh)). apply andb_false_r. }
    rewrite WE. exact KI.
  Qed.
End CreateVals.

(* ---------------------------------------------------------------- [run]: Create, and Save when it inserts *)
Definition create_shaped (o : op) : Prop :=
  o_kind o = OCreate \/ (o_kind o = OSave /\ save_is_create o = true).

(* per-record SetColumn (not the fromCallbacks form), records told apart by their tags *)
Definition vals_dom (o : op) : Prop :=
  x_setall (o_x o) = false /\ NoDup (map m_tag (o_recs o)) /\
  tags_disjoint (o_recs o) (a_boss (o_assocs o) ++ a_kids (o_assocs o) ++ a_pets (o_assocs o)).

Lemma TR_init : forall o, TR o (o_ty o) (o_recs o) (init_state o).
Proof.
  intro o. destruct (init_facts o) as (K0 & _ & H0 & _ & _).
  split; [rewrite K0, H0; reflexivity|]. split.
  - unfold init_state. destruct (o_txmode o); reflexivity.
  - intros j r0 Hj. exists r0. rewrite H0. unfold want. cbn.
    split; [|repeat split]. unfold init_state. destruct (o_txmode o); exact Hj.
Qed.

Lemma finish_tbl : forall o s, is_nil (s_err s) = true -> s_tbl (finish o s) = s_tbl s.
Proof. intros o s E. unfold finish. destruct (o_txmode o); try reflexivity. rewrite E. reflexivity. Qed.

Lemma create_shaped_body : forall o s, create_shaped o -> goodk (o_shape o) (rkeys (o_recs o)) ->
  run_body o s = cu_body (op_cx o (o_skip o) DSelf) (o_assocs o) PBeforeCreate PAfterCreate stmt_create s.
Proof.
  intros o s CS G. unfold run_body. destruct CS as [KD | [KD SI]]; rewrite KD.
  - rewrite (goodk_not_by_value o _ G). apply create_pipeline_eq.
  - unfold save_is_create in SI. destruct (sh_cont (o_shape o)); try apply create_pipeline_eq.
    unfold run_save_struct. destruct (o_recs o) as [|r l]; [|rewrite SI; apply create_pipeline_eq].
    exfalso. destruct G as (_ & _ & _ & NE & _). apply NE. reflexivity.
Qed.

Theorem run_create_values : forall o, op_ok o -> create_shaped o -> vals_dom o ->
  s_err (run o) = [] ->
  forall r, In r (o_recs o) ->
    In (TRecs, m_tag r, want o (o_ty o) (hooks_of (s_tr (run o))) r) (s_tbl (run o)).
Proof.
  intros o (U & OK) CS (XA & ND & DJ) HE r IN. unfold run in *.
  destruct (finish_facts o (run_body o (init_state o))) as (FH & FE & _). rewrite FE in HE. rewrite FH.
  assert (G : goodk (o_shape o) (rkeys (o_recs o)) /\ assocs_ok (op_cx o (o_skip o) DSelf) (o_assocs o)).
  { destruct CS as [KD | [KD _]]; rewrite KD in OK; tauto. }
  destruct G as [G AO].
  rewrite finish_tbl by (rewrite HE; reflexivity).
  rewrite (create_shaped_body o _ CS G) in *.
  destruct (init_facts o) as (_ & _ & _ & KS & _).
  apply (create_body_vals o (op_cx o (o_skip o) DSelf) (o_assocs o)) with (orig := o_recs o); try assumption; try discriminate; try reflexivity.
  - repeat split; try reflexivity; try exact XA. destruct G as (W & _). exact W.
  - apply U.
  - apply U.
  - rewrite KS. exact G.
  - apply TR_init.
  - rewrite HE. reflexivity.
Qed.

(* the checker's own clause [vals_ok], on the model's run: without association values it is exactly the
   statement about the operation's records *)
Theorem run_create_vals_ok : forall o, op_ok o -> create_shaped o -> vals_dom o ->
  a_boss (o_assocs o) = [] -> a_kids (o_assocs o) = [] -> a_pets (o_assocs o) = [] ->
  s_err (run o) = [] ->
  vals_ok o (hooks_of (s_tr (run o))) (s_tbl (run o)) = true.
Proof.
  intros o OK CS VD B K P HE. pose proof (run_create_values o OK CS VD HE) as RV.
  destruct VD as (XA & _ & _).
  assert (PC : op_pipe o = PiCreate).
  { unfold op_pipe. destruct CS as [KD | [KD SI]]; rewrite KD; [reflexivity|].
    unfold save_is_create in SI. destruct (sh_cont (o_shape o)); try reflexivity.
    destruct (o_recs o); [reflexivity | rewrite SI; reflexivity]. }
  unfold vals_ok. rewrite PC, XA, B, K, P. cbn [andb forallb]. rewrite andb_true_r.
  apply forallb_forall. intros r Hr. specialize (RV r Hr). unfold want in RV.
  destruct (last_set o (ev_of (o_ty o) (m_tag r)) (hooks_of (s_tr (run o)))); [|reflexivity].
  apply in_row_has. exact RV.
Qed.
