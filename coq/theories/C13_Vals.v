(* C13_Vals.v — values set by before-hooks, part 1: the in-memory records through a hook phase.
   The invariant [TR]: every record of the statement holds the LAST value one of its own before-hooks
   asked for with SetColumn (read off the hook log with the checker's own [last_set]), or its original
   value when none asked. *)
From Verif Require Import Base C13_Model C13_Check C13_Proofs C13_Proofs2 C13_Proofs6.
Open Scope Z_scope.

(* ---------------------------------------------------------------- last_set over a growing log *)
Definition ls_step (o : op) (pred : hev -> bool) (acc : option Z) (ke : Z * hev) : option Z :=
  let '(k, e) := ke in
  if pred e && is_before_save_hook (fst (fst e)) && memz k (o_sets o) then Some (1000 + k) else acc.

Lemma last_set_fold : forall o pred hs, last_set o pred hs = fold_left (ls_step o pred) (index_from 0 hs) None.
Proof. reflexivity. Qed.

Lemma index_from_app : forall a b k, index_from k (a ++ b) = index_from k a ++ index_from (k + len a) b.
Proof.
  induction a as [|x a IH]; intros b k.
  - cbn [app index_from]. unfold len. cbn. rewrite Z.add_0_r. reflexivity.
  - cbn [app index_from]. rewrite IH, len_cons. f_equal. f_equal. f_equal. lia.
Qed.

Lemma last_set_snoc : forall o pred hs e,
  last_set o pred (hs ++ [e]) =
  if pred e && is_before_save_hook (fst (fst e)) && memz (len hs) (o_sets o) then Some (1000 + len hs)
  else last_set o pred hs.
Proof.
  intros o pred hs e. rewrite !last_set_fold, index_from_app, fold_left_app. cbn [index_from fold_left ls_step].
  rewrite Z.add_0_l. reflexivity.
Qed.

Lemma fold_ls_irrelevant : forall o pred evs k acc,
  (forall e, In e evs -> pred e && is_before_save_hook (fst (fst e)) = false) ->
  fold_left (ls_step o pred) (index_from k evs) acc = acc.
Proof.
  induction evs as [|e evs IH]; intros k acc H; [reflexivity|].
  cbn [index_from fold_left ls_step]. rewrite (H e (or_introl eq_refl)). cbn [andb].
  apply IH. intros e' He. apply H. right. exact He.
Qed.

Lemma last_set_app_irrelevant : forall o pred hs evs,
  (forall e, In e evs -> pred e && is_before_save_hook (fst (fst e)) = false) ->
  last_set o pred (hs ++ evs) = last_set o pred hs.
Proof.
  intros o pred hs evs H. rewrite !last_set_fold, index_from_app, fold_left_app.
  apply fold_ls_irrelevant. exact H.
Qed.

(* ---------------------------------------------------------------- the invariant *)
Definition dflt (d : Z) (x : option Z) : Z := match x with Some v => v | None => d end.

(* the value record r0 must hold / must be stored with, given the hook log so far *)
Definition want (o : op) (t : ty) (hs : list hev) (r0 : mrec) : Z :=
  dflt (m_val r0) (last_set o (ev_of t (m_tag r0)) hs).

Definition TR (o : op) (t : ty) (orig : list mrec) (s : S) : Prop :=
  s_k s = len (hooks_of (s_tr s)) /\
  map m_tag (s_recs s) = map m_tag orig /\
  forall j r0, nth_error orig j = Some r0 ->
    exists r, nth_error (s_recs s) j = Some r /\ m_tag r = m_tag r0 /\ m_nil r = m_nil r0
              /\ m_val r = want o t (hooks_of (s_tr s)) r0.

Lemma set_nth_val_tags : forall l i v, map m_tag (set_nth_val i v l) = map m_tag l.
Proof. induction l as [|x l IH]; intros [|i] v; cbn; try reflexivity. rewrite IH. reflexivity. Qed.

Lemma nodup_tags_neq : forall (l : list mrec) i j a b,
  NoDup (map m_tag l) -> nth_error l i = Some a -> nth_error l j = Some b -> i <> j -> m_tag a <> m_tag b.
Proof.
  intros l i j a b ND A B NE E. apply NE.
  apply (proj1 (NoDup_nth_error (map m_tag l)) ND).
  - rewrite map_length. apply nth_error_Some. congruence.
  - rewrite (map_nth_error m_tag _ _ A), (map_nth_error m_tag _ _ B). congruence.
Qed.

Lemma ev_of_self : forall t g h, ev_of t g (h, ty_id t, g) = true.
Proof. intros. unfold ev_of. cbn [fst snd]. rewrite !Z.eqb_refl. reflexivity. Qed.
Lemma ev_of_other_tag : forall t t' g g' h, g <> g' -> ev_of t g (h, t', g') = false.
Proof.
  intros. unfold ev_of. cbn [fst snd]. destruct (Z.eqb_spec g' g); [congruence|]. apply andb_false_r.
Qed.

(* one step that appends the event of record i and possibly sets record i *)
Lemma TR_event : forall o t orig s s' i r0 h,
  NoDup (map m_tag orig) -> nth_error orig i = Some r0 -> is_before_save_hook h = true ->
  hooks_of (s_tr s') = hooks_of (s_tr s) ++ [(h, ty_id t, m_tag r0)] -> s_k s' = s_k s + 1 ->
  s_recs s' = (if memz (s_k s) (o_sets o) then set_nth_val i (1000 + s_k s) (s_recs s) else s_recs s) ->
  TR o t orig s -> TR o t orig s'.
Proof.
  intros o t orig s s' i r0 h ND NI BH HH HK HR (K & L & V). split; [|split].
  - rewrite HH, len_app, HK, K. unfold len. cbn. lia.
  - rewrite HR. destruct (memz _ _); [rewrite set_nth_val_tags|]; exact L.
  - intros j r1 Hj. destruct (V j r1 Hj) as (r & Nr & Tg & Nl & Vl).
    destruct (Nat.eq_dec j i) as [->|NE].
    + assert (r1 = r0) by congruence. subst r1.
      unfold want. rewrite HH, last_set_snoc. cbn [fst]. rewrite ev_of_self, BH. cbn [andb]. rewrite <- K.
      rewrite HR. destruct (memz (s_k s) (o_sets o)).
      * eexists. split; [apply set_nth_val_nth; exact Nr|]. cbn. repeat split; assumption.
      * exists r. repeat split; assumption.
    + assert (TN : m_tag r1 <> m_tag r0) by (eapply nodup_tags_neq; eassumption).
      unfold want. rewrite HH, last_set_snoc. cbn [fst]. rewrite (ev_of_other_tag t (ty_id t) _ _ h TN). cbn [andb].
      exists r. split; [|repeat split; assumption].
      rewrite HR. destruct (memz _ _); [rewrite set_nth_val_other by congruence|]; exact Nr.
Qed.

(* a step that leaves the records alone and appends only events that are no before-hook of a watched record *)
Lemma TR_frame : forall o t orig s s' evs,
  s_recs s' = s_recs s -> hooks_of (s_tr s') = hooks_of (s_tr s) ++ evs -> s_k s' = s_k s + len evs ->
  (forall e r0, In e evs -> In r0 orig -> ev_of t (m_tag r0) e && is_before_save_hook (fst (fst e)) = false) ->
  TR o t orig s -> TR o t orig s'.
Proof.
  intros o t orig s s' evs HR HH HK IR (K & L & V). split; [|split].
  - rewrite HH, len_app, HK, K. reflexivity.
  - rewrite HR. exact L.
  - intros j r0 Hj. destruct (V j r0 Hj) as (r & Nr & Tg & Nl & Vl).
    exists r. rewrite HR. split; [exact Nr|]. repeat split; try assumption.
    unfold want. rewrite HH, last_set_app_irrelevant; [exact Vl|].
    intros e He. apply IR; [exact He | eapply nth_error_In; exact Hj].
Qed.

(* ---------------------------------------------------------------- one invocation, the closure, the loop *)
Definition self_cx (o : op) (c : cx) : Prop :=
  c_sets c = o_sets o /\ c_dest c = DSelf /\ x_setall (c_x c) = false /\ wf_shape (c_shape c).

Lemma invoke_fields : forall c h tag i s,
  c_dest c = DSelf -> x_setall (c_x c) = false -> wf_shape (c_shape c) ->
  (sh_cont (c_shape c) = CStruct -> i = 0%nat) -> is_before_save_hook h = true ->
  let s' := invoke c h tag i s in
  hooks_of (s_tr s') = hooks_of (s_tr s) ++ [(h, ty_id (c_ty c), tag)] /\ s_k s' = s_k s + 1 /\
  s_recs s' = (if memz (s_k s) (c_sets c) then set_nth_val i (1000 + s_k s) (s_recs s) else s_recs s).
Proof.
  intros c h tag i s D XA W I0 BH. unfold invoke, set_column, set_rec_val, wf_shape in *. rewrite D, XA, BH.
  cbn [orb andb].
  destruct (memz (s_k s) (c_sets c)); destruct (memz (s_k s) (c_fails c));
    destruct (sh_cont (c_shape c)) eqn:C; try rewrite W; try rewrite (I0 eq_refl);
    cbn -[set_nth_val]; rewrite hooks_of_app; cbn -[set_nth_val]; repeat split; reflexivity.
Qed.

Lemma invoke_TR : forall o c orig h i s r0,
  self_cx o c -> (sh_cont (c_shape c) = CStruct -> i = 0%nat) ->
  NoDup (map m_tag orig) -> nth_error orig i = Some r0 -> is_before_save_hook h = true ->
  TR o (c_ty c) orig s -> TR o (c_ty c) orig (invoke c h (m_tag r0) i s).
Proof.
  intros o c orig h i s r0 (SE & D & XA & W) I0 ND NI BH T.
  destruct (invoke_fields c h (m_tag r0) i s D XA W I0 BH) as (HH & HK & HR).
  rewrite SE in HR. eapply TR_event; eassumption.
Qed.

Definition all_before (hs : list hook) : Prop := forall h, In h hs -> is_before_save_hook h = true.

Lemma fc_TR : forall o c orig hs vf i s r0,
  self_cx o c -> (sh_cont (c_shape c) = CStruct -> i = 0%nat) ->
  NoDup (map m_tag orig) -> nth_error orig i = Some r0 -> all_before hs ->
  TR o (c_ty c) orig s -> TR o (c_ty c) orig (snd (fc c hs vf (m_tag r0) i s)).
Proof.
  intros o c orig hs vf i s r0 SC I0 ND NI. revert s. induction hs as [|h hs IH]; intros s AB T; [exact T|].
  cbn [fc]. assert (AB' : all_before hs) by (intros h' Hh; apply AB; right; exact Hh).
  destruct (flag (c_ty c) h && in_mset vf (recv_of (c_ty c) h)).
  - cbn [snd]. apply IH; [exact AB'|]. apply invoke_TR; try assumption. apply AB. left. reflexivity.
  - apply IH; assumption.
Qed.

Lemma TR_add_err : forall o t orig e s, TR o t orig s -> TR o t orig (add_err e s).
Proof. intros o t orig e s T. exact T. Qed.

Lemma skipn_nth_cons : forall {A} (l : list A) i x r, skipn i l = x :: r -> nth_error l i = Some x /\ skipn (Datatypes.S i) l = r.
Proof.
  intros A l. induction l as [|y l IH]; intros [|i] x r H; cbn in *; try discriminate.
  - inversion H; subst. split; reflexivity.
  - destruct (IH i x r H) as [A1 A2]. split; [exact A1|]. exact A2.
Qed.

Lemma loop_TR : forall o c orig hs recs i s,
  self_cx o c -> sh_cont (c_shape c) <> CStruct ->
  NoDup (map m_tag orig) -> all_before hs ->
  map m_tag recs = map m_tag (skipn i orig) ->
  TR o (c_ty c) orig s -> TR o (c_ty c) orig (loop c hs recs i s).
Proof.
  intros o c orig hs recs. induction recs as [|r rs IH]; intros i s SC NS ND AB M T; [exact T|].
  cbn [loop]. destruct (elem_addr (c_shape c) r); [|apply TR_add_err; exact T].
  destruct (skipn i orig) as [|r0 rest] eqn:SK; [discriminate|].
  cbn [map] in M. inversion M as [[M1 M2]].
  destruct (skipn_nth_cons _ _ _ _ SK) as [N1 N2].
  apply IH; try assumption.
  - rewrite N2. exact M2.
  - rewrite M1. apply fc_TR; try assumption. intro X. congruence.
Qed.

Lemma call_method_TR : forall o c hs s orig,
  self_cx o c -> NoDup (map m_tag orig) -> all_before hs ->
  TR o (c_ty c) orig s -> TR o (c_ty c) orig (call_method c hs s).
Proof.
  intros o c hs s orig SC ND AB T. pose proof T as (_ & TG & _). unfold call_method.
  destruct (sh_cont (c_shape c)) eqn:C.
  - destruct (s_recs s) as [|r rest] eqn:R; [exact T|].
    destruct orig as [|r0 orest]; [discriminate|]. cbn [map] in TG. inversion TG as [[TG1 TG2]].
    assert (N0 : nth_error (r0 :: orest) 0 = Some r0) by reflexivity.
    pose proof (fc_TR o c (r0 :: orest) hs VVal 0%nat s r0 SC (fun _ => eq_refl) ND N0 AB T) as T1.
    rewrite TG1.
    destruct (fc c hs VVal (m_tag r0) 0 s) as [called s1] eqn:F. cbn [snd] in T1.
    destruct called; [exact T1|].
    destruct (sh_outer_ptr (c_shape c)); [|apply TR_add_err; exact T].
    apply fc_TR; try assumption. intros _. reflexivity.
  - apply loop_TR; try assumption; congruence.
  - apply loop_TR; try assumption; congruence.
Qed.

Definition before_phase (p : phase) : Prop := p = PBeforeCreate \/ p = PBeforeUpdate.

Lemma hooks_phase_TR : forall o c p s orig,
  self_cx o c -> NoDup (map m_tag orig) -> before_phase p ->
  TR o (c_ty c) orig s -> TR o (c_ty c) orig (hooks_phase c p s).
Proof.
  intros o c p s orig SC ND BP T. unfold hooks_phase.
  destruct (_ && _); [|exact T].
  apply call_method_TR; try assumption.
  intros h Hh. destruct BP as [-> | ->]; cbn in Hh; destruct Hh as [<-|[<-|[]]]; reflexivity.
Qed.
