(* Sem.v — boolean token grammar of a WHERE clause: printer, fuel-indexed precedence parser (NOT > AND > OR), Kleene evaluator, and the print/parse round trip.  Shared by C02, C08, C09. Atoms are [nat] ids. *)
From Verif Require Import Base.

Inductive tok := TAtom (a:nat) | TAnd | TOr | TNot | TL | TR.

Inductive fexp := FAtom (a:nat) | FNot (f:fexp) | FPar (e: list (list fexp)).
Definition texp := list fexp.
Definition eexp := list texp.


Fixpoint prF (f:fexp) : list tok :=
  match f with
  | FAtom a => [TAtom a]
  | FNot g => TNot :: prF g
  | FPar e => TL :: sep TOr (map (fun t => sep TAnd (map prF t)) e) ++ [TR]
  end.
Definition prT (t:texp) := sep TAnd (map prF t).
Definition prE (e:eexp) := sep TOr (map prT e).

Fixpoint pF (n:nat) (ts:list tok) : option (fexp * list tok) :=
  match n with 0 => None | S n =>
  match ts with
  | TAtom a :: r => Some (FAtom a, r)
  | TNot :: r => match pF n r with Some (f, r') => Some (FNot f, r') | None => None end
  | TL :: r => match pE n r with Some (e, TR :: r') => Some (FPar e, r') | _ => None end
  | _ => None
  end end
with pT (n:nat) (ts:list tok) : option (texp * list tok) :=
  match n with 0 => None | S n =>
  match pF n ts with
  | Some (f, TAnd :: r) => match pT n r with Some (t, r') => Some (f :: t, r') | None => None end
  | Some (f, r) => Some ([f], r)
  | None => None
  end end
with pE (n:nat) (ts:list tok) : option (eexp * list tok) :=
  match n with 0 => None | S n =>
  match pT n ts with
  | Some (t, TOr :: r) => match pE n r with Some (e, r') => Some (t :: e, r') | None => None end
  | Some (t, r) => Some ([t], r)
  | None => None
  end end.

(* well-formed: no empty lists *)
Fixpoint wfF (f:fexp) : bool :=
  match f with
  | FAtom _ => true
  | FNot g => wfF g
  | FPar e => negb (match e with [] => true | _ => false end) &&
              forallb (fun t => negb (match t with [] => true | _ => false end) && forallb wfF t) e
  end.
Definition wfT (t:texp) := negb (match t with [] => true | _ => false end) && forallb wfF t.
Definition wfE (e:eexp) := negb (match e with [] => true | _ => false end) && forallb wfT e.

Fixpoint lsum (l:list nat) : nat := match l with [] => 0 | x :: r => x + lsum r end.

Fixpoint szF (f:fexp) : nat :=
  match f with
  | FAtom _ => 1
  | FNot g => S (szF g)
  | FPar e => S (S (lsum (map (fun t => S (lsum (map szF t))) e)))
  end.
Definition szT (t:texp) := S (lsum (map szF t)).
Definition szE (e:eexp) := S (lsum (map szT e)).

Definition no_and (r:list tok) := match r with TAnd :: _ => False | _ => True end.
Definition no_or (r:list tok) := match r with TOr :: _ => False | _ => True end.

(* fuel monotonicity *)
Lemma mono : forall n,
  (forall ts r, pF n ts = Some r -> forall m, n <= m -> pF m ts = Some r) /\
  (forall ts r, pT n ts = Some r -> forall m, n <= m -> pT m ts = Some r) /\
  (forall ts r, pE n ts = Some r -> forall m, n <= m -> pE m ts = Some r).
Proof.
  induction n as [|n [IHF [IHT IHE]]].
  - repeat split; intros; discriminate.
  - repeat split; intros ts r H m Hm; destruct m as [|m]; try lia; assert (Hnm: n <= m) by lia.
    + cbn [pF] in *. destruct ts as [|[a| | | | |] ts']; try discriminate; auto.
      * destruct (pF n ts') as [[f r']|] eqn:E; try discriminate.
        rewrite (IHF _ _ E _ Hnm). exact H.
      * destruct (pE n ts') as [[e r']|] eqn:E; try discriminate.
        rewrite (IHE _ _ E _ Hnm). exact H.
    + cbn [pT] in *. destruct (pF n ts) as [[f r']|] eqn:E; try discriminate.
      rewrite (IHF _ _ E _ Hnm).
      destruct r' as [|[a| | | | |] r'']; auto.
      destruct (pT n r'') as [[t r3]|] eqn:E2; try discriminate.
      rewrite (IHT _ _ E2 _ Hnm). exact H.
    + cbn [pE] in *. destruct (pT n ts) as [[f r']|] eqn:E; try discriminate.
      rewrite (IHT _ _ E _ Hnm).
      destruct r' as [|[a| | | | |] r'']; auto.
      destruct (pE n r'') as [[t r3]|] eqn:E2; try discriminate.
      rewrite (IHE _ _ E2 _ Hnm). exact H.
Qed.

Lemma monoF n m ts r : pF n ts = Some r -> n <= m -> pF m ts = Some r.
Proof. intros; eapply (proj1 (mono n)); eauto. Qed.
Lemma monoT n m ts r : pT n ts = Some r -> n <= m -> pT m ts = Some r.
Proof. intros; eapply (proj1 (proj2 (mono n))); eauto. Qed.
Lemma monoE n m ts r : pE n ts = Some r -> n <= m -> pE m ts = Some r.
Proof. intros; eapply (proj2 (proj2 (mono n))); eauto. Qed.

Lemma szF_pos f : 1 <= szF f.
Proof. destruct f; cbn [szF]; lia. Qed.

Lemma sep_cons2 {A} (s:A) x y r : sep s (x :: y :: r) = x ++ s :: sep s (y :: r).
Proof. reflexivity. Qed.

Lemma roundtrip : forall k,
  (forall f rest, szF f <= k -> wfF f = true ->
     exists n, pF n (prF f ++ rest) = Some (f, rest)) /\
  (forall t rest, szT t <= k -> wfT t = true -> no_and rest ->
     exists n, pT n (prT t ++ rest) = Some (t, rest)) /\
  (forall e rest, szE e <= k -> wfE e = true -> no_and rest -> no_or rest ->
     exists n, pE n (prE e ++ rest) = Some (e, rest)).
Proof.
  induction k as [|k [IHF [IHT IHE]]].
  - repeat split; intros x rest Hs; exfalso.
    + destruct x; cbn [szF] in Hs; lia.
    + unfold szT in Hs; lia.
    + unfold szE in Hs; lia.
  - repeat split.
    + (* F *)
      intros f rest Hs Hwf. destruct f as [a|g|e].
      * exists 1. reflexivity.
      * cbn in Hs, Hwf. destruct (IHF g rest ltac:(lia) Hwf) as [n Hn].
        exists (S n). cbn [prF app pF]. rewrite Hn. reflexivity.
      * cbn [szF] in Hs. cbn [wfF] in Hwf.
        assert (HE: szE e <= k). { unfold szE, szT, texp in *. lia. }
        destruct (IHE e (TR :: rest) HE Hwf I I) as [n Hn].
        exists (S n). cbn [prF pF app]. fold (prT). 
        change (sep TOr (map (fun t => sep TAnd (map prF t)) e)) with (prE e).
        rewrite <- app_assoc. cbn [app]. rewrite Hn. reflexivity.
    + (* T *)
      intros t rest Hs Hwf Hna. destruct t as [|f t']; [discriminate|].
      unfold szT in Hs. cbn [map lsum] in Hs.
      unfold wfT in Hwf. cbn [negb forallb andb] in Hwf.
      apply andb_prop in Hwf. destruct Hwf as [Hwf Hwt].
      destruct t' as [|f2 t''].
      * (* last factor *)
        assert (Hsf: szF f <= k) by lia. destruct (IHF f rest Hsf Hwf) as [n Hn].
        exists (S n). unfold prT. cbn [map sep pT]. rewrite Hn.
        destruct rest as [|[a| | | | |] r]; try reflexivity. destruct Hna.
      * assert (Hwt' : wfT (f2 :: t'') = true) by (unfold wfT; cbn [negb andb]; exact Hwt).
        assert (Hst' : szT (f2 :: t'') <= k) by (pose proof (szF_pos f); unfold szT; cbn [map lsum] in *; lia).
        destruct (IHT (f2 :: t'') rest Hst' Hwt' Hna) as [n2 Hn2].
        destruct (IHF f (TAnd :: prT (f2 :: t'') ++ rest) ltac:(lia) Hwf) as [n1 Hn1].
        exists (S (n1 + n2)). unfold prT at 1. cbn [map]. rewrite sep_cons2.
        rewrite <- app_assoc. cbn [app pT].
        change (sep TAnd (prF f2 :: map prF t'')) with (prT (f2 :: t'')).
        rewrite (monoF _ (n1+n2) _ _ Hn1 ltac:(lia)).
        rewrite (monoT _ (n1+n2) _ _ Hn2 ltac:(lia)). reflexivity.
    + (* E *)
      intros e rest Hs Hwf Hna Hno. destruct e as [|t e']; [discriminate|].
      unfold szE in Hs. cbn [map lsum] in Hs.
      unfold wfE in Hwf. cbn [negb forallb andb] in Hwf.
      apply andb_prop in Hwf. destruct Hwf as [Hwf Hwe].
      destruct e' as [|t2 e''].
      * destruct (IHT t rest ltac:(lia) Hwf Hna) as [n Hn].
        exists (S n). unfold prE. cbn [map sep pE]. rewrite Hn.
        destruct rest as [|[a| | | | |] r]; try reflexivity. destruct Hno.
      * assert (Hwe' : wfE (t2 :: e'') = true) by (unfold wfE; cbn [negb andb]; exact Hwe).
        assert (Hse' : szE (t2 :: e'') <= k) by (unfold szE, szT in *; cbn [map lsum] in *; lia).
        destruct (IHE (t2 :: e'') rest Hse' Hwe' Hna Hno) as [n2 Hn2].
        destruct (IHT t (TOr :: prE (t2 :: e'') ++ rest) ltac:(lia) Hwf I) as [n1 Hn1].
        exists (S (n1 + n2)). unfold prE at 1. cbn [map]. rewrite sep_cons2.
        rewrite <- app_assoc. cbn [app pE].
        change (sep TOr (prT t2 :: map prT e'')) with (prE (t2 :: e'')).
        rewrite (monoT _ (n1+n2) _ _ Hn1 ltac:(lia)).
        rewrite (monoE _ (n1+n2) _ _ Hn2 ltac:(lia)). reflexivity.
Qed.

Theorem parse_print : forall e, wfE e = true -> exists n, pE n (prE e) = Some (e, []).
Proof.
  intros e H. destruct (proj2 (proj2 (roundtrip (szE e))) e [] (le_n _) H I I) as [n Hn].
  exists n. rewrite app_nil_r in Hn. exact Hn.
Qed.


(* ---- Kleene evaluation of a parsed condition over an atom valuation ---- *)
Fixpoint evF (v : nat -> tv) (f : fexp) : tv :=
  match f with
  | FAtom a => v a
  | FNot g => tv_not (evF v g)
  | FPar e => fold_right tv_or TF (map (fun t => fold_right tv_and TT (map (evF v) t)) e)
  end.
Definition evT (v : nat -> tv) (t : texp) : tv := fold_right tv_and TT (map (evF v) t).
Definition evE (v : nat -> tv) (e : eexp) : tv := fold_right tv_or TF (map (evT v) e).

(* parse a whole token list with enough fuel; None = not a sentence of the grammar *)
Definition parse (ts : list tok) : option eexp :=
  match pE (3 * List.length ts + 3) ts with
  | Some (e, []) => Some e
  | _ => None
  end.

(* ------------------------------------------------------------------ *)
(* the parser is faithful: what it returns prints back to what it consumed *)

Lemma prT_cons f t : t <> [] -> prT (f :: t) = prF f ++ TAnd :: prT t.
Proof. destruct t; [congruence|reflexivity]. Qed.
Lemma prE_cons t e : e <> [] -> prE (t :: e) = prT t ++ TOr :: prE e.
Proof. destruct e; [congruence|reflexivity]. Qed.

Lemma print_parse : forall n,
  (forall ts f r, pF n ts = Some (f, r) -> ts = prF f ++ r /\ wfF f = true) /\
  (forall ts t r, pT n ts = Some (t, r) -> ts = prT t ++ r /\ wfT t = true) /\
  (forall ts e r, pE n ts = Some (e, r) -> ts = prE e ++ r /\ wfE e = true).
Proof.
  induction n as [|n [IHF [IHT IHE]]]; [repeat split; discriminate|].
  repeat split.
  - (* F *) cbn [pF] in H. destruct ts as [|[a| | | | |] ts']; try discriminate.
    + inversion H; subst. reflexivity.
    + destruct (pF n ts') as [[g r']|] eqn:E; [|discriminate]. inversion H; subst.
      destruct (IHF _ _ _ E) as [-> _]. reflexivity.
    + destruct (pE n ts') as [[e [|[a| | | | |] r']]|] eqn:E; try discriminate. inversion H; subst.
      destruct (IHE _ _ _ E) as [-> _]. cbn [prF]. fold prT. 
      change (sep TOr (map (fun t => sep TAnd (map prF t)) e)) with (prE e).
      cbn [app]. rewrite <- app_assoc. reflexivity.
  - cbn [pF] in H. destruct ts as [|[a| | | | |] ts']; try discriminate.
    + inversion H; subst. reflexivity.
    + destruct (pF n ts') as [[g r']|] eqn:E; [|discriminate]. inversion H; subst.
      destruct (IHF _ _ _ E) as [_ Hw]. exact Hw.
    + destruct (pE n ts') as [[e [|[a| | | | |] r']]|] eqn:E; try discriminate. inversion H; subst.
      destruct (IHE _ _ _ E) as [_ Hw]. exact Hw.
  - (* T *) cbn [pT] in H. destruct (pF n ts) as [[f r']|] eqn:E; [|discriminate].
    destruct (IHF _ _ _ E) as [-> _].
    destruct r' as [|[a| | | | |] r'']; try (inversion H; subst; unfold prT; cbn; reflexivity).
    destruct (pT n r'') as [[t' r3]|] eqn:E2; [|discriminate]. inversion H; subst.
    destruct (IHT _ _ _ E2) as [-> Hw].
    assert (t' <> []) by (destruct t'; [discriminate Hw|discriminate]).
    rewrite prT_cons by assumption. rewrite <- app_assoc. reflexivity.
  - cbn [pT] in H. destruct (pF n ts) as [[f r']|] eqn:E; [|discriminate].
    destruct (IHF _ _ _ E) as [_ Hwf].
    destruct r' as [|[a| | | | |] r'']; try (inversion H; subst; unfold wfT; cbn; rewrite Hwf; reflexivity).
    destruct (pT n r'') as [[t' r3]|] eqn:E2; [|discriminate]. inversion H; subst.
    destruct (IHT _ _ _ E2) as [_ Hw]. unfold wfT in *. cbn [forallb negb andb] in *.
    apply andb_prop in Hw. destruct Hw as [_ Hw]. rewrite Hwf, Hw. reflexivity.
  - (* E *) cbn [pE] in H. destruct (pT n ts) as [[t r']|] eqn:E; [|discriminate].
    destruct (IHT _ _ _ E) as [-> _].
    destruct r' as [|[a| | | | |] r'']; try (inversion H; subst; unfold prE; cbn; reflexivity).
    destruct (pE n r'') as [[e' r3]|] eqn:E2; [|discriminate]. inversion H; subst.
    destruct (IHE _ _ _ E2) as [-> Hw].
    assert (e' <> []) by (destruct e'; [discriminate Hw|discriminate]).
    rewrite prE_cons by assumption. rewrite <- app_assoc. reflexivity.
  - cbn [pE] in H. destruct (pT n ts) as [[t r']|] eqn:E; [|discriminate].
    destruct (IHT _ _ _ E) as [_ Hwf].
    destruct r' as [|[a| | | | |] r'']; try (inversion H; subst; unfold wfE; cbn; rewrite Hwf; reflexivity).
    destruct (pE n r'') as [[e' r3]|] eqn:E2; [|discriminate]. inversion H; subst.
    destruct (IHE _ _ _ E2) as [_ Hw]. unfold wfE in *. cbn [forallb negb andb] in *.
    apply andb_prop in Hw. destruct Hw as [_ Hw]. rewrite Hwf, Hw. reflexivity.
Qed.

Lemma parse_sound ts e : parse ts = Some e -> ts = prE e /\ wfE e = true.
Proof.
  unfold parse. destruct (pE _ ts) as [[e' [|x r]]|] eqn:E; try discriminate.
  intros H; inversion H; subst.
  destruct (proj2 (proj2 (print_parse _)) _ _ _ E) as [-> Hw]. rewrite app_nil_r. tauto.
Qed.

(* ------------------------------------------------------------------ *)
(* explicit fuel: the size of a tree is enough, and [parse]'s fuel covers it *)

Lemma szT_cons f t : szT (f :: t) = szF f + szT t.
Proof. unfold szT. cbn [map lsum]. lia. Qed.
Lemma szE_cons t e : szE (t :: e) = szT t + szE e.
Proof. unfold szE. cbn [map lsum]. lia. Qed.
Lemma szF_par e : szF (FPar e) = S (szE e).
Proof. reflexivity. Qed.
Lemma wfT_cons f t : wfT (f :: t) = true -> t <> [] -> wfF f = true /\ wfT t = true.
Proof.
  unfold wfT. cbn [negb forallb andb]. intros H Hne. apply andb_prop in H. destruct H as [-> H].
  split; [reflexivity|]. destruct t; [congruence|exact H].
Qed.
Lemma wfE_cons t e : wfE (t :: e) = true -> e <> [] -> wfT t = true /\ wfE e = true.
Proof.
  unfold wfE. cbn [negb forallb andb]. intros H Hne. apply andb_prop in H. destruct H as [-> H].
  split; [reflexivity|]. destruct e; [congruence|exact H].
Qed.
Lemma wfT_single f : wfT [f] = true -> wfF f = true.
Proof. unfold wfT. cbn. rewrite andb_true_r. tauto. Qed.
Lemma wfE_single t : wfE [t] = true -> wfT t = true.
Proof. unfold wfE. cbn [negb forallb andb]. rewrite andb_true_r. tauto. Qed.

Lemma roundtrip_sz : forall k,
  (forall f rest, szF f <= k -> wfF f = true -> pF k (prF f ++ rest) = Some (f, rest)) /\
  (forall t rest, szT t <= k -> wfT t = true -> no_and rest -> pT k (prT t ++ rest) = Some (t, rest)) /\
  (forall e rest, szE e <= k -> wfE e = true -> no_and rest -> no_or rest ->
                  pE k (prE e ++ rest) = Some (e, rest)).
Proof.
  induction k as [|k [IHF [IHT IHE]]].
  - repeat split; intros x rest Hs; exfalso.
    + pose proof (szF_pos x). lia.
    + unfold szT in Hs; lia.
    + unfold szE in Hs; lia.
  - repeat split.
    + intros f rest Hs Hwf. destruct f as [a|g|e].
      * reflexivity.
      * cbn [szF] in Hs. cbn [wfF] in Hwf. cbn [prF app pF]. rewrite (IHF g rest ltac:(lia) Hwf). reflexivity.
      * rewrite szF_par in Hs.
        assert (Hwe : wfE e = true) by exact Hwf.
        cbn [prF pF app].
        change (sep TOr (map (fun t => sep TAnd (map prF t)) e)) with (prE e).
        rewrite <- app_assoc. cbn [app].
        rewrite (IHE e (TR :: rest) ltac:(lia) Hwe I I). reflexivity.
    + intros t rest Hs Hwf Hna. destruct t as [|f t']; [discriminate|].
      destruct t' as [|f2 t''].
      * apply wfT_single in Hwf. rewrite szT_cons in Hs. unfold szT in Hs. cbn [map lsum] in Hs.
        unfold prT. cbn [map sep pT]. rewrite (IHF f rest ltac:(lia) Hwf).
        destruct rest as [|[a| | | | |] r]; try reflexivity. destruct Hna.
      * destruct (wfT_cons _ _ Hwf ltac:(discriminate)) as [Hwf1 Hwf2].
        rewrite szT_cons in Hs. pose proof (szF_pos f).
        assert (1 <= szT (f2 :: t'')) by (unfold szT; lia).
        rewrite prT_cons by discriminate. rewrite <- app_assoc. cbn [app pT].
        rewrite (IHF f _ ltac:(lia) Hwf1).
        rewrite (IHT (f2 :: t'') rest ltac:(lia) Hwf2 Hna). reflexivity.
    + intros e rest Hs Hwf Hna Hno. destruct e as [|t e']; [discriminate|].
      destruct e' as [|t2 e''].
      * apply wfE_single in Hwf. rewrite szE_cons in Hs. unfold szE in Hs. cbn [map lsum] in Hs.
        unfold prE. cbn [map sep pE]. rewrite (IHT t rest ltac:(lia) Hwf Hna).
        destruct rest as [|[a| | | | |] r]; try reflexivity. destruct Hno.
      * destruct (wfE_cons _ _ Hwf ltac:(discriminate)) as [Hwf1 Hwf2].
        rewrite szE_cons in Hs.
        assert (1 <= szT t) by (unfold szT; lia).
        assert (1 <= szE (t2 :: e'')) by (unfold szE; lia).
        rewrite prE_cons by discriminate. rewrite <- app_assoc. cbn [app pE].
        rewrite (IHT t (TOr :: prE (t2 :: e'') ++ rest) ltac:(lia) Hwf1 I).
        rewrite (IHE (t2 :: e'') rest ltac:(lia) Hwf2 Hna Hno). reflexivity.
Qed.

Lemma len_prT_cons f t : t <> [] -> List.length (prT (f :: t)) = (List.length (prF f) + 1 + List.length (prT t))%nat.
Proof. intros H. rewrite prT_cons by exact H. rewrite app_length. cbn. lia. Qed.
Lemma len_prE_cons t e : e <> [] -> List.length (prE (t :: e)) = (List.length (prT t) + 1 + List.length (prE e))%nat.
Proof. intros H. rewrite prE_cons by exact H. rewrite app_length. cbn. lia. Qed.

Lemma sz_bound : forall k,
  (forall f, szF f <= k -> wfF f = true -> szF f <= 3 * List.length (prF f)) /\
  (forall t, szT t <= k -> wfT t = true -> szT t <= 3 * List.length (prT t) + 1) /\
  (forall e, szE e <= k -> wfE e = true -> szE e <= 3 * List.length (prE e) + 2).
Proof.
  induction k as [|k [IHF [IHT IHE]]].
  - repeat split; intros x Hs; exfalso.
    + pose proof (szF_pos x). lia.
    + unfold szT in Hs; lia.
    + unfold szE in Hs; lia.
  - repeat split.
    + intros f Hs Hwf. destruct f as [a|g|e].
      * cbn. lia.
      * cbn [szF] in *. cbn [wfF] in Hwf. cbn [prF List.length]. specialize (IHF g ltac:(lia) Hwf). lia.
      * rewrite szF_par in *. assert (Hwe : wfE e = true) by exact Hwf.
        specialize (IHE e ltac:(lia) Hwe). cbn [prF].
        change (sep TOr (map (fun t => sep TAnd (map prF t)) e)) with (prE e).
        cbn [List.length]. rewrite app_length. cbn [List.length]. lia.
    + intros t Hs Hwf. destruct t as [|f t']; [discriminate|]. destruct t' as [|f2 t''].
      * apply wfT_single in Hwf. rewrite szT_cons in *. unfold szT in *. cbn [map lsum] in *.
        unfold prT. cbn [map sep]. specialize (IHF f ltac:(lia) Hwf). lia.
      * destruct (wfT_cons _ _ Hwf ltac:(discriminate)) as [Hwf1 Hwf2].
        rewrite szT_cons in *. pose proof (szF_pos f).
        assert (1 <= szT (f2 :: t'')) by (unfold szT; lia).
        rewrite len_prT_cons by discriminate.
        specialize (IHF f ltac:(lia) Hwf1). specialize (IHT (f2 :: t'') ltac:(lia) Hwf2). lia.
    + intros e Hs Hwf. destruct e as [|t e']; [discriminate|]. destruct e' as [|t2 e''].
      * apply wfE_single in Hwf. rewrite szE_cons in *. unfold szE in *. cbn [map lsum] in *.
        unfold prE. cbn [map sep]. specialize (IHT t ltac:(lia) Hwf). lia.
      * destruct (wfE_cons _ _ Hwf ltac:(discriminate)) as [Hwf1 Hwf2].
        rewrite szE_cons in *.
        assert (1 <= szT t) by (unfold szT; lia).
        assert (1 <= szE (t2 :: e'')) by (unfold szE; lia).
        rewrite len_prE_cons by discriminate.
        specialize (IHT t ltac:(lia) Hwf1). specialize (IHE (t2 :: e'') ltac:(lia) Hwf2). lia.
Qed.

(* completeness of [parse] on printed trees, with its concrete fuel *)
Theorem parse_complete : forall e, wfE e = true -> parse (prE e) = Some e.
Proof.
  intros e Hw. unfold parse.
  pose proof (proj2 (proj2 (sz_bound (szE e))) e (le_n _) Hw) as Hb.
  assert (Hfuel : szE e <= 3 * List.length (prE e) + 3) by lia.
  pose proof (proj2 (proj2 (roundtrip_sz (szE e))) e [] (le_n _) Hw I I) as Hp.
  rewrite app_nil_r in Hp. rewrite (monoE _ _ _ _ Hp Hfuel). reflexivity.
Qed.
