(* C18_Ops.v — gorm's composite OPERATIONS as operation trees (property C18, round 7).

   C18_Model.v is a derivation algebra; which internal sessions stand between the caller's handle and
   a driver call used to be said by the harness, event by event.  Here the structure of an operation
   is a term [opdesc] (what the caller asked for + the data-dependent facts: which relations hold
   values, how many batches, whether a row was found) and [op_tree] builds from it the [node] tree
   gorm executes, written from the source:
     finisher_api.go  Create / Save / Updates / Delete / Find / First / FirstOrCreate / FindInBatches /
                      CreateInBatches / Transaction (Begin; nested: SavePoint, block, RollbackTo) /
                      Begin / SavePoint / RollbackTo
     callbacks/transaction.go  BeginTransaction: db.Begin() on the instance, only the ConnPool is kept
     callbacks/associations.go SaveBeforeAssociations / SaveAfterAssociations / saveAssociation, join rows
     callbacks/delete.go       DeleteBeforeAssociations
     callbacks/query.go, preload.go  Query, Preload, preloadDB, preloadEntryPoint, preload
     association.go            Association(), saveAssociation, Replace / Delete / Clear, buildCondition
     prepare_stmt.go           PreparedStmtDB / PreparedStmtTX: prepare, then stmt.Exec / Query; BeginTx
   The Session literals and call-site forms are not typed in: [roles] is filled on every run from the
   CURRENT source (srcfacts.Role / SiteForm).  No proofs here. *)
From Verif Require Import Base C18_Model.
Open Scope Z_scope.

(* the internal Session literals by ROLE and the call-site forms by driver method *)
Record roles := mk_roles {
  r_begin : slit;       (* Begin: db.getInstance().Session(&Session{Context: db.Statement.Context, NewDB: db.clone == 1}) *)
  r_txblock : slit;     (* Transaction, nested: fc(db.Session(&Session{NewDB: db.clone == 1})) *)
  r_savepoint : slit;   (* Transaction, nested: db.Session(&Session{}).SavePoint(..) / .RollbackTo(..) *)
  r_assoc0 : slit;      (* saveAssociation: db.Session(&Session{NewDB: true}) *)
  r_assoc1 : slit;      (*   .Session(&Session{FullSaveAssociations, SkipHooks, DisableNestedTransaction}) *)
  r_join0 : slit;       (* many2many join rows: db.Session(&Session{NewDB: true}) *)
  r_join1 : slit;       (*   .Session(&Session{SkipHooks, DisableNestedTransaction}) *)
  r_delassoc : slit;    (* DeleteBeforeAssociations: db.Session(&Session{NewDB: true}) *)
  r_preload : slit;     (* preloadDB: Session{Context: db.Statement.Context, NewDB, SkipHooks, Initialized} *)
  r_preload_ep : slit;  (* preloadEntryPoint: db.Table("").Session(&Session{Context: db.Statement.Context, SkipHooks}) *)
  r_am : slit;          (* db.Association(): association.DB = db.Session(&Session{}) *)
  r_am_save0 : slit;    (* Association.saveAssociation: association.DB.Session(&Session{}).Model(nil) *)
  r_am_save1 : slit;    (*   associationDB.Session(&Session{}) *)
  r_am_write : slit;    (* Replace / Delete, belongs-to: association.DB.Session(&Session{}) *)
  r_am_cond : slit;     (* buildCondition, many2many: tx.Session(&Session{QueryFields: true}) *)
  r_save0 : slit;       (* Save: tx.Session(&Session{Initialized: true}) *)
  r_save1 : slit;       (* Save, nothing updated: tx.Session(&Session{SkipHooks: true}) ... Create *)
  r_foc : slit;         (* FirstOrCreate: db.Session(&Session{}).Limit(1)... *)
  r_fib0 : slit;        (* FindInBatches: db.Order(..).Session(&Session{}) *)
  r_fib1 : slit;        (* FindInBatches with a LIMIT: tx.Offset(-1).Session(&Session{}) *)
  r_fib2 : slit;        (* FindInBatches: the callback's handle result.Session(&Session{NewDB: true}) *)
  r_cib : slit;         (* CreateInBatches without a transaction of its own: tx.Session(&Session{}) *)
  s_exec : cform;       (* callbacks / finishers: ConnPool.ExecContext(<form>, ..) *)
  s_query : cform;      (*   QueryContext *)
  s_row : cform;        (*   QueryRowContext *)
  s_begin : cform;      (*   BeginTx *)
  w_prepare : cform;    (* inside the prepared-statement wrappers: PrepareContext(<form>, ..) *)
  w_exec : cform;       (*   stmt.ExecContext *)
  w_query : cform;      (*   stmt.QueryContext *)
  w_row : cform;        (*   stmt.QueryRowContext *)
  w_begin : cform       (*   PreparedStmtDB.BeginTx: beginner.BeginTx(<form>, opt) *)
}.

(* which callback issues the statement: Exec (create / update / delete / raw), Query, Row (QueryRow) *)
Inductive skind := SExec | SQuery | SRow.

(* the operations; [xs] / [ys] hold the nested operations, whose meaning is given with each tag *)
Inductive otag :=
| TWrite (deftx : bool) (k : option skind)
    (* a Create / Update / Delete processor run: BeginTransaction (deftx = the default transaction is on and
       the pool is not a transaction yet), xs = what the before-callbacks run (belongs-to saves, cascading
       deletes), the statement (None: nothing to write, e.g. Updates with association columns only),
       ys = what the after-callbacks run (has-one / has-many / many2many saves, join rows) *)
| TAssocSave      (* saveAssociation: xs = the nested Create *)
| TJoinSave       (* SaveAfterAssociations, many2many: xs = the Create of the join rows *)
| TDelAssoc       (* DeleteBeforeAssociations: xs = the nested Delete of one relation *)
| TFind (k : skind)
    (* a Query processor run: the SELECT, then the Preload callback: xs = the preloaded relations *)
| TRel (lookup target : bool)
    (* preloadEntryPoint, relation not joined -> preload(): lookup = the join-table SELECT of a many2many
       relation whose parents have keys; target = keys were found, the SELECT of the related rows runs,
       itself a Find whose nested preloads are xs *)
| TJoined         (* preloadEntryPoint, relation joined and loaded: preloadDB for the joined values, xs below it *)
| TTx             (* Transaction / Begin by the caller on a plain pool: xs = the block *)
| TNestedTx (sp rb : bool)
    (* Transaction inside a transaction: sp = save points not disabled; xs = the block; rb = it failed *)
| TAssocMode      (* db.Model(..).Association(..): xs = the calls on the association handle *)
| TAmSave         (* Association.saveAssociation: xs = the Updates of one owner *)
| TAmWrite (own : bool)   (* Replace / Delete / Clear statement; own = on a session of its own (belongs-to) *)
| TAmRead (m2m : bool)    (* Find / Count through buildCondition *)
| TSave           (* Save of a record with a key: xs = the Update run, ys = the Create when nothing was updated *)
| TFirstOrCreate  (* xs = the Find, ys = the Create / Updates that follows *)
| TFindInBatches (limit : bool)   (* xs = first batch, ys = the following batches *)
| TBatch (found : bool)           (* one batch: the SELECT; found: xs = what the callback runs on its handle *)
| TCreateInBatches (tx : bool).   (* tx: through Transaction; else on a session; xs = the batches *)

Inductive opdesc :=
| DStmt (k : skind)      (* one statement issued by a finisher's callbacks on the handle at hand *)
| DRawExec               (* SavePoint / RollbackTo: Exec on the raw transaction, never through the wrapper *)
| DOp (t : otag) (xs ys : list opdesc).

Definition ckind_of (k : skind) : ckind := match k with SExec => KExec | _ => KQuery end.
Definition site_of (R : roles) (k : skind) : cform :=
  match k with SExec => s_exec R | SQuery => s_query R | SRow => s_row R end.
Definition wsite_of (R : roles) (k : skind) : cform :=
  match k with SExec => w_exec R | SQuery => w_query R | SRow => w_row R end.

(* one statement: PrepareStmt off = the call site itself; on = through the wrapper, which prepares
   (once per new text; re-prepares on a transaction's connection) and then runs the statement *)
Definition stmt (R : roles) (prep : bool) (k : skind) : node :=
  if prep then NWrapped (site_of R k) [(KPrepare, w_prepare R); (ckind_of k, wsite_of R k)]
  else NCall (ckind_of k) (site_of R k).

(* db.Begin(): with PrepareStmt the pool is a PreparedStmtDB whose BeginTx passes its parameter on *)
Definition begin_node (R : roles) (prep : bool) (body : list node) : node :=
  if prep then NBeginW (r_begin R) (s_begin R) (w_begin R) body else NBegin (r_begin R) (s_begin R) body.

Definition raw_exec (R : roles) : node := NCall KExec (s_exec R).

Definition preload_of (R : roles) (rels : list node) : list node :=
  match rels with [] => [] | _ => [NSess (r_preload R) rels] end.

Definition build (R : roles) (prep : bool) (t : otag) (xs ys : list node) : list node :=
  match t with
  | TWrite deftx k =>
      (* BeginTransaction keeps only the transaction's ConnPool: everything after it runs on the handle at hand *)
      (if deftx then [begin_node R prep []] else [])
      ++ xs ++ (match k with Some k => [stmt R prep k] | None => [] end) ++ ys
  | TAssocSave => [NSess (r_assoc0 R) [NSess (r_assoc1 R) xs]]
  | TJoinSave => [NSess (r_join0 R) [NSess (r_join1 R) xs]]
  | TDelAssoc => [NSess (r_delassoc R) xs]
  | TFind k => stmt R prep k :: preload_of R xs
  | TRel lookup target =>
      [NSess (r_preload_ep R)
         ((if lookup then [stmt R prep SQuery] else [])
          ++ (if target then stmt R prep SQuery :: preload_of R xs else []))]
  | TJoined => [NSess (r_preload R) xs]
  | TTx => [begin_node R prep xs]
  | TNestedTx sp rb =>
      (if sp then [NSess (r_savepoint R) [raw_exec R]] else [])
      ++ [NSess (r_txblock R) xs]
      ++ (if sp && rb then [NSess (r_savepoint R) [raw_exec R]] else [])
  | TAssocMode => [NSess (r_am R) xs]
  | TAmSave => [NSess (r_am_save0 R) [NSess (r_am_save1 R) xs]]
  | TAmWrite own => if own then [NSess (r_am_write R) xs] else xs
  | TAmRead m2m => if m2m then [NSess (r_am_cond R) xs] else xs
  | TSave => NSess (r_save0 R) xs :: (match ys with [] => [] | _ => [NSess (r_save1 R) ys] end)
  | TFirstOrCreate => NSess (r_foc R) xs :: ys
  | TFindInBatches limit => [NSess (r_fib0 R) (xs ++ (if limit then [NSess (r_fib1 R) ys] else ys))]
  | TBatch found => stmt R prep SQuery :: (if found then [NSess (r_fib2 R) xs] else [])
  | TCreateInBatches tx => if tx then [begin_node R prep xs] else [NSess (r_cib R) xs]
  end.

Section Tree.
  Variable R : roles.
  Variable prep : bool.
  Fixpoint op_tree (d : opdesc) : list node :=
    match d with
    | DStmt k => [stmt R prep k]
    | DRawExec => [raw_exec R]
    | DOp t xs ys =>
        build R prep t
          ((fix go (ds : list opdesc) : list node := match ds with [] => [] | x :: r => op_tree x ++ go r end) xs)
          ((fix go (ds : list opdesc) : list node := match ds with [] => [] | x :: r => op_tree x ++ go r end) ys)
    end.
  Definition op_trees (ds : list opdesc) : list node := flat_map op_tree ds.
End Tree.

(* every literal of the record keeps the context, every site passes the statement's context, every
   wrapper site its parameter: what FactsOK_C18 establishes for the regenerated record *)
Definition roles_lits (R : roles) : list slit :=
  [r_begin R; r_txblock R; r_savepoint R; r_assoc0 R; r_assoc1 R; r_join0 R; r_join1 R; r_delassoc R;
   r_preload R; r_preload_ep R; r_am R; r_am_save0 R; r_am_save1 R; r_am_write R; r_am_cond R;
   r_save0 R; r_save1 R; r_foc R; r_fib0 R; r_fib1 R; r_fib2 R; r_cib R].
Definition roles_ok (R : roles) : bool :=
  forallb session_keeps_ctx (roles_lits R)
  && forallb site_passes_stmt_ctx [s_exec R; s_query R; s_row R; s_begin R]
  && forallb site_passes_param [w_prepare R; w_exec R; w_query R; w_row R; w_begin R].

(* what the caller does with the handle: the finisher calls, on a session derived without repeating
   the context when [derive] is given, all under the caller's binding of the context *)
Definition caller_tree (R : roles) (prep : bool) (tag : ctx) (derive : option slit) (ds : list opdesc) : node :=
  let body := op_trees R prep ds in
  NWith tag (match derive with Some l => [NSess l body] | None => body end).

(* prepare events depend on the statement cache and on which connection holds the statement: the
   whole-operation comparison leaves them out on both sides *)
Definition not_prepare (kc : call) : bool := match fst kc with KPrepare => false | _ => true end.
