(* C09_Keys.v — "a model value without primary key": when the value(s) handed to an update or
   delete contribute a key condition.
   Modelled code: schema/utils.go GetIdentityFieldValuesMap (struct branch: `notZero = notZero ||
   !zero` over the key fields, a row only `if notZero`; slice branch: the same per element),
   callbacks/delete.go Delete (IN over the rows of the deleted value, then of the Model value when
   it is another value; a clause only `if len(values) > 0`), callbacks/update.go
   ConvertToAssignments (struct: one Eq per non-zero key field; slice: IN over the rows when some
   element has a non-zero key field; the update value IS the model - `db.Updates(&v)` without
   Model(...), Dest == Model and addressable -: the loop over the schema's columns, a key column
   goes to the condition branch BEFORE Select / Omit are consulted, every other column to the
   assignment branch). *)
From Verif Require Import Base.

(* a key field of one record: [true] = the field holds its zero value *)
Definition record := list bool.
(* a column of the schema as ConvertToAssignments' loop over `stmt.Schema.DBNames` sees it when the
   update value is the model itself: primary key?, zero value?, and what SelectAndOmitColumns says
   about the column (Some true = selected, Some false = omitted, None = not named) *)
Record column := mk_col { col_pk : bool; col_zero : bool; col_sel : option bool }.
(* a value handed to gorm: one record, a slice of records, or (update methods only) the model value
   itself as update value, all its columns in schema order *)
Inductive mvalue := VStruct (r : record) | VSlice (rs : list record) | VSelf (cols : list column).

(* the key fields of the model value, in schema order *)
Definition self_record (cols : list column) : record := map col_zero (filter col_pk cols).

(* one iteration of the column loop: `if !field.PrimaryKey || ... { assignment branch: consults
   selectColumns } else { if !isZero { AddClause(Where Eq) } }` - number of conditions added *)
Definition self_col_conds (c : column) : nat :=
  if negb (col_pk c) then
    (* assignment branch: Select / Omit decide whether the column is SET; never a condition *)
    match col_sel c with Some _ => 0 | None => 0 end
  else if col_zero c then 0 else 1.
Definition self_key_conds (cols : list column) : nat :=
  fold_left (fun n c => n + self_col_conds c)%nat cols 0%nat.

(* GetIdentityFieldValuesMap on one record: the loop over the key fields *)
Definition not_zero (r : record) : bool := fold_left (fun nz z => nz || negb z) r false.
(* the rows it returns *)
Definition identity_rows (v : mvalue) : list record :=
  match v with
  | VStruct r => if not_zero r then [r] else []
  | VSlice rs => filter not_zero rs
  | VSelf cols => if not_zero (self_record cols) then [self_record cols] else []
  end.

(* callbacks/delete.go: one IN clause per value with at least one row *)
Definition delete_key_conds (vals : list mvalue) : nat :=
  length (filter (fun v => match identity_rows v with [] => false | _ => true end) vals).

(* callbacks/update.go ConvertToAssignments (the value is the Model / ReflectValue) *)
Definition update_scan_zero (rs : list record) : bool :=
  (* `isZero := true; for i < size && isZero { for fields { _, isZero = ValueOf; if !isZero break } }` *)
  fold_left (fun (isz : bool) (r : record) => if isz then fold_left (fun (z f : bool) => if z then f else false) r true else false) rs true.
Definition update_key_conds (vals : list mvalue) : nat :=
  fold_left (fun n v => n + match v with
                              | VStruct r => length (filter negb r)          (* one Eq per non-zero field *)
                              | VSlice rs => if update_scan_zero rs then 0 else 1
                              | VSelf cols => self_key_conds cols
                              end)%nat vals 0%nat.

(* the key condition of a case: [del] = the finisher is Delete *)
Definition key_cond (del : bool) (vals : list mvalue) : bool :=
  negb (Nat.eqb (if del then delete_key_conds vals else update_key_conds vals) 0).

(* the reading of the property: some record of some value has a key field that is not zero *)
Definition has_key (vals : list mvalue) : bool :=
  existsb (fun v => match v with
                    | VStruct r => existsb negb r
                    | VSlice rs => existsb (existsb negb) rs
                    | VSelf cols => existsb negb (self_record cols)
                    end) vals.
