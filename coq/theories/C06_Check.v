(* C06_Check.v — correspondence checker for C06.
   A case is one history executed on real gorm (DummyDialector, DryRun).  For every finisher the
   harness recorded the SQL/Vars/error of the shared run and of the same chain replayed alone on a
   fresh gorm.Open, plus the token projection of both SQL texts; at the end of the history it
   recorded, per handle and slice field, (backing array id, len, cap) read with reflect/unsafe.
   model_agrees : the HEAP model run with Go's growth policy and the tree's MergeClause
                  classification predicts the tokens/vars of every shared finisher, of every
                  isolated replay, and the final aliasing structure.
   spec_holds   : the property, on what gorm returned: shared SQL/Vars/error = isolated ones. *)
From Verif Require Export Base C06_Model.
Open Scope Z_scope.

Record fobs := mk_fobs {
  f_toks : list Z; f_vars : list Z;            (* shared run: tokens of the SQL, bound values *)
  f_atoks : list Z; f_avars : list Z;          (* isolated replay *)
  f_sql : string; f_asql : string;             (* the two SQL texts *)
  f_err : string; f_aerr : string
}.

(* final statement of a handle: per field None (nil) or (array id, len, cap); then scalars *)
Record hobs := mk_hobs {
  h_sl : list (option (Z * Z * Z));
  h_distinct : bool; h_unscoped : bool; h_table : Z
}.

Record case := mk_case {
  c_inmodel : bool;        (* false: a regression input using an operation outside the model (spec only) *)
  c_hist : list step;
  c_fins : list fobs;
  c_final : list hobs
}.

Definition run (hist : list step) : state := run_hist go_grow tree_md hist.

(* canonical numbering of backing arrays by first appearance (handles in order, fields in order);
   zero-capacity slices all share Go's zerobase pointer: id -1 *)
Fixpoint lookup (l : nat) (m : list (nat * Z)) : option Z :=
  match m with
  | [] => None
  | (k, v) :: r => if Nat.eqb k l then Some v else lookup l r
  end.
Definition canon_slice (m : list (nat * Z)) (s : slice) : list (nat * Z) * option (Z * Z * Z) :=
  match s with
  | SNil => (m, None)
  | SArr l n c =>
      match c with
      | O => (m, Some (-1, Z.of_nat n, 0))
      | _ => match lookup l m with
             | Some id => (m, Some (id, Z.of_nat n, Z.of_nat c))
             | None => let id := Z.of_nat (length m) in ((l, id) :: m, Some (id, Z.of_nat n, Z.of_nat c))
             end
      end
  end.
Fixpoint canon_fields (m : list (nat * Z)) (s : mstmt) (fs : list field) : list (nat * Z) * list (option (Z * Z * Z)) :=
  match fs with
  | [] => (m, [])
  | f :: r => let '(m1, x) := canon_slice m (sl s f) in
              let '(m2, xs) := canon_fields m1 s r in (m2, x :: xs)
  end.
Fixpoint canon_handles (m : list (nat * Z)) (sts : list mstmt) (hds : list (nat * nat)) : list hobs :=
  match hds with
  | [] => []
  | (i, _) :: r =>
      let s := get_stmt sts i in
      let '(m1, xs) := canon_fields m s all_fields in
      mk_hobs xs (k_distinct (sc s)) (k_unscoped (sc s)) (k_table (sc s)) :: canon_handles m1 sts r
  end.
Definition model_final (st : state) : list hobs := canon_handles [] (st_stmts st) (st_handles st).

Definition triple_eqb (a b : Z * Z * Z) : bool :=
  let '(a1, a2, a3) := a in let '(b1, b2, b3) := b in (a1 =? b1) && (a2 =? b2) && (a3 =? b3).
Definition hobs_eqb (a b : hobs) : bool :=
  list_eqb (option_eqb triple_eqb) (h_sl a) (h_sl b)
  && Bool.eqb (h_distinct a) (h_distinct b) && Bool.eqb (h_unscoped a) (h_unscoped b)
  && (h_table a =? h_table b).

Definition out_eqb (m : list pop * (list Z * list Z)) (o : fobs) : bool :=
  let '(chain, (toks, vars)) := m in
  zlist_eqb toks (f_toks o) && zlist_eqb vars (f_vars o)
  && (let '(at_, av) := render_alone chain in zlist_eqb at_ (f_atoks o) && zlist_eqb av (f_avars o)).

Fixpoint all2b {A B} (f : A -> B -> bool) (a : list A) (b : list B) : bool :=
  match a, b with
  | [], [] => true
  | x :: a', y :: b' => f x y && all2b f a' b'
  | _, _ => false
  end.

Definition model_agrees (c : case) : bool :=
  negb (c_inmodel c) ||
  let st := run (c_hist c) in
  all2b out_eqb (st_outs st) (c_fins c)
  && list_eqb hobs_eqb (model_final st) (c_final c).

(* the property: every finisher of the shared history renders exactly what the same chain renders
   alone (SQL text, bound values, error) *)
Definition spec_holds (c : case) : bool :=
  forallb (fun o => String.eqb (f_sql o) (f_asql o) && zlist_eqb (f_vars o) (f_avars o)
                    && String.eqb (f_err o) (f_aerr o)) (c_fins c).

Definition check_case (c : case) : N := code_of (model_agrees c) (spec_holds c).
