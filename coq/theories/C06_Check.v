(* C06_Check.v — correspondence checker for C06.
   A case is one history executed on real gorm (DummyDialector, DryRun).  For every finisher the
   harness recorded the SQL/Vars/error of the shared run and of the same chain replayed alone on a
   fresh gorm.Open, plus the token projection of both SQL texts; at the end of the history it
   recorded, per handle and slice field, (backing array id, len, cap) read with reflect/unsafe.
   model_agrees : the HEAP model run with Go's growth policy and the tree's MergeClause
                  classification predicts the tokens/vars of every shared finisher, of every
                  isolated replay, and the final aliasing structure.
   spec_holds   : the property, on what gorm returned: shared SQL/Vars/error = isolated ones. *)
From Verif Require Export Base C06_Model C06_Ext.
Open Scope Z_scope.

Record fobs := mk_fobs {
  f_toks : list Z; f_vars : list Z;            (* shared run: tokens of the SQL, bound values *)
  f_atoks : list Z; f_avars : list Z;          (* isolated replay *)
  f_sql : string; f_asql : string;             (* the two SQL texts *)
  f_err : string; f_aerr : string;
  (* the non-slice state the finisher ran under (context tag, SkipHooks, Preloads, Settings), read from
     the statement it left behind: shared run / isolated replay *)
  f_x : xobs; f_ax : xobs
}.

(* final statement of a handle: per field None (nil) or (array id, len, cap); then scalars *)
Record hobs := mk_hobs {
  h_sl : list (option (Z * Z * Z));
  h_distinct : bool; h_unscoped : bool; h_table : Z;
  h_ctx : Z; h_skip : bool;
  h_pre : option (Z * list (Z * Z));     (* Preloads: nil, or (canonical id of the map object, content) *)
  h_set : list (Z * Z)
}.

Record case := mk_case {
  c_inmodel : bool;        (* false: a regression input using an operation outside the model (spec only) *)
  c_hist : list ustep;     (* ONE history, run by both models (to_step / to_xstep) *)
  c_fins : list fobs;
  c_final : list hobs
}.

Definition run (hist : list ustep) : state := run_hist go_grow tree_md (map to_step hist).
Definition xrun (hist : list ustep) : xstate := run_xhist false tree_guard (map to_xstep hist).

(* canonical numbering of backing arrays by first appearance (handles in order, fields in order);
   zero-capacity slices all share Go's zerobase pointer: id -1 *)
Fixpoint lookup (l : nat) (m : list (nat * Z)) : option Z :=
  match m with
  | [] => None
  | (k, v) :: r => if Nat.eqb k l then Some v else lookup l r
  end.
Definition canon_slice (m : list (nat * Z)) (s : slice) : list (nat * Z) * option (Z * Z * Z) :=
  match s with
  | SNil => (m, None)
  | SArr l n c =>
      match c with
      | O => (m, Some (-1, Z.of_nat n, 0))
      | _ => match lookup l m with
             | Some id => (m, Some (id, Z.of_nat n, Z.of_nat c))
             | None => let id := Z.of_nat (length m) in ((l, id) :: m, Some (id, Z.of_nat n, Z.of_nat c))
             end
      end
  end.
Fixpoint canon_fields (m : list (nat * Z)) (s : mstmt) (fs : list field) : list (nat * Z) * list (option (Z * Z * Z)) :=
  match fs with
  | [] => (m, [])
  | f :: r => let '(m1, x) := canon_slice m (sl s f) in
              let '(m2, xs) := canon_fields m1 s r in (m2, x :: xs)
  end.
(* map objects are numbered by first appearance as well (their own numbering) *)
Definition canon_map (mm : list (nat * Z)) (mh : list (list (Z * Z))) (r : option nat)
  : list (nat * Z) * option (Z * list (Z * Z)) :=
  match r with
  | None => (mm, None)
  | Some l => match lookup l mm with
              | Some id => (mm, Some (id, nth l mh []))
              | None => let id := Z.of_nat (length mm) in ((l, id) :: mm, Some (id, nth l mh []))
              end
  end.
Fixpoint canon_handles (m mm : list (nat * Z)) (sts : list mstmt) (mh : list (list (Z * Z))) (xsts : list xstmt)
    (hds : list (nat * nat)) : list hobs :=
  match hds with
  | [] => []
  | (i, _) :: r =>
      let s := get_stmt sts i in
      let x := xget xsts i in
      let '(m1, xs) := canon_fields m s all_fields in
      let '(mm1, pre) := canon_map mm mh (x_pre x) in
      mk_hobs xs (k_distinct (sc s)) (k_unscoped (sc s)) (k_table (sc s)) (x_ctx x) (x_skip x) pre (x_set x)
        :: canon_handles m1 mm1 sts mh xsts r
  end.
(* both models keep the same handle table (statement numbers and clone modes): checked, then used *)
Definition model_final (st : state) (xst : xstate) : list hobs :=
  canon_handles [] [] (st_stmts st) (xs_maps xst) (xs_stmts xst) (st_handles st).
Definition same_handles (st : state) (xst : xstate) : bool :=
  list_eqb (fun a b : nat * nat => Nat.eqb (fst a) (fst b) && Nat.eqb (snd a) (snd b)) (st_handles st) (xs_handles xst).

Definition triple_eqb (a b : Z * Z * Z) : bool :=
  let '(a1, a2, a3) := a in let '(b1, b2, b3) := b in (a1 =? b1) && (a2 =? b2) && (a3 =? b3).
Definition pair_eqb (u v : Z * Z) : bool := (fst u =? fst v) && (snd u =? snd v).
Definition amap_eqb (a b : list (Z * Z)) : bool := list_eqb pair_eqb a b.
Definition xobs_eqb (a b : xobs) : bool :=
  (o_ctx a =? o_ctx b) && Bool.eqb (o_skip a) (o_skip b) && amap_eqb (o_pre a) (o_pre b) && amap_eqb (o_set a) (o_set b).
Definition hobs_eqb (a b : hobs) : bool :=
  list_eqb (option_eqb triple_eqb) (h_sl a) (h_sl b)
  && Bool.eqb (h_distinct a) (h_distinct b) && Bool.eqb (h_unscoped a) (h_unscoped b)
  && (h_table a =? h_table b)
  && (h_ctx a =? h_ctx b) && Bool.eqb (h_skip a) (h_skip b)
  && option_eqb (fun u v : Z * list (Z * Z) => (fst u =? fst v) && amap_eqb (snd u) (snd v)) (h_pre a) (h_pre b)
  && amap_eqb (h_set a) (h_set b).

Definition out_eqb (m : list pop * (list Z * list Z)) (o : fobs) : bool :=
  let '(chain, (toks, vars)) := m in
  zlist_eqb toks (f_toks o) && zlist_eqb vars (f_vars o)
  && (let '(at_, av) := render_alone chain in zlist_eqb at_ (f_atoks o) && zlist_eqb av (f_avars o)).

Fixpoint all2b {A B} (f : A -> B -> bool) (a : list A) (b : list B) : bool :=
  match a, b with
  | [], [] => true
  | x :: a', y :: b' => f x y && all2b f a' b'
  | _, _ => false
  end.

(* the non-slice model predicts what the finisher ran under, in the shared run AND alone *)
Definition xout_eqb (m : list xpop * xobs) (o : fobs) : bool :=
  xobs_eqb (snd m) (f_x o) && xobs_eqb (xreplay (fst m)) (f_ax o).

Definition model_agrees (c : case) : bool :=
  negb (c_inmodel c) ||
  let st := run (c_hist c) in
  let xst := xrun (c_hist c) in
  all2b out_eqb (st_outs st) (c_fins c)
  && all2b xout_eqb (xs_outs xst) (c_fins c)
  (* ... and, the history being linear, the replay of the SYNTACTIC derivation path of every finisher *)
  && (let xh := map to_xstep (c_hist c) in
      negb (linearb tbl0 xh)
      || all2b (fun path o => xobs_eqb (xreplay path) (f_ax o)) (fin_paths tbl0 xh) (c_fins c))
  && same_handles st xst
  && list_eqb hobs_eqb (model_final st xst) (c_final c).

(* the property: every finisher of the shared history renders exactly what the same chain renders
   alone (SQL text, bound values, error) *)
Definition spec_holds (c : case) : bool :=
  forallb (fun o => String.eqb (f_sql o) (f_asql o) && zlist_eqb (f_vars o) (f_avars o)
                    && String.eqb (f_err o) (f_aerr o)
                    && xobs_eqb (f_x o) (f_ax o)) (c_fins c).

Definition check_case (c : case) : N := code_of (model_agrees c) (spec_holds c).
