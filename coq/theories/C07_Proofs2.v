(* C07_Proofs2.v — every step of every goroutine preserves the invariant of C07_Proofs. *)
From Verif Require Import Base C07_Model C07_Proofs.

Section Upd.
Variable cfg : config.
Notation frame_inv := (frame_inv cfg).
Notation inv := (inv cfg).

(* one step of goroutine g0 that keeps the frames [kept] at the bottom of its stack *)
Lemma inv_update g0 st st' olds news kept :
  inv st -> g0 < st_nthr st -> st_nthr st' = st_nthr st ->
  ext g0 (length kept) st st' ->
  t_stack (st_thr st g0) = olds ++ kept ->
  t_stack (st_thr st' g0) = news ++ kept ->
  (forall g, g <> g0 -> st_thr st' g = st_thr st g) ->
  frames_on (frame_inv st' g0) news kept -> top_ok (news ++ kept) ->
  Forall (ret_ok cfg st') (t_rets (st_thr st' g0)) ->
  (forall s, st_nsch st' <= s -> st_sch st' s = dummy_s) ->
  (forall t s, st_cache st' t = Some s -> st_cache st t <> Some s ->
     s < st_nsch st' /\ s_ty (st_sch st' s) = t /\ 0 < s_pub (st_sch st' s)) ->
  (forall s, s < st_nsch st' -> s_closed (st_sch st' s) = true ->
     (st_nsch st <= s \/ s_closed (st_sch st s) = false) ->
     0 < s_pub (st_sch st' s) -> complete cfg st' s) ->
  (forall s, s < st_nsch st' -> 0 < s_pub (st_sch st' s) -> s_err (st_sch st' s) = false ->
     st_cache st' (s_ty (st_sch st' s)) = Some s) ->
  (forall s, s < st_nsch st' -> s_closed (st_sch st' s) = false ->
     (st_nsch st <= s \/ (s_owner (st_sch st s) = g0 /\ length kept <= s_depth (st_sch st s))) ->
     s_owner (st_sch st' s) = g0 /\ owns (news ++ kept) (s_depth (st_sch st' s)) s) ->
  inv st'.
Proof.
  intros I Hg0 Hn E Hold Hnew Hoth Hnews Htop Hrets HN HC HD HG HL.
  pose proof (e_clk _ _ _ _ E) as Ck. pose proof (e_nsch _ _ _ _ E) as Ns.
  constructor.
  - exact HN.
  - intros t s Hc. destruct (option_eq_dec_sid (st_cache st t) (Some s)) as [Eq|Ne].
    + destruct (i_C _ _ I _ _ Eq) as (A & B & C).
      split; [lia|]. rewrite (ext_pub_pos _ _ _ _ _ E A C). split; [|exact C].
      destruct (e_sch _ _ _ _ E s A) as [->|(_ & _ & _ & X & _)]; congruence.
    + apply HC; assumption.
  - intros s Hs Hcl Hp.
    destruct (Nat.lt_ge_cases s (st_nsch st)) as [Lt|Ge]; [|apply HD; auto].
    destruct (s_closed (st_sch st s)) eqn:Ecl; [|apply HD; auto].
    assert (U : st_sch st' s = st_sch st s) by (apply (ext_untouched _ _ _ _ _ E Lt); auto).
    apply (complete_eq cfg st st' s U). apply (i_D _ _ I s Lt Ecl). now rewrite <- U.
  - exact HG.
  - intro s. destruct (e_pub _ _ _ _ E s) as [->| ->]; [pose proof (i_K _ _ I s)|]; lia.
  - intros s Hs Hcl.
    destruct (Nat.lt_ge_cases s (st_nsch st)) as [Lt|Ge].
    2:{ destruct (HL s Hs Hcl (or_introl Ge)) as [O W]. rewrite O, Hn. split; [exact Hg0|].
        rewrite Hnew. exact W. }
    assert (Ecl : s_closed (st_sch st s) = false).
    { destruct (s_closed (st_sch st s)) eqn:X; [|reflexivity].
      rewrite (ext_untouched _ _ _ _ _ E Lt) in Hcl by auto. congruence. }
    destruct (i_L _ _ I s Lt Ecl) as [Ow Wn].
    assert (OD : s_owner (st_sch st' s) = s_owner (st_sch st s) /\ s_depth (st_sch st' s) = s_depth (st_sch st s)).
    { destruct (e_sch _ _ _ _ E s Lt) as [->|(_ & _ & _ & _ & X & Y & _)]; auto. }
    destruct OD as [O D]. rewrite O, D, Hn. split; [exact Ow|].
    destruct (Nat.eq_dec (s_owner (st_sch st s)) g0) as [Eo|No].
    + rewrite Eo in Wn |- *. rewrite Hnew. rewrite Hold in Wn.
      destruct (Nat.lt_ge_cases (s_depth (st_sch st s)) (length kept)) as [Dl|Dg].
      * exact (owns_kept _ _ _ _ _ Dl Wn).
      * destruct (HL s Hs Hcl (or_intror (conj Eo Dg))) as [_ W]. now rewrite D in W.
    + rewrite (Hoth _ No). exact Wn.
  - intro g. destruct (Nat.eq_dec g g0) as [->|Ng].
    + rewrite Hnew. split; [|split; [exact Htop|exact Hrets]].
      apply frames_ok_app. split; [exact Hnews|].
      destruct (i_T _ _ I g0) as (F & _ & _). rewrite Hold in F. apply frames_ok_app in F.
      eapply frames_stable; eauto; tauto.
    + rewrite (Hoth _ Ng). destruct (i_T _ _ I g) as (F & T & R). split; [|split; [exact T|]].
      * eapply frames_stable; eauto.
      * eapply Forall_impl; [|exact R]. intros rr. eapply ret_ok_stable; eauto.
Qed.
End Upd.

Section Steps.
Variable cfg : config.
Notation frame_inv := (frame_inv cfg).
Notation inv := (inv cfg).

Lemma inv_with_ev st e : inv st -> inv (with_ev st e).
Proof. intros [A B C D E F G]. constructor; assumption. Qed.

Lemma nth_error_lt {A} (l : list A) n x : nth_error l n = Some x -> n < length l.
Proof. intro H. apply nth_error_Some. congruence. Qed.

Lemma owns_lt stk d s : owns stk d s -> d < length stk.
Proof. intros [f [H _]]. apply nth_error_lt in H. now rewrite rev_length in H. Qed.

Lemma owns_top f below d s :
  owns (f :: below) d s -> length below <= d -> d = length below /\ own_of (f_pc f) = Some s.
Proof.
  intros W Hd. pose proof (owns_lt _ _ _ W) as L. cbn in L. assert (d = length below) by lia. subst.
  split; [reflexivity|]. exact (owns_inv [] f below s W).
Qed.

Lemma top_frame st g f below :
  inv st -> t_stack (st_thr st g) = f :: below ->
  frame_inv st g below f /\ frames_ok (frame_inv st g) below /\ ~ is_nest f.
Proof.
  intros I H. destruct (i_T _ _ I g) as (F & T & _). rewrite H in F, T. cbn in F, T. tauto.
Qed.

(* the common shape of the steps that only move the program counter of the top frame *)
Lemma silent_step st g f below p' :
  inv st -> g < st_nthr st -> t_stack (st_thr st g) = f :: below ->
  own_of p' = own_of (f_pc f) -> ~ is_nest (mk_f (f_ty f) p' (f_born f)) ->
  frame_inv (with_thr st g (set_top (st_thr st g) p')) g below (mk_f (f_ty f) p' (f_born f)) ->
  inv (with_thr st g (set_top (st_thr st g) p')).
Proof.
  intros I Hg Hs Ho Hn Hf.
  assert (Hst : t_stack (st_thr (with_thr st g (set_top (st_thr st g) p')) g)
                = [mk_f (f_ty f) p' (f_born f)] ++ below).
  { cbn. rewrite upd_same. unfold set_top. rewrite Hs. reflexivity. }
  apply (inv_update cfg g st (with_thr st g (set_top (st_thr st g) p')) [f]
           [mk_f (f_ty f) p' (f_born f)] below I Hg eq_refl).
  - constructor; cbn; auto.
  - exact Hs.
  - exact Hst.
  - intros g' Ng. cbn. now rewrite upd_other.
  - cbn. split; [exact Hf|trivial].
  - exact Hn.
  - cbn. rewrite upd_same. unfold set_top. rewrite Hs. cbn.
    destruct (i_T _ _ I g) as (_ & _ & R). eapply Forall_impl; [|exact R].
    intros rr. apply ret_ok_stable with (g0 := g) (K := 0). constructor; cbn; auto.
  - exact (i_N _ _ I).
  - intros t s H1 H2. cbn in H1. contradiction.
  - intros s H1 H2 [H3|H3] _; cbn in *; [lia|congruence].
  - exact (i_G _ _ I).
  - intros s H1 H2 [H3|[H3 H4]]; cbn in *; [lia|].
    destruct (i_L _ _ I s H1 H2) as [_ W]. rewrite H3, Hs in W.
    destruct (owns_top _ _ _ _ W H4) as [Ed Eo]. split; [exact H3|].
    rewrite Ed. apply (owns_at [] _ below s). cbn. congruence.
Qed.
End Steps.
