(* C13_Proofs6.v — transactions of whole operations; values set by before-hooks. *)
From Verif Require Import Base C13_Model C13_Check C13_Proofs C13_Proofs2 C13_Proofs3 C13_Proofs4 C13_Proofs5.
Open Scope Z_scope.

Definition is_write (o : op) : bool := negb (is_query o).
Definition must_tx (o : op) : bool :=
  is_write o && match o_txmode o with TxSkipDefault => false | _ => true end.

Lemma query_pipeline_mid : forall must c a q s, mid must s (run_pipeline c a q query_pipeline s).
Proof.
  intros. unfold run_pipeline, query_pipeline. cbn [fold_left run_cb].
  eapply mid_trans; [apply stmt_query_mid|]. eapply mid_trans; [|apply hooks_phase_mid].
  unfold preload_cb. match goal with |- context [if ?b then _ else _] => destruct b end; [|apply mid_refl].
  eapply mid_trans; apply nested_query_mid.
Qed.

Lemma init_inv : forall must o, Inv must (init_state o) /\ s_started (init_state o) = false
  /\ s_err (init_state o) = [] /\ s_tbl (init_state o) = o_seed o
  /\ s_pool (init_state o) = match o_txmode o with TxOuter => 1 | _ => 0 end.
Proof.
  intros must o. unfold init_state, Inv. destruct (o_txmode o); cbn; repeat split; reflexivity.
Qed.

(* the body of an operation on a handle that is inside a transaction / has SkipDefaultTransaction *)
Lemma run_body_inner : forall must o s,
  (forall b, o_kind o <> OCreateInBatches b) ->
  s_started s = false -> (s_pool s <> 0 \/ o_txmode o = TxSkipDefault) ->
  mid must s (run_body o s).
Proof.
  intros must o s NB ST NO.
  assert (N : forall sk d s', s_pool s' = s_pool s -> nested_ok (op_cx o sk d) s').
  { intros sk d s' P. unfold nested_ok. destruct NO as [NP|SD]; [left; rewrite P; exact NP|right]. cbn. rewrite SD. reflexivity. }
  unfold run_body. destruct (o_kind o) eqn:KD; [| | | | | | | exfalso; eapply NB; reflexivity].
  - destruct (by_value_struct o); [apply add_err_mid|].
    eapply pipeline_inner; [apply create_bracketed | exact ST | apply N; reflexivity].
  - destruct (sh_cont (o_shape o)); try (eapply pipeline_inner; [apply create_bracketed | exact ST | apply N; reflexivity]).
    unfold run_save_struct. destruct (o_recs o) as [|r rs]; [apply mid_refl|].
    destruct (m_id r =? 0); [eapply pipeline_inner; [apply create_bracketed | exact ST | apply N; reflexivity]|].
    pose proof (pipeline_inner must (op_cx o (o_skip o) DSelf) (o_assocs o) no_q update_pipeline _ s update_bracketed ST (N _ _ s eq_refl)) as A.
    match goal with |- context [if ?b then _ else _] => destruct b end; [|exact A].
    eapply mid_trans; [exact A|]. destruct A as [(P & _ & St & _) _].
    destruct (by_value_struct o); [apply add_err_mid|].
    eapply pipeline_inner; [apply create_bracketed | congruence | apply N; exact P].
  - eapply pipeline_inner; [apply update_bracketed | exact ST | apply N; reflexivity].
  - eapply pipeline_inner; [apply update_bracketed | exact ST | apply N; reflexivity].
  - eapply pipeline_inner; [apply delete_bracketed | exact ST | apply N; reflexivity].
  - eapply mid_trans; [|apply query_pipeline_mid]. apply quiet_mid; [reflexivity | repeat split].
  - eapply mid_trans; [|apply query_pipeline_mid]. apply quiet_mid; [reflexivity | repeat split].
Qed.

(* the upsert fallback of Save cannot fail *)
Lemma fallback_ok : forall o s1, op_ok o -> is_query o = false -> keys s1 = rkeys (o_recs o) -> s_err s1 = [] ->
  s_err (run_pipeline (op_cx o true DSelf) (o_assocs o) no_q create_pipeline s1) = [].
Proof.
  intros o s1 (U & OK) Q K E. unfold is_query in Q.
  assert (G : goodk (o_shape o) (keys s1) /\ assocs_ok (op_cx o (o_skip o) DSelf) (o_assocs o)).
  { rewrite K. destruct (o_kind o); try discriminate; try contradiction; (split; [apply OK | apply OK]). }
  destruct G as [G AO].
  set (cF := op_cx o true DSelf).
  assert (FB : hstep (o_fails o) s1 (run_pipeline cF (o_assocs o) no_q create_pipeline s1)
            (gated s1 (sched_log (cu_sched cF PBeforeCreate PAfterCreate (map fst (keys s1)) (o_assocs o)) (s_k s1) (o_fails o)))).
  { rewrite create_pipeline_eq. apply (cu_body_step cF); try apply U; try assumption.
    intros s0 G0. apply stmt_create_step. exact G0. }
  rewrite (sched_log_nils (cu_sched cF _ _ _ _)) in FB by (apply cu_sched_skip; reflexivity).
  destruct FB as [_ _ Kk Ee]. rewrite E in Ee. cbn [is_nil andb] in Ee.
  assert (K2 : s_k (run_pipeline cF (o_assocs o) no_q create_pipeline s1) = s_k s1).
  { rewrite Kk. unfold gated. destruct (is_nil (s_err s1)); unfold len; cbn; lia. }
  rewrite K2, no_fail_empty in Ee.
  destruct (s_err (run_pipeline cF (o_assocs o) no_q create_pipeline s1)); [reflexivity|discriminate].
Qed.

(* default transaction mode *)
Lemma run_body_default : forall must o, o_txmode o = TxDefault -> is_query o = false -> op_ok o ->
  let s' := run_body o (init_state o) in
  Inv must s' /\ (s_err s' <> [] -> s_tbl s' = o_seed o).
Proof.
  intros must o TM Q OK.
  destruct (init_inv must o) as (I & ST & E & TB & P). rewrite TM in P.
  assert (SD : forall sk d, c_skipdef (op_cx o sk d) = false) by (intros; cbn; rewrite TM; reflexivity).
  assert (D : forall sk d p body, bracketed p body ->
     let s' := run_pipeline (op_cx o sk d) (o_assocs o) no_q p (init_state o) in
     Inv must s' /\ (s_err s' <> [] -> s_tbl s' = o_seed o)).
  { intros sk d p body BR.
    destruct (pipeline_default must (op_cx o sk d) (o_assocs o) no_q p body (init_state o) BR I ST E P (SD sk d)) as (I' & _ & _ & T').
    split; [exact I' | rewrite <- TB; exact T']. }
  assert (BV : by_value_struct o = false).
  { destruct OK as (_ & OK0). unfold is_query in Q.
    destruct (o_kind o); try discriminate; try contradiction; destruct OK0 as (G0 & _); exact (goodk_not_by_value o _ G0). }
  unfold is_query in Q. unfold run_body, run_save_struct. rewrite ?BV. destruct (o_kind o) eqn:KD; try discriminate.
  - eapply D. apply create_bracketed.
  - destruct (sh_cont (o_shape o)); try (eapply D; apply create_bracketed).
    unfold run_save_struct. destruct (o_recs o) as [|r rs] eqn:R; [split; [exact I | intro H; exact TB]|].
    destruct (m_id r =? 0); [eapply D; apply create_bracketed|].
    destruct (pipeline_default must (op_cx o (o_skip o) DSelf) (o_assocs o) no_q update_pipeline _ (init_state o)
                update_bracketed I ST E P (SD _ _)) as (I1 & ST1 & P1 & T1).
    set (s1 := run_pipeline (op_cx o (o_skip o) DSelf) (o_assocs o) no_q update_pipeline (init_state o)) in *.
    destruct (is_nil (s_err s1)) eqn:E1; cbn [andb]; [|split; [exact I1 | rewrite <- TB; exact T1]].
    destruct (negb (has_row TRecs (m_tag r) (s_tbl (init_state o)))); [|split; [exact I1 | rewrite <- TB; exact T1]].
    assert (E1' : s_err s1 = []) by (destruct (s_err s1); [reflexivity|discriminate]).
    destruct (pipeline_default must (op_cx o true DSelf) (o_assocs o) no_q create_pipeline _ s1
                create_bracketed I1 ST1 E1' P1 (SD _ _)) as (I2 & _ & _ & _).
    split; [exact I2|]. intro H. exfalso. apply H.
    apply fallback_ok; try assumption.
    + unfold is_query. rewrite KD. reflexivity.
    + destruct (init_facts o) as (_ & _ & _ & KS & _).
      assert (Qf : is_query o = false) by (unfold is_query; rewrite KD; reflexivity).
      pose proof (run_body_step o (init_state o) OK Qf KS) as HS.
      (* the update pipeline keeps the keys *)
      destruct OK as (U & OK). rewrite KD in OK. destruct OK as (G & AO & XD).
      assert (UP : hstep (o_fails o) (init_state o) s1
                (gated (init_state o) (sched_log (cu_sched (op_cx o (o_skip o) DSelf) PBeforeUpdate PAfterUpdate (map fst (keys (init_state o))) (o_assocs o)) (s_k (init_state o)) (o_fails o)))).
      { subst s1. rewrite update_pipeline_eq. apply (cu_body_step (op_cx o (o_skip o) DSelf)); try apply U; try assumption.
        - intros s0 G0. apply stmt_update_step. exact G0.
        - rewrite KS. exact G. }
      destruct UP as [K1 _ _ _]. rewrite K1. exact KS.
  - eapply D. apply update_bracketed.
  - eapply D. apply update_bracketed.
  - eapply D. apply delete_bracketed.
  - exfalso. destruct OK as (_ & OK). rewrite KD in OK. exact OK.
Qed.

(* every hook and every statement of an operation runs in the transaction that is open at that
   moment; write operations with the default or an explicit transaction are never outside one *)
Theorem run_tx_ok : forall o, op_ok o -> tx_ok (must_tx o) 0 0 (s_tr (run o)) = true.
Proof.
  intros o OK. unfold run.
  assert (NBK : forall b, o_kind o <> OCreateInBatches b).
  { intros b E. destruct OK as (_ & OK). rewrite E in OK. exact OK. }
  destruct (init_inv (must_tx o) o) as (I & ST & E & TB & P).
  destruct (o_txmode o) eqn:TM.
  - (* default *)
    unfold finish. rewrite TM.
    destruct (is_query o) eqn:Q.
    + assert (M : must_tx o = false) by (unfold must_tx, is_write; rewrite Q; reflexivity).
      rewrite M in *.
      assert (MD : mid false (init_state o) (run_body o (init_state o))).
      { unfold is_query in Q. unfold run_body. destruct (o_kind o); try discriminate;
          (eapply mid_trans; [|apply query_pipeline_mid]); apply quiet_mid; try reflexivity; repeat split. }
      destruct MD as [_ MI]. destruct (MI I ltac:(discriminate)) as [OKK _]. exact OKK.
    + destruct (run_body_default (must_tx o) o TM Q OK) as ((OKK & _) & _). exact OKK.
  - (* the caller's transaction *)
    assert (NZ0 : s_pool (init_state o) <> 0) by (rewrite P; discriminate).
    pose proof (run_body_inner (must_tx o) o (init_state o) NBK ST (or_introl NZ0)) as [(P2 & _) MI].
    destruct (MI I (fun _ => NZ0)) as [OK2 S2].
    unfold finish. rewrite TM.
    assert (NZ : (s_pool (run_body o (init_state o)) =? 0) = false) by (rewrite P2, P; reflexivity).
    destruct (is_nil (s_err (run_body o (init_state o)))); cbn [s_tr set_tbl emit set_tr];
      rewrite tx_ok_app, OK2, S2; cbn [fst snd andb tx_ok]; rewrite NZ; reflexivity.
  - (* SkipDefaultTransaction *)
    assert (M : must_tx o = false) by (unfold must_tx; rewrite TM; apply andb_false_r). rewrite M in *.
    pose proof (run_body_inner false o (init_state o) NBK ST (or_intror TM)) as [_ MI].
    destruct (MI I ltac:(discriminate)) as [OK2 _].
    unfold finish. rewrite TM. exact OK2.
Qed.

(* a write operation that returns an error leaves the database as it found it *)
Theorem run_rollback : forall o, op_ok o -> must_tx o = true -> s_err (run o) <> [] -> s_tbl (run o) = o_seed o.
Proof.
  intros o OK M. unfold must_tx, is_write in M. apply andb_prop in M. destruct M as [Q TMM].
  apply negb_true_iff in Q. unfold run, finish.
  destruct (o_txmode o) eqn:TM; try discriminate.
  - intro H. destruct (run_body_default false o TM Q OK) as (_ & T). apply T. exact H.
  - destruct (is_nil (s_err (run_body o (init_state o)))) eqn:E; cbn [s_err s_tbl set_tbl emit set_tr].
    + intro H. destruct (s_err (run_body o (init_state o))); [congruence|discriminate].
    + reflexivity.
Qed.

(* ---------------------------------------------------------------- values set by before-hooks *)
(* the update payload map: after SetColumn the map holds the hook's value and nothing else for the
   column, whatever spelling the hook or the caller used *)
Lemma filter_false_nil {A} (l : list A) : filter (fun _ => false) l = [].
Proof. induction l; [reflexivity | exact IHl]. Qed.

Lemma map_val_set : forall k v m, map_val (map_set k v m) = Some v.
Proof.
  intros k v m. unfold map_val, map_set, map_get. rewrite filter_false_nil. destruct k; reflexivity.
Qed.

(* the statement of Create stores, for every record, the value the record holds at that moment *)
Lemma upsert_in : forall t g v tb, In (t, g, v) (upsert t g v tb).
Proof. intros. unfold upsert. apply in_or_app. right. left. reflexivity. Qed.

Lemma upsert_keeps : forall t g v t' g' v' tb, (t', g') <> (t, g) -> In (t', g', v') tb -> In (t', g', v') (upsert t g v tb).
Proof.
  intros t g v t' g' v' tb NE H. unfold upsert, del_row. apply in_or_app. left.
  apply filter_In. split; [exact H|]. unfold row_is. cbn [fst snd].
  destruct (table_eqb t' t) eqn:T; cbn [andb negb]; [|reflexivity].
  destruct (Z.eqb_spec g' g); [|reflexivity]. exfalso. apply NE.
  assert (t' = t) by (destruct t', t; try discriminate; reflexivity). congruence.
Qed.

Lemma fold_upsert_in : forall t recs tb r,
  NoDup (map m_tag recs) -> In r recs ->
  In (t, m_tag r, m_val r) (fold_left (fun tb r => upsert t (m_tag r) (m_val r) tb) recs tb).
Proof.
  intros t recs. induction recs as [|x l IH]; intros tb r ND H; [contradiction|].
  cbn [fold_left]. cbn [map] in ND. inversion ND as [|? ? NI ND']; subst.
  destruct H as [->|H]; [|apply IH; assumption].
  assert (K : forall l' tb', ~ In (m_tag r) (map m_tag l') -> In (t, m_tag r, m_val r) tb' ->
              In (t, m_tag r, m_val r) (fold_left (fun tb r => upsert t (m_tag r) (m_val r) tb) l' tb')).
  { induction l' as [|y l' IH']; intros tb' NI' H'; [exact H'|]. cbn [fold_left]. apply IH'.
    - intro X. apply NI'. right. exact X.
    - apply upsert_keeps; [|exact H']. intro E. apply NI'. left. congruence. }
  apply K; [exact NI | apply upsert_in].
Qed.

Lemma stmt_create_stores : forall c s r,
  c_keep c = false ->
  s_err s = [] -> existsb m_nil (s_recs s) = false -> NoDup (map m_tag (s_recs s)) -> In r (s_recs s) ->
  In (c_table c, m_tag r, m_val r) (s_tbl (stmt_create c s)).
Proof.
  intros c s r KP E NN ND H. unfold stmt_create. rewrite E, KP. cbn [is_nil negb andb].
  destruct (s_recs s) as [|x l] eqn:R; [contradiction|]. rewrite NN.
  cbn [s_tbl set_tbl]. apply fold_upsert_in; assumption.
Qed.

(* SetColumn from a before-hook of record i (Dest = the model itself, slice / array / *struct):
   record i now holds the hook's value, the other records are untouched *)
Lemma set_nth_val_nth : forall l i v r, nth_error l i = Some r ->
  nth_error (set_nth_val i v l) i = Some (mk_rec (m_id r) (m_tag r) v (m_nil r)).
Proof.
  induction l as [|x l IH]; intros [|i] v r H; cbn in *; try discriminate.
  - inversion H; subst. reflexivity.
  - apply IH. exact H.
Qed.
Lemma set_nth_val_other : forall l i j v, i <> j -> nth_error (set_nth_val i v l) j = nth_error l j.
Proof.
  induction l as [|x l IH]; intros [|i] [|j] v NE; cbn; try reflexivity; try congruence.
  apply IH. congruence.
Qed.

Lemma set_column_self : forall c i v s r,
  x_setall (c_x c) = false ->
  c_dest c = DSelf -> sh_cont (c_shape c) <> CStruct -> nth_error (s_recs s) i = Some r ->
  nth_error (s_recs (set_column c i v s)) i = Some (mk_rec (m_id r) (m_tag r) v (m_nil r))
  /\ (forall j, j <> i -> nth_error (s_recs (set_column c i v s)) j = nth_error (s_recs s) j)
  /\ s_err (set_column c i v s) = s_err s.
Proof.
  intros c i v s r XA D NS H. unfold set_column, set_rec_val. rewrite D, XA.
  destruct (sh_cont (c_shape c)); try congruence; cbn -[set_nth_val];
    (split; [apply set_nth_val_nth; exact H | split; [intros j NE; apply set_nth_val_other; congruence | reflexivity]]).
Qed.
