(* C14_Proofs3.v — lock discipline, channel ownership, and absence of deadlock. *)
From Verif Require Import Base C14_Model C14_Proofs2.

Definition holder (p : pc) : bool :=
  match p with P6 | P10b _ _ | P11b _ | X2b _ | R1 | K1 => true | _ => false end.
(* the goroutine that will close the [prepared] channel of entry e *)
Definition owner_of (p : pc) : option nat :=
  match p with
  | P9 e | P9w e | P10 e _ | P10b e _ | P10c e _ | P11 e | P11b e | P11c e => Some e
  | _ => None
  end.
Definition is_p1 (th : thread) : bool := match t_pc th with P1 => true | _ => false end.

Record invA (s : state) : Prop := {
  A_w1 : forall t, s_w s = Some t -> exists th, nth_error (s_thr s) t = Some th /\ holder (t_pc th) = true;
  A_w2 : forall t th, nth_error (s_thr s) t = Some th -> holder (t_pc th) = true -> s_w s = Some t;
  A_r : s_r s = cnt is_p1 (s_thr s);
  A_own : forall e, e < length (s_ents s) -> e_done (ent s e) = false ->
          exists t th, nth_error (s_thr s) t = Some th /\ owner_of (t_pc th) = Some e
}.

Lemma lock_free_inv s : lock_free s = true -> s_w s = None /\ s_r s = 0.
Proof. unfold lock_free. destruct (s_w s); [discriminate|]. intro H. apply Nat.eqb_eq in H. auto. Qed.

Lemma closers_not_holder m : Forall (fun th => holder (t_pc th) = false /\ owner_of (t_pc th) = None /\ is_p1 th = false) (map closer_of m).
Proof. induction m; cbn; constructor; auto. Qed.

Lemma cnt_closers m : cnt is_p1 (map closer_of m) = 0.
Proof. unfold cnt. induction m; cbn; auto. Qed.

Lemma in_closers th m : In th (map closer_of m) -> exists p, In p m /\ th = mkT (C0 (snd p)) [] [].
Proof. intro H. apply in_map_iff in H. destruct H as [p [H1 H2]]. exists p. split; [exact H2 | symmetry; exact H1]. Qed.

Ltac spawned_false H :=
  first [ (apply in_closers in H; destruct H as [? [_ ->]])
        | (destruct H as [H|[]]; subst)
        | destruct H ];
  cbn in *; try discriminate; try reflexivity.

Lemma invA_w2 s t th c s' l :
  nth_error (s_thr s) t = Some th -> step_th s t th c = Some (s', l) -> invA s ->
  forall t0 th0, nth_error (s_thr s') t0 = Some th0 -> holder (t_pc th0) = true -> s_w s' = Some t0.
Proof.
  intros Ht H [W1 W2 R O].
  step_cases H.
  all: autorewrite with st; norm_thr.
  all: try match goal with H : lock_free _ = true |- _ => apply lock_free_inv in H; destruct H end.
  all: match goal with |- forall t0 th0, nth_error _ t0 = Some th0 -> @?Q t0 th0 =>
         apply (thr_all Q _ _ _ _ _ Ht) end;
    [ cbn; intro Hh; first [discriminate Hh | reflexivity]
    | intros t' th' Hne Hn' Hh'; pose proof (W2 _ _ Hn' Hh') as Hw;
      first [ exact Hw | congruence
            | (assert (Hw2 : s_w s = Some t) by (apply (W2 _ _ Ht); rewrite Heqp; reflexivity); congruence) ]
    | intros t' th' Hi _ Hh'; exfalso; spawned_false Hi ].
Qed.

Lemma invA_w1 s t th c s' l :
  nth_error (s_thr s) t = Some th -> step_th s t th c = Some (s', l) -> invA s ->
  forall t0, s_w s' = Some t0 -> exists th0, nth_error (s_thr s') t0 = Some th0 /\ holder (t_pc th0) = true.
Proof.
  intros Ht H [W1 W2 R O].
  step_cases H.
  all: autorewrite with st; norm_thr.
  all: intros t0 Hw;
    first [ discriminate Hw
          | (inversion Hw; subst t0; eexists; split; [eapply nth_error_app_upd_self; exact Ht | reflexivity])
          | (destruct (W1 _ Hw) as [th0 [Hn Hh]];
             assert (Hne : t0 <> t) by (intros ->; rewrite Ht in Hn; inversion Hn; subst th0; rewrite Heqp in Hh; discriminate Hh);
             exists th0; split; [apply nth_error_app_upd_old; assumption | exact Hh]) ].
Qed.

Lemma invA_r s t th c s' l :
  nth_error (s_thr s) t = Some th -> step_th s t th c = Some (s', l) -> invA s ->
  s_r s' = cnt is_p1 (s_thr s').
Proof.
  intros Ht H [W1 W2 R O].
  step_cases H.
  all: autorewrite with st; norm_thr.
  all: try match goal with H : lock_free _ = true |- _ => apply lock_free_inv in H; destruct H end.
  all: rewrite cnt_app; try rewrite cnt_closers;
    match goal with |- context [upd _ _ ?x] => pose proof (cnt_upd is_p1 _ _ _ x Ht) as Hc end;
    unfold is_p1 in *; cbn [t_pc set_pc finish] in Hc; rewrite Heqp in Hc; cbn [b2n] in Hc; cbn [cnt filter length t_pc]; lia.
Qed.

(* the owner found in the old state is still an owner of the same entry in the new state *)
Ltac keep_owner_at O t Ht Heqp e He Hd :=
  let t0 := fresh "t0" in let th0 := fresh "th0" in let Hn := fresh "Hn" in let Ho := fresh "Ho" in
  let Hne := fresh "Hne" in
  destruct (O e He Hd) as [t0 [th0 [Hn Ho]]];
  destruct (Nat.eq_dec t0 t) as [->|Hne];
  [ rewrite Ht in Hn; inversion Hn; subst th0; rewrite Heqp in Ho; cbn in Ho;
    first [ discriminate Ho
          | (eexists; eexists; split; [eapply nth_error_app_upd_self; exact Ht | cbn; exact Ho]) ]
  | exists t0, th0; split; [apply nth_error_app_upd_old; assumption | exact Ho] ].
Ltac keep_owner O t Ht Heqp :=
  lazymatch goal with
  | He : ?e < length (s_ents _), Hd : e_done (ent _ ?e) = false |- _ => keep_owner_at O t Ht Heqp e He Hd
  end.

Lemma invA_own s t th c s' l :
  nth_error (s_thr s) t = Some th -> step_th s t th c = Some (s', l) -> invA s ->
  forall e, e < length (s_ents s') -> e_done (ent s' e) = false ->
  exists t0 th0, nth_error (s_thr s') t0 = Some th0 /\ owner_of (t_pc th0) = Some e.
Proof.
  intros Ht H [W1 W2 R O].
  step_cases H.
  all: autorewrite with st; norm_thr.
  all: intros e' He Hd.
  all: try (autorewrite with st in Hd; keep_owner O t Ht Heqp; fail).
  (* P6: a new in-progress entry, owned by the publishing goroutine *)
  1,2: autorewrite with st in Hd; rewrite ent_w_ents_app in Hd; rewrite app_length in He; cbn in He;
    destruct (e' =? length (s_ents s)) eqn:E;
    [ apply Nat.eqb_eq in E; subst e'; eexists; eexists; split;
      [eapply nth_error_app_upd_self; exact Ht | reflexivity]
    | apply Nat.eqb_neq in E; assert (He' : e' < length (s_ents s)) by lia; clear He;
      keep_owner O t Ht Heqp ].
  (* P9w (failed) and P10b: the entry is rewritten, [prepared] stays open *)
  1,2: rewrite upd_length in He; autorewrite with st in Hd; rewrite ent_set_ent in Hd; autorewrite with st in Hd;
    destruct ((e' =? e) && (e <? length (s_ents s))) eqn:E;
    [ apply andb_prop in E; destruct E as [E _]; apply Nat.eqb_eq in E; subst e'; cbn [e_done] in Hd;
      keep_owner_at O t Ht Heqp e He Hd
    | keep_owner_at O t Ht Heqp e' He Hd ].
  (* P10c and P11c: close(prepared) *)
  1,2: rewrite upd_length in He; autorewrite with st in Hd; rewrite ent_set_ent in Hd; autorewrite with st in Hd;
    destruct ((e' =? e) && (e <? length (s_ents s))) eqn:E; [cbn [e_done] in Hd; discriminate Hd|];
    destruct (O e' He Hd) as [t0 [th0 [Hn Ho]]];
    destruct (Nat.eq_dec t0 t) as [->|Hne];
    [ rewrite Ht in Hn; inversion Hn; subst th0; rewrite Heqp in Ho; cbn in Ho; inversion Ho; subst e';
      rewrite Nat.eqb_refl in E; cbn in E; apply Nat.ltb_ge in E; lia
    | exists t0, th0; split; [apply nth_error_app_upd_old; assumption | exact Ho] ].
Qed.

Lemma invA_step s t th c s' l :
  nth_error (s_thr s) t = Some th -> step_th s t th c = Some (s', l) -> invA s -> invA s'.
Proof.
  intros Ht H I. split.
  - eapply invA_w1; eauto.
  - eapply invA_w2; eauto.
  - eapply invA_r; eauto.
  - eapply invA_own; eauto.
Qed.

Lemma invA_init g progs : invA (init_g g progs).
Proof.
  split; cbn.
  - intros t H; discriminate.
  - intros t th H Hh. rewrite nth_error_map in H. destruct (nth_error progs t); inversion H; subst. discriminate.
  - unfold cnt. induction progs; cbn; auto.
  - intros e He. lia.
Qed.

Lemma invA_reach progs s : reach progs s -> invA s.
Proof.
  apply reach_ind; [intro g; apply invA_init|].
  intros s0 t c s1 I H. apply step_inv in H. destruct H as [th [l [Ht H]]]. eapply invA_step; eauto.
Qed.

(* ---- absence of deadlock ---------------------------------------------------------------- *)
(* when the next action of a goroutine is enabled (for a suitable answer of the driver) *)
Definition can_step (s : state) (th : thread) : bool :=
  match t_pc th with
  | Idle => match t_ops th with [] => false | _ => true end
  | P0 => match s_w s with None => true | Some _ => false end
  | P3 e | C0 e => e_done (ent s e)
  | P5 | P10 _ _ | P11 _ | X2 _ | R0 | K0 => lock_free s
  | _ => true
  end.

Ltac enabled_with ch H :=
  exists ch;
  try match goal with |- exists x, ?f _ _ _ _ = Some x => unfold f end;
  try match goal with |- exists x, ?f _ _ _ _ _ = Some x => unfold f end;
  try match goal with |- exists x, ?f _ _ _ _ _ _ = Some x => unfold f end;
  unfold goto, ret; cbv beta zeta; cbn [is_tau]; try rewrite H;
  repeat match goal with
         | |- exists x, match ?y with _ => _ end = Some x => destruct y eqn:?; try discriminate
         | |- exists x, (if ?y then _ else _) = Some x => destruct y eqn:?; try discriminate
         end;
  solve [eexists; reflexivity].

Lemma can_step_sound s t th :
  can_step s th = true -> exists c x, step_th s t th c = Some x.
Proof.
  unfold can_step, step_th. destruct (t_pc th) eqn:E; intro H.
  all: first [ enabled_with CNone H | enabled_with CPrepOk H | enabled_with CExecOk H ].
Qed.

Lemma cnt_pos_ex f l : 0 < cnt f l -> exists t th, nth_error l t = Some th /\ f th = true.
Proof.
  unfold cnt. induction l as [|x l IH]; cbn; [lia|].
  destruct (f x) eqn:E.
  - intros _. exists 0, x. auto.
  - intro H. destruct (IH H) as [t [th [H1 H2]]]. exists (S t), th. auto.
Qed.

Lemma not_all_done_ex s : all_done s = false -> exists t th, nth_error (s_thr s) t = Some th /\ thread_done th = false.
Proof.
  unfold all_done. induction (s_thr s) as [|x l IH]; cbn; [discriminate|].
  destruct (thread_done x) eqn:E.
  - intro H. destruct (IH H) as [t [th [H1 H2]]]. exists (S t), th. auto.
  - intros _. exists 0, x. auto.
Qed.

Lemma step_of_step_th s t th c x : nth_error (s_thr s) t = Some th -> step_th s t th c = Some x -> step s t c <> None.
Proof. intros Ht H. unfold step, stepL. rewrite Ht, H. destruct x. discriminate. Qed.

Lemma owner_can_step s th e : lock_free s = true -> owner_of (t_pc th) = Some e -> can_step s th = true.
Proof. intros Hf Ho. unfold can_step. destruct (t_pc th); try discriminate Ho; auto. Qed.

Lemma no_deadlock_inv s : invA s -> all_done s = false -> exists t c, step s t c <> None.
Proof.
  intros [W1 W2 R O] Hnd.
  destruct (s_w s) as [tw|] eqn:Ew.
  { destruct (W1 _ eq_refl) as [th [Ht Hh]].
    assert (C : can_step s th = true) by (unfold can_step; destruct (t_pc th); try discriminate Hh; reflexivity).
    destruct (can_step_sound s tw th C) as [c [x Hx]]. exists tw, c. eapply step_of_step_th; eauto. }
  destruct (s_r s) as [|r] eqn:Er.
  2:{ assert (Hp : 0 < cnt is_p1 (s_thr s)) by lia.
      destruct (cnt_pos_ex _ _ Hp) as [t [th [Ht Hf]]].
      assert (C : can_step s th = true) by (unfold can_step; unfold is_p1 in Hf; destruct (t_pc th); try discriminate Hf; reflexivity).
      destruct (can_step_sound s t th C) as [c [x Hx]]. exists t, c. eapply step_of_step_th; eauto. }
  assert (Hfree : lock_free s = true) by (unfold lock_free; rewrite Ew, Er; reflexivity).
  destruct (not_all_done_ex s Hnd) as [t [th [Ht Hd]]].
  destruct (can_step s th) eqn:C.
  { destruct (can_step_sound s t th C) as [c [x Hx]]. exists t, c. eapply step_of_step_th; eauto. }
  (* blocked although the lock is free: waiting for a [prepared] channel, whose owner can move *)
  assert (W : exists e, e_done (ent s e) = false).
  { unfold can_step in C. unfold thread_done in Hd. rewrite Ew, Hfree in C.
    destruct (t_pc th); try discriminate C; eauto.
    destruct (t_ops th); discriminate. }
  destruct W as [e He].
  assert (Hlt : e < length (s_ents s)).
  { destruct (Nat.lt_ge_cases e (length (s_ents s))) as [|Hge]; [assumption|].
    unfold ent in He. rewrite nth_overflow in He by exact Hge. discriminate He. }
  destruct (O e Hlt He) as [t1 [th1 [Ht1 Ho1]]].
  pose proof (owner_can_step s th1 e Hfree Ho1) as C1.
  destruct (can_step_sound s t1 th1 C1) as [c [x Hx]]. exists t1, c. eapply step_of_step_th; eauto.
Qed.

(* no deadlock: in every reachable state in which some goroutine has not finished, some
   goroutine can take a step (driver calls return: the environment offers an outcome) *)
Lemma no_deadlock progs s : reach progs s -> all_done s = false -> exists t c, step s t c <> None.
Proof. intros Hr. apply no_deadlock_inv, (invA_reach progs), Hr. Qed.

(* mutual exclusion and reader/writer exclusion as by-products *)
Lemma writer_unique progs s t1 t2 th1 th2 :
  reach progs s -> nth_error (s_thr s) t1 = Some th1 -> nth_error (s_thr s) t2 = Some th2 ->
  holder (t_pc th1) = true -> holder (t_pc th2) = true -> t1 = t2.
Proof.
  intros Hr H1 H2 Hh1 Hh2. destruct (invA_reach _ _ Hr) as [_ W2 _ _].
  pose proof (W2 _ _ H1 Hh1). pose proof (W2 _ _ H2 Hh2). congruence.
Qed.
