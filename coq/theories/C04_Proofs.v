(* C04_Proofs.v — lemmas about the C04 model. *)
From Verif Require Import Base C04_Model.
Open Scope Z_scope.

Lemma spname_eqb_refl : forall n, spname_eqb n n = true.
Proof. intros [n|k]; cbn; [apply Z.eqb_refl | apply Nat.eqb_refl]. Qed.

Lemma spname_eqb_eq : forall a b, spname_eqb a b = true <-> a = b.
Proof.
  intros [x|x] [y|y]; cbn; split; intro H; try discriminate; try congruence.
  - apply Z.eqb_eq in H; congruence.
  - inversion H; apply Z.eqb_refl.
  - apply Nat.eqb_eq in H; congruence.
  - inversion H; apply Nat.eqb_refl.
Qed.

(* RollbackTo n restores exactly the snapshot taken by the most recent SavePoint n and keeps
   that save point; everything saved after it is gone *)
Lemma rbto_exact : forall n snap above below w,
  (forall x, In x above -> spname_eqb n (fst x) = false) ->
  ref_rbto n (mkTx w (above ++ (n, snap) :: below)) = Some (mkTx snap ((n, snap) :: below)).
Proof.
  intros n snap above below w H. unfold ref_rbto; cbn [sps].
  induction above as [|[n' t'] a IH]; cbn [app sp_cut].
  - rewrite spname_eqb_refl. reflexivity.
  - pose proof (H (n', t') (or_introl eq_refl)) as H0. cbn [fst] in H0. rewrite H0.
    apply IH. intros x Hx. apply H. right; exact Hx.
Qed.
