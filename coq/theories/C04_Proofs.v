(* C04_Proofs.v — basic lemmas about the C04 model: save-point stacks, scoping, the
   primitive operations, monotonicity of the domain flags. *)
From Verif Require Import Base C04_Model C04_Check.
Open Scope Z_scope.

(* ------------------------------------------------------------------ names, cuts *)
Lemma spname_eqb_refl : forall n, spname_eqb n n = true.
Proof. intros [n|k]; cbn; [apply Z.eqb_refl | apply Nat.eqb_refl]. Qed.

Lemma spname_eqb_eq : forall a b, spname_eqb a b = true <-> a = b.
Proof.
  intros [x|x] [y|y]; cbn; split; intro H; try discriminate; try congruence.
  - apply Z.eqb_eq in H; congruence.
  - inversion H; apply Z.eqb_refl.
  - apply Nat.eqb_eq in H; congruence.
  - inversion H; apply Nat.eqb_refl.
Qed.

(* RollbackTo n restores exactly the snapshot taken by the most recent SavePoint n and keeps
   that save point; everything saved after it is gone *)
Lemma sp_cut_exact : forall n snap above below,
  (forall x, In x above -> spname_eqb n (fst x) = false) ->
  sp_cut n (above ++ (n, snap) :: below) = Some (snap, (n, snap) :: below).
Proof.
  intros n snap above below H.
  induction above as [|[n' t'] a IH]; cbn [app sp_cut].
  - rewrite spname_eqb_refl. reflexivity.
  - pose proof (H (n', t') (or_introl eq_refl)) as H0. cbn [fst] in H0. rewrite H0.
    apply IH. intros x Hx. apply H. right; exact Hx.
Qed.

Lemma rbto_exact : forall n snap above below w,
  (forall x, In x above -> spname_eqb n (fst x) = false) ->
  ref_rbto n (mkTx w (above ++ (n, snap) :: below)) = Some (mkTx snap ((n, snap) :: below)).
Proof.
  intros n snap above below w H. unfold ref_rbto; cbn [sps].
  rewrite sp_cut_exact by exact H. reflexivity.
Qed.

(* the user-visible part of the SQL save-point stack *)
Fixpoint fu (l : list (spname * tbl)) : ustack :=
  match l with
  | [] => []
  | (NUser n, t) :: r => (n, t) :: fu r
  | (NGen _, _) :: r => fu r
  end.
Definition unames (l : list (spname * tbl)) : list Z := map fst (fu l).

Lemma fu_app : forall a b, fu (a ++ b) = fu a ++ fu b.
Proof.
  induction a as [|[[n|k] t] a IH]; intro b; cbn; [reflexivity| |]; rewrite IH; reflexivity.
Qed.
Lemma unames_app : forall a b, unames (a ++ b) = unames a ++ unames b.
Proof. intros; unfold unames; rewrite fu_app, map_app; reflexivity. Qed.

(* cutting the SQL stack at a user name = cutting its user-visible part *)
Lemma cut_fu : forall n l,
  match sp_cut (NUser n) l with
  | Some (snap, l') => ucut n (fu l) = Some (snap, fu l')
  | None => ucut n (fu l) = None
  end.
Proof.
  intros n l; induction l as [|[[m|k] t] l IH]; cbn [sp_cut fu ucut spname_eqb].
  - reflexivity.
  - destruct (n =? m) eqn:E; [reflexivity | exact IH].
  - exact IH.
Qed.

Inductive Sub : list Z -> list Z -> Prop :=
| sub_nil : forall l, Sub [] l
| sub_skip : forall a x l, Sub a l -> Sub a (x :: l)
| sub_take : forall x a l, Sub a l -> Sub (x :: a) (x :: l).

Lemma Sub_app_l : forall a p l, Sub a l -> Sub a (p ++ l).
Proof. intros a p l H; induction p; cbn; [exact H | apply sub_skip, IHp]. Qed.
Lemma Sub_tail : forall x a l, Sub (x :: a) l -> Sub a l.
Proof.
  intros x a l H; remember (x :: a) as xa eqn:Exa; revert x a Exa.
  induction H as [l | a' y l H IH | y a' l H IH]; intros x a Exa.
  - discriminate.
  - apply sub_skip. eapply IH; eassumption.
  - inversion Exa; subst. apply sub_skip; exact H.
Qed.
Lemma Sub_cutz : forall n a l, Sub a l -> Sub (cutz n a) l.
Proof.
  intros n a; induction a as [|x a IH]; intros l H; cbn.
  - constructor.
  - destruct (n =? x); [exact H | apply IH; eapply Sub_tail; exact H].
Qed.
Lemma memz_In : forall n l, memz n l = true -> In n l.
Proof.
  intros n l H; unfold memz in H; apply existsb_exists in H.
  destruct H as [x [Hx E]]; apply Z.eqb_eq in E; subst; exact Hx.
Qed.

(* a name the body saved (avail) is found in the body's own part of the stack *)
Lemma cut_local : forall local avail n base,
  Sub avail (unames local) -> In n avail ->
  exists snap local2, sp_cut (NUser n) (local ++ base) = Some (snap, local2 ++ base)
                      /\ Sub (cutz n avail) (unames local2).
Proof.
  induction local as [|[[m|k] t] local IH]; intros avail n base HS HI.
  - inversion HS; subst; destruct HI.
  - cbn [app sp_cut spname_eqb]. unfold unames in HS; cbn [fu map fst] in HS.
    destruct (n =? m) eqn:E.
    + exists t, ((NUser m, t) :: local). split; [reflexivity|].
      unfold unames; cbn [fu map fst]. apply Sub_cutz; exact HS.
    + inversion HS as [l | a x l H | x a l H]; subst.
      * destruct HI.
      * apply (IH avail n base H HI).
      * cbn [cutz]. rewrite E. destruct HI as [HI|HI]; [subst; rewrite Z.eqb_refl in E; discriminate|].
        apply (IH a n base H HI).
  - cbn [app sp_cut spname_eqb]. unfold unames in HS; cbn [fu] in HS.
    apply (IH avail n base HS HI).
Qed.

(* ------------------------------------------------------------------ spec helpers *)
Lemma spec_list_app : forall nest a b ts, spec_list nest (a ++ b) ts = spec_list nest b (spec_list nest a ts).
Proof. intros; unfold spec_list; apply fold_left_app. Qed.
Lemma spec_list_cons : forall nest o l ts, spec_list nest (o :: l) ts = spec_list nest l (spec_obs nest o ts).
Proof. reflexivity. Qed.

Definition stmt_errs_l (l : list obs) := flat_map stmt_errs l.
Definition save_errs_l (l : list obs) := flat_map save_errs l.

Lemma countf_app : forall k a b, countf k (a ++ b) = (countf k a + countf k b)%nat.
Proof. intros; unfold countf; rewrite filter_app, app_length; reflexivity. Qed.

Lemma cls_eqb_refl : forall c, cls_eqb c c = true.
Proof.
  intros [|[c w]|p]; cbn; try reflexivity; [|apply Z.eqb_refl].
  unfold err_eqb; cbn. rewrite Bool.eqb_reflx, andb_true_r.
  destruct c; cbn; try reflexivity. apply Z.eqb_refl.
Qed.
Lemma same_set_refl : forall l, same_set l l = true.
Proof.
  intro l. unfold same_set. rewrite Nat.eqb_refl, andb_true_r.
  assert (H : forallb (fun x => memz x l) l = true).
  { apply forallb_forall. intros x Hx. unfold memz. apply existsb_exists.
    exists x; split; [exact Hx | apply Z.eqb_refl]. }
  rewrite H; reflexivity.
Qed.

(* ------------------------------------------------------------------ flags *)
Definition flags_le (f f' : flags) : Prop :=
  (x_rb f = true -> x_rb f' = true) /\ (x_drop f = true -> x_drop f' = true).
Lemma flags_le_refl : forall f, flags_le f f.
Proof. intro f; repeat split; auto. Qed.
Lemma flags_le_trans : forall a b c, flags_le a b -> flags_le b c -> flags_le a c.
Proof. intros a b c [A1 A2] [B1 B2]; repeat split; auto. Qed.

Section Prims.
Variable E : env.
Variable C : cfg.
Variable fault : nat -> bool.

Lemma h_stmt_flags : forall w h s e n s1, h_stmt fault w h s = (e, n, s1) -> s_fl s1 = s_fl s.
Proof.
  intros w h s e n s1 H. unfold h_stmt, issue in H.
  destruct h; [inversion H; reflexivity|].
  destruct (s_dead s); [inversion H; reflexivity|].
  destruct (s_tx s); [|inversion H; reflexivity].
  destruct (fault _); [inversion H; reflexivity|].
  destruct w; inversion H; reflexivity.
Qed.

Lemma exec_sp_flags : forall b n h s d s1, exec_sp E fault b n h s = (d, s1) -> s_fl s1 = s_fl s.
Proof.
  intros b n h s d s1 H. unfold exec_sp, issue in H.
  destruct h; [inversion H; reflexivity|].
  destruct (s_dead s); [inversion H; reflexivity|].
  destruct (s_tx s); [|inversion H; reflexivity].
  destruct (fault _); [inversion H; reflexivity|].
  destruct b; [inversion H; reflexivity|].
  destruct (sq_rbto E n t); inversion H; reflexivity.
Qed.

Lemma h_sp_flags : forall b n h s h1 s1, h_sp E C fault b n h s = (h1, s1) -> flags_le (s_fl s) (s_fl s1).
Proof.
  intros b n h s h1 s1 H. unfold h_sp in H.
  destruct (c_nosp C); [inversion H; subst; apply flags_le_refl|].
  destruct (exec_sp E fault b n h s) as [d s0] eqn:Ex. apply exec_sp_flags in Ex.
  destruct (c_report C).
  - inversion H; subst. rewrite Ex. apply flags_le_refl.
  - inversion H; subst. destruct d; cbn; rewrite <- Ex; [|apply flags_le_refl].
    repeat split; cbn; auto.
Qed.

Definition body_mono (body : option err -> st -> res * list obs * option err * st) : Prop :=
  forall h s r l h' s', body h s = (r, l, h', s') -> flags_le (s_fl s) (s_fl s').

Lemma nested_flags : forall body, body_mono body ->
  forall h s r o h' s', nested0 E C fault body h s = (r, o, h', s') -> flags_le (s_fl s) (s_fl s').
Proof.
  intros body HB h s r o h' s' H. unfold nested0 in H.
  destruct (c_nonest C || s_nonest s).
  - destruct (body h s) as [[[r0 l0] h0] s0] eqn:Eb. inversion H; subst. eapply HB; exact Eb.
  - destruct (h_sp E C fault true (NGen (s_gen s)) h (next_gen s)) as [h1 s1] eqn:Es.
    apply h_sp_flags in Es. cbn [next_gen s_fl] in Es.
    destruct h1 as [e|]; [inversion H; subst; exact Es|].
    destruct (body h s1) as [[[r0 l0] h0] s2] eqn:Eb. apply HB in Eb.
    assert (F2 : flags_le (s_fl s) (s_fl s2)) by (eapply flags_le_trans; eassumption).
    destruct r0.
    + inversion H; subst; exact F2.
    + destruct (h_sp E C fault false (NGen (s_gen s)) h (if fault (length (s_ops s2)) then flag_rb s2 else s2)) as [h2 s3] eqn:Er.
      apply h_sp_flags in Er. inversion H; subst.
      eapply flags_le_trans; [exact F2|]. eapply flags_le_trans; [|exact Er].
      destruct (fault _); [|apply flags_le_refl]. repeat split; cbn; auto.
    + destruct (h_sp E C fault false (NGen (s_gen s)) h (if fault (length (s_ops s2)) then flag_rb s2 else s2)) as [h2 s3] eqn:Er.
      apply h_sp_flags in Er. inversion H; subst.
      eapply flags_le_trans; [exact F2|]. eapply flags_le_trans; [|exact Er].
      destruct (fault _); [|apply flags_le_refl]. repeat split; cbn; auto.
Qed.

Lemma nested_cx_flags : forall cx nn body, body_mono body ->
  forall h s r o h' s', nested E C fault cx nn body h s = (r, o, h', s') -> flags_le (s_fl s) (s_fl s').
Proof.
  intros cx nn body HB h s r o h' s' H. unfold nested in H.
  match type of H with context [nested0 E C fault body h ?sx] => set (s2 := sx) in * end.
  destruct (nested0 E C fault body h s2) as [[[r0 o0] h0] s0] eqn:En.
  apply (nested_flags _ HB) in En. inversion H; subst.
  assert (E2 : s_fl s2 = s_fl s) by (subst s2; destruct cx, nn; reflexivity).
  rewrite E2 in En. destruct cx, nn; exact En.
Qed.

Lemma run_body_flags : forall p, body_mono (run_body E C fault p).
Proof.
  induction p as [o | m chk k IHk | chk k IHk | b IHb chk rcv cx nn k IHk | n k IHk | n k IHk | k IHk];
    intros h s r l h' s' H; cbn [run_body] in H; [| | | | | |apply IHk in H; exact H].
  - destruct o; inversion H; subst; apply flags_le_refl.
  - destruct (h_stmt fault (Some m) h s) as [[e n0] s1] eqn:Es. apply h_stmt_flags in Es.
    destruct e as [e|]; [destruct chk|].
    + inversion H; subst. rewrite Es; apply flags_le_refl.
    + destruct (run_body E C fault k h s1) as [[[r0 l0] h0] s0] eqn:Ek. apply IHk in Ek.
      inversion H; subst. rewrite <- Es; exact Ek.
    + destruct (run_body E C fault k h s1) as [[[r0 l0] h0] s0] eqn:Ek. apply IHk in Ek.
      inversion H; subst. rewrite <- Es; exact Ek.
  - destruct (h_stmt fault None h s) as [[e n0] s1] eqn:Es. apply h_stmt_flags in Es.
    destruct e as [e|]; [destruct chk|].
    + inversion H; subst. rewrite Es; apply flags_le_refl.
    + destruct (run_body E C fault k h s1) as [[[r0 l0] h0] s0] eqn:Ek. apply IHk in Ek.
      inversion H; subst. rewrite <- Es; exact Ek.
    + destruct (run_body E C fault k h s1) as [[[r0 l0] h0] s0] eqn:Ek. apply IHk in Ek.
      inversion H; subst. rewrite <- Es; exact Ek.
  - destruct (nested E C fault cx nn (run_body E C fault b) h s) as [[[r0 o0] h1] s1] eqn:En.
    apply (nested_cx_flags _ _ _ IHb) in En.
    destruct r0 as [|e0|p0].
    + destruct (run_body E C fault k h1 s1) as [[[r1 l1] h2] s2] eqn:Ek. apply IHk in Ek.
      inversion H; subst. eapply flags_le_trans; eassumption.
    + destruct chk; [inversion H; subst; exact En|].
      destruct (run_body E C fault k h1 s1) as [[[r1 l1] h2] s2] eqn:Ek. apply IHk in Ek.
      inversion H; subst. eapply flags_le_trans; eassumption.
    + destruct (recovers rcv p0); [|inversion H; subst; exact En].
      destruct (run_body E C fault k h1 s1) as [[[r1 l1] h2] s2] eqn:Ek. apply IHk in Ek.
      inversion H; subst. eapply flags_le_trans; eassumption.
  - destruct (h_sp E C fault true (NUser n) h s) as [h1 s1] eqn:Es. apply h_sp_flags in Es.
    destruct h1; [inversion H; subst; exact Es|].
    destruct (run_body E C fault k None s1) as [[[r1 l1] h2] s2] eqn:Ek. apply IHk in Ek.
    inversion H; subst. eapply flags_le_trans; eassumption.
  - destruct (h_sp E C fault false (NUser n) h s) as [h1 s1] eqn:Es. apply h_sp_flags in Es.
    destruct h1; [inversion H; subst; exact Es|].
    destruct (run_body E C fault k None s1) as [[[r1 l1] h2] s2] eqn:Ek. apply IHk in Ek.
    inversion H; subst. eapply flags_le_trans; eassumption.
Qed.

End Prims.
