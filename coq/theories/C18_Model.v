(* C18_Model.v — executable model of how gorm handles carry the caller's context (property C18).

   Modelled code (/repo):
     gorm.go         Session (Context / NewDB / Initialized), WithContext, getInstance (clone 0/1/2)
     statement.go    Statement.clone (Context copied)
     finisher_api.go Begin (getInstance().Session(&Session{Context: db.Statement.Context, NewDB: db.clone == 1}),
                     BeginTx(tx.Statement.Context)), Transaction, FindInBatches, Save, ...
     callbacks/*.go  the ConnPool.{Exec,Query,QueryRow}Context(db.Statement.Context, ...) call sites;
                     preload.go / associations.go / delete.go / callmethod.go internal sessions
     association.go  association-mode sessions
     prepare_stmt.go PreparedStmtDB / PreparedStmtTX wrappers: prepare(ctx), stmt.ExecContext(ctx)
   A derivation algebra: the only thing a handle carries here is its context and its clone flag.
   The syntactic form of every context expression comes from the source (harness/cmd/c18/srcfacts).
   No proofs here. *)
From Verif Require Import Base.
Open Scope Z_scope.

(* identity of a context: 0 = context.Background(), -1 = an expression the extractor cannot classify,
   n > 0 = the n-th tagged context of the harness *)
Definition ctx := Z.
Definition ctx_background : ctx := 0.
Definition ctx_unknown : ctx := -1.

(* syntactic form of a context expression in the source *)
Inductive cform :=
| FAbsent        (* Session literal: field Context not set *)
| FStmt          (* <h>.Statement.Context / stmt.Context : the context of the handle at hand *)
| FParam         (* a context.Context parameter of the enclosing function *)
| FBackground    (* context.Background() / context.TODO() *)
| FUnknown.

(* a Session{...} composite literal, as far as the context is concerned *)
(* l_own: the literal sets PrepareStmt or SkipHooks, which (like Context) makes Session give the derived
   handle a Statement of its own: tx.Statement = tx.Statement.clone() *)
Record slit := mk_slit { l_ctx : cform; l_newdb : bool; l_init : bool; l_own : bool }.

Record handle := mk_h { h_ctx : ctx; h_clone : Z }.

(* the facts about the three functions that copy the context *)
Record copies := mk_copies {
  cp_getinstance : bool;    (* getInstance, clone == 1: &Statement{Context: db.Statement.Context, ...} *)
  cp_clone : bool;          (* Statement.clone: Context: stmt.Context *)
  cp_session : bool         (* Session: if config.Context != nil { tx.Statement.Context = config.Context } *)
}.

(* a Statement built without Context has a nil context: the driver call would not carry the caller's *)
Definition ctx_nil : ctx := -2.

Definition get_instance (cp : copies) (h : handle) : handle :=
  if h_clone h =? 0 then h
  else if h_clone h =? 1 then mk_h (if cp_getinstance cp then h_ctx h else ctx_nil) 0
  else mk_h (if cp_clone cp then h_ctx h else ctx_nil) 0.

(* value of a context expression of form f, evaluated on handle h inside a function whose context
   parameter (if any) holds p *)
Definition eval_form (f : cform) (h : handle) (p : ctx) : option ctx :=
  match f with
  | FAbsent => None
  | FStmt => Some (h_ctx h)
  | FParam => Some p
  | FBackground => Some ctx_background
  | FUnknown => Some ctx_unknown
  end.

(* db.Session(&Session{...}) *)
Definition session (cp : copies) (l : slit) (p : ctx) (h : handle) : handle :=
  let c := match eval_form (l_ctx l) h p with
           | None => if l_own l then (if cp_clone cp then h_ctx h else ctx_nil)   (* a clone of its own *)
                     else h_ctx h                  (* tx.Statement = db.Statement *)
           | Some c' => if cp_session cp then c' else (if cp_clone cp then h_ctx h else ctx_nil)
           end in
  let h1 := mk_h c (if l_newdb l then 1 else 2) in
  if l_init l then get_instance cp h1 else h1.

(* kinds of driver calls *)
Inductive ckind := KBegin | KPrepare | KExec | KQuery.

(* operation trees *)
Inductive node :=
| NCall (k : ckind) (f : cform)
    (* finisher: tx = db.getInstance(); ... ConnPool.XContext(<f>, ...) *)
| NWrapped (f : cform) (inner : list (ckind * cform))
    (* the same through the PreparedStmtDB/TX wrapper: the outer site passes <f> as the wrapper's ctx
       parameter, the wrapper's own call sites (prepare, stmt.Exec/Query) pass their forms *)
| NSess (l : slit) (body : list node)
    (* derive a handle with an internal Session literal; the body runs on it *)
| NWith (c : ctx) (body : list node)
    (* the caller rebinds: h.WithContext(c) / h.Session(&Session{Context: c}) *)
| NBegin (l : slit) (f : cform) (body : list node)
    (* Begin(): getInstance().Session(l); BeginTx(<f>); the body runs on the transaction handle *)
| NBeginW (l : slit) (f : cform) (g : cform) (body : list node).
    (* Begin() when the pool is a PreparedStmtDB: BeginTx(<f>) is the wrapper's method, whose own call
       site beginner.BeginTx(<g>, opt) passes its context parameter on *)

Definition call := (ckind * ctx)%type.

Definition arg_ctx (f : cform) (h : handle) (p : ctx) : ctx :=
  match eval_form f h p with Some c => c | None => ctx_nil end.

Section Run.
  Variable cp : copies.
  Fixpoint run (n : node) (h : handle) {struct n} : list call :=
    match n with
    | NCall k f => [(k, arg_ctx f (get_instance cp h) ctx_unknown)]
    | NWrapped f inner =>
        let p := arg_ctx f (get_instance cp h) ctx_unknown in
        map (fun kf => (fst kf, arg_ctx (snd kf) (get_instance cp h) p)) inner
    | NSess l body =>
        let h' := session cp l ctx_unknown h in
        (fix go (ns : list node) : list call := match ns with [] => [] | x :: r => run x h' ++ go r end) body
    | NWith c body =>
        let h' := session cp (mk_slit FParam false false false) c h in
        (fix go (ns : list node) : list call := match ns with [] => [] | x :: r => run x h' ++ go r end) body
    | NBegin l f body =>
        let h' := session cp l ctx_unknown (get_instance cp h) in
        (KBegin, arg_ctx f h' ctx_unknown)
        :: (fix go (ns : list node) : list call := match ns with [] => [] | x :: r => run x h' ++ go r end) body
    | NBeginW l f g body =>
        let h' := session cp l ctx_unknown (get_instance cp h) in
        (KBegin, arg_ctx g h' (arg_ctx f h' ctx_unknown))
        :: (fix go (ns : list node) : list call := match ns with [] => [] | x :: r => run x h' ++ go r end) body
    end.
  Definition run_list (ns : list node) (h : handle) : list call :=
    (fix go (ns : list node) : list call := match ns with [] => [] | x :: r => run x h ++ go r end) ns.
End Run.

(* ---------------------------------------------------------------- what the facts must say *)
Definition cform_eqb (a b : cform) : bool :=
  match a, b with
  | FAbsent, FAbsent | FStmt, FStmt | FParam, FParam | FBackground, FBackground | FUnknown, FUnknown => true
  | _, _ => false
  end.

(* an internal Session literal keeps the context: Context unset, or set to the handle's own *)
Definition session_keeps_ctx (l : slit) : bool :=
  match l_ctx l with FAbsent | FStmt => true | _ => false end.

(* a driver call site in a callback / finisher passes the statement's context *)
Definition site_passes_stmt_ctx (f : cform) : bool := cform_eqb f FStmt.
(* a call site inside a wrapper that received the context as a parameter passes that parameter on *)
Definition site_passes_param (f : cform) : bool := cform_eqb f FParam.

Definition copies_ok (cp : copies) : bool := cp_getinstance cp && cp_clone cp && cp_session cp.

Fixpoint node_ok (n : node) : bool :=
  match n with
  | NCall _ f => site_passes_stmt_ctx f
  | NWrapped f inner => site_passes_stmt_ctx f && forallb (fun kf => site_passes_param (snd kf)) inner
  | NSess l body => session_keeps_ctx l && forallb node_ok body
  | NWith _ body => forallb node_ok body
  | NBegin l f body => session_keeps_ctx l && site_passes_stmt_ctx f && forallb node_ok body
  | NBeginW l f g body => session_keeps_ctx l && site_passes_stmt_ctx f && site_passes_param g && forallb node_ok body
  end.

(* the context every call of a tree must carry: the caller's, or the innermost explicit rebinding *)
Fixpoint expected (n : node) (c : ctx) : list call :=
  match n with
  | NCall k _ => [(k, c)]
  | NWrapped _ inner => map (fun kf => (fst kf, c)) inner
  | NSess _ body => flat_map (fun x => expected x c) body
  | NWith c' body => flat_map (fun x => expected x c') body
  | NBegin _ _ body | NBeginW _ _ _ body => (KBegin, c) :: flat_map (fun x => expected x c) body
  end.

Fixpoint has_rebind (n : node) : bool :=
  match n with
  | NCall _ _ | NWrapped _ _ => false
  | NSess _ body | NBegin _ _ body | NBeginW _ _ _ body => existsb has_rebind body
  | NWith _ _ => true
  end.
