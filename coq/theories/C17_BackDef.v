(* C17_BackDef.v — the backward domain as a decidable predicate on histories (definitions only; used by the
   checker C17_CheckK and by the proofs C17_Back*.v). *)
From Verif Require Import Base C17_Model.
Open Scope string_scope.
Open Scope list_scope.

(* the Before/After targets a call names *)
Definition tgts (s : step) : list string := filter (fun t => negb (is_none t)) [st_before s; st_after s].

(* F = the Before/After targets named by the calls so far.  A history is "backward" when no request is "*"
   and no (matched) Register takes a name that an earlier call - or the call itself - has named as a target:
   a request then names a callback registered earlier (built-in or user; live, replaced or removed by now)
   or a name under which nothing is and nothing will be registered. *)
Definition ok_step_b (F : list string) (s : step) : bool :=
  negb (is_star (st_before s)) && negb (is_star (st_after s))
  && match st_kind s with
     | KRegister => negb (st_matched s && mem (tgts s ++ F) (st_name s))
     | _ => true
     end.
Fixpoint back_from (F : list string) (h : list step) : bool :=
  match h with
  | [] => true
  | s :: r => ok_step_b F s && back_from (tgts s ++ F) r
  end.
Definition backward_hist (h : list step) : bool := back_from [] h.
