(* C12_Proofs3.v — has one / has many: lifting to histories of any length; Count / Find. *)
From Verif Require Import Base C12_Model C12_Proofs C12_Proofs2.
Open Scope Z_scope.

Definition seteq (a b : list Z) : Prop := forall t, In t a <-> In t b.

Lemma spec_owner_ext k o a a' v : seteq a a' -> seteq (spec_owner k o a v) (spec_owner k o a' v).
Proof.
  intros E t. destruct o; cbn [spec_owner]; try reflexivity.
  - destruct (single_valued k); [reflexivity|]. unfold union. rewrite !in_app_iff, (E t). reflexivity.
  - unfold minus. rewrite !filter_In, (E t). reflexivity.
  - apply E.
Qed.

(* every operation of the history is admissible in the state it is applied to *)
Fixpoint hist_ok (k : kind) (os : list Z) (s : st) (ops : list (bool * op)) : Prop :=
  match ops with
  | [] => True
  | uo :: r => op_ok_has k os s (snd uo) /\ hist_ok k os (assoc_step k os s uo) r
  end.

Definition final (k : kind) (os : list Z) (s : st) (ops : list (bool * op)) : st :=
  fold_left (assoc_step k os) ops s.
Definition spec_run (k : kind) (ops : list (bool * op)) (A : list (list Z)) : list (list Z) :=
  fold_left (fun A uo => spec_step k (snd uo) A) ops A.

Lemma op_values_length o n : match o with OAppend vs | OReplace vs => length vs = n | _ => True end ->
  length (op_values o n) = n.
Proof. destruct o; cbn; intro H; auto; apply repeat_length. Qed.

Lemma spec_step_length k o A : length (op_values o (length A)) = length A -> length (spec_step k o A) = length A.
Proof. intro H. unfold spec_step. rewrite map_length, combine_length. lia. Qed.

Lemma nth_map_lt {A B} (f : A -> B) : forall l i d d', (i < length l)%nat -> nth i (map f l) d = f (nth i l d').
Proof. induction l as [|x l IH]; intros [|i] d d' H; cbn in *; try lia; [reflexivity | apply IH; lia]. Qed.

Lemma spec_step_nth k o A i : length (op_values o (length A)) = length A -> (i < length A)%nat ->
  nth i (spec_step k o A) [] = spec_owner k o (nth i A []) (nth i (op_values o (length A)) []).
Proof.
  intros L Hi. unfold spec_step.
  rewrite (nth_map_lt _ _ i [] ([], [])) by (rewrite combine_length; lia).
  rewrite combine_nth by (symmetry; exact L). reflexivity.
Qed.

Section HasHistory.
Variables (k : kind) (os : list Z).
Hypothesis Hk : is_has k.

Lemma ok_values_length s o : op_ok_has k os s o ->
  match o with OAppend vs | OReplace vs => length vs = length os | _ => True end.
Proof. destruct o; cbn; tauto. Qed.

(* the stored links after ANY admissible history are the links the history defines *)
Theorem has_history : forall ops s A,
  wf_has os s -> hist_ok k os s ops ->
  length A = length os ->
  (forall i o, nth_error os i = Some o -> seteq (links k s o) (nth i A [])) ->
  let s' := final k os s ops in
  wf_has os s' /\
  (forall i o, nth_error os i = Some o -> seteq (links k s' o) (nth i (spec_run k ops A) [])).
Proof.
  induction ops as [|[u o] ops IH]; intros s A W OK LA EQ; cbn [final spec_run fold_left].
  - split; assumption.
  - destruct OK as [OK1 OK2]. cbn [snd] in OK1.
    destruct (has_step k os Hk u o s W OK1) as [W' [K' _]].
    assert (LV : length (op_values o (length A)) = length A).
    { apply op_values_length. rewrite LA. apply (ok_values_length s o OK1). }
    apply IH; auto.
    + rewrite spec_step_length; assumption.
    + intros i ow Ho t. rewrite (K' i ow Ho t).
      assert (Hi : (i < length A)%nat) by (rewrite LA; apply nth_error_Some; congruence).
      cbn [snd]. rewrite (spec_step_nth k o A i LV Hi). unfold values_of. rewrite LA.
      apply spec_owner_ext. apply EQ. exact Ho.
Qed.

(* targets survive every scoped operation *)
Theorem has_targets_survive : forall ops s,
  wf_has os s -> hist_ok k os s ops -> Forall (fun uo => fst uo = false) ops ->
  forall x, In x (all_targets k s) -> In x (all_targets k (final k os s ops)).
Proof.
  assert (AT : forall s, all_targets k s = map fst (rows s)) by (intro s; destruct Hk; subst k; reflexivity).
  induction ops as [|[u o] ops IH]; intros s W OK SC x Hx; cbn [final fold_left]; [exact Hx|].
  destruct OK as [OK1 OK2]. cbn [snd] in OK1. inversion SC as [|? ? U SC']; subst. cbn in U. subst u.
  destruct (has_step k os Hk false o s W OK1) as [W' [_ S']].
  apply IH; auto. rewrite AT in *. apply S'; auto.
Qed.

(* Count and Find report exactly the stored links *)
Theorem has_find s : NoDup (map fst (rows s)) ->
  find_ids k os s = List.concat (map (links k s) os) /\
  count_ids k os s = Z.of_nat (length (List.concat (map (links k s) os))).
Proof.
  intro ND.
  assert (E : find_ids k os s = List.concat (map (links k s) os)).
  { unfold find_ids. replace (match k with KBelongs => _ | _ => flat_map (fun o => filter (target_exists k s) (links k s o)) os end)
      with (flat_map (fun o => filter (target_exists k s) (links k s o)) os) by (destruct Hk; subst k; reflexivity).
    rewrite flat_map_concat_map. f_equal. apply map_ext. intro o.
    assert (F : forall l, (forall t, In t l -> target_exists k s t = true) -> filter (target_exists k s) l = l).
    { induction l as [|x l IHl]; intro H; cbn; [reflexivity|]. rewrite (H x (or_introl eq_refl)). f_equal. apply IHl. intros t Ht. apply H. right. exact Ht. }
    apply F. intros t Ht. apply (links_has k s o t Hk ND) in Ht.
    assert (TE : target_exists k s t = memz t (map fst (rows s))) by (destruct Hk; subst k; reflexivity).
    rewrite TE. apply memz_In. apply look_In in Ht. apply in_map_iff. exists (t, Some o). auto. }
  split; [exact E | unfold count_ids; rewrite E; reflexivity].
Qed.

End HasHistory.
