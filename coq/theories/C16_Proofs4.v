(* C16_Proofs4.v — round 7: the executable specification of Omit(cols...).Save(&v) (C16_Spec.spec_save_omit)
   holds of the model's own output (C16_Model.save_omit: UPDATE without the omitted columns, else
   INSERT ... ON CONFLICT UPDATE ALL without them) for every well-formed table, every Omit list that does
   not name the key, every value and every clock value. *)
From Verif Require Import Base C16_Model C16_Spec C16_Proofs C16_Proofs2 C16_Proofs3.
Open Scope Z_scope.

Lemma mem_col_kept os cs c : mem_col c (kept os cs) = mem_col c cs && negb (omitted os c).
Proof.
  unfold kept, mem_col. induction cs as [|d cs IH]; cbn; [reflexivity|].
  destruct (col_eqb c d) eqn:E.
  - apply col_eqb_eq in E. subst d. destruct (omitted os c); cbn.
    + rewrite IH. now rewrite andb_false_r.
    + now rewrite (proj2 (col_eqb_eq c c) eq_refl).
  - destruct (negb (omitted os d)); cbn; [rewrite E|]; exact IH.
Qed.

Lemma copy_kept_get os cs src dst c :
  get_col c (copy_cols (kept os cs) src dst)
  = if mem_col c cs && negb (omitted os c) then get_col c src else get_col c dst.
Proof. unfold copy_cols. rewrite copy_cols_get, mem_col_kept. reflexivity. Qed.

Lemma data_col_facts c : In c data_cols ->
  col_eqb CUat c = false /\ (data_key c = true \/ c = CDel) /\ mem_col c save_cols = true
  /\ mem_col c [CCat; CUat] = false /\ mem_col c [CName; CAge; CEmail; CDel] = true
  /\ is_zero (get_col c zero_rec) = true.
Proof. intros [<-|[<-|[<-|[<-|[]]]]]; cbn; auto 10. Qed.

(* the row check of spec_save_omit, from a column-by-column description of the stored row *)
Lemma omit_row_ok os v oldo row :
  (forall c, In c data_cols ->
     get_col c row = if omitted os c
                     then match oldo with Some r => get_col c r | None => get_col c zero_rec end
                     else get_col c v) ->
  forallb (fun c => if existsb (col_eqb c) os
                    then match oldo with
                         | Some r => val_eqb (get_col c row) (get_col c r)
                         | None => is_zero (get_col c row)
                         end
                    else val_eqb (get_col c row) (get_col c v)) data_cols = true.
Proof.
  intros H. apply forallb_forall. intros c Hc. rewrite (H c Hc). unfold omitted.
  destruct (existsb (col_eqb c) os); [|apply val_eqb_refl].
  destruct oldo; [apply val_eqb_refl|]. now destruct (data_col_facts c Hc) as (_ & _ & _ & _ & _ & Z).
Qed.

Lemma same_on_data a b : (forall c, In c data_cols -> get_col c a = get_col c b) -> same_on data_cols a b = true.
Proof. intros H. unfold same_on. apply forallb_forall. intros c Hc. rewrite (H c Hc). apply val_eqb_refl. Qed.

(* the struct handed back: the value, tracked times aside *)
Lemma omit_v1_get os now v c : In c data_cols ->
  get_col c (copy_cols (kept os [CCat; CUat]) (fill_times now v) v) = get_col c v.
Proof.
  intros Hc. destruct (data_col_facts c Hc) as (_ & _ & _ & M & _). rewrite copy_kept_get, M. reflexivity.
Qed.
Lemma omit_v1_id os now v : r_id (copy_cols (kept os [CCat; CUat]) (fill_times now v) v) = r_id v.
Proof. apply copy_cols_id, kept_no_id. reflexivity. Qed.
Lemma omit_v2_get os now v c : In c data_cols ->
  get_col c (if omitted os CUat then v else with_uat now v) = get_col c v.
Proof.
  intros Hc. destruct (data_col_facts c Hc) as (U & _). destruct (omitted os CUat); [reflexivity|].
  now apply with_uat_get.
Qed.
Lemma omit_v2_id os now v : r_id (if omitted os CUat then v else with_uat now v) = r_id v.
Proof. destruct (omitted os CUat); [reflexivity|apply with_uat_id]. Qed.

(* INSERT without the omitted columns *)
Lemma omit_inserted_get os v1 k c : In c data_cols ->
  get_col c (with_id k (copy_cols (kept os save_cols) v1 zero_rec))
  = if omitted os c then get_col c zero_rec else get_col c v1.
Proof.
  intros Hc. destruct (data_col_facts c Hc) as (_ & D & M & _). rewrite with_id_get by exact D.
  rewrite copy_kept_get, M. cbn [andb]. now destruct (omitted os c).
Qed.

Ltac split5 := apply andb_true_intro; split; [apply andb_true_intro; split; [apply andb_true_intro; split; [apply andb_true_intro; split|]|]|].

Section SaveOmit.
Variables (t : table) (now : Z) (os : list col) (v : rec).
Hypothesis Hwf : wf t.
Hypothesis Hos : existsb (col_eqb CId) os = false.

Theorem save_omit_meets_spec :
  spec_save_omit t os v (obs_of_result (save_omit t now os v)) = true.
Proof.
  unfold spec_save_omit, obs_of_result. cbn [o_err o_ret o_tbl o_ra].
  unfold save_omit. destruct (r_id v =? 0) eqn:Hz0.
  - (* zero key: INSERT under the key the database assigns *)
    apply Z.eqb_eq in Hz0. unfold create_omit.
    set (v1 := copy_cols (kept os [CCat; CUat]) (fill_times now v) v).
    assert (I1 : r_id v1 = 0) by (unfold v1; rewrite omit_v1_id; exact Hz0).
    rewrite I1. cbn [Z.eqb]. cbn [res_err res_ret res_tbl res_ra negb andb orb].
    destruct (next_id_fresh t) as [N P].
    rewrite with_id_id. unfold fresh_key. rewrite (lookup_none_has_key _ _ N), (proj2 (Z.ltb_lt _ _) P).
    cbn [negb andb orb].
    set (row := with_id (next_id t) (copy_cols (kept os save_cols) v1 zero_rec)).
    assert (Ir : r_id row = next_id t) by apply with_id_id.
    split5.
    + rewrite <- Ir. rewrite lookup_insert_same by (rewrite Ir; exact N).
      apply (omit_row_ok os v None row). intros c Hc. unfold row. rewrite omit_inserted_get by exact Hc.
      destruct (omitted os c); [reflexivity|]. now apply omit_v1_get.
    + rewrite <- Ir. apply others_same_of, without_insert.
    + apply Z.eqb_refl.
    + apply same_on_data. intros c Hc. destruct (data_col_facts c Hc) as (_ & D & _). rewrite with_id_get by exact D. now apply omit_v1_get.
    + reflexivity.
  - apply Z.eqb_neq in Hz0. cbn [negb orb andb].
    set (v2 := if omitted os CUat then v else with_uat now v).
    assert (I2 : r_id v2 = r_id v) by apply omit_v2_id.
    set (hit := fun x => (r_id x =? r_id v) && live x).
    destruct (0 <? count_where hit t) eqn:C; cbn [res_err res_ret res_tbl res_ra negb andb].
    + (* a live row holds the key: UPDATE without the omitted columns *)
      apply Z.ltb_lt in C. assert (C1 : count_where hit t = 1) by (apply (count_hit_one t v Hwf); exact C).
      rewrite C1. destruct (count_pos _ _ C) as (x & Hin & Hx).
      assert (Kx : r_id x = r_id v) by (apply andb_prop in Hx; destruct Hx as [Hx _]; now apply Z.eqb_eq in Hx).
      pose proof (lookup_in' t x Hwf Hin) as L. rewrite Kx in L.
      assert (Fid : forall r, hit r = true -> r_id (copy_cols (kept os save_cols) v2 r) = r_id r).
      { intros r _. apply copy_cols_id, kept_no_id. reflexivity. }
      rewrite L.
      split5.
      * rewrite (lookup_upd_where hit _ t (r_id v) Fid), L. cbn [option_map]. rewrite Hx.
        apply (omit_row_ok os v (Some x)). intros c Hc.
        destruct (data_col_facts c Hc) as (_ & _ & M & _). rewrite copy_kept_get, M. cbn [andb].
        destruct (omitted os c); cbn [negb]; [reflexivity|]. now apply omit_v2_get.
      * apply others_same_of, without_upd_where. intros r Hr. rewrite (Fid r Hr).
        apply andb_prop in Hr. destruct Hr as [Hr _]. apply Z.eqb_eq in Hr. now split.
      * rewrite I2. apply Z.eqb_refl.
      * apply same_on_data. intros c Hc. now apply omit_v2_get.
      * reflexivity.
    + (* no live row: INSERT ... ON CONFLICT UPDATE ALL without the omitted columns *)
      unfold create_omit.
      set (v1 := copy_cols (kept os [CCat; CUat]) (fill_times now v2) v2).
      assert (I1 : r_id v1 = r_id v) by (unfold v1; rewrite omit_v1_id; exact I2).
      assert (G1 : forall c, In c data_cols -> get_col c v1 = get_col c v).
      { intros c Hc. unfold v1. rewrite omit_v1_get by exact Hc. now apply omit_v2_get. }
      rewrite I1, (proj2 (Z.eqb_neq _ _) Hz0).
      destruct (lookup t (r_id v)) as [old|] eqn:L; cbn [res_err res_ret res_tbl res_ra negb andb].
      * (* a soft-deleted row holds the key *)
        set (f := fun old0 => let o1 := copy_cols (kept os [CName; CAge; CEmail; CDel]) v1 old0 in
                              if omitted os CUat then o1 else with_uat now o1).
        assert (Fid : forall r, (r_id r =? r_id v) = true -> r_id (f r) = r_id r).
        { intros r _. unfold f. cbv zeta.
          assert (E : r_id (copy_cols (kept os [CName; CAge; CEmail; CDel]) v1 r) = r_id r)
            by (apply copy_cols_id, kept_no_id; reflexivity).
          destruct (omitted os CUat); [exact E|]. now rewrite with_uat_id. }
        destruct (lookup_some _ _ _ L) as [_ Ko].
        split5.
        -- rewrite (lookup_upd_where (fun r => r_id r =? r_id v) f t (r_id v) Fid), L. cbn [option_map].
           rewrite Ko, Z.eqb_refl.
           apply (omit_row_ok os v (Some old)). intros c Hc.
           destruct (data_col_facts c Hc) as (U & _ & _ & _ & M & _). unfold f. cbv zeta.
           assert (E : get_col c (copy_cols (kept os [CName; CAge; CEmail; CDel]) v1 old)
                       = if omitted os c then get_col c old else get_col c v).
           { rewrite copy_kept_get, M. cbn [andb]. destruct (omitted os c); cbn [negb]; [reflexivity|]. now apply G1. }
           destruct (omitted os CUat); [exact E|]. rewrite with_uat_get by exact U. exact E.
        -- apply others_same_of, without_upd_where. intros r Hr. rewrite (Fid r Hr). apply Z.eqb_eq in Hr. now split.
        -- rewrite with_id_id. apply Z.eqb_refl.
        -- apply same_on_data. intros c Hc. destruct (data_col_facts c Hc) as (_ & D & _). rewrite with_id_get by exact D. now apply G1.
        -- reflexivity.
      * (* the key is absent *)
        set (row := with_id (r_id v) (copy_cols (kept os save_cols) v1 zero_rec)).
        assert (Ir : r_id row = r_id v) by apply with_id_id.
        split5.
        -- rewrite <- Ir. rewrite lookup_insert_same by (rewrite Ir; exact L).
           apply (omit_row_ok os v None row). intros c Hc. unfold row. rewrite omit_inserted_get by exact Hc.
           destruct (omitted os c); [reflexivity|]. now apply G1.
        -- rewrite <- Ir. apply others_same_of, without_insert.
        -- rewrite with_id_id. apply Z.eqb_refl.
        -- apply same_on_data. intros c Hc. destruct (data_col_facts c Hc) as (_ & D & _). rewrite with_id_get by exact D. now apply G1.
        -- reflexivity.
Qed.
End SaveOmit.

(* ---- all finishers of the domain ---------------------------------------------------------------------------- *)
Theorem model_meets_spec t now ch f : wf t -> in_domain ch f = true ->
  spec_step t now ch f (obs_of_result (step_repo t now ch f)) = true.
Proof.
  intros Hwf D. destruct f as [v|ru v|ic|ic|vs|os v|ru b vs|ru tgt v|ru ms|v|vs|ru v|i rg a q]; try discriminate D.
  - apply save_meets_spec, Hwf.
  - apply upsert_meets_spec, Hwf.
  - cbn [in_domain] in D. repeat (apply andb_prop in D; destruct D as [D ?]).
    apply init_meets_spec; try assumption. now apply conds_dom_no_del.
  - cbn [in_domain] in D. repeat (apply andb_prop in D; destruct D as [D ?]).
    apply foc_meets_spec; try assumption. now apply negb_true_iff.
  - apply save_omit_meets_spec, Hwf.
Qed.
