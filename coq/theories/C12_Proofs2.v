(* C12_Proofs2.v — has one / has many: per-operation refinement and its lifting to histories. *)
From Verif Require Import Base C12_Model C12_Proofs.
Open Scope Z_scope.

Lemma concat_nils {A B} (l : list A) : List.concat (map (fun _ => @nil B) l) = [].
Proof. induction l; cbn; auto. Qed.

Lemma In_concat_nth {A} (ls : list (list A)) x :
  In x (List.concat ls) <-> exists i l, nth_error ls i = Some l /\ In x l.
Proof.
  rewrite in_concat. split.
  - intros [l [H1 H2]]. apply In_nth_error in H1. destruct H1 as [i Hi]. eauto.
  - intros [i [l [H1 H2]]]. exists l. split; [eapply nth_error_In; eauto | exact H2].
Qed.

(* after "SET fk = NULL WHERE P" or "DELETE WHERE P" a link survives iff it was there and P is false *)
Lemma LK_detach (u : bool) P r o t : NoDup (map fst r) ->
  look (if u then delete_where P r else null_where P r) t = Some (Some o) <->
  look r t = Some (Some o) /\ P (t, Some o) = false.
Proof.
  intro ND. destruct u; [rewrite look_delete by exact ND | rewrite look_null];
    destruct (look r t) as [f|]; try (split; [discriminate | intros [H _]; discriminate]).
  - destruct (P (t, f)) eqn:EP; split.
    + discriminate.
    + intros [H F]. inversion H; subst. congruence.
    + intro H. inversion H; subst. auto.
    + intros [H _]. exact H.
  - destruct (P (t, f)) eqn:EP; split.
    + discriminate.
    + intros [H F]. inversion H; subst. congruence.
    + intro H. inversion H; subst. auto.
    + intros [H _]. exact H.
Qed.

Lemma nodup_detach (u : bool) P r : NoDup (map fst r) -> NoDup (map fst (if u then delete_where P r else null_where P r)).
Proof. intro ND. destruct u; [apply nodup_delete, ND | rewrite fst_null; exact ND]. Qed.

Lemma map_snd_combine {A B} (f : A * B -> B) (l1 : list A) (l2 : list B) :
  length l1 = length l2 -> (forall a b, In (a, b) (combine l1 l2) -> f (a, b) = b) -> map f (combine l1 l2) = l2.
Proof.
  revert l2. induction l1 as [|x l1 IH]; intros [|y l2] L H; cbn in *; try discriminate; [reflexivity|].
  f_equal; [apply H; left; reflexivity | apply IH; [lia | intros a b Hab; apply H; right; exact Hab]].
Qed.

Lemma nth_error_map_combine {A B C} (f : A * B -> C) l1 l2 i a b :
  nth_error l1 i = Some a -> nth_error l2 i = Some b -> nth_error (map f (combine l1 l2)) i = Some (f (a, b)).
Proof. intros H1 H2. apply map_nth_error. apply nth_error_combine; assumption. Qed.

Lemma last_or_single d v : length v = 1%nat -> last_or d v = v.
Proof. destruct v as [|x [|y v]]; cbn; intro H; try discriminate. reflexivity. Qed.

Section HasStep.
Variables (k : kind) (os : list Z).
Hypothesis Hk : is_has k.

Lemma links_LK s o t : NoDup (map fst (rows s)) -> (In t (links k s o) <-> LK s o t).
Proof. intro ND. apply links_has; assumption. Qed.

(* ---- Delete ---- *)
Lemma has_delete u ts s : wf_has os s ->
  let s' := do_delete k u os ts s in
  wf_has os s' /\
  (forall i o, nth_error os i = Some o -> forall t, LK s' o t <-> LK s o t /\ ~ In t ts) /\
  (u = false -> forall x, In x (map fst (rows s)) -> In x (map fst (rows s'))).
Proof.
  intros W s'. destruct W as [ND NO LE ME].
  set (P := fun p : Z * option Z => in_os os (snd p) && memz (fst p) ts).
  assert (E : s' = mk_st (if u then delete_where P (rows s) else null_where P (rows s)) (joins s) (tgt s)
                         (map (filter (fun t => negb (memz t ts))) (mem s)))
    by (unfold s', do_delete; destruct Hk; subst k; reflexivity).
  assert (K : forall i o, nth_error os i = Some o -> forall t, LK s' o t <-> LK s o t /\ ~ In t ts).
  { intros i o Ho t. unfold LK. rewrite E. cbn [rows]. rewrite LK_detach by exact ND. unfold P. cbn [fst snd].
    assert (IO : in_os os (Some o) = true) by (apply in_os_In; exists o; split; [reflexivity | eapply nth_error_In; eauto]).
    rewrite IO. cbn [andb]. rewrite memz_false. reflexivity. }
  split; [|split; [exact K|]].
  - constructor; auto.
    + rewrite E. cbn [rows]. apply nodup_detach, ND.
    + rewrite E. cbn [mem]. rewrite map_length. exact LE.
    + intros i o m Ho Hm t. rewrite (K i o Ho t). rewrite E in Hm. cbn [mem] in Hm.
      rewrite nth_error_map in Hm. destruct (nth_error (mem s) i) as [m0|] eqn:E0; [|discriminate]. inversion Hm; subst m.
      rewrite filter_In, (ME i o m0 Ho E0 t). rewrite Bool.negb_true_iff, memz_false. reflexivity.
  - intros U x Hx. rewrite E. cbn [rows]. subst u. rewrite fst_null. exact Hx.
Qed.

(* ---- Clear ---- *)
Lemma has_clear u s : wf_has os s ->
  let s' := do_clear k u os s in
  wf_has os s' /\
  (forall i o, nth_error os i = Some o -> forall t, ~ LK s' o t) /\
  (u = false -> forall x, In x (map fst (rows s)) -> In x (map fst (rows s'))).
Proof.
  intros W s'. destruct W as [ND NO LE ME].
  set (P := fun p : Z * option Z => in_os os (snd p) && negb (memz (fst p) (List.concat (map (fun _ : list Z => @nil Z) (mem s))))).
  assert (E : s' = mk_st (if u then delete_where P (rows s) else null_where P (rows s)) (joins s) (tgt s)
                         (map (fun _ => []) (mem s)))
    by (unfold s', do_clear, detach_others; destruct Hk; subst k; reflexivity).
  assert (K : forall i o, nth_error os i = Some o -> forall t, ~ LK s' o t).
  { intros i o Ho t. unfold LK. rewrite E. cbn [rows]. rewrite LK_detach by exact ND. unfold P. cbn [fst snd].
    assert (IO : in_os os (Some o) = true) by (apply in_os_In; exists o; split; [reflexivity | eapply nth_error_In; eauto]).
    rewrite IO, concat_nils. cbn. intros [_ F]. discriminate. }
  split; [|split; [exact K|]].
  - constructor; auto.
    + rewrite E. cbn [rows]. apply nodup_detach, ND.
    + rewrite E. cbn [mem]. rewrite map_length. exact LE.
    + intros i o m Ho Hm t. rewrite E in Hm. cbn [mem] in Hm. rewrite nth_error_map in Hm.
      destruct (nth_error (mem s) i); [|discriminate]. inversion Hm; subst m.
      split; [intros [] | intro L; exact (K i o Ho t L)].
  - intros U x Hx. rewrite E. cbn [rows]. subst u. rewrite fst_null. exact Hx.
Qed.

(* ---- Replace (and Append on has one) ---- *)
Lemma has_replace u vs s : wf_has os s ->
  length vs = length os -> disjoint_lists vs -> (k = KHasOne -> Forall (fun v => length v = 1%nat) vs) ->
  let s' := do_replace k u os vs s in
  wf_has os s' /\
  (forall i o v, nth_error os i = Some o -> nth_error vs i = Some v -> forall t, LK s' o t <-> In t v) /\
  (u = false -> forall x, In x (map fst (rows s)) -> In x (map fst (rows s'))).
Proof.
  intros W Lv DJ One s'. destruct W as [ND NO LE ME].
  set (ms' := map (fun mv => new_field k true (fst mv) (snd mv)) (combine (mem s) vs)).
  assert (MS : ms' = vs).
  { unfold ms'. apply map_snd_combine; [congruence|]. intros a b Hab. cbn [fst snd].
    destruct Hk as [-> | ->]; cbn; [|reflexivity].
    apply last_or_single. apply in_combine_r in Hab. specialize (One eq_refl). rewrite Forall_forall in One. apply One, Hab. }
  pose proof (save_assoc_has k true os vs s Hk Lv LE NO) as SA. cbn zeta in SA. fold ms' in SA. rewrite MS in SA.
  specialize (SA DJ). set (s1 := save_assoc k true os vs s) in *.
  destruct SA as [M1 [J1 [T1 [N1 [F1 L1]]]]]. specialize (N1 ND).
  set (P := fun p : Z * option Z => in_os os (snd p) && negb (memz (fst p) (List.concat (mem s1)))).
  assert (E : s' = mk_st (if u then delete_where P (rows s1) else null_where P (rows s1)) (joins s1) (tgt s1) (mem s1))
    by (unfold s', do_replace, detach_others; fold s1; destruct Hk; subst k; reflexivity).
  assert (K : forall i o v, nth_error os i = Some o -> nth_error vs i = Some v -> forall t, LK s' o t <-> In t v).
  { intros i o v Ho Hv t. unfold LK. rewrite E. cbn [rows]. rewrite LK_detach by exact N1. unfold P. cbn [fst snd].
    assert (IO : in_os os (Some o) = true) by (apply in_os_In; exists o; split; [reflexivity | eapply nth_error_In; eauto]).
    rewrite IO, M1. cbn [andb]. rewrite Bool.negb_false_iff, memz_In.
    fold (LK s1 o t). rewrite (L1 i o v Ho Hv t). split.
    - intros [[H | [NN _]] C]; [exact H|]. apply In_concat_nth in C. destruct C as [j [l [Hj Hl]]]. exfalso. exact (NN j l Hj Hl).
    - intro H. split; [left; exact H|]. apply In_concat_nth. eauto. }
  split; [|split; [exact K|]].
  - constructor; auto.
    + rewrite E. cbn [rows]. apply nodup_detach, N1.
    + rewrite E. cbn [mem]. rewrite M1. congruence.
    + intros i o m Ho Hm t. rewrite E in Hm. cbn [mem] in Hm. rewrite M1 in Hm. symmetry. apply (K i o m Ho Hm t).
  - intros U x Hx. rewrite E. cbn [rows]. subst u. rewrite fst_null. apply F1, Hx.
Qed.

(* ---- Append on has many ---- *)
Lemma has_append vs s : k = KHasMany -> wf_has os s ->
  length vs = length os -> disjoint_lists vs -> no_steal os s vs ->
  let s' := save_assoc k false os vs s in
  wf_has os s' /\
  (forall i o v, nth_error os i = Some o -> nth_error vs i = Some v -> forall t, LK s' o t <-> LK s o t \/ In t v) /\
  (forall x, In x (map fst (rows s)) -> In x (map fst (rows s'))).
Proof.
  intros Kk W Lv DJ NS s'. destruct W as [ND NO LE ME].
  set (ms' := map (fun mv => new_field k false (fst mv) (snd mv)) (combine (mem s) vs)).
  assert (NTH : forall i m v, nth_error (mem s) i = Some m -> nth_error vs i = Some v -> nth_error ms' i = Some (m ++ v)).
  { intros i m v Hm Hv. unfold ms'. rewrite (nth_error_map_combine _ _ _ i m v Hm Hv). subst k. reflexivity. }
  assert (INV : forall i mi, nth_error ms' i = Some mi -> exists o m v,
             nth_error os i = Some o /\ nth_error (mem s) i = Some m /\ nth_error vs i = Some v /\ mi = m ++ v).
  { intros i mi Hi. assert (Q : (i < length ms')%nat) by (apply nth_error_Some; congruence).
    unfold ms' in Q. rewrite map_length, combine_length in Q.
    destruct (nth_error_ex os i ltac:(lia)) as [o Ho]. destruct (nth_error_ex (mem s) i ltac:(lia)) as [m Hm].
    destruct (nth_error_ex vs i ltac:(lia)) as [v Hv]. exists o, m, v. repeat split; auto.
    rewrite (NTH i m v Hm Hv) in Hi. congruence. }
  assert (DJ' : disjoint_lists ms').
  { intros i j mi mj t NE Hi Hj Ti Tj.
    destruct (INV i mi Hi) as [oi [m1 [v1 [Ho1 [Hm1 [Hv1 ->]]]]]].
    destruct (INV j mj Hj) as [oj [m2 [v2 [Ho2 [Hm2 [Hv2 ->]]]]]].
    apply in_app_or in Ti. apply in_app_or in Tj.
    destruct Ti as [Ti|Ti], Tj as [Tj|Tj].
    - apply (ME i oi m1 Ho1 Hm1) in Ti. apply (ME j oj m2 Ho2 Hm2) in Tj. unfold LK in *. rewrite Ti in Tj. inversion Tj; subst.
      apply NE. eapply NoDup_nth_inj; eauto.
    - apply (ME i oi m1 Ho1 Hm1) in Ti. exact (NS j i oi v2 t (not_eq_sym NE) Hv2 Ho1 Tj Ti).
    - apply (ME j oj m2 Ho2 Hm2) in Tj. exact (NS i j oj v1 t NE Hv1 Ho2 Ti Tj).
    - exact (DJ i j v1 v2 t NE Hv1 Hv2 Ti Tj). }
  pose proof (save_assoc_has k false os vs s Hk Lv LE NO) as SA. cbn zeta in SA. fold ms' in SA.
  specialize (SA DJ'). fold s' in SA. destruct SA as [M1 [J1 [T1 [N1 [F1 L1]]]]]. specialize (N1 ND).
  assert (K : forall i o v, nth_error os i = Some o -> nth_error vs i = Some v -> forall t, LK s' o t <-> LK s o t \/ In t v).
  { intros i o v Ho Hv t.
    destruct (nth_error_ex (mem s) i) as [m Hm]; [rewrite LE; apply nth_error_Some; congruence|].
    rewrite (L1 i o (m ++ v) Ho (NTH i m v Hm Hv) t), in_app_iff, (ME i o m Ho Hm t). split.
    - intros [[H|H] | [_ H]]; auto.
    - intros [H|H]; left; auto. }
  split; [|split; [exact K | exact F1]].
  constructor; auto.
  - rewrite M1. unfold ms'. rewrite map_length, combine_length. lia.
  - intros i o m Ho Hm t. rewrite M1 in Hm. destruct (INV i m Hm) as [o' [m0 [v [Ho' [Hm0 [Hv ->]]]]]].
    rewrite (K i o v Ho Hv t), in_app_iff, (ME i o m0 Ho Hm0 t). reflexivity.
Qed.

(* ---- one step, all operations ---- *)
Definition values_of (o : op) (i : nat) : list Z := nth i (op_values o (length os)) [].

Theorem has_step u o s : wf_has os s -> op_ok_has k os s o ->
  let s' := assoc_step k os s (u, o) in
  wf_has os s' /\
  (forall i ow, nth_error os i = Some ow -> forall t,
     In t (links k s' ow) <-> In t (spec_owner k o (links k s ow) (values_of o i))) /\
  (u = false -> forall x, In x (map fst (rows s)) -> In x (map fst (rows s'))).
Proof.
  intros W OK s'. pose proof (wf_nd _ _ W) as ND.
  assert (VAL : forall (vs : list (list Z)) i v, length vs = length os -> nth_error vs i = Some v -> nth i vs [] = v)
    by (intros vs i v _ H; apply nth_error_nth; exact H).
  destruct o as [vs|vs|ts| |]; cbn [assoc_step] in s'.
  5:{ split; [exact W|]. split; [intros i ow Ho t; reflexivity | intros _ x Hx; exact Hx]. }
  - (* Append *)
    destruct OK as [Lv [DJ [NS One]]].
    destruct Hk as [K1|K1].
    + (* has one: Append is Replace *)
      assert (E : s' = do_replace k u os vs s) by (unfold s', do_append; rewrite K1; reflexivity).
      destruct (has_replace u vs s W Lv DJ One) as [W' [K' S']]. rewrite <- E in *.
      split; [exact W'|]. split; [|exact S'].
      intros i ow Ho t. rewrite links_LK by apply (wf_nd _ _ W').
      destruct (nth_error_ex vs i) as [v Hv]; [rewrite Lv; apply nth_error_Some; congruence|].
      rewrite (K' i ow v Ho Hv t). unfold values_of. cbn [op_values]. rewrite (VAL vs i v Lv Hv).
      unfold spec_owner. rewrite K1. reflexivity.
    + assert (E : s' = save_assoc k false os vs s) by (unfold s', do_append; rewrite K1; reflexivity).
      destruct (has_append vs s K1 W Lv DJ (NS K1)) as [W' [K' S']]. rewrite <- E in *.
      split; [exact W'|]. split; [|intros _; exact S'].
      intros i ow Ho t. rewrite links_LK by apply (wf_nd _ _ W').
      destruct (nth_error_ex vs i) as [v Hv]; [rewrite Lv; apply nth_error_Some; congruence|].
      rewrite (K' i ow v Ho Hv t). unfold values_of. cbn [op_values]. rewrite (VAL vs i v Lv Hv).
      unfold spec_owner. replace (single_valued k) with false by (rewrite K1; reflexivity).
      unfold union. rewrite in_app_iff, links_LK by exact ND. reflexivity.
  - (* Replace *)
    destruct OK as [Lv [DJ One]].
    destruct (has_replace u vs s W Lv DJ One) as [W' [K' S']]. fold s' in W', K', S'.
    split; [exact W'|]. split; [|exact S'].
    intros i ow Ho t. rewrite links_LK by apply (wf_nd _ _ W').
    destruct (nth_error_ex vs i) as [v Hv]; [rewrite Lv; apply nth_error_Some; congruence|].
    rewrite (K' i ow v Ho Hv t). unfold values_of. cbn [op_values]. rewrite (VAL vs i v Lv Hv). reflexivity.
  - (* Delete *)
    destruct (has_delete u ts s W) as [W' [K' S']]. fold s' in W', K', S'.
    split; [exact W'|]. split; [|exact S'].
    intros i ow Ho t. rewrite links_LK by apply (wf_nd _ _ W'). rewrite (K' i ow Ho t).
    cbn [spec_owner]. unfold minus. rewrite filter_In, links_LK by exact ND. rewrite Bool.negb_true_iff, memz_false. reflexivity.
  - (* Clear *)
    destruct (has_clear u s W) as [W' [K' S']]. fold s' in W', K', S'.
    split; [exact W'|]. split; [|exact S'].
    intros i ow Ho t. rewrite links_LK by apply (wf_nd _ _ W'). cbn [spec_owner]. split; [intro L; exact (K' i ow Ho t L) | intros []].
Qed.

End HasStep.
