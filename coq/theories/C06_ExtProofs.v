(* C06_ExtProofs.v — isolation of the non-slice statement state (C06_Ext.v): context, SkipHooks,
   the Preloads MAP (a reference into a heap of map objects) and the Settings.
   Invariant: no two statements hold the same map object; every statement abstracts to the replay
   of its own ghost chain.  Hypotheses: Statement.clone makes a new map (share_pre = false) and the
   guard of DB.Session holds whenever Context / SkipHooks are written (guard_sound). *)
From Verif Require Import Base C06_Model C06_Proofs C06_Proofs2 C06_Proofs8 C06_Proofs9 C06_Ext.
Open Scope nat_scope.

Lemma xreplay_snoc chain p : xreplay (chain ++ [p]) = xp_pop (xreplay chain) p.
Proof. unfold xreplay. rewrite fold_left_app. reflexivity. Qed.

Lemma xget_upd_same sts i s : xget (upd_nth sts i s) i = s \/ xget (upd_nth sts i s) i = xstmt0.
Proof.
  destruct (Nat.lt_ge_cases i (length sts)) as [L | L].
  - left. apply nth_upd_nth_eq, L.
  - right. unfold xget. apply nth_overflow. rewrite upd_nth_length. lia.
Qed.
Lemma xget_upd_other sts i j s : j <> i -> xget (upd_nth sts i s) j = xget sts j.
Proof. intro H. apply nth_upd_nth_neq. congruence. Qed.
Lemma xget_push_same sts c : xget (sts ++ [c]) (length sts) = c.
Proof. unfold xget. rewrite app_nth2, Nat.sub_diag; auto. Qed.
Lemma xget_push_other sts c j : j <> length sts -> xget (sts ++ [c]) j = xget sts j.
Proof.
  intro H. unfold xget. destruct (Nat.lt_ge_cases j (length sts)) as [L | L].
  - apply app_nth1, L.
  - rewrite !nth_overflow; auto. rewrite app_length. cbn. lia.
Qed.

Definition xinv (mh : list (list (Z * Z))) (sts : list xstmt) : Prop :=
  (forall i l, x_pre (xget sts i) = Some l -> l < length mh) /\
  (forall i j l, x_pre (xget sts i) = Some l -> x_pre (xget sts j) = Some l -> i = j) /\
  (forall i, xabs mh (xget sts i) = xreplay (x_gp (xget sts i))).

(* statement s', to be stored at index k, fits into (mh, sts) after the maps became mh' *)
Definition fits (mh : list (list (Z * Z))) (sts : list xstmt) (mh' : list (list (Z * Z))) (k : nat) (s' : xstmt) : Prop :=
  length mh <= length mh' /\
  (forall l, l < length mh -> x_pre s' <> Some l -> nth l mh' [] = nth l mh []) /\
  (forall l, x_pre s' = Some l -> l < length mh' /\ forall j, j <> k -> x_pre (xget sts j) <> Some l) /\
  xabs mh' s' = xreplay (x_gp s').

Lemma xabs0 mh : xabs mh xstmt0 = xreplay (x_gp xstmt0).
Proof. reflexivity. Qed.

Lemma inv_change mh sts mh' sts' s' k :
  xinv mh sts ->
  (forall j, j <> k -> xget sts' j = xget sts j) ->
  (xget sts' k = s' \/ xget sts' k = xstmt0) ->
  fits mh sts mh' k s' ->
  xinv mh' sts'.
Proof.
  intros (A & B & C) Ho Hk (Fl & Fn & Fp & Fa).
  assert (K0 : forall l, x_pre (xget sts' k) = Some l -> xget sts' k = s').
  { intros l E. destruct Hk as [Q | Q]; auto. rewrite Q in E. discriminate E. }
  split; [|split].
  - intros i l E. destruct (Nat.eq_dec i k) as [-> | N].
    + rewrite (K0 _ E) in E. apply (Fp _ E).
    + rewrite (Ho _ N) in E. apply A in E. lia.
  - intros i j l Ei Ej.
    destruct (Nat.eq_dec i k) as [-> | Ni]; destruct (Nat.eq_dec j k) as [-> | Nj]; auto.
    + rewrite (K0 _ Ei) in Ei. rewrite (Ho _ Nj) in Ej. exfalso. apply (proj2 (Fp _ Ei) _ Nj Ej).
    + rewrite (K0 _ Ej) in Ej. rewrite (Ho _ Ni) in Ei. exfalso. apply (proj2 (Fp _ Ej) _ Ni Ei).
    + rewrite (Ho _ Ni) in Ei. rewrite (Ho _ Nj) in Ej. eapply B; eauto.
  - intro i. destruct (Nat.eq_dec i k) as [-> | N].
    + destruct Hk as [Q | Q]; rewrite Q; auto.
    + rewrite (Ho _ N), <- C. unfold xabs. f_equal.
      destruct (x_pre (xget sts i)) as [l|] eqn:E; cbn [mget]; auto.
      apply Fn; [eapply A; eauto|]. intro Q. apply (proj2 (Fp _ Q) _ N E).
Qed.

Lemma xinv_upd mh sts mh' i s' :
  xinv mh sts -> fits mh sts mh' i s' -> xinv mh' (upd_nth sts i s').
Proof.
  intros H F. apply (inv_change mh sts mh' _ s' i); auto.
  - intros j N. apply xget_upd_other, N.
  - apply xget_upd_same.
Qed.
Lemma xinv_push mh sts mh' c :
  xinv mh sts -> fits mh sts mh' (length sts) c -> xinv mh' (sts ++ [c]).
Proof.
  intros H F. apply (inv_change mh sts mh' _ c (length sts)); auto.
  - intros j N. apply xget_push_other, N.
  - left. apply xget_push_same.
Qed.

Lemma self_fits mh sts i : xinv mh sts -> fits mh sts mh i (xget sts i).
Proof.
  intros (A & B & C). split; [|split; [|split]]; auto.
  intros l E. split; [eapply A; eauto|]. intros j N Q. apply N. symmetry. eapply B; eauto.
Qed.

(* a change of the scalar part only: same map reference, abstraction moves by one ghost step *)
Lemma fits_mod mh sts mh' k c c' p :
  fits mh sts mh' k c -> x_pre c' = x_pre c -> x_gp c' = x_gp c ++ [p] ->
  xabs mh' c' = xp_pop (xabs mh' c) p -> fits mh sts mh' k c'.
Proof.
  intros (Fl & Fn & Fp & Fa) Ep Eg Ea. split; [|split; [|split]]; auto.
  - intros l L N. apply Fn; auto. rewrite <- Ep. exact N.
  - intros l E. rewrite Ep in E. apply (Fp _ E).
  - rewrite Ea, Eg, xreplay_snoc, Fa. reflexivity.
Qed.

Lemma fits_push mh sts mh' k c p :
  fits mh sts mh' k c -> xp_pop (xabs mh' c) p = xabs mh' c -> fits mh sts mh' k (x_push c p).
Proof. intros F E. apply (fits_mod mh sts mh' k c (x_push c p) p F); [reflexivity | reflexivity |]. rewrite E. reflexivity. Qed.
Lemma fits_ctx mh sts mh' k c v : fits mh sts mh' k c -> fits mh sts mh' k (x_set_ctx c v).
Proof. intro F. apply (fits_mod mh sts mh' k c (x_set_ctx c v) (XPCtx v) F); reflexivity. Qed.
Lemma fits_skip mh sts mh' k c : fits mh sts mh' k c -> fits mh sts mh' k (x_set_skip c).
Proof. intro F. apply (fits_mod mh sts mh' k c (x_set_skip c) XPSkip F); reflexivity. Qed.

(* Statement.clone with a new map *)
Lemma clone_fits mh sts i mh1 c :
  xinv mh sts -> x_clone false mh (xget sts i) = (mh1, c) -> fits mh sts mh1 (length sts) c.
Proof.
  intros (A & B & C) E. unfold x_clone in E. inversion E; subst; clear E. split; [|split; [|split]]; cbn [x_pre x_gp].
  - rewrite app_length. cbn. lia.
  - intros l L _. apply app_nth1, L.
  - intros l E. inversion E; subst. split; [rewrite app_length; cbn; lia|]. intros j _ Q. apply A in Q. lia.
  - rewrite <- C. unfold xabs. cbn [x_ctx x_skip x_pre x_set mget]. f_equal.
    rewrite app_nth2, Nat.sub_diag; auto.
Qed.

Lemma fresh_fits mh sts i : xinv mh sts -> fits mh sts mh (length sts) (x_fresh (xget sts i)).
Proof.
  intros (A & B & C). split; [|split; [|split]]; cbn [x_pre x_gp x_fresh]; auto; try discriminate.
  rewrite xreplay_snoc, <- C. reflexivity.
Qed.

Section WithGuard.
Variable guard : bool -> option Z -> bool -> bool -> bool.
Hypothesis Hg : guard_sound guard.

Lemma get_instance_xinv mh sts hd mh1 sts1 i :
  xinv mh sts -> x_get_instance false mh sts hd = (mh1, sts1, i) -> xinv mh1 sts1.
Proof.
  intros H E. unfold x_get_instance in E. destruct (snd hd) as [|[|m]].
  - inversion E; subst. exact H.
  - inversion E; subst. eapply xinv_push; [eassumption|]. apply fresh_fits, H.
  - destruct (x_clone false mh (xget sts (fst hd))) as [mh2 c] eqn:EC. inversion E; subst.
    eapply xinv_push; [eassumption|]. eapply clone_fits; eauto.
Qed.

Lemma apply_fits mh sts i o mh2 s' :
  xinv mh sts -> x_apply mh (xget sts i) o = (mh2, s') -> fits mh sts mh2 i (x_push s' (XPOp o)).
Proof.
  intros H E. assert (H' := H). destruct H' as (A & B & C). destruct o as [k v | k v |]; cbn [x_apply] in E.
  - destruct (x_pre (xget sts i)) as [l|] eqn:EP.
    + inversion E; subst; clear E. assert (L := A _ _ EP).
      split; [|split; [|split]]; cbn [x_pre x_push x_gp].
      * rewrite upd_nth_length. lia.
      * intros l' L' N. apply nth_upd_nth_neq. rewrite EP in N. congruence.
      * intros l0 E0. rewrite EP in E0. inversion E0; subst. split; [rewrite upd_nth_length; exact L|].
        intros j N Q. apply N. symmetry. eapply B; eauto.
      * rewrite xreplay_snoc, <- C. unfold xabs. cbn [x_push x_ctx x_skip x_pre x_set xp_pop o_ctx o_skip o_pre o_set].
        rewrite EP. cbn [mget]. rewrite nth_upd_nth_eq; auto.
    + inversion E; subst; clear E.
      split; [|split; [|split]]; cbn [x_pre x_push x_gp].
      * rewrite app_length. cbn. lia.
      * intros l' L' _. apply app_nth1, L'.
      * intros l0 E0. inversion E0; subst. split; [rewrite app_length; cbn; lia|]. intros j _ Q. apply A in Q. lia.
      * rewrite xreplay_snoc, <- C. unfold xabs. cbn [x_push x_ctx x_skip x_pre x_set xp_pop o_ctx o_skip o_pre o_set].
        rewrite EP. cbn [mget]. rewrite app_nth2, Nat.sub_diag; auto.
  - inversion E; subst; clear E. eapply fits_mod; [apply self_fits, H | | |]; reflexivity.
  - inversion E; subst; clear E. apply fits_push; [apply self_fits, H | reflexivity].
Qed.

Definition wr_opts (ctx : option Z) (skip : bool) (c : xstmt) : xstmt :=
  let c1 := match ctx with Some v => x_set_ctx c v | None => c end in
  if skip then x_set_skip c1 else c1.
Lemma fits_wr mh sts mh' k c ctx skip : fits mh sts mh' k c -> fits mh sts mh' k (wr_opts ctx skip c).
Proof.
  intro F. unfold wr_opts. destruct ctx as [v|]; destruct skip; auto using fits_ctx, fits_skip.
Qed.

Lemma session_xinv mh sts i nd ctx skip prep mh1 sts1 h :
  xinv mh sts -> x_session false guard mh sts i nd ctx skip prep = (mh1, sts1, h) -> xinv mh1 sts1.
Proof.
  intros H E. unfold x_session in E. fold (wr_opts ctx skip) in E.
  destruct (guard nd ctx skip prep) eqn:G.
  - destruct (x_clone false mh (xget sts i)) as [mh2 c] eqn:EC. inversion E; subst; clear E.
    eapply xinv_push; [eassumption|]. apply fits_wr. eapply clone_fits; eauto.
  - inversion E; subst; clear E.
    (* no statement of its own: sound guards then write nothing *)
    assert (Q : is_some ctx || skip = false).
    { destruct (is_some ctx || skip) eqn:W; auto. rewrite (Hg nd ctx skip prep W) in G. discriminate G. }
    apply Bool.orb_false_iff in Q. destruct Q as [Qc ->]. destruct ctx; [discriminate Qc|].
    rewrite Bool.orb_false_r.
    replace (mk_x (x_ctx (xget sts i)) (x_skip (xget sts i)) (x_pre (xget sts i)) (x_set (xget sts i)) (x_gp (xget sts i)))
      with (xget sts i) by (destruct (xget sts i); reflexivity).
    eapply xinv_upd; [eassumption|]. apply self_fits, H.
Qed.

Record xsinv (st : xstate) : Prop := {
  xi_h : xinv (xs_maps st) (xs_stmts st);
  xi_out : xisolated st
}.

Lemma xinv_step st x : xsinv st -> xsinv (do_xstep false guard st x).
Proof.
  intros [Hi Ho]. unfold do_xstep. cbv zeta. destruct x as [p o | p k | p | p].
  - destruct (x_get_instance false (xs_maps st) (xs_stmts st) (nth p (xs_handles st) (0, 1))) as [[mh1 sts1] i] eqn:EG.
    assert (H1 := get_instance_xinv _ _ _ _ _ _ Hi EG).
    destruct (x_apply mh1 (xget sts1 i) o) as [mh2 s'] eqn:EA.
    constructor; cbn [xs_maps xs_stmts xs_outs]; auto.
    apply (xinv_upd mh1); auto. eapply apply_fits; eauto.
  - destruct k as [nd ctx skip prep | |].
    + destruct (x_session false guard (xs_maps st) (xs_stmts st) (fst (nth p (xs_handles st) (0, 1))) nd ctx skip prep) as [[mh1 sts1] h] eqn:ES.
      constructor; cbn [xs_maps xs_stmts xs_outs]; auto. eapply session_xinv; eauto.
    + destruct (x_get_instance false (xs_maps st) (xs_stmts st) (nth p (xs_handles st) (0, 1))) as [[mh1 sts1] i] eqn:EG.
      assert (H1 := get_instance_xinv _ _ _ _ _ _ Hi EG).
      destruct (x_session false guard mh1 sts1 i false None false false) as [[mh2 sts2] h] eqn:ES.
      constructor; cbn [xs_maps xs_stmts xs_outs]; auto. eapply session_xinv; eauto.
    + destruct (x_get_instance false (xs_maps st) (xs_stmts st) (nth p (xs_handles st) (0, 1))) as [[mh1 sts1] i] eqn:EG.
      assert (H1 := get_instance_xinv _ _ _ _ _ _ Hi EG).
      match goal with |- context [x_session false guard mh1 sts1 i ?a ?b false false] =>
        destruct (x_session false guard mh1 sts1 i a b false false) as [[mh2 sts2] h] eqn:ES end.
      constructor; cbn [xs_maps xs_stmts xs_outs]; auto. eapply session_xinv; eauto.
  - destruct (x_get_instance false (xs_maps st) (xs_stmts st) (nth p (xs_handles st) (0, 1))) as [[mh1 sts1] i] eqn:EG.
    assert (H1 := get_instance_xinv _ _ _ _ _ _ Hi EG).
    assert (F : fits mh1 sts1 mh1 i (x_push (xget sts1 i) XPFin)) by (apply fits_push; [apply self_fits, H1 | reflexivity]).
    constructor; cbn [xs_maps xs_stmts xs_outs].
    + apply (xinv_upd mh1); auto.
    + intros chain o Hin. apply in_app_iff in Hin. destruct Hin as [Hin | [Q | []]]; [apply Ho, Hin|].
      inversion Q; subst; clear Q. apply F.
  - constructor; cbn [xs_maps xs_stmts xs_outs]; auto.
Qed.

Lemma xinv_state0 : xsinv xstate0.
Proof.
  constructor; cbn.
  - split; [|split].
    + intros i l E. destruct i as [|[|i]]; discriminate E.
    + intros i j l E. destruct i as [|[|i]]; discriminate E.
    + intro i. destruct i as [|[|i]]; reflexivity.
  - intros chain o [].
Qed.

Lemma xinv_run hist : xsinv (run_xhist false guard hist).
Proof.
  unfold run_xhist. assert (G : forall st, xsinv st -> xsinv (fold_left (do_xstep false guard) hist st)).
  { induction hist as [|x r IH]; intros st H; cbn; auto. apply IH, xinv_step, H. }
  apply G, xinv_state0.
Qed.

Theorem x_isolation_all hist : xisolated (run_xhist false guard hist).
Proof. apply (xi_out _ (xinv_run hist)). Qed.

Theorem x_state_isolation hist i :
  let st := run_xhist false guard hist in
  xabs (xs_maps st) (xget (xs_stmts st) i) = xreplay (x_gp (xget (xs_stmts st) i)).
Proof. intro st. destruct (xi_h _ (xinv_run hist)) as (_ & _ & C). apply C. Qed.

(* no two statements ever hold the same Preloads map object *)
Theorem x_maps_never_shared hist i j l :
  let st := run_xhist false guard hist in
  x_pre (xget (xs_stmts st) i) = Some l -> x_pre (xget (xs_stmts st) j) = Some l -> i = j.
Proof. intros st. destruct (xi_h _ (xinv_run hist)) as (_ & B & _). apply B. Qed.
End WithGuard.

Lemma tree_guard_sound : guard_sound tree_guard.
Proof.
  intros nd ctx skip prep H. unfold tree_guard. destruct (is_some ctx), skip, prep; cbn in *; auto.
Qed.

(* ---- the seeded changes of round 7 as variants of the model: the statement is false of them ---- *)
Definition xisolatedb (st : xstate) : bool :=
  forallb (fun x : list xpop * xobs =>
     let a := snd x in let b := xreplay (fst x) in
     (o_ctx a =? o_ctx b)%Z && Bool.eqb (o_skip a) (o_skip b)
     && list_eqb (fun u v : Z * Z => (fst u =? fst v)%Z && (snd u =? snd v)%Z) (o_pre a) (o_pre b)
     && list_eqb (fun u v : Z * Z => (fst u =? fst v)%Z && (snd u =? snd v)%Z) (o_set a) (o_set b)) (xs_outs st).
Lemma xisolatedb_false st : xisolatedb st = false -> ~ xisolated st.
Proof.
  intros E H. unfold xisolatedb in E. assert (F : forallb (fun _ : list xpop * xobs => true) (xs_outs st) = true)
    by (apply forallb_forall; auto).
  enough (G : xisolatedb st = true) by (unfold xisolatedb in G; congruence).
  unfold xisolatedb. apply forallb_forall. intros [chain o] Hin. cbn [fst snd]. rewrite <- (H _ _ Hin).
  assert (R : forall l : list (Z * Z), list_eqb (fun u v : Z * Z => (fst u =? fst v)%Z && (snd u =? snd v)%Z) l l = true).
  { induction l as [|[a b] r IH]; cbn; auto. rewrite !Z.eqb_refl, IH. reflexivity. }
  rewrite Z.eqb_refl, Bool.eqb_reflx, !R. reflexivity.
Qed.

(* change 20: a handle that carries a preload; a chain that is only BUILT adds another one; the next
   chain of the handle sees it *)
Definition wit_shared_map : list xstep :=
  [XDerive 0 (XPreload 1 0); XSess 1 (XSession false None false false); XDerive 2 (XPreload 2 0); XFinish 2].
Lemma shared_map_refuted : ~ xisolated (run_xhist true tree_guard wit_shared_map).
Proof. apply xisolatedb_false. vm_compute. reflexivity. Qed.
Lemma shared_map_witness_now : xisolated (run_xhist false tree_guard wit_shared_map) /\
  xs_outs (run_xhist false tree_guard wit_shared_map) <> [].
Proof. split; [apply x_isolation_all, tree_guard_sound | vm_compute; discriminate]. Qed.

(* change 19: Session{NewDB, Context} derived from a handle and never used; the handle's next chain
   runs under the child's context *)
Definition wit_weak_guard : list xstep :=
  [XSess 0 (XSession false None false false); XSess 1 (XSession true (Some 7%Z) true false); XFinish 1].
Lemma weak_guard_refuted : ~ xisolated (run_xhist false weak_guard wit_weak_guard).
Proof. apply xisolatedb_false. vm_compute. reflexivity. Qed.
Lemma weak_guard_unsound : ~ guard_sound weak_guard.
Proof. intro H. specialize (H true (Some 0%Z) false false eq_refl). discriminate H. Qed.

(* one history, both models *)
Lemma unified_isolation grow (hist : list ustep) :
  isolated (run_hist grow tree_md (map to_step hist)) /\ xisolated (run_xhist false tree_guard (map to_xstep hist)).
Proof.
  split.
  - apply (C06_Proofs8.isolation_all grow tree_md C06_Proofs9.tree_md_free).
  - apply x_isolation_all, tree_guard_sound.
Qed.
