(* C02_Check.v — correspondence checker for C02 (chained conditions). *)
From Verif Require Export Base Sem Where_Model C02_Args C09_Keys.
From Verif Require Import Where_Render Where_Spec.

Record case := mk_case {
  c_atoms : atom_table;
  c_chain : list call;
  c_rows : list (Z * valuation);     (* per row: id and the truth value SQLite gives every atom *)
  o_where : string;                  (* the WHERE text gorm built, arguments inlined ("" = none) *)
  o_find : list Z; o_count : Z; o_update : list Z; o_delete : list Z;
  o_same : list (list Z);            (* Pluck, Scan, Rows, FindInBatches, Updates(map), UpdateColumn *)
  o_one : list (list Z);             (* single-record reads: kind (0 First, 1 Last, 2 Take / Find into one
                                        record) followed by the id returned (nothing = record not found) *)
  o_errs : Z;
  c_args : list (list garg * list nat); (* every map / struct / key unit of the chain: the Go values that
                                        carried it (C02_Args) and the arities of the conditions its
                                        members stand for *)
  c_keyruns : list (bool * list mvalue) (* primary-key cases: the model values that carried the key unit to the
                                        update / delete finishers (C09_Keys: is it Delete, the values) *)
}.

Definition tok_eqb (a b : tok) : bool :=
  match a, b with
  | TAtom x, TAtom y => Nat.eqb x y
  | TAnd, TAnd | TOr, TOr | TNot, TNot | TL, TL | TR, TR => true
  | _, _ => false
  end.

Definition all_ids (c : case) : list Z := map fst (c_rows c).

(* the model: tokens gorm should have produced, and the rows they select under SQL precedence *)
Definition model_tokens (c : case) : option (list tok) :=
  match build_chain (c_atoms c) (c_chain c) with
  | Some [] => Some []
  | Some exprs => Some (where_tokens exprs)
  | None => None
  end.

Definition rows_of_tokens (c : case) (ts : list tok) : option (list Z) :=
  match ts with
  | [] => Some (all_ids c)
  | _ => match parse ts with
         | Some e => Some (rows_where (c_rows c) (fun v => evE v e))
         | None => None
         end
  end.

(* BuildCondition's value loop, run on the Go values of every unit: it must build exactly the
   conditions the unit's members stand for (no argument, entry, field or key lost or invented) *)
Definition args_agree (l : list (list garg * list nat)) : bool :=
  forallb (fun p => list_eqb Nat.eqb (bc_args (fst p)) (snd p)) l.

(* the key-condition code of the finisher (C09_Keys: Delete's IN clauses, the Eq-per-key-field and
   slice scan of the update methods, the column loop of an update value that is the model with the
   Select / Omit state of every column) must add the key unit for every model value used *)
Definition keys_agree (l : list (bool * list mvalue)) : bool :=
  forallb (fun kr => key_cond (fst kr) (snd kr)) l.

Definition model_agrees (c : case) : bool :=
  args_agree (c_args c) && keys_agree (c_keyruns c) &&
  match model_tokens c, lex (c_atoms c) (o_where c) with
  | Some mt, Some ot =>
    list_eqb tok_eqb mt ot
    && match rows_of_tokens c ot with
       | Some ids => zlist_eqb ids (o_find c)      (* SQLite evaluates the text as SEM does *)
       | None => false
       end
  | _, _ => false
  end.

(* the property: every finisher touches exactly the rows satisfying the logical combination *)
Definition spec_holds (c : case) : bool :=
  (o_errs c =? 0)%Z &&
  match spec_chain (c_atoms c) (c_chain c) with
  | Some s =>
    let ids := rows_where (c_rows c) (fun v => sev v s) in
    zlist_eqb (o_find c) ids
    && (o_count c =? Z.of_nat (List.length ids))%Z
    && zlist_eqb (o_update c) ids
    && zlist_eqb (o_delete c) ids
    && forallb (fun l => zlist_eqb l ids) (o_same c)
    && forallb (fun kr =>
         match kr with
         | 0%Z :: r => zlist_eqb r (firstn 1 ids)              (* First: the lowest selected row *)
         | 1%Z :: r => zlist_eqb r (firstn 1 (rev ids))        (* Last: the highest *)
         | 2%Z :: r =>                                         (* Take / Find into one record: some selected row *)
           match r with
           | [] => match ids with [] => true | _ => false end
           | [x] => existsb (Z.eqb x) ids
           | _ => false
           end
         | _ => false
         end) (o_one c)
  | None => false
  end.

(* the decidable hypotheses of theorem c02_where_semantics, evaluated on this case (the
   neg_pairs_ok hypothesis is what spec_holds would expose as a failure on SQLite's tables) *)
Definition theorem_applies (c : case) : bool :=
  calls_domx (c_atoms c) (c_chain c) &&
  match build_chain (c_atoms c) (c_chain c), spec_chain (c_atoms c) (c_chain c) with
  | Some (e :: r), Some _ => negb (is_single_or e) && ok_where (e :: r)
  | _, _ => false
  end.

(* when the theorem applies, the model's tokens must parse to the theorem's tree: a run-time
   cross-check that the executable definitions the theorem is about are the ones evaluated *)
Definition theorem_consistent (c : case) : bool :=
  negb (theorem_applies c) ||
  match build_chain (c_atoms c) (c_chain c) with
  | Some exprs => match parse (where_tokens exprs) with Some _ => true | None => false end
  | None => false
  end.

Definition check_case (c : case) : N := code_of (model_agrees c && theorem_consistent c) (spec_holds c).
