(* C07_WritesProofs.v — statement-level half of C07: what goroutines that derive chains from one
   reusable parent handle write into the memory they share (the backing arrays that existed when
   they started).  Built on the HEAP model and the specifications of C06. *)
From Verif Require Import Base C06_Model C06_Proofs C06_Proofs2 C06_Proofs3 C06_Proofs4 C06_Proofs5
  C06_Proofs6 C06_Proofs7 C06_Proofs8 C06_Proofs9.
From Verif Require Import C07_Writes C07_WritesLemmas.
Open Scope nat_scope.

Definition freshn (n : nat) (x : slice) : Prop := match x with SArr l _ _ => n <= l | SNil => False end.

Section G.
Variable grow : field -> nat -> nat -> nat.
Variable md : field -> bool.
Hypothesis Hmd : forall f, md f = false.

(* the private instance of a goroutine: every slice is nil, allocated after the start, or (for the
   slices Statement.clone shares) still the parent's *)
Definition chainlike (h : heap) (par s : mstmt) : Prop :=
  forall f, sl s f = SNil \/ freshn (length h) (sl s f) \/ (excl f = false /\ sl s f = sl par f).

Record R (h : heap) (par : mstmt) (hk : heap) (sk : mstmt) : Prop := {
  r_wf : swf hk sk;
  r_len : length h <= length hk;
  r_cl : chainlike h par sk;
  r_ext : forall f x, wf_slice h f x -> wf_slice hk f x;
  r_old : forall f x, wf_slice h f x -> rd hk x = rd h x
}.

Lemma copy_if_nonempty_w f x h v h1 w : copy_if_nonempty f x h = (v, h1, w) -> w = [].
Proof.
  unfold copy_if_nonempty. destruct (slen x).
  - intro E. apply ret_inv in E. tauto.
  - rewrite h_copy_eq. intro E. inversion E. reflexivity.
Qed.
Lemma stmt_clone_w s h c h1 w : stmt_clone s h = (c, h1, w) -> w = [].
Proof.
  unfold stmt_clone. intro E. binv E as E0 E1. binv E1 as E2 E3. rinv E3.
  rewrite (copy_if_nonempty_w _ _ _ _ _ _ E0), (copy_if_nonempty_w _ _ _ _ _ _ E2). reflexivity.
Qed.

Lemma R_clone h par c h1 w : swf h par -> stmt_clone par h = (c, h1, w) -> w = [] /\ R h par h1 c.
Proof.
  intros W E. split; [eapply stmt_clone_w; eauto|].
  destruct (stmt_clone_spec _ _ _ _ _ W E) as (X & Wc & _ & Sn & Sx & _). constructor; auto.
  - apply X.
  - intro f. destruct (excl f) eqn:Ex.
    + destruct (Sx f Ex) as [Q | F]; [left; exact Q | right; left; exact F].
    + right; right. auto.
  - intros f x Wx. eapply wf_slice_ext; eauto.
  - intros f x Wx. destruct x as [|l n c0]; auto. eapply rd_frame; eauto.
Qed.

Lemma R_new h par : R h par h new_stmt.
Proof. constructor; auto. - intro f; exact I. - intro f; left; reflexivity. Qed.

Lemma R_step h par hk sk o s' h' w :
  R h par hk sk -> chain_op grow md sk o hk = (s', h', w) ->
  R h par h' s' /\ (forall l i, In (l, i) w -> length h <= l).
Proof.
  intros [Wk Lk Ck Xk Ok] E. unfold chain_op in E. binv E as E0 E1. rinv E1. rewrite app_nil_r.
  rename h0 into h'.
  assert (O := apply_op_spec grow md Hmd _ _ _ _ _ _ Wk E0).
  destruct (apply_op_conf grow md Hmd hk sk o hk a h' w0 (le_n _) E0) as (Cw & Lh & _).
  assert (X := os_ext _ _ _ _ _ _ O).
  assert (Hw : forall l i, In (l, i) w0 -> length h <= l).
  { intros l i Hin. destruct (Cw _ _ Hin) as [L | (f & n & c & Ex & Es & _)]; [lia|].
    destruct (Ck f) as [Q | [F | (Q & _)]]; [congruence | rewrite Es in F; exact F | congruence]. }
  split; auto. constructor.
  - intro f. apply (os_wf _ _ _ _ _ _ O f).
  - lia.
  - intro f. cbn [sl push_gp].
    destruct (os_ev _ _ _ _ _ _ O f) as [Q | [Q | [F | (Ex & l & n & n' & c & Ea & Eb & Hn)]]].
    + rewrite Q. apply Ck.
    + auto.
    + right; left. destruct (sl a f); auto. cbn in *. lia.
    + right; left. rewrite Eb. destruct (Ck f) as [Q | [F | (Q & _)]]; [congruence | rewrite Ea in F; exact F | congruence].
  - intros f x Wx. eapply wf_slice_ext; eauto.
  - intros f x Wx. rewrite <- (Ok f x Wx). destruct x as [|l n c]; auto.
    eapply rd_frame; [exact X | apply (Xk f _ Wx) |].
    intros i Hi Hin. apply Hw in Hin. apply wf_slice_lt in Wx. lia.
Qed.

Lemma R_ops h par ops : forall hk sk s' h' w,
  R h par hk sk -> chain_ops grow md sk ops hk = (s', h', w) ->
  R h par h' s' /\ (forall l i, In (l, i) w -> length h <= l).
Proof.
  induction ops as [|o r IH]; intros hk sk s' h' w Rk E; cbn [chain_ops] in E.
  - rinv E. split; auto. intros l i [].
  - binv E as E0 E1. destruct (R_step _ _ _ _ _ _ _ _ Rk E0) as (R1 & W1).
    destruct (IH _ _ _ _ _ R1 E1) as (R2 & W2). split; auto.
    intros l i Hin. apply in_app_iff in Hin. destruct Hin; eauto.
Qed.

(* chain methods never write a shared cell *)
Lemma chain_methods_write_private h par ops c h1 w0 s' h' w :
  swf h par -> stmt_clone par h = (c, h1, w0) -> chain_ops grow md c ops h1 = (s', h', w) ->
  forall l i, In (l, i) (w0 ++ w) -> length h <= l.
Proof.
  intros W E0 E1 l i Hin. destruct (R_clone _ _ _ _ _ W E0) as (-> & Rc). cbn [app] in Hin.
  destruct (R_ops _ _ _ _ _ _ _ _ Rc E1) as (_ & Hw). eauto.
Qed.

(* a shared write of a goroutine is a spare FROM-joins cell of the parent *)
Lemma shared_writes_classified h par newdb pr l i :
  swf h par -> In (l, i) (shared_writes grow md h par newdb pr) -> fromj_spare_cell par l i.
Proof.
  intros W Hin. unfold shared_writes, writes_of in Hin. apply filter_In in Hin. destruct Hin as (Hin & Hl).
  cbn [fst] in Hl. apply Nat.ltb_lt in Hl.
  destruct (goroutine grow md par newdb pr h) as [[r h'] w] eqn:E. cbn [snd] in Hin.
  unfold goroutine in E. binv E as E0 E1. binv E1 as E2 E3.
  assert (Rc : w0 = [] /\ R h par h0 a).
  { destruct newdb; [rinv E0; split; auto; apply R_new | eapply R_clone; eauto]. }
  destruct Rc as (-> & Rc). cbn [app] in Hin.
  destruct (R_ops _ _ _ _ _ _ _ _ Rc E2) as ([Wk Lk Ck Xk Ok] & Hw).
  apply in_app_iff in Hin. destruct Hin as [Hin | Hin]; [apply Hw in Hin; lia|].
  assert (F := finish_writes grow md Hmd _ _ _ _ _ _ Wk E3 _ _ Hin).
  destruct F as [L | (n & c & Ef & Hi)]; [lia|].
  destruct (Ck FFromj) as [Q | [Fr | (_ & Q)]]; [congruence | rewrite Ef in Fr; cbn in Fr; lia |].
  exists n, c. rewrite <- Q. split; auto. lia.
Qed.

Lemma no_shared_writes h par newdb pr :
  swf h par -> fromj_full par -> shared_writes grow md h par newdb pr = [].
Proof.
  intros W Qf. destruct (shared_writes grow md h par newdb pr) as [|[l i] r] eqn:E; auto.
  exfalso. assert (Hin : In (l, i) (shared_writes grow md h par newdb pr)) by (rewrite E; left; auto).
  destruct (shared_writes_classified _ _ _ _ _ _ W Hin) as (n & c & Ef & Hi & Hc).
  unfold fromj_full in Qf. rewrite Ef in Qf. cbn in Qf. lia.
Qed.
End G.

(* ================= the theorems (import these) ================= *)

(* every handle of every history has a well-formed statement: the hypotheses below are met by all
   reachable parents (for any growth policy, with the MergeClause classification of the tree) *)
Theorem c07_reachable_parent_wf : forall grow hist p,
  let st := run_hist grow tree_md hist in swf (st_heap st) (parent_stmt st p).
Proof.
  intros grow hist p st. destruct (inv_run grow tree_md tree_md_free hist) as [(Hw & _ & _) Hh _].
  apply Hw, Hh.
Qed.

(* chain methods (on the private instance getInstance made) never write a shared cell *)
Theorem c07_chain_methods_write_private : forall grow md, inplace_free md ->
  forall h par ops c h1 w0 s' h' w,
  swf h par -> stmt_clone par h = (c, h1, w0) -> chain_ops grow md c ops h1 = (s', h', w) ->
  forall l i, In (l, i) (w0 ++ w) -> length h <= l.
Proof. intros grow md H. exact (chain_methods_write_private grow md H). Qed.

(* whatever the parent: a goroutine's shared writes are spare cells of the parent's FROM-joins array
   (a caller's clause.From{Joins} with cap > len; BuildQuerySQL appends the statement joins onto it) *)
Theorem c07_shared_writes_classified : forall grow md, inplace_free md ->
  forall h par newdb pr l i,
  swf h par -> In (l, i) (shared_writes grow md h par newdb pr) -> fromj_spare_cell par l i.
Proof. intros grow md H. exact (shared_writes_classified grow md H). Qed.

Theorem c07_no_shared_writes : forall grow md, inplace_free md ->
  forall h par newdb pr, swf h par -> fromj_full par -> shared_writes grow md h par newdb pr = [].
Proof. intros grow md H. exact (no_shared_writes grow md H). Qed.

(* two goroutines on one reusable parent whose FROM joins have no spare capacity (in particular:
   every parent without a caller-made clause.From): neither writes a cell the other can read or write *)
Theorem c07_disjoint_writes : forall grow md, inplace_free md ->
  forall h par nd1 pr1 nd2 pr2 l i,
  swf h par -> fromj_full par ->
  In (l, i) (shared_writes grow md h par nd1 pr1) ->
  ~ reads par l i /\ ~ In (l, i) (shared_writes grow md h par nd2 pr2).
Proof.
  intros grow md H h par nd1 pr1 nd2 pr2 l i W Q Hin.
  rewrite (no_shared_writes grow md H h par nd1 pr1 W Q) in Hin. destruct Hin.
Qed.

Lemma fromj_full_nil par : sl par FFromj = SNil -> fromj_full par.
Proof. intro E. unfold fromj_full. rewrite E. reflexivity. Qed.

(* ---- reachable states (Go's growth policy) ---- *)
Definition wit_swap_hist : list step := [Derive 0 (OOr (-10)%Z); Derive 1 (OWhere [11%Z] 1); Sess 2 SPlain].
Definition wit_fromj_hist : list step := [Derive 0 (OFrom [20%Z] 4); Sess 1 SPlain].

(* the former witness of a shared write by Where.Build (a handle whose WHERE starts with a single Or;
   refuted the disjointness before /repo 12bf8b8): the swap now happens on a private copy *)
Theorem c07_swap_private_now :
  let st := run_hist go_grow tree_md wit_swap_hist in
  let par := parent_stmt st 3 in
  shared_writes go_grow tree_md (st_heap st) par false ([], FFind) = []
  /\ shared_writes go_grow tree_md (st_heap st) par false ([OWhere [12%Z] 1], FTake) = []
  /\ fst (snd (fst (fst (goroutine go_grow tree_md par false ([], FFind) (st_heap st))))) =
     [900001; 900003; 900004; 900005; 11; -10]%Z.
Proof. intros st par. vm_compute. repeat split; reflexivity. Qed.

(* fromClause.Joins: two Finds with a Joins call each, derived from a handle that carries a caller's
   clause.From{Joins} with spare capacity, write the same cell of the caller's array *)
Theorem c07_fromjoins_refuted :
  let st := run_hist go_grow tree_md wit_fromj_hist in
  let par := parent_stmt st 2 in
  exists l i, In (l, i) (shared_writes go_grow tree_md (st_heap st) par false ([OJoins 30%Z], FFind))
              /\ In (l, i) (shared_writes go_grow tree_md (st_heap st) par false ([OJoins 31%Z], FFind)).
Proof.
  intros st par. exists 0, 1.
  assert (E1 : shared_writes go_grow tree_md (st_heap st) par false ([OJoins 30%Z], FFind) = [(0, 1)]) by (vm_compute; reflexivity).
  assert (E2 : shared_writes go_grow tree_md (st_heap st) par false ([OJoins 31%Z], FFind) = [(0, 1)]) by (vm_compute; reflexivity).
  rewrite E1, E2. split; left; reflexivity.
Qed.

(* non-vacuity of c07_disjoint_writes: a reachable, state-carrying parent (leading Or in its WHERE,
   joins, a caller's clause.From without spare capacity) that satisfies the hypothesis *)
Example c07_full_parent_exists :
  let st := run_hist go_grow tree_md [Derive 0 (OOr (-10)%Z); Derive 1 (OWhere [11%Z] 1); Derive 2 (OJoins 12%Z);
                                      Derive 3 (OFrom [13%Z] 1); Sess 4 SPlain] in
  fromj_full (parent_stmt st 5) /\ sl (parent_stmt st 5) FWhere <> SNil /\ sl (parent_stmt st 5) FFromj <> SNil.
Proof. intro st. split; [vm_compute; reflexivity | split; vm_compute; discriminate]. Qed.

Print Assumptions c07_disjoint_writes.
Print Assumptions c07_shared_writes_classified.
Print Assumptions c07_swap_private_now.
Print Assumptions c07_fromjoins_refuted.
