(* C07_Proofs6.v — the getOrParse hazard: reachable in general (witness schedules), excluded for
   a single goroutine, for unrelated model types, and on a warm cache. *)
From Verif Require Import Base C07_Model C07_Proofs C07_Proofs2 C07_Proofs3 C07_Proofs4 C07_Proofs5.

Ltac gen st :=
  repeat match goal with
    | |- context [match st_cache st ?t with _ => _ end] => destruct (st_cache st t)
    | |- context [match nth_error ?l ?i with _ => _ end] => destruct (nth_error l i)
    | |- context [if s_closed ?r then _ else _] => destruct (s_closed r) eqn:?
    | |- context [match ?o with Some _ => _ | None => _ end] => destruct o
    end; try discriminate;
  let H := fresh "H" in
  intro H; inversion H; subst; cbn; repeat split; auto;
  try (right; eexists; split; [reflexivity|]; discriminate).

Section Hz.
Variable cfg : config.
Notation inv := (inv cfg).

(* what one step appends to the trace; a hazardous event can only come from a PGuess step *)
Lemma step_trace st g st' :
  step cfg st g = Some st' ->
  st_nthr st' = st_nthr st /\ g < st_nthr st /\
  (st_trace st' = st_trace st \/
   exists e, st_trace st' = e :: st_trace st /\
     (hazard_ev e = true ->
      exists f below s i fs ok, t_stack (st_thr st g) = f :: below /\ f_pc f = PGuess s i fs ok /\
        s_closed (st_sch st fs) = false /\ s_owner (st_sch st fs) <> g)).
Proof.
  unfold step. destruct (Nat.ltb_spec g (st_nthr st)) as [Hg|]; [|discriminate]. cbn [negb].
  destruct (t_stack (st_thr st g)) as [|f below] eqn:Hs.
  { destruct (t_todo (st_thr st g)); [discriminate|]. intro H; inversion H; subst; cbn.
    repeat split; auto. right. eexists. split; [reflexivity|]. discriminate. }
  destruct (f_pc f) eqn:Epc; [gen st|gen st|gen st|gen st|gen st|gen st| |gen st|gen st|gen st| ].
  - (* PGuess *)
    destruct ok; intro H; inversion H; subst; cbn; repeat split; auto;
      right; eexists; (split; [reflexivity|]); cbn; intro Hz;
      apply andb_prop in Hz; destruct Hz as [Hc Hm];
      apply negb_true_iff in Hc; apply negb_true_iff in Hm; apply Nat.eqb_neq in Hm;
      exists f, below, s, i, fs; eexists; repeat split; eauto.
  - (* PRet *)
    intro H; inversion H; subst; clear H. unfold deliver. rewrite Hs. destruct below as [|p rest].
    + cbn. repeat split; auto. right. eexists. split; [reflexivity|]. discriminate.
    + destruct (f_pc p); cbn; try (repeat split; auto; fail).
      destruct (s_err (st_sch st r)); cbn; repeat split; auto.
Qed.

Lemma hazard_step st g st' (Q : Prop) :
  inv st -> step cfg st g = Some st' -> hazard st = false ->
  (forall f below s i fs ok, t_stack (st_thr st g) = f :: below -> f_pc f = PGuess s i fs ok ->
     s_closed (st_sch st fs) = false -> s_owner (st_sch st fs) <> g -> False) ->
  hazard st' = false.
Proof.
  intros I Hst Hz Hno. destruct (step_trace _ _ _ Hst) as (_ & _ & [E|(e & E & He)]);
    unfold hazard in *; rewrite E; [exact Hz|]. cbn. rewrite Hz, orb_false_r.
  destruct (hazard_ev e) eqn:Ee; [|reflexivity]. exfalso.
  destruct (He eq_refl) as (f & below & s & i & fs & ok & A & B & C & D). eauto.
Qed.

(* (a) one goroutine: whatever it finds unfinished in the cache is its own *)
Lemma hazard_single sched : forall st st',
  inv st -> st_nthr st <= 1 -> hazard st = false -> run cfg st sched = Some st' -> hazard st' = false.
Proof.
  induction sched as [|g r IH]; cbn; intros st st' I Hn Hz H; [inversion H; subst; exact Hz|].
  destruct (step cfg st g) as [st1|] eqn:E; [|discriminate].
  destruct (step_trace _ _ _ E) as (En & Hg & _).
  apply (IH st1 st'); [eapply step_inv; eauto|lia| |exact H].
  apply (hazard_step _ _ _ True I E Hz). intros f below s i fs ok Hs Epc Hc Ho.
  destruct (top_frame cfg _ _ _ _ I Hs) as ((_ & _ & _ & F) & _ & _). rewrite Epc in F.
  destruct F as (_ & _ & Hfs). destruct (i_L _ _ I fs Hfs Hc) as [Ow _]. lia.
Qed.

(* (b) model types without relations: the relation loop is never entered *)
Lemma hazard_unrelated sched : forall st st',
  inv st -> (forall t, rels cfg t = []) -> hazard st = false ->
  run cfg st sched = Some st' -> hazard st' = false.
Proof.
  induction sched as [|g r IH]; cbn; intros st st' I Hn Hz H; [inversion H; subst; exact Hz|].
  destruct (step cfg st g) as [st1|] eqn:E; [|discriminate].
  apply (IH st1 st'); [eapply step_inv; eauto|exact Hn| |exact H].
  apply (hazard_step _ _ _ True I E Hz). intros f below s i fs ok Hs Epc Hc Ho.
  destruct (top_frame cfg _ _ _ _ I Hs) as ((_ & _ & _ & F) & _ & _). rewrite Epc in F.
  destruct F as (_ & Hi & _). rewrite Hn in Hi. cbn in Hi. lia.
Qed.
End Hz.

(* the witnesses: A has-many B, B belongs-to A; goroutine 0 parses A, goroutine 1 parses B *)
Definition cfg_ab : config := [[mk_rel 1 true]; [mk_rel 0 true]].
Definition sched_hazard : list tid := [0;0;0;0;0; 1;1;1;1;1; 1;1].
Definition sched_shallow : list tid := [1;1;1;1;1; 0;0;0;0;0; 0;0;0;0;0].

Lemma hazard_reachable :
  exists st, run cfg_ab (initial [[0];[1]]) sched_hazard = Some st /\ hazard st = true.
Proof. eexists. split; [vm_compute; reflexivity|vm_compute; reflexivity]. Qed.

(* Parse(A) has returned (A closed, complete) while the schema of its relation B is still open *)
Lemma shallow_return_reachable :
  exists st rr, run cfg_ab (initial [[0];[1]]) sched_shallow = Some st /\
    In rr (t_rets (st_thr st 0)) /\ rt_closed rr = true /\ rt_err rr = false /\
    rt_relclosed rr = false.
Proof.
  eexists. eexists. split; [vm_compute; reflexivity|]. cbn. split; [left; reflexivity|].
  cbn. auto.
Qed.
