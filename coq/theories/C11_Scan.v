(* C11_Scan.v — eager loading, the RECORDS handed out: which columns the query selects and how the
   scanner turns a result row into the attached record.  Modelled code (no proofs here):
     callbacks/query.go BuildQuerySQL   the SELECT list: `*`, or the model's own table-qualified
                                        columns when the session asks for QueryFields or the statement
                                        is joined (Statement.Joins / joins inside the FROM clause);
                                        the aliased columns `Rel__col` of a joined relation
                                        (genJoinClause, utils.NestedRelationName)          -> names_model, select_row, joined_part
     association.go buildCondition      many2many: Session{QueryFields: true} + FROM ... JOIN join_table
                                                                                          -> find_m2m_recs
     scan.go Scan                       result column -> field: Schema.LookUpField(name), a later column
                                        of the same name is assigned over an earlier one; `Rel__col` ->
                                        SplitNestedRelationName -> the relation's FieldSchema.LookUpField
                                                                                          -> set_col, scan_plain, strip_prefix
     scan.go scanIntoStruct             joined relation held by pointer: allocated at the first aliased
                                        column whose value is not NULL (joinedNestedSchemaMap), columns
                                        seen before that are skipped (isNilPtrValue)        -> scan_joined
   A record in memory is the list of values its fields hold, in the order of the model's columns;
   VNull = never assigned (the zero value of the field) or assigned NULL. *)
From Verif Require Import Base C11_Model.
Open Scope Z_scope.

Definition col := string.
Definition rrow := list (col * sqlval).   (* one result row: column names as the driver reports them, values *)
Definition stored := list (Z * list sqlval).  (* uid |-> the stored row of the related table, model column order *)

Fixpoint lookup_row (u : Z) (rs : stored) : option (list sqlval) :=
  match rs with [] => None | (k, v) :: r => if k =? u then Some v else lookup_row u r end.

(* ---- the SELECT list ---- *)
(* clauseSelect.Columns = the model's own qualified DBNames *)
Definition names_model (query_fields stmt_joins from_joins : bool) : bool :=
  query_fields || stmt_joins || from_joins.
(* the result row for a row [mvals] of the model's table joined with [extra] (the columns of the other
   tables of the FROM clause): named columns, or `*` = every column of every table in FROM order *)
Definition select_row (named : bool) (mcols : list col) (mvals : list sqlval) (extra : rrow) : rrow :=
  if named then combine mcols mvals else combine mcols mvals ++ extra.

(* ---- Scan: a result row into a struct of the model ---- *)
(* field.Set on the field LookUpField finds for the column name *)
Fixpoint set_col (cols : list col) (vals : list sqlval) (c : col) (v : sqlval) : list sqlval :=
  match cols, vals with
  | k :: cols', x :: vals' => if String.eqb k c then v :: vals' else x :: set_col cols' vals' c v
  | _, _ => vals
  end.
Definition unset (mcols : list col) : list sqlval := repeat VNull (length mcols).
(* columns that are no field of the model are scanned into a throw-away value *)
Definition scan_plain (mcols : list col) (r : rrow) : list sqlval :=
  fold_left (fun acc cv => set_col mcols acc (fst cv) (snd cv)) r (unset mcols).

(* ---- association Joins: aliased columns and the joined relation's struct ---- *)
Definition alias_col (a c : col) : col := (a ++ "__" ++ c)%string.
(* the part of a LEFT JOIN result row that belongs to relation alias [a]: the joined row's values, or
   NULL in every column when no row satisfies the ON clause *)
Definition joined_part (a : col) (mcols : list col) (mv : option (list sqlval)) : rrow :=
  combine (map (alias_col a) mcols) (match mv with Some vs => vs | None => unset mcols end).
Fixpoint strip_prefix (p s : string) : option string :=
  match p with
  | EmptyString => Some s
  | String a p' => match s with
                   | String b s' => if Ascii.eqb a b then strip_prefix p' s' else None
                   | EmptyString => None
                   end
  end.
Definition strip_alias (a name : col) : option col := strip_prefix (a ++ "__") name.
Definition is_col (c : col) (mcols : list col) : bool := existsb (String.eqb c) mcols.
Definition is_null (v : sqlval) : bool := match v with VNull => true | _ => false end.
(* scanIntoStruct over the columns of one row; [st] = the relation's struct once allocated *)
Fixpoint scan_joined_loop (a : col) (mcols : list col) (r : rrow) (st : option (list sqlval))
  : option (list sqlval) :=
  match r with
  | [] => st
  | (name, v) :: r' =>
    match strip_alias a name with
    | None => scan_joined_loop a mcols r' st            (* the parent's own / another relation's column *)
    | Some c =>
      if is_col c mcols then
        match st with
        | None => if is_null v then scan_joined_loop a mcols r' None      (* isNilPtrValue: skipped *)
                  else scan_joined_loop a mcols r' (Some (set_col mcols (unset mcols) c v))
        | Some acc => scan_joined_loop a mcols r' (Some (set_col mcols acc c v))
        end
      else scan_joined_loop a mcols r' st
    end
  end.
Definition scan_joined (a : col) (mcols : list col) (r : rrow) : option (list sqlval) :=
  scan_joined_loop a mcols r None.

(* ---- the records each mode hands out ---- *)
(* Preload / has-kind Association().Find: `SELECT * FROM related WHERE ...` (one table) *)
Definition plain_recs (mcols : list col) (rows : stored) (uids : list Z) : stored :=
  flat_map (fun u => match lookup_row u rows with
                     | Some mv => [(u, scan_plain mcols (select_row (names_model false false false) mcols mv []))]
                     | None => []
                     end) uids.
(* association Joins: the aliased part of the parent's row *)
Definition joins_recs (a : col) (mcols : list col) (rows : stored) (uids : list Z) : stored :=
  flat_map (fun u => match lookup_row u rows with
                     | Some mv => match scan_joined a mcols (joined_part a mcols (Some mv)) with
                                  | Some r => [(u, r)]
                                  | None => []
                                  end
                     | None => []
                     end) uids.
(* many2many Association().Find: related JOIN join_table ON ..., one result row per (related row, join
   row) pair that satisfies the ON clause; [named] = names_model true false true on the tree *)
Section WithKey.
Variable tsk : key -> string.
Definition find_m2m_recs (named : bool) (h : hop) (ps : list key) (js : list jrow)
           (jcols : list col) (jrows : list (list sqlval))
           (cs : list child) (mcols : list col) (rows : stored) : stored :=
  let vals := snd (identity_map tsk ps) in
  flat_map (fun c =>
    if child_ok h c then
      flat_map (fun jj =>
        if in_list vals (fst (fst jj)) && key_eqv (snd (fst jj)) (c_key c) then
          match lookup_row (c_uid c) rows with
          | Some mv => [(c_uid c, scan_plain mcols (select_row named mcols mv (combine jcols (snd jj))))]
          | None => []
          end
        else []) (combine js jrows)
    else []) cs.
(* reference: the stored rows themselves, once per pair *)
Definition find_m2m_rows (h : hop) (ps : list key) (js : list jrow) (jrows : list (list sqlval))
           (cs : list child) (rows : stored) : stored :=
  let vals := snd (identity_map tsk ps) in
  flat_map (fun c =>
    if child_ok h c then
      flat_map (fun jj =>
        if in_list vals (fst (fst jj)) && key_eqv (snd (fst jj)) (c_key c) then
          match lookup_row (c_uid c) rows with Some mv => [(c_uid c, mv)] | None => [] end
        else []) (combine js jrows)
    else []) cs.
End WithKey.
(* reference for the one-table queries and for Joins: the stored rows of the attached uids *)
Definition rows_of (rows : stored) (uids : list Z) : stored :=
  flat_map (fun u => match lookup_row u rows with Some mv => [(u, mv)] | None => [] end) uids.

(* well-formed stored rows: one value per column *)
Definition rows_wf (mcols : list col) (rows : stored) : Prop :=
  forall u mv, lookup_row u rows = Some mv -> length mv = length mcols.
