(* C13_Vals5.v — values set by before-hooks, part 5: the association records (belongs-to / has-many values
   saved by the nested creates of SaveBefore/AfterAssociations). *)
From Verif Require Import Base C13_Model C13_Check C13_Proofs C13_Proofs2 C13_Proofs3 C13_Proofs4 C13_Proofs6 C13_Vals C13_Vals2 C13_Vals3.
Open Scope Z_scope.

(* the Create statement of an association save (ON CONFLICT DO NOTHING: [c_keep]) stores the current values of
   the records that have no row yet *)
Definition create_step (c : cx) (tb : list row) (r : mrec) : list row :=
  if c_keep c && has_row (c_table c) (m_tag r) tb then tb else upsert (c_table c) (m_tag r) (m_val r) tb.

Lemma has_row_upsert_other : forall t g g' v tb, g <> g' -> has_row t g (upsert t g' v tb) = has_row t g tb.
Proof.
  intros t g g' v tb NE. unfold has_row, upsert. rewrite existsb_app. cbn [existsb]. unfold row_is at 2. cbn [fst snd].
  destruct (Z.eqb_spec g' g); [congruence|]. rewrite andb_false_r, orb_false_r.
  unfold del_row. induction tb as [|x l IH]; [reflexivity|]. cbn [filter existsb].
  destruct (row_is t g' x) eqn:R'; cbn [negb].
  - rewrite IH. unfold row_is in *. apply andb_prop in R'. destruct R' as [R1 R2]. rewrite R1. cbn [andb].
    apply Z.eqb_eq in R2. rewrite R2. destruct (Z.eqb_spec g' g); [congruence | reflexivity].
  - cbn [existsb]. rewrite IH. reflexivity.
Qed.

Lemma fold_create_in_keeps : forall c recs tb g v, ~ In g (map m_tag recs) -> In (c_table c, g, v) tb ->
  In (c_table c, g, v) (fold_left (create_step c) recs tb).
Proof.
  intros c recs. induction recs as [|x l IH]; intros tb g v NI H; [exact H|].
  cbn [fold_left]. apply IH; [intro X; apply NI; right; exact X|].
  unfold create_step. destruct (c_keep c && has_row (c_table c) (m_tag x) tb); [exact H|].
  apply upsert_keeps; [|exact H]. intro E. apply NI. left. congruence.
Qed.

Lemma fold_create_fresh : forall c recs tb r,
  NoDup (map m_tag recs) -> In r recs ->
  (forall x, In x recs -> has_row (c_table c) (m_tag x) tb = false) ->
  In (c_table c, m_tag r, m_val r) (fold_left (create_step c) recs tb).
Proof.
  intros c recs. induction recs as [|x l IH]; intros tb r ND H FR; [contradiction|].
  cbn [fold_left]. cbn [map] in ND. inversion ND as [|? ? NI ND']; subst.
  assert (FX : create_step c tb x = upsert (c_table c) (m_tag x) (m_val x) tb).
  { unfold create_step. rewrite (FR x (or_introl eq_refl)), andb_false_r. reflexivity. }
  rewrite FX. destruct H as [->|H].
  - apply fold_create_in_keeps; [exact NI | apply upsert_in].
  - apply IH; [exact ND' | exact H|]. intros y Hy. rewrite has_row_upsert_other; [apply FR; right; exact Hy|].
    intro E. apply NI. rewrite <- E. apply in_map. exact Hy.
Qed.

Lemma stmt_create_stores_fresh : forall c s r,
  s_err s = [] -> existsb m_nil (s_recs s) = false -> NoDup (map m_tag (s_recs s)) -> In r (s_recs s) ->
  (forall x, In x (s_recs s) -> has_row (c_table c) (m_tag x) (s_tbl s) = false) ->
  In (c_table c, m_tag r, m_val r) (s_tbl (stmt_create c s)).
Proof.
  intros c s r E NN ND H FR. unfold stmt_create. rewrite E. cbn [is_nil negb].
  destruct (s_recs s) as [|x l] eqn:R; [contradiction|]. rewrite NN.
  cbn [s_tbl set_tbl emit set_tr]. apply (fold_create_fresh c (x :: l) (s_tbl s) r); assumption.
Qed.

(* a log that never mentions a tag asks nothing for it *)
Lemma last_set_fresh : forall o t g hs, (forall e, In e hs -> snd e <> g) -> last_set o (ev_of t g) hs = None.
Proof.
  intros o t g hs F. change hs with ([] ++ hs). rewrite last_set_app_irrelevant; [reflexivity|].
  intros e He. rewrite ev_of_tag_false; [reflexivity | apply F; exact He].
Qed.

Definition log_avoids (s : S) (vals : list mrec) : Prop :=
  forall e r, In e (hooks_of (s_tr s)) -> In r vals -> snd e <> m_tag r.

(* one association save: every value's row holds what its own before-hooks asked for *)
Lemma save_assoc_vals : forall o c t tb sg vals s,
  c_sets c = o_sets o -> x_setall (c_x c) = false ->
  assoc_vals_ok sg vals ->
  (sg = true -> uniform_phase (mk_shape CStruct true true) t (fc_hooks PBeforeCreate)
                /\ uniform_phase (mk_shape CStruct true true) t (fc_hooks PAfterCreate)) ->
  NoDup (map m_tag vals) -> log_avoids s vals -> s_k s = len (hooks_of (s_tr s)) ->
  (forall x, In x vals -> has_row tb (m_tag x) (s_tbl s) = false) ->
  let sf := save_assoc c t tb sg vals s in
  is_nil (s_err sf) = true ->
  forall r0, In r0 vals -> In (tb, m_tag r0, want o t (hooks_of (s_tr sf)) r0) (s_tbl sf).
Proof.
  intros o c t tb sg vals s SE XA OK U ND LA K FR sf HF r0 IN0. subst sf. unfold save_assoc in *.
  destruct vals as [|v0 vr]; [contradiction|]. cbv iota in *. remember (v0 :: vr) as vals eqn:V.
  set (cc := assoc_cx c t tb sg) in *.
  set (s0 := mkS (s_k s) (s_err s) (s_tr s) vals [] 0 (s_pool s) (s_ntx s) false (s_tbl s) (s_snap s)) in *.
  assert (NE : vals <> []) by (subst vals; discriminate).
  assert (G0 : goodk (c_shape cc) (keys s0)) by (apply (assoc_goodk c t tb sg vals s0); auto).
  assert (UU : uniform_phase (c_shape cc) (c_ty cc) (fc_hooks PBeforeCreate)
               /\ uniform_phase (c_shape cc) (c_ty cc) (fc_hooks PAfterCreate)).
  { subst cc. cbn [assoc_cx c_shape c_ty]. destruct sg; [apply U; reflexivity|].
    unfold uniform_phase. cbn. split; exact I. }
  destruct UU as [U1 U2].
  assert (SC : self_cx o cc).
  { subst cc. repeat split; try assumption. unfold wf_shape. cbn. destruct sg; [reflexivity | exact I]. }
  change (c_ty cc) with t in *.
  set (s9 := leaf_create cc s0) in *. cbn [s_err s_tbl s_tr] in *.
  assert (E9 : is_nil (s_err s9) = true).
  { destruct (is_nil (s_err s9)) eqn:E; [reflexivity|]. apply app_nil_is_nil in HF. destruct HF as [_ HF]. congruence. }
  (* the nested pipeline, step by step *)
  subst s9. unfold leaf_create in *.
  set (tags := map fst (keys s0)).
  set (s1 := begin_tx cc s0) in *.
  pose proof (begin_tx_step (c_fails cc) cc s0) as B. fold s1 in B.
  pose proof (hs_keys' _ _ _ _ B) as K1.
  assert (G1 : goodk (c_shape cc) (keys s1)) by (rewrite K1; exact G0).
  set (s2 := hooks_phase cc PBeforeCreate s1) in *.
  assert (P1 := hooks_phase_step' cc PBeforeCreate s1 tags G1 U1 ltac:(rewrite K1; reflexivity)). fold s2 in P1.
  pose proof (hs_keys' _ _ _ _ P1) as K2.
  assert (G2 : goodk (c_shape cc) (keys s2)) by (rewrite K2; exact G1).
  set (s3 := stmt_create cc s2) in *.
  pose proof (stmt_create_step (c_fails cc) cc s2 G2) as ST. fold s3 in ST.
  pose proof (hs_keys' _ _ _ _ ST) as K3.
  assert (G3 : goodk (c_shape cc) (keys s3)) by (rewrite K3; exact G2).
  set (s4 := hooks_phase cc PAfterCreate s3) in *.
  assert (P2 := hooks_phase_step' cc PAfterCreate s3 tags G3 U2 ltac:(rewrite K3, K2, K1; reflexivity)). fold s4 in P2.
  pose proof (commit_step (c_fails cc) cc s4) as CM.
  pose proof (hstep_err_back _ _ _ _ CM E9) as E4.
  pose proof (hstep_err_back _ _ _ _ P2 E4) as E3.
  pose proof (hstep_err_back _ _ _ _ ST E3) as E2.
  (* the values start as themselves: the log so far never mentions them *)
  assert (T0 : TR o t vals s0).
  { split; [exact K|]. split; [reflexivity|]. intros j r Hj. exists r. split; [exact Hj|]. repeat split.
    unfold want. cbn [s_tr]. rewrite last_set_fresh; [reflexivity|].
    intros e He. apply (LA e r He). eapply nth_error_In. exact Hj. }
  assert (T1 : TR o t vals s1).
  { eapply TR_hstep; [exact B | apply begin_tx_recs | intros e r [] | exact T0]. }
  assert (T2 : TR o t vals s2) by (apply (hooks_phase_TR o cc); [exact SC | exact ND | left; reflexivity | exact T1]).
  destruct T2 as (K2' & TG2 & V2).
  destruct (In_nth_error _ _ IN0) as (j & Hj).
  destruct (V2 j r0 Hj) as (r & Nr & Tg & Nl & Vl).
  assert (Q2 : quietT s0 s2) by (eapply quietT_trans; [apply begin_tx_quietT | apply hooks_phase_quietT]).
  destruct Q2 as [TB2 _].
  assert (ST3 : In (c_table cc, m_tag r, m_val r) (s_tbl s3)).
  { apply stmt_create_stores_fresh; [apply is_nil_true; exact E2 | apply (goodk_no_nil _ _ G2) | rewrite TG2; exact ND
                                     | eapply nth_error_In; exact Nr |].
    intros x Hx. rewrite TB2. cbn [s_tbl]. change (c_table cc) with tb.
    assert (TX : In (m_tag x) (map m_tag vals)) by (rewrite <- TG2; apply in_map; exact Hx).
    apply in_map_iff in TX. destruct TX as (y & Ey & Hy). rewrite <- Ey. apply FR. exact Hy. }
  rewrite Tg, Vl in ST3. change (c_table cc) with tb in ST3.
  assert (KP : keepsT tb s3 (commit_or_rollback cc s4)).
  { eapply keepsT_trans; [apply quiet_keeps, hooks_phase_quietT|]. fold s4. apply quiet_keeps, commit_quietT. exact E9. }
  destruct (KP E9) as [_ KI]. specialize (KI _ _ ST3).
  assert (WE : want o t (hooks_of (s_tr (commit_or_rollback cc s4))) r0 = want o t (hooks_of (s_tr s2)) r0).
  { destruct CM as [_ HC _ _]. destruct P2 as [_ HP _ _]. destruct ST as [_ HS _ _].
    rewrite HC, HP, HS, !app_nil_r. unfold want. rewrite last_set_app_irrelevant; [reflexivity|].
    intros e He. apply gated_incl, sched_log_incl in He. cbn [concat] in He. rewrite app_nil_r in He.
    apply ph_event in He. destruct He as (_ & _ & Hh).
    rewrite (after_hooks_not_before _ (or_introl Hh)). apply andb_false_r. }
  rewrite WE. exact KI.
Qed.
