(* C12_Proofs8.v — "only the links of THIS relation and handle change": the links of the same tables that
   do not belong to the handle ([others]: other owners, rows of another polymorphic owner type) are
   untouched by every operation, except that a has-one / has-many target given to an owner of the
   handle leaves its previous owner.  Per operation and for histories of any length. *)
From Verif Require Import Base C12_Model C12_Proofs C12_Proofs2 C12_Proofs3 C12_Proofs5 C12_Proofs6.
Open Scope Z_scope.

Lemma concat_repeat_nil {A} n : List.concat (repeat (@nil A) n) = [].
Proof. induction n; cbn; auto. Qed.

(* ---------------- has one / has many ---------------- *)
Lemma others_has_In k os s t o' : is_has k -> NoDup (map fst (rows s)) ->
  (In (t, o') (others k os s) <-> look (rows s) t = Some (Some o') /\ ~ In o' os).
Proof.
  intros Hk ND.
  assert (E : others k os s = flat_map (fun p : Z * option Z => match snd p with
               | Some o => if memz o os then [] else [(fst p, o)] | None => [] end) (rows s))
    by (destruct Hk; subst; reflexivity).
  rewrite E, in_flat_map. split.
  - intros [[a f] [Hin H]]. cbn [fst snd] in H. destruct f as [o|]; [|destruct H].
    destruct (memz o os) eqn:M; [destruct H|]. destruct H as [H|[]]. inversion H; subst a o.
    split; [apply In_look; assumption | apply memz_false, M].
  - intros [L N]. exists (t, Some o'). split; [apply look_In, L|]. cbn [fst snd].
    apply memz_false in N. rewrite N. left. reflexivity.
Qed.

(* the save loop and an owner that is NOT in the handle: it keeps exactly the targets that no new
   field holds *)
Lemma save_loop_outside k clear : is_has k -> forall os vs ms s t o', ~ In o' os ->
  let r := save_loop k clear os vs ms s in
  (look (rows (snd r)) t = Some (Some o') <->
   look (rows s) t = Some (Some o') /\ forall m, In m (fst r) -> ~ In t m).
Proof.
  intro Hk. induction os as [|o os IH]; intros vs ms s t o' NI; cbn zeta.
  - cbn. split; [intro H; split; [exact H | intros m []] | intros [H _]; exact H].
  - destruct vs as [|v vs]; [cbn; split; [intro H; split; [exact H | intros m []] | intros [H _]; exact H]|].
    destruct ms as [|m ms]; [cbn; split; [intro H; split; [exact H | intros m []] | intros [H _]; exact H]|].
    cbn [save_loop]. set (m' := new_field k clear m v). set (s1 := save_owner k o m' s).
    assert (NI' : ~ In o' os) by (intro H; apply NI; right; exact H).
    specialize (IH vs ms s1 t o' NI'). cbn zeta in IH.
    destruct (save_loop k clear os vs ms s1) as [rest s2]. cbn [fst snd] in *.
    assert (R1 : look (rows s1) t = if memz t m' then Some (Some o) else look (rows s) t).
    { unfold s1. rewrite save_owner_has by exact Hk. cbn [rows]. apply look_fold_upsert. }
    rewrite IH, R1. split.
    + intros [H N]. destruct (memz t m') eqn:M.
      * inversion H; subst o'. exfalso. apply NI. left. reflexivity.
      * split; [exact H|]. intros x [<- | Hx]; [apply memz_false, M | apply N, Hx].
    + intros [H N]. assert (M : memz t m' = false) by (apply memz_false, N; left; reflexivity).
      rewrite M. split; [exact H|]. intros x Hx. apply N. right. exact Hx.
Qed.

Lemma save_assoc_outside k clear os vs s t o' : is_has k -> length vs = length os -> length (mem s) = length os ->
  ~ In o' os ->
  (LK (save_assoc k clear os vs s) o' t <->
   LK s o' t /\ forall m, In m (map (fun mv => new_field k clear (fst mv) (snd mv)) (combine (mem s) vs)) -> ~ In t m).
Proof.
  intros Hk Lv Lm NI.
  pose proof (save_loop_outside k clear Hk os vs (mem s) s t o' NI) as H. cbn zeta in H.
  pose proof (save_loop_has k clear Hk os vs (mem s) s Lv Lm) as G. cbn zeta in G. destruct G as [G1 _].
  unfold LK, save_assoc. destruct (save_loop k clear os vs (mem s) s) as [ms2 s2]. cbn [fst snd rows] in *.
  rewrite <- G1. exact H.
Qed.

Section HasOthers.
Variables (k : kind) (os : list Z).
Hypothesis Hk : is_has k.

Lemma in_os_outside o' : ~ In o' os -> in_os os (Some o') = false.
Proof. intro N. cbn. apply memz_false, N. Qed.

(* one operation and an owner outside the handle *)
Lemma has_outside_step u o s o' t : wf_has os s -> op_ok_has k os s o -> ~ In o' os ->
  (LK (assoc_step k os s (u, o)) o' t <->
   LK s o' t /\ ~ In t (List.concat (op_values o (length os)))).
Proof.
  intros W OK NI. destruct W as [ND NO LE ME].
  pose proof (in_os_outside o' NI) as IO.
  (* Replace, shared by Append on has one *)
  assert (REP : forall vs, length vs = length os -> (k = KHasOne -> Forall (fun v => length v = 1%nat) vs) ->
            (LK (do_replace k u os vs s) o' t <-> LK s o' t /\ ~ In t (List.concat vs))).
  { intros vs Lv One.
    set (s1 := save_assoc k true os vs s).
    set (P := fun p : Z * option Z => in_os os (snd p) && negb (memz (fst p) (List.concat (mem s1)))).
    assert (E : do_replace k u os vs s
                = mk_st (if u then delete_where P (rows s1) else null_where P (rows s1)) (joins s1) (tgt s1) (mem s1))
      by (unfold do_replace, detach_others; fold s1; destruct Hk; subst k; reflexivity).
    assert (N1 : NoDup (map fst (rows s1))).
    { pose proof (save_loop_has k true Hk os vs (mem s) s Lv LE) as G. cbn zeta in G.
      unfold s1, save_assoc. destruct (save_loop k true os vs (mem s) s) as [a b]. cbn [fst snd rows] in *.
      apply G, ND. }
    unfold LK at 1. rewrite E. cbn [rows]. rewrite LK_detach by exact N1. unfold P. cbn [fst snd]. rewrite IO. cbn [andb].
    fold (LK s1 o' t). unfold s1. rewrite (save_assoc_outside k true os vs s t o' Hk Lv LE NI).
    assert (MS : map (fun mv => new_field k true (fst mv) (snd mv)) (combine (mem s) vs) = vs).
    { apply map_snd_combine; [congruence|]. intros a b Hab. cbn [fst snd].
      destruct Hk as [-> | ->]; cbn; [|reflexivity].
      apply last_or_single. apply in_combine_r in Hab. specialize (One eq_refl). rewrite Forall_forall in One. apply One, Hab. }
    rewrite MS. rewrite in_concat. split.
    - intros [[L N] _]. split; [exact L|]. intros [m [Hm Ht]]. exact (N m Hm Ht).
    - intros [L N]. split; [split; [exact L|]|reflexivity]. intros m Hm Ht. apply N. exists m. auto. }
  destruct o as [vs|vs|ts| |]; cbn [assoc_step op_values].
  - (* Append *)
    destruct OK as [Lv [DJ [NS One]]]. unfold do_append. destruct Hk as [K1|K1]; rewrite K1; rewrite <- K1.
    + apply REP; assumption.
    + rewrite (save_assoc_outside k false os vs s t o' Hk Lv LE NI). rewrite in_concat. split.
      * intros [L N]. split; [exact L|]. intros [v [Hv Ht]].
        apply In_nth_error in Hv. destruct Hv as [i Hi].
        destruct (nth_error_ex (mem s) i) as [m Hm]; [rewrite LE, <- Lv; apply nth_error_Some; congruence|].
        apply (N (new_field k false m v)).
        -- apply in_map_iff. exists (m, v). split; [reflexivity|]. eapply nth_error_In. apply nth_error_combine; eassumption.
        -- rewrite K1. cbn. apply in_or_app. right. exact Ht.
      * intros [L N]. split; [exact L|]. intros mm Hmm Ht. apply in_map_iff in Hmm. destruct Hmm as [[m v] [E Hin]].
        cbn [fst snd] in E. subst mm. rewrite K1 in Ht. cbn in Ht. apply in_app_or in Ht. destruct Ht as [Ht|Ht].
        -- (* t is held by an owner of the handle: then it is that owner's, not o' 's *)
           apply In_nth_error in Hin. destruct Hin as [i Hi].
           assert (Hm : nth_error (mem s) i = Some m).
           { clear - Hi. revert i Hi. generalize (mem s) as l1. intro l1. revert vs. induction l1 as [|a l1 IH]; intros [|b l2] [|i]; cbn; try discriminate.
             - intro H. inversion H. reflexivity.
             - apply IH. }
           destruct (nth_error_ex os i) as [oi Hoi]; [rewrite <- LE; apply nth_error_Some; congruence|].
           apply (ME i oi m Hoi Hm) in Ht. unfold LK in *. rewrite Ht in L. inversion L; subst oi.
           apply NI. eapply nth_error_In; eauto.
        -- apply N. exists v. split; [eapply in_combine_r; eauto | exact Ht].
  - (* Replace *)
    destruct OK as [Lv [DJ One]]. apply REP; assumption.
  - (* Delete *)
    set (P := fun p : Z * option Z => in_os os (snd p) && memz (fst p) ts).
    assert (E : do_delete k u os ts s = mk_st (if u then delete_where P (rows s) else null_where P (rows s)) (joins s) (tgt s)
                         (map (filter (fun t => negb (memz t ts))) (mem s)))
      by (unfold do_delete; destruct Hk; subst k; reflexivity).
    unfold LK at 1. rewrite E. cbn [rows]. rewrite LK_detach by exact ND. unfold P. cbn [fst snd]. rewrite IO. cbn [andb].
    rewrite concat_repeat_nil. unfold LK. intuition.
  - (* Clear *)
    set (P := fun p : Z * option Z => in_os os (snd p) && negb (memz (fst p) (List.concat (map (fun _ : list Z => @nil Z) (mem s))))).
    assert (E : do_clear k u os s = mk_st (if u then delete_where P (rows s) else null_where P (rows s)) (joins s) (tgt s)
                         (map (fun _ => []) (mem s)))
      by (unfold do_clear, detach_others; destruct Hk; subst k; reflexivity).
    unfold LK at 1. rewrite E. cbn [rows]. rewrite LK_detach by exact ND. unfold P. cbn [fst snd]. rewrite IO. cbn [andb].
    rewrite concat_repeat_nil. unfold LK. intuition.
  - rewrite concat_repeat_nil. intuition.
Qed.

(* the clause as the checker evaluates it (C12_Check.step_ok): the other links after the operation are
   the other links before it, minus those of the targets given to the handle *)
Theorem has_others_step u o s : wf_has os s -> op_ok_has k os s o ->
  forall p, In p (others k os (assoc_step k os s (u, o))) <->
            In p (others k os s) /\ ~ In (fst p) (List.concat (op_values o (length os))).
Proof.
  intros W OK [t o'].
  destruct (has_step k os Hk u o s W OK) as [W' _]. cbn zeta in W'.
  rewrite (others_has_In k os _ t o' Hk (wf_nd _ _ W')), (others_has_In k os s t o' Hk (wf_nd _ _ W)). cbn [fst].
  split.
  - intros [L N]. apply (has_outside_step u o s o' t W OK N) in L. tauto.
  - intros [[L N] G]. split; [|exact N]. apply (has_outside_step u o s o' t W OK N). tauto.
Qed.

(* histories: a link of an owner outside the handle survives exactly when its target is never given
   to the handle *)
Fixpoint given_hist (ops : list (bool * op)) : list Z :=
  match ops with [] => [] | uo :: r => List.concat (op_values (snd uo) (length os)) ++ given_hist r end.

Theorem has_others_history : forall ops s, wf_has os s -> hist_ok k os s ops ->
  forall p, In p (others k os (final k os s ops)) <-> In p (others k os s) /\ ~ In (fst p) (given_hist ops).
Proof.
  induction ops as [|[u o] ops IH]; intros s W OK p.
  - cbn. tauto.
  - destruct OK as [OK1 OK2]. cbn [snd] in OK1.
    destruct (has_step k os Hk u o s W OK1) as [W' _]. cbn zeta in W'.
    unfold final in *. cbn [fold_left given_hist snd]. rewrite (IH _ W' OK2 p), (has_others_step u o s W OK1 p), in_app_iff. tauto.
Qed.

End HasOthers.

(* ---------------- many2many: the join rows of other owners are untouched ---------------- *)
Lemma filter_app_nil {A} (P : A -> bool) l x : P x = false -> filter P (l ++ [x]) = filter P l.
Proof. intro H. rewrite filter_app. cbn. rewrite H. apply app_nil_r. Qed.

Lemma others_add_join os o t j : In o os ->
  filter (fun q : Z * Z => negb (memz (fst q) os)) (add_join (o, t) j) = filter (fun q => negb (memz (fst q) os)) j.
Proof.
  intro H. unfold add_join. destruct (memp (o, t) j); [reflexivity|].
  apply filter_app_nil. cbn. apply memz_In in H. rewrite H. reflexivity.
Qed.
Lemma others_fold_join os o m : In o os -> forall j,
  filter (fun q : Z * Z => negb (memz (fst q) os)) (fold_left (fun j t => add_join (o, t) j) m j)
  = filter (fun q => negb (memz (fst q) os)) j.
Proof. intro H. induction m as [|t m IH]; intro j; cbn; [reflexivity|]. rewrite IH. apply others_add_join, H. Qed.

Lemma others_delete_join os (Q : Z * Z -> bool) j :
  filter (fun q : Z * Z => negb (memz (fst q) os)) (delete_where (fun q => memz (fst q) os && Q q) j)
  = filter (fun q => negb (memz (fst q) os)) j.
Proof.
  unfold delete_where. induction j as [|q j IH]; cbn; [reflexivity|].
  destruct (memz (fst q) os) eqn:M; cbn.
  - destruct (Q q); cbn; [exact IH | rewrite M; cbn; exact IH].
  - rewrite M. cbn. rewrite IH. reflexivity.
Qed.

Lemma save_loop_m2m_others clear : forall os0 os vs ms s, (forall o, In o os -> In o os0) ->
  others KM2M os0 (snd (save_loop KM2M clear os vs ms s)) = others KM2M os0 s.
Proof.
  intros os0. induction os as [|o os IH]; intros vs ms s SUB; [reflexivity|].
  destruct vs as [|v vs]; [reflexivity|]. destruct ms as [|m ms]; [reflexivity|].
  cbn [save_loop].
  set (s1 := save_owner KM2M o (new_field KM2M clear m v) s).
  specialize (IH vs ms s1 (fun x H => SUB x (or_intror H))).
  destruct (save_loop KM2M clear os vs ms s1) as [rest s2]. cbn [snd] in *. rewrite IH.
  unfold s1, others. cbn [save_owner joins]. apply others_fold_join, SUB. left. reflexivity.
Qed.

Lemma save_assoc_m2m_others clear os vs s : others KM2M os (save_assoc KM2M clear os vs s) = others KM2M os s.
Proof.
  unfold save_assoc. pose proof (save_loop_m2m_others clear os os vs (mem s) s (fun _ H => H)) as H.
  destruct (save_loop KM2M clear os vs (mem s) s) as [ms s']. exact H.
Qed.

(* every many2many operation, admissible or not, leaves the join rows of the other owners as they are
   (the very list) *)
Theorem m2m_others_step os u o s : others KM2M os (assoc_step KM2M os s (u, o)) = others KM2M os s.
Proof.
  destruct o as [vs|vs|ts| |]; cbn [assoc_step].
  - apply save_assoc_m2m_others.
  - unfold do_replace. rewrite <- (save_assoc_m2m_others true os vs s).
    unfold detach_others, others. cbn [joins].
    apply (others_delete_join os (fun j => negb (memz (snd j) (List.concat vs)))).
  - unfold do_delete, others. cbn [joins]. apply (others_delete_join os (fun j => memz (snd j) ts)).
  - unfold do_clear, detach_others, others. cbn [joins].
    apply (others_delete_join os (fun j => negb (memz (snd j) (List.concat (@nil (list Z)))))).
  - reflexivity.
Qed.

Theorem m2m_others_history os : forall ops s, others KM2M os (final KM2M os s ops) = others KM2M os s.
Proof.
  induction ops as [|[u o] ops IH]; intro s; [reflexivity|].
  unfold final in *. cbn [fold_left]. rewrite IH. apply m2m_others_step.
Qed.

(* ---------------- belongs to: the foreign keys of the other owners are untouched ---------------- *)
Definition bt_others (os : list Z) (r : list (Z * option Z)) : list (Z * Z) :=
  flat_map (fun p : Z * option Z => if memz (fst p) os then [] else match snd p with Some t => [(fst p, t)] | None => [] end) r.

Lemma bt_others_set_fk os o v r : In o os -> bt_others os (set_fk o v r) = bt_others os r.
Proof.
  intro H. unfold bt_others, set_fk. induction r as [|[a f] r IH]; cbn; [reflexivity|].
  destruct (a =? o) eqn:E; cbn [fst snd].
  - apply Z.eqb_eq in E. subst a. apply memz_In in H. rewrite H. cbn. exact IH.
  - rewrite IH. reflexivity.
Qed.
Lemma bt_others_null os (Q : Z * option Z -> bool) r :
  bt_others os (null_where (fun p => memz (fst p) os && Q p) r) = bt_others os r.
Proof.
  unfold bt_others, null_where. induction r as [|[a f] r IH]; cbn; [reflexivity|].
  destruct (memz a os) eqn:M; cbn [andb].
  - destruct (Q (a, f)); cbn [fst snd]; rewrite M; cbn; exact IH.
  - cbn [fst snd]. rewrite M, IH. reflexivity.
Qed.

Lemma bt_others_null0 os r : bt_others os (null_where (fun p => memz (fst p) os) r) = bt_others os r.
Proof.
  unfold bt_others, null_where. induction r as [|[a f] r IH]; cbn; [reflexivity|].
  destruct (memz a os) eqn:M; cbn [fst snd]; rewrite M; [exact IH | rewrite IH; reflexivity].
Qed.

Lemma save_loop_bt_others clear : forall os0 os vs ms s, (forall o, In o os -> In o os0) ->
  others KBelongs os0 (snd (save_loop KBelongs clear os vs ms s)) = others KBelongs os0 s.
Proof.
  intros os0. induction os as [|o os IH]; intros vs ms s SUB; [reflexivity|].
  destruct vs as [|v vs]; [reflexivity|]. destruct ms as [|m ms]; [reflexivity|].
  cbn [save_loop].
  set (s1 := save_owner KBelongs o (new_field KBelongs clear m v) s).
  specialize (IH vs ms s1 (fun x H => SUB x (or_intror H))).
  destruct (save_loop KBelongs clear os vs ms s1) as [rest s2]. cbn [snd] in *. rewrite IH.
  unfold s1. cbn [save_owner]. destruct (new_field KBelongs clear m v) as [|t l]; [reflexivity|].
  unfold others. cbn [rows]. apply (bt_others_set_fk os0 o (Some t) (rows s)), SUB. left. reflexivity.
Qed.

Theorem bt_others_step os u o s : others KBelongs os (assoc_step KBelongs os s (u, o)) = others KBelongs os s.
Proof.
  assert (SA : forall clear vs, others KBelongs os (save_assoc KBelongs clear os vs s) = others KBelongs os s).
  { intros clear vs. unfold save_assoc.
    pose proof (save_loop_bt_others clear os os vs (mem s) s (fun _ H => H)) as H.
    destruct (save_loop KBelongs clear os vs (mem s) s) as [ms s']. exact H. }
  assert (REP : forall vs, others KBelongs os (do_replace KBelongs u os vs s) = others KBelongs os s).
  { intro vs. unfold do_replace. rewrite <- (SA true vs). reflexivity. }
  destruct o as [vs|vs|ts| |]; cbn [assoc_step].
  - apply REP.
  - apply REP.
  - unfold do_delete, others. cbn [rows]. apply (bt_others_null os (fun p => in_os ts (snd p))).
  - unfold do_clear, detach_others, others. cbn [rows].
    apply (bt_others_null0 os (rows s)).
  - reflexivity.
Qed.

Theorem bt_others_history os : forall ops s, others KBelongs os (final KBelongs os s ops) = others KBelongs os s.
Proof.
  induction ops as [|[u o] ops IH]; intro s; [reflexivity|].
  unfold final in *. cbn [fold_left]. rewrite IH. apply bt_others_step.
Qed.
