(* C10_Spec.v — the property C10 as an executable predicate over ONE observed write: the cell diff
   of the table (row, column, where the new value came from) and the error flag.  Written from the
   property text; it does not run SelectAndOmitColumns / ConvertToAssignments / ConvertToCreateValues
   (C10_Model.select_and_omit, assign_struct, assign_map, create_fields, ...).  Select/Omit are read
   declaratively: an item NAMES a field ("*" and "tbl.*" name every field, a bare name names the
   field with that Go name or column name, "tbl.col" the field with that column).
   Shared vocabulary from C10_Model: field descriptors with their tags and the permission flags
   [creatable]/[updatable]/[has_col] (checked against gorm's own parse by the correspondence),
   payload zero bits, cells.  No proofs here. *)
From Verif Require Import Base C10_Model.
Open Scope Z_scope.

Definition src_eqb (a b : src) : bool :=
  match a, b with KNow, KNow | KPay, KPay | KOther, KOther => true | _, _ => false end.
Definition cell_eqb (a b : cell) : bool :=
  (c_row a =? c_row b) && String.eqb (c_col a) (c_col b) && src_eqb (c_src a) (c_src b).

(* ---- Select / Omit, read declaratively ------------------------------------------------------ *)
Definition names (table : string) (f : field) (it : sitem) : bool :=
  match it with
  | SStar => true
  | SName n => String.eqb n (f_name f) || String.eqb n (f_db f)
  | STab tbl col => String.eqb tbl table && String.eqb col (f_db f)
  | STabStar tbl => String.eqb tbl table
  end.
Definition listed (table : string) (items : list sitem) (f : field) : bool :=
  existsb (names table f) items.
Definition selected (table : string) (selects : list sitem) (f : field) : bool :=
  match selects with [] => true | _ => listed table selects f end.

(* ---- hypotheses of the theorems, as decidable checks (evaluated on every case) ---------------- *)
(* own-table qualifiers only ("tbl.col" / "tbl.*" with tbl = the statement's table) *)
Definition local (table : string) (items : list sitem) : bool :=
  forallb (fun it => match it with STab t _ | STabStar t => String.eqb t table | _ => true end) items.
(* distinct columns, distinct field names, no field named like another field's column *)
Fixpoint nodupb (l : list string) : bool :=
  match l with [] => true | x :: r => negb (existsb (String.eqb x) r) && nodupb r end.
Definition wfb (s : schema) : bool :=
  nodupb (map f_db (col_fields s)) && nodupb (map f_name s)
  && forallb (fun f => forallb (fun g => negb (has_col f && String.eqb (f_name g) (f_db f))
                                         || (String.eqb (f_name g) (f_name f))) s) s.

(* ---- what an operation is -------------------------------------------------------------------- *)
Inductive shape := ShStruct | ShMap | ShSave.
Definition update_shape (o : op) : option (shape * bool) :=       (* payload shape, hooks run? *)
  match o with
  | OUpdatesStruct => Some (ShStruct, true)
  | OUpdateColumnsStruct => Some (ShStruct, false)
  | OUpdatesMap => Some (ShMap, true)
  | OUpdateColumnsMap => Some (ShMap, false)
  | OSave => Some (ShSave, true)
  | _ => None
  end.

Definition tracked_update (f : field) : bool := match f_auto f with AUpdate => true | _ => false end.
Definition tracked (f : field) : bool := match f_auto f with ANone => false | _ => true end.
Definition key_given (p : payload) (f : field) : bool :=
  existsb (fun e => String.eqb (fst e) (f_name f) || String.eqb (fst e) (f_db f)) (snd p).

(* the payload offers field f: struct -> its value is non-zero; map -> f is one of the keys; Save -> always *)
Definition offered (sh : shape) (p : payload) (f : field) : bool :=
  match sh with
  | ShStruct => negb (p_zero p f)
  | ShMap => key_given p f
  | ShSave => true
  end.

(* the payload part of the write set: struct -> non-zero fields, or exactly the listed ones when a
   Select is given; map -> the given keys that are selected; Save -> every selected field *)
Definition payload_part (table : string) (sh : shape) (selects : list sitem) (p : payload) (f : field) : bool :=
  match sh, selects with
  | ShStruct, [] => offered sh p f
  | ShStruct, _ => listed table selects f
  | _, _ => offered sh p f && selected table selects f
  end.

(* an UPDATE may write column f / must write column f *)
Definition may_update (table : string) (sh : shape) (hooks : bool) (selects omits : list sitem)
           (p : payload) (f : field) : bool :=
  has_col f && updatable f && negb (listed table omits f)
  && (payload_part table sh selects p f || (hooks && tracked_update f)).
Definition must_update (table : string) (sh : shape) (hooks : bool) (selects omits : list sitem)
           (p : payload) (f : field) : bool :=
  may_update table sh hooks selects omits p f && negb (f_pk f).
(* where the value comes from: a map value that is part of the write set is written as given; a
   tracked update-time field is otherwise refreshed (NowFunc) by every hook-running update, and
   never by the column updates; everything else carries the payload's value *)
Definition update_src_ok (table : string) (sh : shape) (hooks : bool) (selects : list sitem)
           (p : payload) (f : field) (k : src) : bool :=
  let refreshed :=
    match sh with
    | ShMap => negb (payload_part table sh selects p f) && hooks && tracked_update f
    | _ => hooks && tracked_update f
    end in
  match k with
  | KNow => refreshed
  | KPay => negb refreshed
  | KOther => false
  end.

(* an INSERT may / must write column f of a new row *)
Definition may_insert (table : string) (selects omits : list sitem) (f : field) : bool :=
  has_col f && creatable f && negb (listed table omits f)
  && (selected table selects f || tracked f).
Definition must_insert (table : string) (is_map : bool) (selects omits : list sitem) (p : payload) (f : field) : bool :=
  has_col f && creatable f && negb (listed table omits f) && selected table selects f && negb (f_pk f)
  && (negb is_map || key_given p f)
  (* a column with a database-side default is left to the database when the struct has no value *)
  && (is_map || negb (f_dbdef f) || negb (p_zero p f)).
Definition insert_src_ok (f : field) (k : src) : bool :=
  match k with KNow => tracked f | KPay => true | KOther => false end.

Definition field_of (s : schema) (c : string) : option field :=
  find (fun f => has_col f && String.eqb (f_db f) c) s.
Definition has_cell (cells : list cell) (row : Z) (c : string) : bool :=
  existsb (fun x => (c_row x =? row) && String.eqb (c_col x) c) cells.
(* "only rows matching the chain's conditions and the model value's primary key": every non-zero
   member of the model value's key equals the row's member *)
Fixpoint key_ok (mk ks : list Z) : bool :=
  match mk, ks with
  | m :: mk', k :: ks' => ((m =? 0) || (k =? m)) && key_ok mk' ks'
  | _, _ => true
  end.
(* a slice model value: the rows whose key is one of the elements' (non-zero) keys; key-less elements
   contribute nothing (a slice without any key does not restrict) *)
Definition mkey_ok (mk : mkey) (ks : list Z) : bool :=
  match mk with
  | MStruct m => key_ok m ks
  | MSlice l => let keys := filter (fun k => negb (k =? 0)) l in
                match keys with
                | [] => true
                | _ => match ks with k :: _ => mem_z k keys | [] => false end
                end
  end.
Definition in_rows (model_key : mkey) (where_ids : option (list Z)) (r : srow) : bool :=
  mkey_ok model_key (snd r)
  && match where_ids with None => true | Some l => mem_z (fst r) l end.
Definition is_new (row : Z) : bool := 1000 <? row.

(* ---- columns the statement's model does not know ------------------------------------------------------
   "Updates with a map and Update write every given key, and Select/Omit narrow these sets" also when the key
   is a column that is no field of the model (the model struct is a narrower view of the table, or the
   statement has no model at all: Table("t").Where(..).Updates(map)): such a raw key is written exactly when it
   is given, selected (no Select, or an item naming it) and not omitted. *)
Definition known (s : schema) (c : string) : bool :=
  existsb (fun f => String.eqb c (f_name f) || (has_col f && String.eqb c (f_db f))) s.
Definition raw_names (table c : string) (it : sitem) : bool :=
  match it with
  | SStar => true
  | SName n => String.eqb n c
  | STab tbl col => String.eqb tbl table && String.eqb col c
  | STabStar tbl => String.eqb tbl table
  end.
Definition raw_write (table : string) (sh : shape) (selects omits : list sitem) (p : payload) (c : string) : bool :=
  match sh with ShMap => map_has p c | _ => false end
  && match selects with [] => true | _ => existsb (raw_names table c) selects end
  && negb (existsb (raw_names table c) omits).

(* ---- updates: only permitted, selected columns of exactly the targeted rows; required ones did --- *)
Definition spec_update (s : schema) (table : string) (sh : shape) (hooks : bool)
           (selects omits : list sitem) (p : payload) (rows : list Z) (cells : list cell) : bool :=
  forallb (fun x =>
             mem_z (c_row x) rows
             && match field_of s (c_col x) with
                | Some f => may_update table sh hooks selects omits p f && update_src_ok table sh hooks selects p f (c_src x)
                | None => negb (known s (c_col x)) && raw_write table sh selects omits p (c_col x)
                          && src_eqb (c_src x) KPay
                end) cells
  && forallb (fun r => forallb (fun f => negb (must_update table sh hooks selects omits p f)
                                          || has_cell cells r (f_db f)) s
                       && forallb (fun e => negb (negb (known s (fst e)) && raw_write table sh selects omits p (fst e))
                                            || has_cell cells r (fst e)) (snd p)) rows.

(* ---- the value is a struct of another type than the model ---------------------------------------------------
   "a field whose tag denies update permission, or marks it read-only or ignored, is never written": the tags of
   the MODEL's field and the tags of the VALUE's field for the same column both count; zero-ness is the value's;
   Select / Omit name fields of the model.  A column the value's type does not have is not written. *)
Definition vfield (us : schema) (f : field) : option field :=
  find (fun g => has_col g && String.eqb (f_db g) (f_db f)) us.
Definition may_update_patch (table : string) (hooks : bool) (selects omits : list sitem)
           (p : payload) (us : schema) (f : field) : bool :=
  match vfield us f with
  | None => false
  | Some g =>
      has_col f && updatable f && updatable g && negb (listed table omits f)
      && (match selects with [] => negb (p_zero p g) | _ => listed table selects f end
          || (hooks && tracked_update f))
  end.
Definition spec_update_patch (s us : schema) (table : string) (hooks : bool)
           (selects omits : list sitem) (p : payload) (rows : list Z) (cells : list cell) : bool :=
  forallb (fun x =>
             mem_z (c_row x) rows
             && match field_of s (c_col x) with
                | Some f => may_update_patch table hooks selects omits p us f
                            && src_eqb (c_src x) (if hooks && tracked_update f then KNow else KPay)
                | None => false
                end) cells
  && forallb (fun r => forallb (fun f => negb (may_update_patch table hooks selects omits p us f && negb (f_pk f))
                                          || has_cell cells r (f_db f)) s) rows.
(* domain of the patch types (checked per case): every tracked update-time field of the model has a tracked
   counterpart in the value's type (a value type WITHOUT the column leaves it stale: gorm refreshes only what the
   value's type declares), and a value field reached through the model's column carries that column *)
Definition patch_dom (s us : schema) : bool :=
  forallb (fun f => negb (has_col f)
                    || match lookup_field us (f_db f) with
                       | Some g => has_col g && String.eqb (f_db g) (f_db f) && Bool.eqb (tracked_update g) (tracked_update f)
                       | None => negb (tracked_update f)
                       end) s.

(* domain of the raw keys (checked per case): "tbl.*" in a Select and "*" / "tbl.*" in an Omit are not combined
   with keys the model does not know (whether they name such a column is not settled by the property text) *)
Definition raw_dom (s : schema) (selects omits : list sitem) (ps : list payload) : bool :=
  forallb (fun p : payload => forallb (fun e => known s (fst e)) (snd p)) ps
  || (forallb (fun it => match it with STabStar _ => false | _ => true end) selects
      && forallb (fun it => match it with SStar | STabStar _ => false | _ => true end) omits).

(* ---- inserts ------------------------------------------------------------------------------------ *)
Definition spec_new_rows (s : schema) (table : string) (is_map : bool) (selects omits : list sitem)
           (ps : list payload) (cells : list cell) : bool :=
  forallb (fun x =>
             is_new (c_row x) && (c_row x <=? 1000 + Z.of_nat (length ps))
             && match field_of s (c_col x) with
                | Some f => may_insert table selects omits f && insert_src_ok f (c_src x) && negb (f_pk f)
                | None => false
                end) cells
  && forallb (fun ip =>
                forallb (fun f => negb (must_insert table is_map selects omits (snd ip) f)
                                  || has_cell cells (fst ip) (f_db f)) s)
             (combine (map (fun i => 1001 + Z.of_nat i) (seq 0 (length ps))) ps).

(* ON CONFLICT DO UPDATE on the stored row [id]: only columns with create AND update permission *)
Definition spec_conflict (s : schema) (table : string) (o : op) (selects omits : list sitem)
           (p : payload) (cells : list cell) : bool :=
  forallb (fun x =>
             (c_row x =? fst p)
             && match field_of s (c_col x) with
                | Some f => may_insert table selects omits f && updatable f && negb (f_pk f)
                            && insert_src_ok f (c_src x)
                            && match o with
                               | OUpsertNothing => false
                               | OUpsertCols cols => existsb (String.eqb (f_db f)) cols
                               | _ => true
                               end
                | None => false
                end) cells
  && match o with
     | OUpsertCols cols => forallb (fun c => has_cell cells (fst p) c) cols
     | OUpsertNothing => true
     | _ => forallb (fun f => negb (must_insert table false selects omits p f && updatable f && negb (f_dbdef f)
                                    && negb (match f_auto f with ACreate => true | _ => false end))
                              || has_cell cells (fst p) (f_db f)) s
     end.

Definition all_new (cells : list cell) : bool := forallb (fun x => is_new (c_row x)) cells.

(* When may a statement be refused at all?  "Save writes all fields ..." / "tracked update-time fields are refreshed
   by every hook-running update": a write the property demands cannot be replaced by an error.  A Save of a
   stored row is an UPDATE by its key and is never refused; an update is refused only when it has no condition
   at all (neither a key in the model value nor a Where: ErrMissingWhereClause) or when it targets several rows
   (writing one key value into several rows violates the key's uniqueness).  Creates and upserts may be refused
   by the database (duplicate key, no insertable column, DEFAULT placeholders). *)
Definition unconditional (mk : mkey) (where_ids : option (list Z)) : bool :=
  match where_ids with
  | Some _ => false
  | None => match mk with MStruct m => forallb (Z.eqb 0) m | MSlice l => forallb (Z.eqb 0) l end
  end.
Definition may_fail (o : op) (p : payload) (stored : list srow) (model_key : mkey)
           (where_ids : option (list Z)) : bool :=
  match o with
  | OSave => negb (mem_z (fst p) (map fst stored))
  | OUpdatesStruct | OUpdateColumnsStruct | OUpdatesMap | OUpdateColumnsMap =>
      unconditional model_key where_ids
      || (1 <? Z.of_nat (length (filter (in_rows model_key where_ids) stored)))
  | _ => true
  end.

Definition spec_case (s : schema) (table : string) (o : op) (selects omits : list sitem)
  (ps : list payload) (stored : list srow) (model_key : mkey) (where_ids : option (list Z))
  (vs : option schema) (cells : list cell) (err : bool) : bool :=
  let p := match ps with p :: _ => p | [] => (0, []) end in
  if err then match cells with [] => may_fail o p stored model_key where_ids | _ => false end
       (* a failed statement writes nothing, and only a statement that may be refused fails *)
  else
  match vs, update_shape o with
  | Some us, Some (ShStruct, hooks) =>      (* the value is a struct of another type than the model *)
      spec_update_patch s us table hooks selects omits p
                        (map fst (filter (in_rows model_key where_ids) stored)) cells
  | _, _ =>
  match o with
  | OCreate | OCreateBatch => spec_new_rows s table false selects omits ps cells
  | OCreateMap => spec_new_rows s table true selects omits [p] cells
  | OCreateMaps => spec_new_rows s table true selects omits ps cells
  | OFocAssign =>          (* only the found record (first matching row) may change: a map update of it *)
      spec_update s table ShMap true selects omits p
                  (firstn 1 (map fst (filter (in_rows model_key where_ids) stored))) cells
  | OFoiAssign => match cells with [] => true | _ => false end
  | OSaveSlice =>          (* each element: a stored key is updated like an UpdateAll upsert, a fresh one inserted *)
      let ids := map fst stored in
      let coll := filter (fun q : payload => mem_z (fst q) ids) ps in
      let fresh := filter (fun q : payload => negb (mem_z (fst q) ids)) ps in
      forallb (fun q => spec_conflict s table OUpsertAll selects omits q
                                      (filter (fun x => c_row x =? fst q) cells)) coll
      && spec_new_rows s table false selects omits fresh (filter (fun x => is_new (c_row x)) cells)
      && forallb (fun x => is_new (c_row x) || existsb (fun q : payload => fst q =? c_row x) coll) cells
  | OUpsertAll | OUpsertNothing | OUpsertCols _ =>
      if all_new cells && negb (match cells with [] => true | _ => false end)
      then spec_new_rows s table false selects omits [p] cells
      else spec_conflict s table o selects omits p cells
  | OSave =>
      if mem_z (fst p) (map fst stored)
      then spec_update s table ShSave true selects omits p [fst p] cells
      else match cells with
           | [] => true      (* key not stored: nothing, or (C16) the value is inserted *)
           | _ => spec_new_rows s table false selects omits [p] cells
           end
  | OUpdatesStruct | OUpdateColumnsStruct | OUpdatesMap | OUpdateColumnsMap =>
      match update_shape o with
      | Some (sh, hooks) =>
          spec_update s table sh hooks selects omits p
                      (map fst (filter (in_rows model_key where_ids) stored)) cells
      | None => false
      end
  end
  end.
