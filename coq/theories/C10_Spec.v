(* C10_Spec.v — placeholder, replaced below *)
From Verif Require Import Base C10_Model.
Open Scope Z_scope.
Definition src_eqb (a b : src) : bool :=
  match a, b with KNow, KNow | KPay, KPay | KOther, KOther => true | _, _ => false end.
Definition cell_eqb (a b : cell) : bool :=
  (c_row a =? c_row b) && String.eqb (c_col a) (c_col b) && src_eqb (c_src a) (c_src b).
Definition spec_case (s : schema) (table : string) (o : op) (selects omits : list sitem)
  (ps : list payload) (stored : list Z) (model_key : Z) (where_ids : option (list Z))
  (cells : list cell) (err : bool) : bool := true.
