(* Props_C12.v — property C12: ONLY theorem statements, each closed by [exact] of a lemma of
   C12_Proofs*, followed by Print Assumptions.  run_e / assoc_step_e (C12_Elems: the objects a call
   passes) and assoc_step / links / find_ids / others / run (C12_Model: their primary keys) are the
   functions C12_Check.check_case evaluates against real gorm on every run. *)
From Verif Require Import Base C12_Model C12_Elems C12_Proofs C12_Proofs2 C12_Proofs3 C12_Proofs4 C12_Proofs5 C12_Proofs6 C12_Proofs7 C12_Proofs8.
Open Scope Z_scope.

(* has one / has many / polymorphic has many, struct handle or slice handle of any size, scoped or
   Unscoped: ONE operation changes each owner's stored link set exactly as the finite-set reading
   says (Append = union, or := for the one-slot has one; Replace = :=; Delete = minus; Clear = empty),
   keeps the state well-formed - in particular every owner's in-memory field holds, as a set, exactly
   its links - and, when not Unscoped, keeps every row of the target table. *)
Theorem c12_has_step : forall k os, is_has k -> forall u o s,
  wf_has os s -> op_ok_has k os s o ->
  let s' := assoc_step k os s (u, o) in
  wf_has os s' /\
  (forall i ow, nth_error os i = Some ow -> forall t,
     In t (links k s' ow) <-> In t (spec_owner k o (links k s ow) (values_of os o i))) /\
  (u = false -> forall x, In x (map fst (rows s)) -> In x (map fst (rows s'))).
Proof. exact has_step. Qed.
Print Assumptions c12_has_step.

(* ... lifted to histories of ANY length (fold_left induction): the links stored after the history
   are those the sequence defines *)
Theorem c12_has_links : forall k os, is_has k -> forall ops s A,
  wf_has os s -> hist_ok k os s ops -> length A = length os ->
  (forall i o, nth_error os i = Some o -> seteq (links k s o) (nth i A [])) ->
  let s' := final k os s ops in
  wf_has os s' /\
  (forall i o, nth_error os i = Some o -> seteq (links k s' o) (nth i (spec_run k ops A) [])).
Proof. exact has_history. Qed.
Print Assumptions c12_has_links.

(* the distinct in-memory records of an owner that received every operation are exactly its links *)
Theorem c12_has_memory : forall os s, wf_has os s ->
  forall i o m, nth_error os i = Some o -> nth_error (mem s) i = Some m ->
  forall t, In t m <-> look (rows s) t = Some (Some o).
Proof. exact wf_mem. Qed.
Print Assumptions c12_has_memory.

(* Count and Find report exactly the stored links *)
Theorem c12_has_count_find : forall k os, is_has k -> forall s, NoDup (map fst (rows s)) ->
  find_ids k os s = List.concat (map (links k s) os) /\
  count_ids k os s = Z.of_nat (length (List.concat (map (links k s) os))).
Proof. exact has_find. Qed.
Print Assumptions c12_has_count_find.

(* only links are removed: without Unscoped every associated record survives the whole history *)
Theorem c12_has_targets_survive : forall k os, is_has k -> forall ops s,
  wf_has os s -> hist_ok k os s ops -> Forall (fun uo => fst uo = false) ops ->
  forall x, In x (all_targets k s) -> In x (all_targets k (final k os s ops)).
Proof. exact has_targets_survive. Qed.
Print Assumptions c12_has_targets_survive.

(* many2many (struct or slice handle, scoped or Unscoped): one operation ... *)
Theorem c12_m2m_step : forall os u o s, wf_m2m os s -> op_ok_m2m os s o ->
  let s' := assoc_step KM2M os s (u, o) in
  wf_m2m os s' /\
  (forall i ow, nth_error os i = Some ow ->
     seteq (links KM2M s' ow) (spec_owner KM2M o (links KM2M s ow) (values_of os o i))) /\
  (forall x, In x (tgt s) -> In x (tgt s')).
Proof. exact m2m_step. Qed.
Print Assumptions c12_m2m_step.

(* ... and any history: join rows = what the sequence defines.  op_ok_m2m is `lengths match` plus,
   for Replace on a slice handle, the side condition that c12_refuted_m2m_slice_replace shows to be
   necessary on the current tree (it is vacuous for db.Model(&owner)). *)
Theorem c12_m2m_links : forall os ops s A,
  wf_m2m os s -> hist_ok_g KM2M os (op_ok_m2m os) s ops -> length A = length os ->
  (forall i o, nth_error os i = Some o -> seteq (links KM2M s o) (nth i A [])) ->
  let s' := final KM2M os s ops in
  wf_m2m os s' /\ (forall i o, nth_error os i = Some o -> seteq (links KM2M s' o) (nth i (spec_run KM2M ops A) [])).
Proof. exact m2m_history. Qed.
Print Assumptions c12_m2m_links.

Theorem c12_m2m_targets_survive : forall os ops s,
  wf_m2m os s -> hist_ok_g KM2M os (op_ok_m2m os) s ops ->
  forall x, In x (tgt s) -> In x (tgt (final KM2M os s ops)).
Proof. exact m2m_targets_survive. Qed.
Print Assumptions c12_m2m_targets_survive.

Theorem c12_m2m_count_find : forall os s, wf_m2m os s ->
  find_ids KM2M os s = List.concat (map (links KM2M s) os) /\
  count_ids KM2M os s = Z.of_nat (length (List.concat (map (links KM2M s) os))).
Proof. exact m2m_find. Qed.
Print Assumptions c12_m2m_count_find.

(* belongs to: the owners' foreign keys after any history, scoped or Unscoped, are those the
   sequence defines (a one-slot relation: Append = Replace = :=) *)
Theorem c12_belongs_links : forall os ops s A,
  wf_bt os s -> hist_ok_g KBelongs os (op_ok_bt os) s ops -> length A = length os ->
  (forall i o, nth_error os i = Some o -> seteq (links KBelongs s o) (nth i A [])) ->
  let s' := final KBelongs os s ops in
  wf_bt os s' /\ (forall i o, nth_error os i = Some o -> seteq (links KBelongs s' o) (nth i (spec_run KBelongs ops A) [])).
Proof. exact bt_history. Qed.
Print Assumptions c12_belongs_links.

(* belongs to: along EVERY history, scoped or Unscoped, every foreign key of the handle keeps pointing
   at a record, so Count and Find stay exact (c12_belongs_count_find).  (Unscoped Replace used to
   delete the record it had just linked: fixed in /repo 5e2c10c.) *)
Theorem c12_belongs_links_point_at_records : forall os ops s,
  wf_bt os s -> hist_ok_g KBelongs os (op_ok_bt os) s ops ->
  tgt_ok os s -> tgt_ok os (final KBelongs os s ops).
Proof. exact bt_links_point_at_records. Qed.
Print Assumptions c12_belongs_links_point_at_records.

(* belongs to, histories WITHOUT Unscoped: records survive and every foreign key keeps pointing at
   a record *)
Theorem c12_belongs_scoped_partial : forall os ops s,
  wf_bt os s -> hist_ok_g KBelongs os (op_ok_bt os) s ops -> Forall (fun uo => fst uo = false) ops ->
  tgt_ok os s ->
  (forall x, In x (tgt s) -> In x (tgt (final KBelongs os s ops))) /\ tgt_ok os (final KBelongs os s ops).
Proof. exact bt_scoped_targets. Qed.
Print Assumptions c12_belongs_scoped_partial.

Theorem c12_belongs_count_find : forall os s, wf_bt os s -> tgt_ok os s ->
  NoDup (find_ids KBelongs os s) /\
  (forall t, In t (find_ids KBelongs os s) <-> exists o, In o os /\ LB s o t).
Proof. exact bt_find. Qed.
Print Assumptions c12_belongs_count_find.

(* ---- the calls as Go makes them: objects, with whatever their foreign-key field holds in memory, and
   arguments that are elements of the owner's own relation field (C12_Elems, evaluated by check_case) ----
   ONE operation on objects is the operation of C12_Model on their primary keys: for EVERY argument list,
   whatever key a passed object carries in memory (unset, another owner's) and whichever arguments are
   references into the field (they name the records the field held when the call was made, in any order) *)
Theorem c12_objects_step : forall k os e u eo,
  to_st (assoc_step_e k os e (u, eo)) = assoc_step k os (to_st e) (u, erase_op (e_mem e) eo).
Proof. exact step_refines. Qed.
Print Assumptions c12_objects_step.

(* ... any history: the tables and the in-memory ids after a history of calls on objects are those of
   the erased history *)
Theorem c12_objects_history : forall k os ops e,
  to_st (final_e k os e ops) = final k os (to_st e) (erase_hist k os e ops) /\
  map to_st (run_e k os e ops) = map fst (run k os (to_st e) (erase_hist k os e ops)).
Proof. exact objects_history. Qed.
Print Assumptions c12_objects_history.

(* so the links stored after a history of calls on objects are what the finite-set reading of the calls
   defines (has one / has many; the other kinds follow in the same way from c12_objects_history) *)
Theorem c12_has_links_objects : forall k os, is_has k -> forall eops e A,
  wf_has os (to_st e) -> hist_ok k os (to_st e) (erase_hist k os e eops) -> length A = length os ->
  (forall i o, nth_error os i = Some o -> seteq (links k (to_st e) o) (nth i A [])) ->
  let e' := final_e k os e eops in
  wf_has os (to_st e') /\
  (forall i o, nth_error os i = Some o ->
     seteq (links k (to_st e') o) (nth i (spec_run k (erase_hist k os e eops) A) [])).
Proof. exact has_history_e. Qed.
Print Assumptions c12_has_links_objects.

(* the in-memory value names the same link as the stored one: after any history, admissible or not,
   every element a has-one / has-many field holds carries ITS OWNER's key in its foreign-key field *)
Theorem c12_has_memory_keys : forall k os, is_has k -> forall ops e,
  keys_ok os e -> keys_ok os (final_e k os e ops).
Proof. exact keys_history. Qed.
Print Assumptions c12_has_memory_keys.

(* ---- only the links of THIS relation and handle change ----
   has one / has many: after one operation the links of the same table that do not belong to the handle
   (other owners; rows of another polymorphic owner type) are those of before, minus the links of the
   targets given to the handle - the clause C12_Check.step_ok evaluates on the observed snapshots *)
Theorem c12_has_others_step : forall k os, is_has k -> forall u o s,
  wf_has os s -> op_ok_has k os s o ->
  forall p, In p (others k os (assoc_step k os s (u, o))) <->
            In p (others k os s) /\ ~ In (fst p) (List.concat (op_values o (length os))).
Proof. exact has_others_step. Qed.
Print Assumptions c12_has_others_step.

(* ... histories of any length: a link of an outside owner survives exactly when its target is never
   given to the handle *)
Theorem c12_has_others_history : forall k os, is_has k -> forall ops s,
  wf_has os s -> hist_ok k os s ops ->
  forall p, In p (others k os (final k os s ops)) <-> In p (others k os s) /\ ~ In (fst p) (given_hist os ops).
Proof. exact has_others_history. Qed.
Print Assumptions c12_has_others_history.

(* many2many / belongs to: EVERY history, admissible or not, scoped or Unscoped, leaves the join rows /
   foreign keys of the owners outside the handle exactly as they were (the very list) *)
Theorem c12_m2m_others : forall os ops s, others KM2M os (final KM2M os s ops) = others KM2M os s.
Proof. exact m2m_others_history. Qed.
Print Assumptions c12_m2m_others.

Theorem c12_belongs_others : forall os ops s, others KBelongs os (final KBelongs os s ops) = others KBelongs os s.
Proof. exact bt_others_history. Qed.
Print Assumptions c12_belongs_others.

(* where the code departs from the property (each reproduced on real gorm, corpus/C12) *)
Theorem c12_refuted_m2m_slice_replace :
  let s := final KM2M [1; 2] m2m_init [(false, OAppend [[11]; [12]]); (false, OReplace [[12]; [11]])] in
  links KM2M s 1 = [11; 12] /\
  spec_run KM2M [(false, OAppend [[11]; [12]]); (false, OReplace [[12]; [11]])] [[]; []] = [[12]; [11]].
Proof. exact refuted_m2m_slice_replace. Qed.
Print Assumptions c12_refuted_m2m_slice_replace.

(* the admissibility hypothesis (no target is given to two owners of one handle) cannot be dropped *)
Theorem c12_refuted_steal :
  let ops := [(false, OAppend [[11]; []]); (false, OAppend [[]; [11]])] in
  let s := final KHasMany [1; 2] hm_init ops in
  links KHasMany s 1 = [] /\ nth 0 (mem s) [] = [11] /\ spec_run KHasMany ops [[]; []] = [[11]; [11]].
Proof. exact refuted_steal. Qed.
Print Assumptions c12_refuted_steal.

(* non-vacuity: a well-formed state and an admissible history (Append, Unscoped Delete, Replace, Clear) *)
Example c12_has_instance : wf_has [1] ex_init /\ hist_ok KHasMany [1] ex_init ex_ops.
Proof. exact has_instance. Qed.

(* the inputs of the two belongs-to defects fixed in /repo (d23ce2a, 75c7076) behave as specified *)
Example c12_former_belongs_unscoped_delete :
  let s := final KBelongs [1] bt_init [(false, OAppend [[11]]); (true, ODelete [12])] in
  links KBelongs s 1 = [11] /\ tgt s = [11; 12] /\ find_ids KBelongs [1] s = [11].
Proof. exact former_belongs_unscoped_delete. Qed.

Example c12_former_belongs_unscoped_clear :
  let s := final KBelongs [1] bt_init [(false, OAppend [[11]]); (true, OClear)] in
  links KBelongs s 1 = [] /\ tgt s = [12] /\
  map snd (run KBelongs [1] bt_init [(false, OAppend [[11]]); (true, OClear)]) = [false; false].
Proof. exact former_belongs_unscoped_clear. Qed.

(* the input of the third belongs-to defect fixed in /repo (5e2c10c): Unscoped().Replace(12) removes the
   old record and keeps the new one; replacing a record by itself keeps it *)
Example c12_former_belongs_unscoped_replace :
  let s := final KBelongs [1] bt_init [(false, OAppend [[11]]); (true, OReplace [[12]])] in
  links KBelongs s 1 = [12] /\ tgt s = [12] /\ find_ids KBelongs [1] s = [12].
Proof. exact former_belongs_unscoped_replace. Qed.

Example c12_belongs_unscoped_replace_same :
  let s := final KBelongs [1] bt_init [(false, OAppend [[11]]); (true, OReplace [[11]])] in
  links KBelongs s 1 = [11] /\ tgt s = [11; 12] /\ find_ids KBelongs [1] s = [11].
Proof. exact belongs_unscoped_replace_same. Qed.

(* a record that carries owner 1's key in memory is appended to owner 2: stored link, Find and the
   in-memory element all name owner 2, owner 1 keeps its other record *)
Example c12_moved_record :
  let e := mk_est [(11, Some 1); (12, Some 1)] [] [] [[]] in
  let e' := final_e KHasMany [2] e [(false, EAppend [[AObj 11 (Some 1)]])] in
  links KHasMany (to_st e') 2 = [11] /\ links KHasMany (to_st e') 1 = [12] /\
  find_ids KHasMany [2] (to_st e') = [11] /\ e_mem e' = [[(11, Some 2)]].
Proof. exact moved_record. Qed.

(* Replace(&o.Rel[2], &o.Rel[0]): exactly those two records stay *)
Example c12_replace_by_own_elements :
  let e := mk_est [(10, Some 1); (11, Some 1); (12, Some 1)] [] [] [[(10, Some 1); (11, Some 1); (12, Some 1)]] in
  let e' := final_e KHasMany [1] e [(false, EReplace [[ARef 2; ARef 0]])] in
  links KHasMany (to_st e') 1 = [10; 12] /\ e_mem e' = [[(12, Some 1); (10, Some 1)]] /\
  erase_hist KHasMany [1] e [(false, EReplace [[ARef 2; ARef 0]])] = [(false, OReplace [[12; 10]])].
Proof. exact replace_by_own_elements. Qed.
