(* C14_Plumb.v — the session plumbing of prepared-statement mode (gorm.go DB.Session with
   Session{PrepareStmt:true}, finisher_api.go DB.Begin / DB.Transaction): which kind of ConnPool a
   derived handle carries.  Modelled code:
     Session: `switch t := tx.Statement.ConnPool.(type) { case Tx: PreparedStmtTX{Tx: t, ...}
               default: PreparedStmtDB{ConnPool: db.Config.ConnPool, Mux/Stmts shared} }`
     Begin:   *sql.DB -> *sql.Tx ; *PreparedStmtDB -> *PreparedStmtTX (PreparedStmtDB.BeginTx)
   A statement runs on the transaction's connection iff the handle's ConnPool is a Tx kind, and goes
   through the cache iff it is a Prepared kind. *)
From Verif Require Import Base.

Inductive ckind := KPlain | KPlainTx | KPrepDB | KPrepTX.
Inductive pstep :=
| PSess       (* Session(&Session{}) *)
| PSessPrep   (* Session(&Session{PrepareStmt: true}) *)
| PBegin.     (* Begin() or the handle given to a Transaction block *)

Definition in_tx (k : ckind) : bool := match k with KPlainTx | KPrepTX => true | _ => false end.
Definition prepared (k : ckind) : bool := match k with KPrepDB | KPrepTX => true | _ => false end.

Definition papply (k : ckind) (st : pstep) : ckind :=
  match st with
  | PSess => k
  | PSessPrep => match k with KPlain | KPrepDB => KPrepDB | KPlainTx | KPrepTX => KPrepTX end
  | PBegin => match k with KPlain => KPlainTx | KPrepDB => KPrepTX | k' => k' end
  end.
Definition pfinal (base_prepared : bool) (steps : list pstep) : ckind :=
  fold_left papply steps (if base_prepared then KPrepDB else KPlain).

Definition is_begin (st : pstep) := match st with PBegin => true | _ => false end.
Definition is_sessprep (st : pstep) := match st with PSessPrep => true | _ => false end.

(* one plumbing case: the handle is derived by [p_steps] from a plain or prepared-mode handle,
   one INSERT is executed through it, an open transaction is then rolled back *)
Record plumb := mk_plumb {
  p_base : bool; p_steps : list pstep;
  o_ptx : bool;     (* the driver executed the INSERT on a connection that was inside a transaction *)
  o_pprep : bool;   (* the INSERT went through a prepared statement (driver stmt_exec) *)
  o_psurv : nat;    (* rows of the INSERT present after the rollback *)
  o_perr : nat      (* errors reported by any call *)
}.

Definition plumb_model_agrees (p : plumb) : bool :=
  let k := pfinal (p_base p) (p_steps p) in
  Bool.eqb (o_ptx p) (in_tx k) && Bool.eqb (o_pprep p) (prepared k)
  && (o_psurv p =? (if in_tx k then 0 else 1)) && (o_perr p =? 0).

(* the property: prepared-statement mode is transparent for transactions (a statement issued
   inside Begin/Transaction runs in that transaction whatever sessions were derived, and is undone
   by Rollback), and once enabled it stays enabled for derived handles *)
Definition plumb_spec (p : plumb) : bool :=
  let tx := existsb is_begin (p_steps p) in
  (o_perr p =? 0) && Bool.eqb (o_ptx p) tx && (o_psurv p =? (if tx then 0 else 1))
  && Bool.eqb (o_pprep p) (p_base p || existsb is_sessprep (p_steps p)).

Lemma in_tx_fold steps : forall k, in_tx (fold_left papply steps k) = in_tx k || existsb is_begin steps.
Proof.
  induction steps as [|st r IH]; intro k; cbn; [rewrite orb_false_r; reflexivity|].
  rewrite IH. destruct st, k; reflexivity.
Qed.
Lemma prepared_fold steps : forall k, prepared (fold_left papply steps k) = prepared k || existsb is_sessprep steps.
Proof.
  induction steps as [|st r IH]; intro k; cbn; [rewrite orb_false_r; reflexivity|].
  rewrite IH. destruct st, k; reflexivity.
Qed.

Lemma session_stays_in_transaction base steps :
  in_tx (pfinal base steps) = existsb is_begin steps.
Proof. unfold pfinal. rewrite in_tx_fold. destruct base; reflexivity. Qed.
Lemma prepared_mode_is_sticky base steps :
  prepared (pfinal base steps) = base || existsb is_sessprep steps.
Proof. unfold pfinal. rewrite prepared_fold. destruct base; reflexivity. Qed.

(* the model of the plumbing satisfies the specification the checker evaluates *)
Lemma plumb_model_meets_spec p : plumb_model_agrees p = true -> plumb_spec p = true.
Proof.
  unfold plumb_model_agrees, plumb_spec.
  rewrite session_stays_in_transaction, prepared_mode_is_sticky. intro H.
  repeat (apply andb_prop in H; let H2 := fresh "G" in destruct H as [H H2]).
  rewrite H, G, G0, G1. reflexivity.
Qed.
