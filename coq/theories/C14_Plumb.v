(* C14_Plumb.v — the session plumbing of prepared-statement mode (gorm.go DB.Session with
   Session{PrepareStmt:true}, finisher_api.go DB.Begin / DB.Transaction): which kind of ConnPool a
   derived handle carries.  Modelled code:
     Session: `switch t := tx.Statement.ConnPool.(type) { case Tx: PreparedStmtTX{Tx: t, ...}
               default: PreparedStmtDB{ConnPool: db.Config.ConnPool, Mux/Stmts shared} }`
     Begin:   *sql.DB -> *sql.Tx ; *PreparedStmtDB -> *PreparedStmtTX (PreparedStmtDB.BeginTx)
   A statement runs on the transaction's connection iff the handle's ConnPool is a Tx kind, and goes
   through the cache iff it is a Prepared kind. *)
From Verif Require Import Base.

Inductive ckind := KPlain | KPlainTx | KPrepDB | KPrepTX | KConn.
Inductive pstep :=
| PSess       (* Session(&Session{}) *)
| PSessPrep   (* Session(&Session{PrepareStmt: true}) *)
| PBegin      (* Begin() or the handle given to a Transaction block *)
| PConn.      (* the handle given to a Connection block: ConnPool = a dedicated *sql.Conn *)

Definition in_tx (k : ckind) : bool := match k with KPlainTx | KPrepTX => true | _ => false end.
Definition prepared (k : ckind) : bool := match k with KPrepDB | KPrepTX => true | _ => false end.

Definition papply (k : ckind) (st : pstep) : ckind :=
  match st with
  | PSess => k
  | PSessPrep => match k with
                 | KPlain | KPrepDB | KConn => KPrepDB   (* default arm: a cache handle over the POOL *)
                 | KPlainTx | KPrepTX => KPrepTX
                 end
  | PBegin => match k with KPlain | KConn => KPlainTx | KPrepDB => KPrepTX | k' => k' end
  | PConn => match k with KPlain | KPrepDB | KConn => KConn | k' => k' end
  end.
Definition pfinal (base_prepared : bool) (steps : list pstep) : ckind :=
  fold_left papply steps (if base_prepared then KPrepDB else KPlain).

Definition is_begin (st : pstep) := match st with PBegin => true | _ => false end.
Definition is_sessprep (st : pstep) := match st with PSessPrep => true | _ => false end.

(* one plumbing case: the handle is derived by [p_steps] from a plain or prepared-mode handle,
   one INSERT is executed through it, an open transaction is then rolled back *)
Record plumb := mk_plumb {
  p_base : bool; p_steps : list pstep;
  o_ptx : bool;     (* the driver executed the INSERT on a connection that was inside a transaction *)
  o_pprep : bool;   (* the INSERT went through a prepared statement (driver stmt_exec) *)
  o_psurv : nat;    (* rows of the INSERT present after the rollback *)
  o_perr : nat;     (* errors reported by any call *)
  o_preuse : nat;   (* errors of later uses of the same text: non-prepared, from a fresh prepared-mode
                       session, and inside a prepared-mode transaction (all must work alike) *)
  (* the same program in NON-prepared mode (plain base handle, every Session{PrepareStmt} replaced
     by Session{}): the reference of "same rows as in non-prepared mode" *)
  o_rtx : bool; o_rsurv : nat; o_rerr : nat;
  (* the program uses forms outside the small model above (commit, Begin with options, failing
     Begin, nested Begin / Transaction blocks with their save points, SavePoint/RollbackTo, a
     Connection block inside a transaction): judged against the reference only *)
  p_exotic : bool
}.

(* prepared mode is transparent: same connection class, same rows left, as many failing calls *)
Definition same_as_reference (p : plumb) : bool :=
  Bool.eqb (o_ptx p) (o_rtx p) && (o_psurv p =? o_rsurv p) && (o_perr p =? o_rerr p) && (o_preuse p =? 0).

Definition plumb_model_agrees (p : plumb) : bool :=
  let k := pfinal (p_base p) (p_steps p) in
  same_as_reference p &&
  (p_exotic p ||
   (Bool.eqb (o_ptx p) (in_tx k) && Bool.eqb (o_pprep p) (prepared k)
    && (o_psurv p =? (if in_tx k then 0 else 1)) && (o_perr p =? 0) && (o_preuse p =? 0))).

(* the property: prepared-statement mode is transparent for transactions (a statement issued
   inside Begin/Transaction runs in that transaction whatever sessions were derived, and is undone
   by Rollback), and once enabled it stays enabled for derived handles *)
(* read off the steps: prepared mode is switched on by the base handle or a Session{PrepareStmt},
   and left by entering a Connection block *)
Definition spec_prepared (base : bool) (steps : list pstep) : bool :=
  fold_left (fun f st => match st with PSessPrep => true | PConn => false | _ => f end) steps base.
(* derivations gorm accepts: no Connection block inside a transaction *)
Fixpoint valid_steps (intx : bool) (steps : list pstep) : bool :=
  match steps with
  | [] => true
  | PBegin :: r => valid_steps true r
  | PConn :: r => negb intx && valid_steps intx r
  | _ :: r => valid_steps intx r
  end.

Definition plumb_spec (p : plumb) : bool :=
  let tx := existsb is_begin (p_steps p) in
  same_as_reference p &&
  (p_exotic p ||
   ((o_perr p =? 0) && (o_preuse p =? 0) && Bool.eqb (o_ptx p) tx && (o_psurv p =? (if tx then 0 else 1))
    && Bool.eqb (o_pprep p) (spec_prepared (p_base p) (p_steps p)))).

Lemma in_tx_fold steps : forall k, in_tx (fold_left papply steps k) = in_tx k || existsb is_begin steps.
Proof.
  induction steps as [|st r IH]; intro k; cbn; [rewrite orb_false_r; reflexivity|].
  rewrite IH. destruct st, k; reflexivity.
Qed.
(* a Connection block switches to the dedicated connection (not prepared); otherwise prepared
   mode, once on, stays on *)
Definition is_conn (st : pstep) := match st with PConn => true | _ => false end.
Lemma prepared_fold steps : existsb is_conn steps = false ->
  forall k, prepared (fold_left papply steps k) = prepared k || existsb is_sessprep steps.
Proof.
  induction steps as [|st r IH]; intros Hc k; cbn; [rewrite orb_false_r; reflexivity|].
  cbn in Hc. apply orb_false_elim in Hc. destruct Hc as [Hc1 Hc2].
  rewrite (IH Hc2). destruct st, k; try reflexivity; discriminate.
Qed.

Lemma session_stays_in_transaction base steps :
  in_tx (pfinal base steps) = existsb is_begin steps.
Proof. unfold pfinal. rewrite in_tx_fold. destruct base; reflexivity. Qed.
Lemma prepared_mode_is_sticky base steps : existsb is_conn steps = false ->
  prepared (pfinal base steps) = base || existsb is_sessprep steps.
Proof. intro Hc. unfold pfinal. rewrite (prepared_fold _ Hc). destruct base; reflexivity. Qed.

Lemma prepared_spec_fold steps : forall k, valid_steps (in_tx k) steps = true ->
  prepared (fold_left papply steps k) = spec_prepared (prepared k) steps.
Proof.
  unfold spec_prepared.
  induction steps as [|st r IH]; intros k Hv; cbn; [reflexivity|].
  destruct st; cbn in Hv.
  - apply IH. exact Hv.
  - rewrite IH; [destruct k; reflexivity | destruct k; exact Hv].
  - rewrite IH; [destruct k; reflexivity | destruct k; exact Hv].
  - apply andb_prop in Hv. destruct Hv as [Hn Hv]. rewrite IH; destruct k; try discriminate; try reflexivity; exact Hv.
Qed.

(* the model of the plumbing satisfies the specification the checker evaluates *)
Lemma plumb_model_meets_spec p : valid_steps false (p_steps p) = true ->
  plumb_model_agrees p = true -> plumb_spec p = true.
Proof.
  intro Hv. unfold plumb_model_agrees, plumb_spec.
  rewrite session_stays_in_transaction. unfold pfinal at 1.
  rewrite prepared_spec_fold by (destruct (p_base p); exact Hv).
  replace (prepared (if p_base p then KPrepDB else KPlain)) with (p_base p) by (destruct (p_base p); reflexivity).
  intro H. apply andb_prop in H. destruct H as [Hr H]. rewrite Hr. cbn [andb].
  destruct (p_exotic p); [reflexivity|]. cbn [orb] in *.
  repeat (apply andb_prop in H; let H2 := fresh "G" in destruct H as [H H2]).
  repeat (apply andb_true_intro; split); assumption.
Qed.
