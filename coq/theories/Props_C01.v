(* Props_C01.v — property C01: ONLY theorem statements, each closed by [exact] of a lemma from
   C01_Proofs*, followed by Print Assumptions. *)
From Verif Require Import Base C01_Model C01_Stmt C01_Spec C01_Proofs.

(* "?" dialect: a rendered text whose pieces carry no '?' byte of their own has exactly one
   placeholder per bound value *)
Theorem c01_placeholders_qmark_pieces : forall ps,
  no_char "?" ps = true -> no_hidden ps = true ->
  placeholders false (render false ps) = nseq (length (vars_of ps)).
Proof. exact placeholders_qmark. Qed.
Print Assumptions c01_placeholders_qmark_pieces.
