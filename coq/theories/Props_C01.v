(* Props_C01.v — property C01: ONLY theorem statements, each closed by [exact] of a lemma from
   C01_Proofs*, followed by Print Assumptions.
   [statement inl ti chain f] = the clause tree real gorm assembles for a handle on table [ti], the
   chain calls [chain] and the finisher [f] (C01_Stmt); [bval numbered e v] = what the Build methods
   write for it (C01_Model): SQL bytes and bound values; [render] writes "?" or "$n" for each value.
   [wfb] is the property's domain: every template has as many '?' as arguments (or only @names that
   are all defined), no '$', no digit at its front or right after a '?'. *)
From Verif Require Import Base C01_Model C01_Stmt C01_Spec C01_Proofs C01_Proofs2 C01_Proofs7 C01_Proofs9 C01_Keys C01_ShapeCond.

(* the values reach the driver as bound parameters, in the left-to-right order of the arguments:
   slices one per element, empty slices none (or one NULL right after '('), nil one NULL, []byte one
   value, expressions and sub-queries their own arguments in place *)
Theorem c01_vars_in_order : forall numbered e v,
  tinfo_ok e = true -> wfb v = true -> vars_of (bval numbered e v) = bound_values v.
Proof. exact vars_in_order. Qed.
Print Assumptions c01_vars_in_order.

(* exactly one placeholder per bound value, numbered 1..n from left to right, under both
   placeholder styles (including sub-queries, whose numbering continues, and already built
   sub-queries, whose "$k" are renumbered) *)
Theorem c01_placeholders : forall numbered e v,
  tinfo_ok e = true -> wfb v = true ->
  placeholders numbered (render numbered (bval numbered e v)) = nseq (length (vars_of (bval numbered e v))).
Proof. exact placeholders_in_order. Qed.
Print Assumptions c01_placeholders.

(* the same for every statement built from a chain and a finisher *)
Theorem c01_statement : forall numbered inl ti chain f,
  let tv := statement inl ti chain f in
  tinfo_ok (fst tv) = true -> wfb (snd tv) = true ->
  vars_of (bval numbered (fst tv) (snd tv)) = bound_values (snd tv)
  /\ placeholders numbered (render numbered (bval numbered (fst tv) (snd tv)))
     = nseq (length (bound_values (snd tv))).
Proof.
  intros numbered inl ti chain f tv He Hw. split; [apply vars_in_order; assumption|].
  rewrite <- (vars_in_order numbered (fst tv) (snd tv) He Hw). apply placeholders_in_order; assumption.
Qed.
Print Assumptions c01_statement.

(* non-interference: the SQL text is a function of the shape (templates, identifiers, slice
   lengths, nil-ness, []byte lengths) and never of an argument value; no hypothesis on the domain *)
Theorem c01_text_value_independent : forall numbered e v v',
  shape v = shape v' -> render numbered (bval numbered e v) = render numbered (bval numbered e v').
Proof. exact text_shape_only. Qed.
Print Assumptions c01_text_value_independent.

(* for two statements (chain + finisher) whose clause trees have the same shape *)
Theorem c01_statement_text_value_independent : forall numbered inl ti chain f chain' f',
  let tv := statement inl ti chain f in
  let tv' := statement inl ti chain' f' in
  fst tv = fst tv' -> shape (snd tv) = shape (snd tv') ->
  render numbered (bval numbered (fst tv) (snd tv)) = render numbered (bval numbered (fst tv') (snd tv')).
Proof.
  intros numbered inl ti chain f chain' f' tv tv' He Hs. rewrite He. apply text_shape_only. exact Hs.
Qed.
Print Assumptions c01_statement_text_value_independent.

(* rendered texts over pieces (used by the two theorems above) *)
Theorem c01_placeholders_qmark_pieces : forall ps,
  no_char "?" ps = true -> no_hidden ps = true ->
  placeholders false (render false ps) = nseq (length (vars_of ps)).
Proof. exact placeholders_qmark. Qed.
Print Assumptions c01_placeholders_qmark_pieces.

Theorem c01_placeholders_numbered_pieces : forall ps,
  no_char "$" ps = true -> no_hidden ps = true -> okd ps = true ->
  placeholders true (render true ps) = nseq (length (vars_of ps)).
Proof. exact placeholders_numbered. Qed.
Print Assumptions c01_placeholders_numbered_pieces.

(* Statement.BuildCondition commutes with the erasure of values: conditions GIVEN with the same shape
   (same template / column / map keys / struct zero-ness / list kinds and lengths / nil-ness, any values)
   are built into condition trees of the same shape - for every condition form (string, @named,
   column+value, expression, grouped handle, map, struct, primary keys) *)
Theorem c01_build_condition_shape : forall q args q' args',
  shape q = shape q' -> map shape args = map shape args' ->
  map shape (build_condition q args) = map shape (build_condition q' args').
Proof. exact build_condition_same_shape. Qed.
Print Assumptions c01_build_condition_shape.

(* hence the SQL text of a WHERE clause is a function of the shape of the arguments as the caller
   gave them: no argument value can reach the text through the way a condition is built *)
Theorem c01_condition_text_from_source_shape : forall numbered e q args q' args',
  shape q = shape q' -> map shape args = map shape args' ->
  render numbered (bval numbered e (VWhere (build_condition q args)))
  = render numbered (bval numbered e (VWhere (build_condition q' args'))).
Proof.
  intros numbered e q args q' args' H1 H2. apply text_shape_only. cbn [shape]. f_equal.
  apply build_condition_same_shape; assumption.
Qed.
Print Assumptions c01_condition_text_from_source_shape.

(* primary-key conditions (First(&x, key), Find(&x, k1, k2), Where(key), Delete(&x, keys)), for ALL keys:
   a driver.Valuer that yields a non-nil value (a []byte included, 70948e8), given as the only key, is
   ONE key whatever its Go kind - the condition is `key column = ?`, bound once to the Valuer's value *)
Theorem c01_valuer_key_bound_once : forall numbered e s, scalar_key s ->
  map (bval numbered e) (build_condition (VDrv s) []) =
  [ptext (quote_col e current_table primary_key "" false) ++ pstr " = " ++ [PV s]].
Proof. exact valuer_key_bound_once. Qed.
Print Assumptions c01_valuer_key_bound_once.

(* a []byte as the only argument is one key, handed whole to AddVar *)
Theorem c01_bytes_key : forall b, build_condition (VS (SBytes b)) [] = [VIn primary_column [VS (SBytes b)]].
Proof. exact bytes_key_cond. Qed.
Print Assumptions c01_bytes_key.

(* a list as the only argument is the list of keys, whatever its element type (LU8 included) *)
Theorem c01_list_key : forall k x l, build_condition (VList k (x :: l)) [] = [VIn primary_column (x :: l)].
Proof. exact list_key_cond. Qed.
Print Assumptions c01_list_key.

(* several keys: IN over all of them; a Valuer or a list among them reaches AddVar whole *)
Theorem c01_many_keys : forall q a args,
  plain_key q = true -> unwrapped_nonnil q = true -> forallb plain_key (a :: args) = true ->
  build_condition q (a :: args) = [VIn primary_column (q :: a :: args)].
Proof. exact many_keys_cond. Qed.
Print Assumptions c01_many_keys.

(* non-vacuity: a chain with a named template, a slice after '(', a sub-query, an already built
   sub-query with eleven values, nil, a driver.Valuer and a finisher adding LIMIT is in the domain *)
Example c01_domain_instance :
  let ti := mk_tinfo "items" (Some "id"%string) [("ID", "id"); ("Name", "name")]%string in
  let chain :=
    [KCond KWh (VQStr "name = @n OR code <> @n") [VNamed "n" (VS (SStr "x'?"))];
     KCond KWh (VQStr "age IN (?) AND data = ?") [VList LKnown [VS (SInt 1); VS (SInt 2)]; VS (SBytes "ab")];
     KCond KOr (VQStr "id IN (?)") [VSub ti [KSelectCols ["id"%string]; KCond KWh (VQStr "code") [VDrv SNull]]];
     KCond KNot (VQStr "id IN (?)")
       [VRawSub "SELECT id FROM items WHERE name IN (?,?,?,?,?,?,?,?,?,?) OR code = ?"
          (map (fun z => VS (SInt z)) [1;2;3;4;5;6;7;8;9;10;11]%Z)]] in
  let tv := statement false ti chain (FFirst []) in
  tinfo_ok (fst tv) = true /\ wfb (snd tv) = true /\ length (bound_values (snd tv)) = 17%nat.
Proof. vm_compute. repeat split. Qed.
