(* C03_Proofs.v — lemmas about the codecs of C03_Model. *)
From Verif Require Import Base C03_Model.
Open Scope Z_scope.

Lemma enc_absent : forall k, enc k GAbsent = Some DNull.
Proof. destruct k; reflexivity. Qed.
