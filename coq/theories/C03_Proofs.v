(* C03_Proofs.v — codecs (enc/dec round trip per kind, composed structurally) and schema
   flattening of C03_Model. *)
From Verif Require Import Base C03_Model.
Open Scope Z_scope.

(* ------------------------------------------------------------------ *)
(* kinds the field parser can produce: a serializer wraps the shapes it supports *)
Fixpoint wfk (k : kind) : bool :=
  match k with
  | KPtr k' | KNull k' | KCustom k' => wfk k'
  | KSer SUnix k' =>
      match k' with KInt _ | KUint _ | KPtr (KInt _) | KPtr (KUint _) => true | _ => false end
  | KSer _ k' => match k' with KStr | KPtr KStr => true | _ => false end
  | _ => true
  end.

Ltac brk := repeat (match goal with
   | H : Some _ = Some _ |- _ => inversion H; clear H; subst
   | H : None = Some _ |- _ => discriminate H
   | H : false = true |- _ => discriminate H
   | H : context [if ?c then _ else _] |- _ => destruct c
   | H : context [match ?x with _ => _ end] |- _ => is_var x; destruct x; cbn in H
   end; try discriminate).

Lemma enc_absent : forall k, enc k GAbsent = Some DNull.
Proof. destruct k; reflexivity. Qed.

Lemma dec_null : forall k, dec k DNull = zero k.
Proof.
  induction k as [w|w| | | |w| |k IH|k IH|k IH|s k IH]; cbn [dec zero]; try reflexivity.
  - exact IH.
  - destruct s; try exact IH; reflexivity.
Qed.

Lemma wtb_absent : forall k, wtb k GAbsent = false.
Proof.
  induction k as [w|w| | | |w| |k IH|k IH|k IH|s k IH]; cbn; try reflexivity.
  - exact IH.
  - destruct s; try exact IH. destruct k as [ | | | | | | |k'| | | ]; try reflexivity. destruct k'; reflexivity.
Qed.

(* a well-typed value stored as NULL is the nil value *)
Lemma enc_null_nil : forall k v, wtb k v = true -> enc k v = Some DNull -> v = GNil.
Proof.
  induction k as [w|w| | | |w| |k IH|k IH|k IH|s k IH]; intros v Hw He.
  - destruct v; cbn in *; try discriminate. destruct (int_ok w z); discriminate.
  - destruct v; cbn in *; try discriminate. destruct (uint_ok w z); discriminate.
  - destruct v; cbn in *; try discriminate.
  - destruct v; cbn in *; try discriminate.
  - destruct v; cbn in *; try discriminate. reflexivity.
  - destruct v; cbn in *; try discriminate.
  - destruct v; cbn in *; try discriminate.
  - destruct v; cbn in *; try discriminate; try reflexivity.
    apply andb_prop in Hw. destruct Hw as [_ Hn]. rewrite He in Hn. discriminate.
  - destruct v; cbn in *; try discriminate; try reflexivity.
    apply andb_prop in Hw. destruct Hw as [_ Hn]. rewrite He in Hn. discriminate.
  - cbn in Hw. destruct v; try (apply IH; [exact Hw | exact He]).
    rewrite wtb_absent in Hw. discriminate.
  - destruct s.
    + cbn in Hw. destruct v; try (apply IH; [exact Hw | exact He]). rewrite wtb_absent in Hw. discriminate.
    + cbn in Hw. destruct v; try (apply IH; [exact Hw | exact He]). rewrite wtb_absent in Hw. discriminate.
    + destruct k as [w|w| | | |w| |k'|k'|k'|s' k']; cbn in Hw; try discriminate.
      * destruct v; try discriminate. cbn in He. destruct (int_ok w z); discriminate.
      * destruct v; try discriminate. cbn in He. destruct (uint_ok w z); discriminate.
      * destruct k'; try discriminate; destruct v; try discriminate; try reflexivity;
          destruct v; try discriminate; cbn in He; try discriminate.
        -- destruct (int_ok w z); discriminate.
        -- destruct (uint_ok w z); discriminate.
Qed.

(* ---- the round trip, without the storage step ---- *)
Lemma roundtrip0 : forall k v d,
  wfk k = true -> wtb k v = true -> enc k v = Some d -> dec k d = v.
Proof.
  induction k as [w|w| | | |w| |k IH|k IH|k IH|s k IH]; intros v d Hk Hw He.
  - destruct v; cbn in *; try discriminate. destruct (int_ok w z); inversion He; reflexivity.
  - destruct v; cbn in *; try discriminate. destruct (uint_ok w z); inversion He; reflexivity.
  - destruct v; cbn in *; try discriminate. inversion He. destruct b; reflexivity.
  - destruct v; cbn in *; try discriminate. inversion He; reflexivity.
  - destruct v; cbn in *; try discriminate; inversion He; reflexivity.
  - destruct v; cbn in *; try discriminate. inversion He; reflexivity.
  - destruct v; cbn in *; try discriminate. inversion He; reflexivity.
  - destruct v; cbn in Hw; try discriminate.
    + cbn in He. inversion He. reflexivity.
    + apply andb_prop in Hw. destruct Hw as [Hw Hn]. cbn in He.
      cbn [dec]. rewrite (IH v d Hk Hw He).
      destruct d; try reflexivity. rewrite He in Hn. discriminate.
  - destruct v; cbn in Hw; try discriminate.
    + cbn in He. inversion He. reflexivity.
    + apply andb_prop in Hw. destruct Hw as [Hw Hn]. cbn in He.
      cbn [dec]. rewrite (IH v d Hk Hw He).
      destruct d; try reflexivity. rewrite He in Hn. discriminate.
  - cbn in Hk, Hw. cbn [dec]. apply IH; try assumption.
    destruct v; try exact He; rewrite wtb_absent in Hw; discriminate.
  - destruct s.
    + (* json *)
      cbn [dec]. cbn in Hw. apply IH; try assumption.
      * destruct k as [ | | |  | | | |k'| | | ]; cbn in Hk; try discriminate; try reflexivity.
        destruct k'; try discriminate; reflexivity.
      * destruct v; try exact He; rewrite wtb_absent in Hw; discriminate.
    + (* gob *)
      cbn [dec]. cbn in Hw. apply IH; try assumption.
      * destruct k as [ | | |  | | | |k'| | | ]; cbn in Hk; try discriminate; try reflexivity.
        destruct k'; try discriminate; reflexivity.
      * destruct v; try exact He; rewrite wtb_absent in Hw; discriminate.
    + (* unixtime: seconds -> instant -> seconds *)
      assert (Hdiv : forall z, z * giga / giga = z) by (intro; apply Z.div_mul; unfold giga; lia).
      destruct k as [w|w| | | |w| |k'|k'|k'|s' k']; cbn in Hk; try discriminate.
      * destruct v; cbn in Hw; try discriminate. cbn in He.
        destruct (int_ok w z); inversion He. cbn. rewrite Hdiv. reflexivity.
      * destruct v; cbn in Hw; try discriminate. cbn in He.
        destruct (uint_ok w z); inversion He. cbn. rewrite Hdiv. reflexivity.
      * destruct k'; try discriminate; destruct v; cbn in Hw; try discriminate;
          try (cbn in He; inversion He; reflexivity); destruct v; try discriminate; cbn in He.
        -- destruct (int_ok w z); inversion He. cbn. rewrite Hdiv. reflexivity.
        -- destruct (uint_ok w z); inversion He. cbn. rewrite Hdiv. reflexivity.
Qed.

(* what enc produces agrees with the affinity of the column the dialector declares for the kind *)
Lemma enc_compatible : forall k v d,
  wfk k = true -> enc k v = Some d -> compatible (col_aff k) d = true.
Proof.
  induction k as [w|w| | | |w| |k IH|k IH|k IH|s k IH]; intros v d Hk He;
    try (destruct v; cbn in He; try discriminate; inversion He; reflexivity).
  - destruct v; cbn in He; try discriminate; try (inversion He; reflexivity).
    destruct (int_ok w z); inversion He; reflexivity.
  - destruct v; cbn in He; try discriminate; try (inversion He; reflexivity).
    destruct (uint_ok w z); inversion He; reflexivity.
  - destruct v; cbn in He; try discriminate; try (inversion He; reflexivity).
    cbn [col_aff]. eapply IH; eauto.
  - destruct v; cbn in He; try discriminate; try (inversion He; reflexivity).
    cbn [col_aff]. eapply IH; eauto.
  - cbn [col_aff]. cbn in Hk. destruct v; try (eapply IH; [exact Hk | exact He]).
    cbn in He. inversion He. destruct (col_aff k); reflexivity.
  - destruct s; cbn [col_aff]; cbn in Hk.
    + destruct v; try (cbn in He; inversion He; reflexivity); repeat (progress (cbn in *; brk)); reflexivity.
    + destruct v; try (cbn in He; inversion He; reflexivity); repeat (progress (cbn in *; brk)); reflexivity.
    + destruct v; try (cbn in He; inversion He; reflexivity); repeat (progress (cbn in *; brk)); reflexivity.
Qed.

Section Store.
  (* SQLite's storage step: a Section variable with its hypothesis (environment, validated by the
     raw dumps of every run) *)
  Variable store : aff -> dbval -> dbval.
  Hypothesis store_keeps : forall a d, compatible a d = true -> store a d = d.

  Theorem codec_roundtrip : forall k v d,
    wfk k = true -> wtb k v = true -> enc k v = Some d ->
    dec k (store (col_aff k) d) = v.
  Proof.
    intros k v d Hk Hw He. rewrite store_keeps by (eapply enc_compatible; eauto).
    apply roundtrip0; assumption.
  Qed.

  (* a leaf under a nil embedded pointer is written as NULL and read back as the zero value *)
  Theorem codec_roundtrip_absent : forall k,
    exists d, enc k GAbsent = Some d /\ dec k (store (col_aff k) d) = norm k GAbsent.
  Proof.
    intro k. exists DNull. split; [apply enc_absent|].
    rewrite store_keeps by reflexivity. apply dec_null.
  Qed.
End Store.

(* ---- representable values are accepted ---- *)
Lemma representable_enc : forall k v,
  wfk k = true -> wtb k v = true -> in_range k v = true ->
  exists d, enc k v = Some d.
Proof.
  induction k as [w|w| | | |w| |k IH|k IH|k IH|s k IH]; intros v Hk Hw Hr;
    try (destruct v; cbn in Hw; try discriminate; cbn; eexists; reflexivity).
  - destruct v; cbn in Hw; try discriminate. cbn in Hr. cbn. rewrite Hr. eexists; reflexivity.
  - destruct v; cbn in Hw; try discriminate. cbn in Hr. cbn. rewrite Hr. eexists; reflexivity.
  - destruct v; cbn in Hw; try discriminate; cbn.
    + eexists; reflexivity.
    + apply andb_prop in Hw. destruct Hw as [Hw _]. apply IH; auto.
  - destruct v; cbn in Hw; try discriminate; cbn.
    + eexists; reflexivity.
    + apply andb_prop in Hw. destruct Hw as [Hw _]. apply IH; auto.
  - cbn in Hk, Hw.
    destruct v; try (cbn in Hr; cbn [enc]; apply IH; assumption).
    rewrite wtb_absent in Hw. discriminate.
  - destruct s; cbn in Hk.
    + destruct k as [ | | |  | | | |k'| | | ]; try discriminate; [|destruct k'; try discriminate];
        destruct v; cbn in Hw; try discriminate; try (cbn; eexists; reflexivity).
      destruct v; cbn in Hw; try discriminate. cbn; eexists; reflexivity.
    + destruct k as [ | | |  | | | |k'| | | ]; try discriminate; [|destruct k'; try discriminate];
        destruct v; cbn in Hw; try discriminate; try (cbn; eexists; reflexivity).
      destruct v; cbn in Hw; try discriminate. cbn; eexists; reflexivity.
    + destruct k as [w|w| | | |w| |k'|k'|k'|s' k']; try discriminate.
      * destruct v; cbn in Hw; try discriminate. cbn in Hr. cbn. rewrite Hr. eexists; reflexivity.
      * destruct v; cbn in Hw; try discriminate. cbn in Hr. cbn. rewrite Hr. eexists; reflexivity.
      * destruct k'; try discriminate; destruct v; cbn in Hw; try discriminate;
          try (cbn; eexists; reflexivity); destruct v; try discriminate; cbn in Hr; cbn; rewrite Hr; eexists; reflexivity.
Qed.

(* ------------------------------------------------------------------ *)
(* schema flattening *)
Lemma insert_field_fresh : forall acc col path,
  ~ In col (map fst acc) -> insert_field acc col path = acc ++ [(col, path)].
Proof.
  induction acc as [|[c p] acc IH]; intros col path Hn; cbn.
  - reflexivity.
  - destruct (String.eqb c col) eqn:E.
    + apply String.eqb_eq in E. exfalso. apply Hn. left. exact E.
    + f_equal. apply IH. intro H. apply Hn. right. exact H.
Qed.

Lemma dbnames_from_distinct : forall fs acc,
  NoDup (map fst acc ++ map snd fs) ->
  dbnames_from fs acc = acc ++ map (fun f => (snd f, fst f)) fs.
Proof.
  induction fs as [|[p c] fs IH]; intros acc Hnd; cbn.
  - rewrite app_nil_r. reflexivity.
  - unfold dbnames_from in *. cbn [fold_left fst snd].
    rewrite insert_field_fresh.
    + rewrite IH.
      * rewrite <- app_assoc. reflexivity.
      * rewrite map_app. cbn. rewrite <- app_assoc. exact Hnd.
    + cbn in Hnd. apply NoDup_remove_2 in Hnd. intro H. apply Hnd. apply in_or_app. left. exact H.
Qed.

(* distinct column names: DBNames lists the fields in declaration order and every column name
   looks up the field that declares it *)
Theorem flatten_injective : forall tree,
  NoDup (map snd (fields_of tree)) ->
  dbnames tree = map (fun f => (snd f, fst f)) (fields_of tree)
  /\ NoDup (map fst (dbnames tree)).
Proof.
  intros tree Hnd. unfold dbnames.
  assert (E : dbnames_from (fields_of tree) [] = map (fun f => (snd f, fst f)) (fields_of tree)).
  { rewrite dbnames_from_distinct; [reflexivity | exact Hnd]. }
  split; [exact E|]. rewrite E. rewrite map_map. cbn. exact Hnd.
Qed.

Lemma string_app_inj_l : forall p a b : string, (p ++ a = p ++ b)%string -> a = b.
Proof. induction p as [|ch p IH]; intros a b H; cbn in H; [exact H | inversion H; auto]. Qed.

(* embeddedPrefix keeps the columns of an embedded struct distinct *)
Lemma prefix_nodup : forall (p : string) (l : list string),
  NoDup l -> NoDup (map (fun c => (p ++ c)%string) l).
Proof.
  intros p l H. induction H as [|x l Hx Hl IH]; cbn; constructor; [|exact IH].
  intro Hin. apply in_map_iff in Hin. destruct Hin as [y [Hy Hin]].
  apply string_app_inj_l in Hy. subst y. contradiction.
Qed.

Lemma flatten_embed_cols : forall nm p kids,
  map snd (flatten (FEmbed nm p kids)) = map (fun c => (p ++ c)%string) (map snd (fields_of kids)).
Proof.
  intros nm p kids. cbn [flatten]. rewrite map_map. cbn [snd].
  assert (E : (fix go (l : list fnode) := match l with [] => [] | x :: r => flatten x ++ go r end) kids
              = fields_of kids).
  { unfold fields_of. induction kids as [|k r IH]; cbn; [reflexivity | rewrite IH; reflexivity]. }
  rewrite E. rewrite map_map. reflexivity.
Qed.
