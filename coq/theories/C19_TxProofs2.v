(* C19_TxProofs2.v — transaction scripts: the real run sends, savepoint control apart, exactly the
   statements the operations of the dry run expose. *)
From Verif Require Import Base C01_Model C19_Model C19_Proofs C19_Tx C19_TxProofs.

(* ---- the real run sends, savepoint control apart, exactly what the dry run exposes ---- *)
Lemma main_stmts_app : forall a b, main_stmts (a ++ b) = main_stmts a ++ main_stmts b.
Proof.
  induction a as [|e a IH]; intro b; [reflexivity|]. cbn [app main_stmts].
  destruct e; try apply IH. destruct (is_sp_sql sql); rewrite IH; reflexivity.
Qed.

Lemma s2l_l2s' : forall l, s2l (l2s l) = l.
Proof. intro l. unfold s2l, l2s. apply list_ascii_of_string_of_list_ascii. Qed.
Lemma prefix_app : forall p x, prefix p (p ++ x) = true.
Proof.
  induction p as [|a p IH]; intro x; [reflexivity|]. cbn [app prefix]. unfold ceq. rewrite Ascii.eqb_refl. apply IH.
Qed.
Lemma savepoint_is_sp : forall n, is_sp_sql (savepoint_sql n) = true.
Proof. intro n. unfold is_sp_sql, savepoint_sql. rewrite s2l_l2s', prefix_app. reflexivity. Qed.
Lemma rollback_to_is_sp : forall n, is_sp_sql (rollback_to_sql n) = true.
Proof. intro n. unfold is_sp_sql, rollback_to_sql. rewrite s2l_l2s', prefix_app. apply orb_true_r. Qed.

(* an operation that builds a statement without error, whose text is not savepoint control *)
Definition op_good (k : opk) (b : built) : Prop :=
  builds k b = true /\ b_err b = false /\ is_sp_sql (b_sql b) = false.
Inductive step_good : tstep -> Prop :=
| SG_op : forall k b, op_good k b -> step_good (TOp k b)
| SG_save : forall n, step_good (TSave n)
| SG_roll : forall n, step_good (TRollTo n)
| SG_block : forall f sw body, Forall step_good body -> step_good (TBlock f sw body).

Ltac exec_cases k sk br bem Hb :=
  destruct k, sk, br, bem; try (cbv in Hb; discriminate Hb);
  cbv -[main_stmts app is_sp_sql].

Lemma exec_real_ok : forall sk k b s, op_good k b -> r_or s = [] ->
  r_err (execute (mk_cfg false sk) k b (fresh s)) = false
  /\ r_or (execute (mk_cfg false sk) k b (fresh s)) = []
  /\ main_stmts (r_log (execute (mk_cfg false sk) k b (fresh s))) = main_stmts (r_log s) ++ [(b_sql b, b_vars b)].
Proof.
  intros sk k b [e q v st ra log orc] (Hb & He & Hs) Hor. cbn [r_or] in Hor. subst orc.
  destruct b as [sql vars be br bem]. cbn [b_err b_sql b_vars b_empty b_ret] in *. subst be.
  exec_cases k sk br bem Hb;
    rewrite ?main_stmts_app; cbn [main_stmts app]; rewrite ?Hs, ?app_nil_r; auto.
Qed.

Lemma exec_dry_ok : forall sk k b s, op_good k b -> r_or s = [] ->
  r_err (execute (mk_cfg true sk) k b (fresh s)) = false
  /\ r_or (execute (mk_cfg true sk) k b (fresh s)) = []
  /\ shown (execute (mk_cfg true sk) k b (fresh s)) = (b_sql b, b_vars b).
Proof.
  intros sk k b [e q v st ra log orc] (Hb & He & Hs) Hor. cbn [r_or] in Hor. subst orc.
  destruct b as [sql vars be br bem]. cbn [b_err b_sql b_vars b_empty b_ret] in *. subst be.
  exec_cases k sk br bem Hb; auto.
Qed.

Lemma raw_exec_real_ok : forall sk sql s, is_sp_sql sql = true -> r_or s = [] ->
  r_err (raw_exec (mk_cfg false sk) sql s) = r_err s
  /\ r_or (raw_exec (mk_cfg false sk) sql s) = []
  /\ main_stmts (r_log (raw_exec (mk_cfg false sk) sql s)) = main_stmts (r_log s).
Proof.
  intros sk sql [e q v st ra log orc] Hs Hor. cbn [r_or] in Hor. subst orc.
  destruct sk; cbv -[main_stmts app is_sp_sql];
    rewrite main_stmts_app; cbn [main_stmts]; rewrite Hs, app_nil_r; auto.
Qed.
Lemma raw_exec_dry_ok : forall sk sql s, r_or s = [] ->
  r_err (raw_exec (mk_cfg true sk) sql s) = r_err s /\ r_or (raw_exec (mk_cfg true sk) sql s) = [].
Proof.
  intros sk sql [e q v st ra log orc] Hor. cbn [r_or] in Hor. subst orc.
  destruct sk; cbv -[app]; auto.
Qed.

(* dry and real run of the same script against a database that answers every call without error *)
Definition sim (sd sr : tst) : Prop :=
  r_or (ts sd) = [] /\ r_or (ts sr) = [] /\ r_err (ts sd) = r_err (ts sr) /\ tn sd = tn sr
  /\ main_stmts (r_log (ts sr)) = tshown sd.
Definition step_sim (skip : bool) (t : tstep) : Prop :=
  forall intx sd sr, sim sd sr -> sim (run_step (dry_cfg skip) intx t sd) (run_step (real_cfg skip) intx t sr).

Lemma steps_sim : forall skip l, Forall (step_sim skip) l ->
  forall intx sd sr, sim sd sr -> sim (run_steps (dry_cfg skip) intx l sd) (run_steps (real_cfg skip) intx l sr).
Proof.
  intros skip l H. induction H as [|t r Ht Hr IH]; intros intx sd sr S; [exact S|].
  cbn [run_steps]. cbv zeta. pose proof (Ht intx sd sr S) as S1.
  assert (C : r_err (ts (run_step (dry_cfg skip) intx t sd)) = r_err (ts (run_step (real_cfg skip) intx t sr)))
    by (destruct S1 as (_ & _ & C & _); exact C).
  rewrite C. destruct (r_err (ts (run_step (real_cfg skip) intx t sr))); [exact S1 | apply IH; exact S1].
Qed.

Lemma step_sim_all : forall skip t, step_good t -> step_sim skip t.
Proof.
  intros skip t. induction t as [k b|n|n|f sw body IH] using tstep_ind'; intros G intx sd sr (Od & Or & Er & En & Em).
  - inversion G as [k' b' Hg| | |]; subst.
    destruct (exec_dry_ok (skip || intx) k b (ts sd) Hg Od) as (D1 & D2 & D3).
    destruct (exec_real_ok (skip || intx) k b (ts sr) Hg Or) as (R1 & R2 & R3).
    unfold sim, dry_cfg, real_cfg, op_cfg. cbn [run_step ts tn tshown keep_err r_or r_err r_log c_dry c_skip].
    unfold op_cfg in *. cbn [c_dry c_skip] in *.
    rewrite D1, R1, D3, R3, Em. repeat split; assumption.
  - destruct (raw_exec_dry_ok skip (savepoint_sql n) (ts sd) Od) as (D1 & D2).
    destruct (raw_exec_real_ok skip (savepoint_sql n) (ts sr) (savepoint_is_sp n) Or) as (R1 & R2 & R3).
    unfold sim, dry_cfg, real_cfg. cbn [run_step ts tn tshown]. rewrite D1, R1, R3. repeat split; assumption.
  - destruct (raw_exec_dry_ok skip (rollback_to_sql n) (ts sd) Od) as (D1 & D2).
    destruct (raw_exec_real_ok skip (rollback_to_sql n) (ts sr) (rollback_to_is_sp n) Or) as (R1 & R2 & R3).
    unfold sim, dry_cfg, real_cfg. cbn [run_step ts tn tshown]. rewrite D1, R1, R3. repeat split; assumption.
  - inversion G as [| | |f' sw' body' Gb]; subst.
    assert (IH' : Forall (step_sim skip) body).
    { rewrite Forall_forall in *. intros x Hx. apply IH; [exact Hx | apply Gb; exact Hx]. }
    rewrite !run_step_block. destruct intx.
    + cbv zeta. rewrite <- En.
      set (nm := sp_name (N.succ (tn sd))).
      destruct (raw_exec_dry_ok skip (savepoint_sql nm) (ts sd) Od) as (D1 & D2).
      destruct (raw_exec_real_ok skip (savepoint_sql nm) (ts sr) (savepoint_is_sp nm) Or) as (R1 & R2 & R3).
      set (d0 := mk_tst (raw_exec (dry_cfg skip) (savepoint_sql nm) (ts sd)) (N.succ (tn sd)) (tshown sd)).
      set (r0 := mk_tst (raw_exec (real_cfg skip) (savepoint_sql nm) (ts sr)) (N.succ (tn sd)) (tshown sr)).
      assert (S0 : sim d0 r0)
        by (unfold sim, d0, r0; cbn [ts tn tshown]; unfold dry_cfg, real_cfg; rewrite D1, R1, R3; repeat split; assumption).
      pose proof (steps_sim skip body IH' true d0 r0 S0) as (Bd & Br & Be & Bn & Bm).
      set (sd2 := run_steps (dry_cfg skip) true body d0) in *.
      set (sr2 := run_steps (real_cfg skip) true body r0) in *.
      rewrite <- Be. unfold sim. cbn [ts tn tshown keep_err r_or r_err r_log].
      destruct (r_err (ts sd2) || f).
      * destruct (raw_exec_dry_ok skip (rollback_to_sql nm) (ts sd2) Bd) as (D1' & D2').
        destruct (raw_exec_real_ok skip (rollback_to_sql nm) (ts sr2) (rollback_to_is_sp nm) Br) as (R1' & R2' & R3').
        unfold dry_cfg, real_cfg. rewrite R3'. repeat split; assumption.
      * repeat split; assumption.
    + unfold call, fresh. cbn [r_err r_sql r_vars r_started r_ra r_log r_or]. rewrite Od, Or.
      cbn [d_err ok_res fst snd tl r_err r_sql r_vars r_started r_ra r_log r_or]. cbv zeta.
      set (d0 := mk_tst (mk_rst false "" [] false 0 (r_log (ts sd) ++ [EBegin]) []) (tn sd) (tshown sd)).
      set (r0 := mk_tst (mk_rst false "" [] false 0 (r_log (ts sr) ++ [EBegin]) []) (tn sr) (tshown sr)).
      assert (S0 : sim d0 r0)
        by (unfold sim, d0, r0; cbn [ts tn tshown r_or r_err r_log]; rewrite main_stmts_app, Em; cbn [main_stmts];
            rewrite app_nil_r; repeat split; assumption).
      pose proof (steps_sim skip body IH' true d0 r0 S0) as (Bd & Br & Be & Bn & Bm).
      set (sd2 := run_steps (dry_cfg skip) true body d0) in *.
      set (sr2 := run_steps (real_cfg skip) true body r0) in *.
      rewrite <- Be, Bd, Br. unfold sim. cbn [ts tn tshown keep_err r_or r_err r_log fst snd tl d_err ok_res].
      rewrite main_stmts_app, Bm. destruct (r_err (ts sd2) || f); cbn [main_stmts]; rewrite app_nil_r, ?orb_false_r; repeat split; assumption.
Qed.

Lemma script_same_statements : forall skip encl l, Forall step_good l ->
  main_stmts (r_log (ts (run_script (real_cfg skip) encl l (rst0 []))))
  = tshown (run_script (dry_cfg skip) encl l (rst0 [])).
Proof.
  intros skip encl l G.
  assert (F : Forall (step_sim skip) l).
  { rewrite Forall_forall in *. intros x Hx. apply step_sim_all, G, Hx. }
  unfold run_script. destruct encl.
  - unfold call, rst0. cbn [r_err r_sql r_vars r_started r_ra r_or r_log d_err ok_res app tl fst snd].
    assert (S0 : sim (mk_tst (mk_rst false "" [] false 0 [EBegin] []) 0 []) (mk_tst (mk_rst false "" [] false 0 [EBegin] []) 0 []))
      by (unfold sim; cbn; repeat split).
    pose proof (steps_sim skip l F true _ _ S0) as (Bd & Br & Be & Bn & Bm).
    cbn [ts tshown keep_err r_log fst]. rewrite main_stmts_app, Bm. cbn [main_stmts]. apply app_nil_r.
  - assert (S0 : sim (mk_tst (rst0 []) 0 []) (mk_tst (rst0 []) 0 [])) by (unfold sim; cbn; repeat split).
    pose proof (steps_sim skip l F false _ _ S0) as (Bd & Br & Be & Bn & Bm). exact Bm.
Qed.
