(* C17_Known.v — (1) the classes of registration states for which callbacks.go is KNOWN to break the
   property (known_findings.d/C17.json), as decidable predicates on the checker's own book
   (C17_Check.rstate), i.e. on the INPUT only; (2) the enumeration of all in-domain histories up to a
   length over the property's alphabet.  Definitions only; the harness mirrors (1) in ref.go to
   compute the signature of a case. *)
From Verif Require Import Base C17_Model C17_Check.
Open Scope string_scope.
Open Scope list_scope.

(* ------------------------------------------------------------------ constraint graph of a book *)
(* edge (a, b): a must fire before b *)
Definition edge := (string * string)%type.

Fixpoint builtin_chain (prev : option string) (live : list entry) : list edge :=
  match live with
  | [] => []
  | e :: r => if e_builtin e
              then match prev with
                   | Some p => (p, e_name e) :: builtin_chain (Some (e_name e)) r
                   | None => builtin_chain (Some (e_name e)) r
                   end
              else builtin_chain prev r
  end.

Definition named_edges (live : list entry) : list edge :=
  flat_map (fun e =>
    (if negb (is_none (e_before e)) && negb (is_star (e_before e)) && is_live live (e_before e)
     then [(e_name e, e_before e)] else [])
    ++
    (if negb (is_none (e_after e)) && negb (is_star (e_after e)) && is_live live (e_after e)
     then [(e_after e, e_name e)] else [])) live.

Definition star_edges (live : list entry) : list edge :=
  flat_map (fun e =>
    (if is_star (e_before e)
     then flat_map (fun g => if named (e_name e) g || is_star (e_before g) then [] else [(e_name e, e_name g)]) live
     else [])
    ++
    (if is_star (e_after e)
     then flat_map (fun g => if named (e_name e) g || is_star (e_after g) then [] else [(e_name g, e_name e)]) live
     else [])) live.

(* Kahn: repeatedly drop the nodes without a predecessor among the remaining ones *)
Fixpoint kahn (fuel : nat) (nodes : list string) (es : list edge) : list string :=
  match fuel with
  | O => nodes
  | S f =>
    let blocked n := existsb (fun e => String.eqb (snd e) n && mem nodes (fst e)) es in
    kahn f (filter blocked nodes) es
  end.
Definition cyclic (nodes : list string) (es : list edge) : bool :=
  nonempty (kahn (length nodes) nodes es).

(* ------------------------------------------------------------------ the classes *)
(* KSelfSilent, KNamedCycle, KStarUnsat, KStarReplace, KAfterOverwritten are KNOWN findings (the property
   fails for some of their members).  Until /repo 591f9f1 (depth guard in sortCallbacks) the members of
   KNamedCycle and of the self-target classes whose recursion never ended killed the process; they now get
   an error.  KSelfTarget (a callback naming itself and nothing else naming it) and, since /repo e28c215
   (Replace inherits the requests of a "*" callback), KStarReplace are labels only: nothing is excused
   for them any more. *)
Inductive kclass := KNone | KSelfTarget | KNamedCycle | KStarUnsat | KStarReplace | KAfterOverwritten | KSelfSilent
                  | KStaleRequest.

Definition self_target (live : list entry) : bool :=
  existsb (fun e => (negb (is_none (e_before e)) && String.eqb (e_before e) (e_name e))
                    || (negb (is_none (e_after e)) && String.eqb (e_after e) (e_name e))) live.
(* a callback that names itself and may be accepted silently: it carries a second, different request
   (the Before half then places it before the After half looks for it), or another callback names it
   (which sets / overwrites its requests before it is sorted) *)
Definition self_silent (live : list entry) : bool :=
  existsb (fun e =>
    let sb := negb (is_none (e_before e)) && String.eqb (e_before e) (e_name e) in
    let sa := negb (is_none (e_after e)) && String.eqb (e_after e) (e_name e) in
    (sb || sa)
    && ((sa && negb (is_none (e_before e)) && negb sb)
        || (sb && negb (is_none (e_after e)) && negb sa)
        || existsb (fun c => negb (named (e_name e) c)
                             && (String.eqb (e_before c) (e_name e) || String.eqb (e_after c) (e_name e))) live)) live.
Definition both_star (live : list entry) : bool :=
  existsb (fun e => is_star (e_before e) && is_star (e_after e)) live && Nat.leb 2 (length live).
Definition star_replaced (live : list entry) : bool :=
  existsb (fun e => (is_star (e_before e) || is_star (e_after e)) && negb (N.eqb (e_hid e) (e_reg e))) live.
(* does following After requests from the callback named [from] reach the callback named [goal]? *)
Fixpoint after_reaches (fuel : nat) (live : list entry) (from goal : string) : bool :=
  match fuel with
  | O => false
  | S f => match find_live live from with
           | Some e => if is_none (e_after e) then false
                       else String.eqb (e_after e) goal || after_reaches f live (e_after e) goal
           | None => false
           end
  end.
(* c = Before(x).Register(..) is sorted while x is not yet sorted: c was registered before x, or x is a "*"
   callback (sorted last), or c is reached through x's own chain of After requests (x is being sorted) *)
Definition after_overwritten (live : list entry) : bool :=
  existsb (fun c =>
    negb (is_none (e_before c)) && negb (is_star (e_before c)) &&
    match find_live live (e_before c) with
    | Some x => negb (is_none (e_after x)) && negb (String.eqb (e_after x) (e_name c))
                && (N.ltb (e_reg c) (e_reg x) || is_star (e_before x) || is_star (e_after x)
                    || after_reaches (length live) live (e_name x) (e_name c))
    | None => false
    end) live.

(* a removed callback n had asked to run Before/After the callback t; t is still the same registration and
   a NEW callback is registered under the name n: the request sortCallbacks wrote into t for the old n
   (cs[idx].after = c.name / after.before = c.name) now binds the new one *)
Definition stale_request (r : rstate) : bool :=
  existsb (fun g => match g with
                    | (tn, treg, n) =>
                      is_live (r_live r) n
                      && match find_live (r_live r) tn with
                         | Some t => N.eqb (e_reg t) treg
                         | None => false
                         end
                    end) (r_ghosts r).

Definition class_of (r : rstate) : kclass :=
  let live := r_live r in
  let nodes := map e_name live in
  let base := builtin_chain None live ++ named_edges live in
  if self_silent live then KSelfSilent
  else if negb (cyclic nodes base) && (cyclic nodes (base ++ star_edges live) || both_star live) then KStarUnsat
  else if star_replaced live then KStarReplace
  else if after_overwritten live then KAfterOverwritten
  else if stale_request r then KStaleRequest
  else if self_target live then KSelfTarget
  else if cyclic nodes base then KNamedCycle
  else KNone.

Definition is_known (r : rstate) : bool :=
  match class_of r with KNone | KSelfTarget | KStarReplace => false | _ => true end.

(* a history is excused from the first call on that puts the (in-domain) book into a known class *)
Fixpoint known_from (r : rstate) (i : N) (h : list step) : bool :=
  match h with
  | [] => false
  | s :: h' => let r' := ref_apply r i s in
               (r_dom r' && is_known r') || known_from r' (N.succ i) h'
  end.
Definition hist_known (h : list step) : bool := known_from r0 0%N h.

(* ------------------------------------------------------------------ enumeration *)
(* an alphabet: the built-in names of the pipeline and the user names (registered in this order) *)
Record alphabet := mk_alphabet { a_builtins : list string; a_users : list string }.
Definition unknown_name : string := "zz:unknown".
Definition targets (a : alphabet) : list string := a_builtins a ++ a_users a ++ [unknown_name; star].

Definition reg (n b a : string) : step := mk_step KRegister n b a false true.
Definition reg_forms (u : string) (ts : list string) : list step :=
  reg u "" "" :: map (fun t => reg u t "") ts ++ map (fun t => reg u "" t) ts
  ++ flat_map (fun b => map (fun a => reg u b a) ts) ts.

(* the calls that keep the history in the domain: Register of the next unused user name (user names are
   interchangeable until they are used: WLOG they are registered in the order u1, u2, u3; targets may name
   any of them at any time), Replace / Remove of every live name *)
(* (the parameter is called [builtins] for historical reasons: it is the whole alphabet) *)
Definition next_steps (builtins : alphabet) (r : rstate) : list step :=
  let nreg := length (filter (fun u => mem (r_used r) u) (a_users builtins)) in
  (* the next user name never used so far, and every user name that was removed (free again) *)
  flat_map (fun u => reg_forms u (targets builtins))
           ((match nth_error (a_users builtins) nreg with Some u => [u] | None => [] end)
            ++ filter (fun u => mem (r_used r) u && negb (is_live (r_live r) u)) (a_users builtins))
  ++ flat_map (fun e => [mk_step KReplace (e_name e) "" "" false true;
                         mk_step KRemove (e_name e) "" "" false true]) (r_live r).

Fixpoint book (r : rstate) (i : N) (h : list step) : rstate :=
  match h with [] => r | s :: h' => book (ref_apply r i s) (N.succ i) h' end.

Definition builtin_steps (builtins : list string) : list step :=
  map (fun b => mk_step KRegister b "" "" true true) builtins.

(* all histories with exactly n user calls (after the default registration) *)
Fixpoint histories (builtins : alphabet) (n : nat) : list (list step) :=
  match n with
  | O => [builtin_steps (a_builtins builtins)]
  | S m => flat_map (fun h => map (fun s => h ++ [s]) (next_steps builtins (book r0 0%N h)))
                    (histories builtins m)
  end.
Definition histories_upto (builtins : alphabet) (n : nat) : list (list step) :=
  flat_map (histories builtins) (seq 0 (S n)).

(* ------------------------------------------------------------------ the exhaustive check *)
(* the whole property on the model's answer to a history (what C17_Check.spec_holds evaluates on
   gorm's answer) *)
Definition spec_run (h : list step) : bool :=
  let os := run h in complete O h os && spec_from r0 0%N None O h os.
Definition ok_or_known (h : list step) : bool := spec_run h || hist_known h.

(* [h] and every in-domain extension of [h] by at most n calls *)
Fixpoint all_ok (n : nat) (builtins : alphabet) (h : list step) : bool :=
  ok_or_known h &&
  match n with
  | O => true
  | S m => forallb (fun s => all_ok m builtins (h ++ [s])) (next_steps builtins (book r0 0%N h))
  end.

(* the same set of histories, as a list (never computed: the lists are long) *)
Fixpoint extensions (n : nat) (builtins : alphabet) (h : list step) : list (list step) :=
  h :: match n with
       | O => []
       | S m => flat_map (fun s => extensions m builtins (h ++ [s])) (next_steps builtins (book r0 0%N h))
       end.

Fixpoint count_ext (n : nat) (builtins : alphabet) (h : list step) : N :=
  (1 + match n with
       | O => 0
       | S m => fold_left N.add (map (fun s => count_ext m builtins (h ++ [s]))
                                     (next_steps builtins (book r0 0%N h))) 0
       end)%N.

(* ------------------------------------------------------------------ the same check, incrementally *)
(* state after a history: the processor (None = the process died), the book, the verdict so far *)
Record est := mk_est {
  x_proc : option proc; x_r : rstate; x_i : N; x_prev : option obs;
  x_good : bool;    (* spec_from so far *)
  x_known : bool    (* hist_known so far *)
}.
Definition est0 : est := mk_est (Some (mk_proc [] [])) r0 0%N None true false.

Definition est_step (e : est) (s : step) : est :=
  let r' := ref_apply (x_r e) (x_i e) s in
  let known' := x_known e || (r_dom r' && is_known r') in
  match x_proc e with
  | None => mk_est None r' (N.succ (x_i e)) (x_prev e) (x_good e) known'
  | Some p =>
    match run_step p s (x_i e) with
    | (p', o) => mk_est p' r' (N.succ (x_i e)) (Some o)
                        (x_good e && judge_step spec_ok false r' (x_prev e) s o) known'
    end
  end.

Fixpoint all_ok_inc (n : nat) (builtins : alphabet) (e : est) : bool :=
  (x_good e || x_known e) &&
  match n with
  | O => true
  | S m => forallb (fun s => all_ok_inc m builtins (est_step e s)) (next_steps builtins (x_r e))
  end.
