(* Props_C06.v — property C06: ONLY theorem statements, each closed by [exact] of a lemma,
   followed by Print Assumptions. *)
From Verif Require Import Base C06_Model C06_Proofs.
Open Scope Z_scope.

(* With Returning.MergeClause as in the tree (append onto the slice stored in the parent's
   clause) the statement is FALSE of the faithful model: child 1 renders child 2's column. *)
Theorem c06_refuted_returning : exists hist, ~ isolated (run_hist go_grow tree_md hist).
Proof. exact returning_refuted. Qed.
Print Assumptions c06_refuted_returning.

Theorem c06_refuted_returning_any_grow : forall grow, exists hist, ~ isolated (run_hist grow tree_md hist).
Proof. exact returning_refuted_any_grow. Qed.
Print Assumptions c06_refuted_returning_any_grow.
