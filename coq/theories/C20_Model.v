(* C20_Model.v — AutoMigrate is idempotent and never loses data.
   Modelled code (gorm, /repo/migrator/migrator.go):
     Migrator.MigrateColumn       the decision AlterColumn / no change: type prefix and aliases,
                                  size, precision, nullable, default value, comment
     Migrator.MigrateColumnUnique drop / create the unique constraint
     Migrator.AutoMigrate         HasTable -> CreateTable | per column AddColumn / MigrateColumn,
                                  constraints, checks, indexes
     Migrator.ReorderModels       dependency-first ordering (insertIntoOrderedList)
   Environment (NOT gorm): the dialect's DataTypeOf (inputs [f_full], [f_dtype]), its migrator's
   ColumnTypes ([report], a parameter of the proofs) and its execution of DDL.  No proofs here. *)
From Coq Require Import DecimalString.
From Verif Require Import Base.
Open Scope Z_scope.

(* ------------------------------------------------------------------ *)
(* strings as Go uses them here (ASCII) *)
Definition chars := list_ascii_of_string.
Definition is_digit (c : ascii) : bool := let n := nat_of_ascii c in (Nat.leb 48 n) && (Nat.leb n 57).
Definition lower_c (c : ascii) : ascii :=
  let n := nat_of_ascii c in if (Nat.leb 65 n) && (Nat.leb n 90) then ascii_of_nat (n + 32) else c.
Definition is_space (c : ascii) : bool :=
  let n := nat_of_ascii c in (Nat.eqb n 32) || ((Nat.leb 9 n) && (Nat.leb n 13)).
Definition ascii_eqb (a b : ascii) : bool := Nat.eqb (nat_of_ascii a) (nat_of_ascii b).
Definition lower (s : list ascii) : list ascii := map lower_c s.
Fixpoint ltrim (s : list ascii) : list ascii :=
  match s with c :: r => if is_space c then ltrim r else s | [] => [] end.
Definition trim (s : list ascii) : list ascii := rev (ltrim (rev (ltrim s))).
Definition cs_eqb (a b : list ascii) : bool := list_eqb ascii_eqb a b.
(* strings.HasPrefix s p *)
Fixpoint has_prefix (s p : list ascii) : bool :=
  match p, s with
  | [], _ => true
  | x :: p', y :: s' => ascii_eqb x y && has_prefix s' p'
  | _ :: _, [] => false
  end.
Fixpoint strip_prefix (p s : list ascii) : option (list ascii) :=
  match p, s with
  | [], _ => Some s
  | x :: p', y :: s' => if ascii_eqb x y then strip_prefix p' s' else None
  | _ :: _, [] => None
  end.
(* strings.TrimSuffix(s, "()") *)
Definition trim_parens (s : list ascii) : list ascii :=
  match rev s with
  | c2 :: c1 :: r => if ascii_eqb c1 "("%char && ascii_eqb c2 ")"%char then rev r else s
  | _ => s
  end.
Definition equal_fold (a b : list ascii) : bool := cs_eqb (lower a) (lower b).

(* regFullDataType = \D*(\d+)\D? , FindAllStringSubmatch: one match per maximal run of digits *)
Fixpoint digit_runs_aux (s : list ascii) (cur : list ascii) : list (list ascii) :=
  match s with
  | [] => match cur with [] => [] | _ => [rev cur] end
  | c :: r => if is_digit c then digit_runs_aux r (c :: cur)
              else match cur with [] => digit_runs_aux r [] | _ => rev cur :: digit_runs_aux r [] end
  end.
Definition digit_runs (s : list ascii) : list (list ascii) := digit_runs_aux s [].

(* regexp [^0-9]<num>[^0-9] matches somewhere in s *)
Definition num_then_nondigit (num s : list ascii) : bool :=
  match strip_prefix num s with Some (c :: _) => negb (is_digit c) | _ => false end.
Fixpoint delimited (num s : list ascii) : bool :=
  match s with
  | [] => false
  | c :: r => (negb (is_digit c) && num_then_nondigit num r) || delimited num r
  end.

(* fmt.Sprint of an integer *)
Definition dec_of (z : Z) : list ascii := chars (NilZero.string_of_int (Z.to_int z)).

(* strconv.ParseBool with the error dropped *)
Definition parse_bool (s : list ascii) : bool :=
  existsb (cs_eqb s) (map chars ["1"; "t"; "T"; "TRUE"; "true"; "True"]%string).

(* ------------------------------------------------------------------ *)
(* GNum: Int / Uint / Float fields, with fmt.Sprint of the parsed default (DefaultValueInterface) if any,
   and whether the parsed default is a float64 that strconv.ParseFloat of the REPORTED default equals
   (Go's float parsing is environment: computed by the harness with the same library call) *)
Inductive gtype := GTime | GBool | GNum (parsed : option string) (same_float : bool) | GOther.

Record field := mk_field {
  f_name : string;
  f_ignore : bool; f_pk : bool;
  f_full : string;        (* FullDataTypeOf(field).SQL *)
  f_dtype : string;       (* DataTypeOf(field) *)
  f_size : Z; f_precision : Z;
  f_notnull : bool;
  f_hasdef : bool; f_defi : bool; f_default : string;
  f_gtype : gtype;
  f_comment : string; f_unique : bool
}.

(* what the dialect's ColumnTypes reports for an existing column *)
Record reported := mk_rep {
  r_type : string; r_aliases : list string;
  r_len : Z; r_len_ok : bool;
  r_prec : Z; r_prec_ok : bool;
  r_nullable : bool; r_nullable_ok : bool;
  r_default : string; r_default_ok : bool;
  r_comment : string; r_comment_ok : bool;
  r_unique : bool; r_unique_ok : bool
}.

Inductive uaction := UNone | UDrop | UCreate.
Record decision := mk_dec { d_alter : bool; d_unique : uaction }.
Definition no_change : decision := mk_dec false UNone.

Definition migrate_column_unique (f : field) (r : reported) : uaction :=
  if negb (r_unique_ok r) || f_pk f then UNone
  else if r_unique r && negb (f_unique f) then UDrop
  else if negb (r_unique r) && f_unique f then UCreate
  else UNone.

Definition migrate_column (f : field) (r : reported) : decision :=
  if f_ignore f then no_change else
  let full := trim (lower (chars (f_full f))) in
  let real := lower (chars (r_type r)) in
  let same0 := cs_eqb full real in
  (* check type *)
  let '(alter, same) :=
    if negb (f_pk f) && negb (has_prefix full real) then
      let s := existsb (fun a => has_prefix full (chars a)) (r_aliases r) in (negb s, s)
    else (false, same0) in
  (* check size, precision *)
  let alter :=
    if same then alter else
    let alter :=
      if r_len r =? f_size f then alter
      else if (0 <? r_len r) && (0 <? f_size f) then true
      else match digit_runs full with
           | [run] => if negb (f_pk f) && negb (cs_eqb run (dec_of (r_len r))) && r_len_ok r then true else alter
           | _ => alter
           end in
    if r_prec_ok r && negb (f_precision f =? r_prec r) && delimited (dec_of (f_precision f)) (chars (f_dtype f))
    then true else alter in
  (* check nullable *)
  let alter :=
    if r_nullable_ok r && Bool.eqb (r_nullable r) (f_notnull f) && negb (f_pk f) && negb (r_nullable r)
    then true else alter in
  (* check default value: the two value comparisons ASSIGN alterColumn *)
  let alter :=
    if f_pk f then alter else
    let cur := f_hasdef f && (f_defi f || negb (equal_fold (chars (f_default f)) (chars "NULL"))) in
    let dv := chars (r_default r) in
    if r_default_ok r && negb cur then true
    else if negb (r_default_ok r) && cur then true
    else if cur || r_default_ok r then
      match f_gtype f with
      | GTime => if negb (equal_fold (trim_parens dv) (trim_parens (chars (f_default f)))) then true else alter
      | GBool => negb (Bool.eqb (parse_bool dv) (parse_bool (chars (f_default f))))
      | GNum p same_float =>
          (* the column is created from the parsed default: equal to the tag text OR to the parsed
             value needs no change *)
          let a := negb (cs_eqb dv (chars (f_default f))) in
          (match p with
           | Some s => a && negb (cs_eqb dv (chars s))
           | None => a
           end) && negb same_float   (* ... nor the same number in another notation *)
      | GOther => negb (cs_eqb dv (chars (f_default f)))
      end
    else alter in
  (* check comment *)
  let alter :=
    if r_comment_ok r && negb (String.eqb (r_comment r) (f_comment f)) && negb (f_pk f) then true else alter in
  mk_dec alter (migrate_column_unique f r).

(* "already matches": the reported type text is the declared one, nullability, default, comment
   and uniqueness agree (where the dialect reports them) *)
(* the reported type is the declared one: the same text, or the type name the declaration starts with
   together with the declared size and precision *)
Definition type_agrees (f : field) (r : reported) : bool :=
  let full := trim (lower (chars (f_full f))) in
  let real := lower (chars (r_type r)) in
  cs_eqb full real
  || (has_prefix full real && (r_len r =? f_size f) && (negb (r_prec_ok r) || (f_precision f =? r_prec r))).
(* the reported default is the declared one: the tag text, or (numeric fields) the parsed value as
   gorm prints it, or the same number in another notation *)
Definition default_agrees (f : field) (r : reported) : bool :=
  let cur := f_hasdef f && (f_defi f || negb (equal_fold (chars (f_default f)) (chars "NULL"))) in
  Bool.eqb (r_default_ok r) cur
  && (negb cur || String.eqb (r_default r) (f_default f)
      || match f_gtype f with
         | GNum p sf => sf || match p with Some s => String.eqb (r_default r) s | None => false end
         | _ => false
         end).
Definition matches (f : field) (r : reported) : bool :=
  type_agrees f r
  && (negb (r_nullable_ok r) || negb (Bool.eqb (r_nullable r) (f_notnull f)))
  && default_agrees f r
  && (negb (r_comment_ok r) || String.eqb (r_comment r) (f_comment f))
  && (negb (r_unique_ok r) || Bool.eqb (r_unique r) (f_unique f)).

(* ------------------------------------------------------------------ *)
(* schema state and AutoMigrate *)
Section Migrate.
  Variable coldesc : Type.                       (* a column as the database holds it *)
  Variable create : field -> coldesc.            (* CreateTable / AddColumn / AlterColumn for a field *)
  Variable set_unique : coldesc -> bool -> coldesc.  (* Create/DropConstraint of the column's unique *)
  Variable report : coldesc -> reported.         (* the dialect's ColumnTypes *)

  Record table := mk_table {
    t_cols : list (string * coldesc);
    t_indexes : list string;
    t_constraints : list string
  }.
  Record model := mk_model {
    m_table : string;
    m_fields : list field;          (* Schema.DBNames order *)
    m_constraints : list string;    (* foreign keys owned by the model, then check constraints *)
    m_indexes : list string
  }.
  Inductive ddl :=
    | CreateTable (t : string) | AddColumn (t c : string) | AlterColumn (t c : string)
    | DropConstraint (t n : string) | CreateConstraint (t n : string) | CreateIndex (t n : string).

  Fixpoint lookup {A} (k : string) (l : list (string * A)) : option A :=
    match l with [] => None | (k', v) :: r => if String.eqb k' k then Some v else lookup k r end.
  Fixpoint update {A} (k : string) (v : A) (l : list (string * A)) : list (string * A) :=
    match l with [] => [] | (k', v') :: r => if String.eqb k' k then (k', v) :: r else (k', v') :: update k v r end.
  Definition mem (k : string) (l : list string) : bool := existsb (String.eqb k) l.
  Definition uname (t c : string) : string := ("uni_" ++ t ++ "_" ++ c)%string.

  (* the column after MigrateColumn's actions (AlterColumn, then the unique constraint) *)
  Definition apply_decision (f : field) (cd : coldesc) : coldesc :=
    let d := migrate_column f (report cd) in
    let cd1 := if d_alter d then create f else cd in
    match d_unique d with
    | UNone => cd1
    | UDrop => set_unique cd1 false
    | UCreate => set_unique cd1 true
    end.
  Definition decision_ddl (tn : string) (f : field) (d : decision) : list ddl :=
    (if d_alter d then [AlterColumn tn (f_name f)] else [])
    ++ match d_unique d with
       | UNone => []
       | UDrop => [DropConstraint tn (uname tn (f_name f))]
       | UCreate => [CreateConstraint tn (uname tn (f_name f))]
       end.

  (* one column of an existing table; a field with IgnoreMigration issues nothing (AddColumn and
     MigrateColumn return early) *)
  Definition migrate_field (tn : string) (cols : list (string * coldesc)) (f : field)
    : list ddl * list (string * coldesc) :=
    if f_ignore f then ([], cols) else
    match lookup (f_name f) cols with
    | None => ([AddColumn tn (f_name f)], cols ++ [(f_name f, create f)])
    | Some cd => (decision_ddl tn f (migrate_column f (report cd)), update (f_name f) (apply_decision f cd) cols)
    end.

  Fixpoint migrate_fields (tn : string) (cols : list (string * coldesc)) (fs : list field)
    : list ddl * list (string * coldesc) :=
    match fs with
    | [] => ([], cols)
    | f :: r => let '(d1, c1) := migrate_field tn cols f in
                let '(d2, c2) := migrate_fields tn c1 r in (d1 ++ d2, c2)
    end.

  Fixpoint add_missing (mk : string -> ddl) (have want : list string) : list ddl * list string :=
    match want with
    | [] => ([], have)
    | n :: r => if mem n have then add_missing mk have r
                else let '(d, h) := add_missing mk (have ++ [n]) r in (mk n :: d, h)
    end.

  Definition migratable (m : model) : list field := filter (fun f => negb (f_ignore f)) (m_fields m).

  Definition auto_migrate_table (m : model) (t : option table) : list ddl * table :=
    match t with
    | None =>
        (* CreateTable, then CreateIndex per index (CreateIndexAfterCreateTable) *)
        (CreateTable (m_table m) :: map (CreateIndex (m_table m)) (rev (m_indexes m)),   (* deferred: last first *)
         mk_table (map (fun f => (f_name f, create f)) (migratable m)) (m_indexes m) (m_constraints m))
    | Some t =>
        let '(d1, cols) := migrate_fields (m_table m) (t_cols t) (m_fields m) in
        let '(d2, cns) := add_missing (CreateConstraint (m_table m)) (t_constraints t) (m_constraints m) in
        let '(d3, idxs) := add_missing (CreateIndex (m_table m)) (t_indexes t) (m_indexes m) in
        (d1 ++ d2 ++ d3, mk_table cols idxs cns)
    end.

  Definition db := list (string * table).
  Definition auto_migrate (d : db) (m : model) : list ddl * db :=
    let '(l, t) := auto_migrate_table m (lookup (m_table m) d) in
    (l, match lookup (m_table m) d with
        | Some _ => update (m_table m) t d
        | None => d ++ [(m_table m, t)]
        end).
End Migrate.

Arguments mk_table {coldesc}.
Arguments t_cols {coldesc}.
Arguments t_indexes {coldesc}.
Arguments t_constraints {coldesc}.

(* ------------------------------------------------------------------ *)
(* ReorderModels with autoAdd: dependencies first, each model once.  [None] = out of fuel. *)
Fixpoint ofold {S A} (f : A -> S -> option S) (l : list A) (s : S) : option S :=
  match l with
  | [] => Some s
  | a :: r => match f a s with Some s' => ofold f r s' | None => None end
  end.

Section Reorder.
  Variable deps : string -> list string.
  (* insertIntoOrderedList: state = (orderedModelNamesMap, orderedModelNames) *)
  Fixpoint visit (fuel : nat) (name : string) (st : list string * list string)
    : option (list string * list string) :=
    if existsb (String.eqb name) (fst st) then Some st else
    match fuel with
    | O => None
    | S fuel' =>
        match ofold (visit fuel') (deps name) (name :: fst st, snd st) with
        | Some st' => Some (fst st', snd st' ++ [name])
        | None => None
        end
    end.
  Definition reorder (fuel : nat) (names : list string) : option (list string) :=
    match ofold (visit fuel) names ([], []) with Some st => Some (snd st) | None => None end.
End Reorder.

(* the dependency relation as the checker receives it: an association list model -> its dependencies
   (a model without an entry has none); the checker runs [reorder (deps_of deps) (S (length deps))] *)
Definition deps_of (deps : list (string * list string)) (n : string) : list string :=
  match lookup n deps with Some l => l | None => [] end.
