(* C17_Wide.v — "exactly once" for every history whatsoever (no domain): C17_CheckK.wide_once holds on the
   model's answers. *)
From Verif Require Import Base C17_Model C17_Check C17_Known C17_CheckK C17_Proofs C17_Proofs2.
From Coq Require Import Permutation.
Open Scope string_scope.
Open Scope list_scope.

Definition flags_ok (cs : list cb) : Prop := forall c, In c cs -> cb_remove c = false /\ cb_matched c = true.

Lemma compile_filter_remove_any : forall cs c,
  flags_ok cs -> cb_remove c = true ->
  compile_filter (cs ++ [c]) = filter (fun x => negb (String.eqb (cb_name c) (cb_name x))) cs.
Proof.
  intros cs c H Hc. unfold compile_filter.
  rewrite !filter_app. cbn. rewrite Hc.
  rewrite (filter_none _ cb_remove cs) by (intros x Hx; apply H, Hx). cbn.
  rewrite (filter_all _ cb_matched cs) by (intros x Hx; apply H, Hx).
  assert (E : filter (fun c0 : cb => negb ((cb_name c0 =? cb_name c) || false)) (if cb_matched c then [c] else []) = []).
  { destruct (cb_matched c); [|reflexivity]. cbn. now rewrite String.eqb_refl. }
  rewrite E, app_nil_r. apply filter_ext. intro x. now rewrite orb_false_r, String.eqb_sym.
Qed.

Lemma cb_of_step_facts : forall cs s i,
  cb_name (cb_of_step cs s i) = st_name s
  /\ cb_matched (cb_of_step cs s i) = st_matched s
  /\ cb_remove (cb_of_step cs s i) = match st_kind s with KRemove => true | _ => false end.
Proof. intros cs s i. unfold cb_of_step. destruct (st_kind s); cbn; auto. Qed.

(* the names compile keeps = the registered names of the wide book *)
Lemma wide_kept : forall cs live s i,
  flags_ok cs -> (forall n, In n (map cb_name cs) <-> In n live) ->
  let kept := compile_filter (cs ++ [cb_of_step cs s i]) in
  flags_ok kept /\ (forall n, In n (map cb_name kept) <-> In n (wide_apply live s)).
Proof.
  intros cs live s i Hf Hn. cbn zeta.
  destruct (cb_of_step_facts cs s i) as (En & Em & Er).
  set (c := cb_of_step cs s i) in *.
  unfold wide_apply. destruct (st_kind s) eqn:Ek.
  1,2: rewrite compile_filter_plain by (auto; exact Er); rewrite Em;
       destruct (st_matched s) eqn:Es; cbn [andb];
       [ split;
         [ intros x Hx; apply in_app_iff in Hx; destruct Hx as [Hx|[<-|[]]]; [apply Hf, Hx|split; [exact Er|exact Em]]
         | intro n; rewrite map_app, in_app_iff; cbn; rewrite En, (Hn n);
           destruct (mem live (st_name s)) eqn:Ml; cbn [negb];
           [ apply mem_true in Ml; split; [intros [H|[<-|[]]]; assumption|auto]
           | rewrite in_app_iff; cbn; tauto ] ]
       | rewrite app_nil_r; split; [exact Hf|exact Hn] ].
  rewrite compile_filter_remove_any by (auto; exact Er). rewrite En. split.
  - intros x Hx. apply filter_In in Hx. apply Hf, Hx.
  - intro n. rewrite in_map_iff, filter_In. split.
    + intros (x & <- & Hx). apply filter_In in Hx. destruct Hx as [Hx Hne]. split; [apply Hn, in_map, Hx|exact Hne].
    + intros [Hl Hne]. apply Hn in Hl. apply in_map_iff in Hl. destruct Hl as (x & <- & Hx).
      exists x. split; [reflexivity|]. apply filter_In. auto.
Qed.

Lemma wide_once_ok_sets : forall live f,
  NoDup (map fst f) -> (forall n, In n (map fst f) <-> In n live) -> wide_once_ok live f = true.
Proof.
  intros live f Hd Hs. unfold wide_once_ok. rewrite !andb_true_iff. split; [split|].
  - apply nodupb_true, Hd.
  - apply forallb_forall. intros x Hx. apply mem_true, Hs, in_map, Hx.
  - apply forallb_forall. intros n Hn. apply mem_true, Hs, Hn.
Qed.

Lemma wide_from : forall h p live i,
  flags_ok (p_cs p) -> (forall n, In n (map cb_name (p_cs p)) <-> In n live) ->
  wide_once live O h (run_from p i h) = true.
Proof.
  induction h as [|s h IH]; intros p live i Hf Hn; cbn [wide_once run_from]; [reflexivity|].
  destruct (wide_kept (p_cs p) live s i Hf Hn) as [Kf Kn]. cbn zeta in Kf, Kn.
  pose proof (sort_callbacks_rel _ Kf) as S. unfold run_step.
  destruct (sort_callbacks (compile_filter (p_cs p ++ [cb_of_step (p_cs p) s i]))) as [cs fns|cs en et|cs en].
  - destruct S as (Sn & Sf & Sd & Si). apply andb_true_iff. split.
    + apply wide_once_ok_sets; [exact Sd|]. intro n. rewrite Si. apply Kn.
    + apply IH; cbn [p_cs]; [exact Sf|]. intro n. rewrite Sn. apply Kn.
  - destruct S as (Sn & Sf). cbn [andb]. apply IH; cbn [p_cs]; [exact Sf|]. intro n. rewrite Sn. apply Kn.
  - destruct S as (Sn & Sf). cbn [andb]. apply IH; cbn [p_cs]; [exact Sf|]. intro n. rewrite Sn. apply Kn.
Qed.

Theorem history_exactly_once_wide : forall h, wide_once [] O h (run h) = true.
Proof.
  intro h. apply wide_from; cbn.
  - intros c [].
  - intro n. tauto.
Qed.
