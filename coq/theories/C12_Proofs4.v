(* C12_Proofs4.v — witnesses: the one place where the code on the tree (as modelled, and as
   reproduced on real gorm by corpus/C12) still departs from the property; the former inputs of the
   three defects fixed in /repo; non-vacuity. *)
From Verif Require Import Base C12_Model C12_Proofs3.
Open Scope Z_scope.

Definition bt_init : st := mk_st [(1, None)] [] [11; 12] [[]].

(* belongs to: Unscoped().Replace(12) after Append(11) removes the OLD record 11 and keeps the record
   it has just linked (since fix 5e2c10c; before, with a pointer foreign key, it deleted 12);
   replacing a target by itself keeps it *)
Lemma former_belongs_unscoped_replace :
  let s := final KBelongs [1] bt_init [(false, OAppend [[11]]); (true, OReplace [[12]])] in
  links KBelongs s 1 = [12] /\ tgt s = [12] /\ find_ids KBelongs [1] s = [12].
Proof. repeat split; vm_compute; reflexivity. Qed.

Lemma belongs_unscoped_replace_same :
  let s := final KBelongs [1] bt_init [(false, OAppend [[11]]); (true, OReplace [[11]])] in
  links KBelongs s 1 = [11] /\ tgt s = [11; 12] /\ find_ids KBelongs [1] s = [11].
Proof. repeat split; vm_compute; reflexivity. Qed.

(* the inputs of two defects that were fixed in /repo (d23ce2a, 75c7076) now behave as the property
   says: Unscoped().Delete(12) while linked to 11 removes nothing; Unscoped().Clear() removes the
   link and the old record, without error *)
Lemma former_belongs_unscoped_delete :
  let s := final KBelongs [1] bt_init [(false, OAppend [[11]]); (true, ODelete [12])] in
  links KBelongs s 1 = [11] /\ tgt s = [11; 12] /\ find_ids KBelongs [1] s = [11].
Proof. repeat split; vm_compute; reflexivity. Qed.

Lemma former_belongs_unscoped_clear :
  let s := final KBelongs [1] bt_init [(false, OAppend [[11]]); (true, OClear)] in
  links KBelongs s 1 = [] /\ tgt s = [12] /\
  map snd (run KBelongs [1] bt_init [(false, OAppend [[11]]); (true, OClear)]) = [false; false].
Proof. repeat split; vm_compute; reflexivity. Qed.

(* many2many, two owners: Replace([12],[11]) after Append([11],[12]) leaves owner 1 with {11,12} *)
Definition m2m_init : st := mk_st [] [] [11; 12] [[]; []].
Lemma refuted_m2m_slice_replace :
  let s := final KM2M [1; 2] m2m_init [(false, OAppend [[11]; [12]]); (false, OReplace [[12]; [11]])] in
  links KM2M s 1 = [11; 12] /\ spec_run KM2M [(false, OAppend [[11]; [12]]); (false, OReplace [[12]; [11]])] [[]; []] = [[12]; [11]].
Proof. split; vm_compute; reflexivity. Qed.

(* has many: outside the admissible histories - a target given to two owners of one handle moves to
   the second; the first owner's in-memory field keeps it *)
Definition hm_init : st := mk_st [(11, None)] [] [] [[]; []].
Lemma refuted_steal :
  let ops := [(false, OAppend [[11]; []]); (false, OAppend [[]; [11]])] in
  let s := final KHasMany [1; 2] hm_init ops in
  links KHasMany s 1 = [] /\ nth 0 (mem s) [] = [11] /\ spec_run KHasMany ops [[]; []] = [[11]; [11]].
Proof. repeat split; vm_compute; reflexivity. Qed.

(* ---- non-vacuity: an admissible history on a struct handle ---- *)
From Verif Require Import C12_Proofs C12_Proofs2.
Lemma disjoint_single v : disjoint_lists [v].
Proof. intros [|i] [|j] vi vj t NE Hi Hj; try congruence; destruct i + destruct j; discriminate. Qed.
Lemma no_steal_single o s v : no_steal [o] s [v].
Proof. intros [|i] [|j] ow vi t NE Hi Hj; try congruence; destruct i + destruct j; discriminate. Qed.

Definition ex_init : st := mk_st [(11, None); (12, Some 7); (13, None)] [] [] [[]].
Definition ex_ops : list (bool * op) :=
  [(false, OAppend [[11; 12]]); (true, ODelete [11]); (false, OReplace [[13]]); (false, OClear)].

Example has_instance : wf_has [1] ex_init /\ hist_ok KHasMany [1] ex_init ex_ops.
Proof.
  split.
  - constructor.
    + cbn. repeat constructor; cbn; intuition discriminate.
    + repeat constructor. intros [].
    + reflexivity.
    + intros [|i] o m Ho Hm t; cbn in Ho, Hm; [|destruct i; discriminate].
      inversion Ho; inversion Hm; subst. unfold LK, ex_init. cbn [rows look]. split; [intros [] |].
      destruct (11 =? t); [discriminate|]. destruct (12 =? t); [discriminate|]. destruct (13 =? t); discriminate.
  - cbn. repeat split; auto using disjoint_single, no_steal_single; try discriminate.
Qed.
