(* C13_Check.v — correspondence checker for C13.
   model_agrees: the model, run on the input the real gorm just executed, yields the same merged
   trace (hook invocations with record identity and transaction, BEGIN/COMMIT/ROLLBACK, statements),
   the same accumulated error and the same tables.
   spec_holds: the property text evaluated on what gorm did (never calls the model's [run]). *)
From Verif Require Export Base C13_Model.
Open Scope Z_scope.

Record case := mk_case {
  c_op : op;
  ob_tr : list tev;        (* observed merged trace *)
  ob_err : list err;       (* result.Error split at "; " *)
  ob_lastis : bool;        (* errors.Is(result.Error, the error value injected last) *)
  ob_tbl : list row;       (* all tables afterwards *)
  ob_mem : list Z;         (* tags of the in-memory records afterwards (query: the loaded records) *)
  ob_kids : list Z;        (* query with Preload: tags of the Kid / Pet records found in the loaded records *)
  ob_pets : list Z;
  ob_panic : bool
}.

(* ---------------------------------------------------------------- model half *)
Definition subset_rows (a b : list row) : bool := forallb (fun r => existsb (row_eqb r) b) a.
Definition rows_same (a b : list row) : bool :=
  subset_rows a b && subset_rows b a && (Z.of_nat (length a) =? Z.of_nat (length b)).

Definition model_agrees (c : case) : bool :=
  let s := run (c_op c) in
  list_eqb tev_eqb (ob_tr c) (s_tr s)
  && list_eqb err_eqb (ob_err c) (s_err s)
  && rows_same (ob_tbl c) (s_tbl s)
  && negb (ob_panic c).

(* ---------------------------------------------------------------- spec half *)
Inductive pipe := PiCreate | PiUpdate | PiDelete | PiQuery.

(* the documented order of the hooks of each kind of operation *)
Definition doc_hooks (p : pipe) : list hook :=
  match p with
  | PiCreate => [BeforeSave; BeforeCreate; AfterCreate; AfterSave]
  | PiUpdate => [BeforeSave; BeforeUpdate; AfterUpdate; AfterSave]
  | PiDelete => [BeforeDelete; AfterDelete]
  | PiQuery => [AfterFind]
  end.

Definition is_before (h : hook) : bool :=
  match h with BeforeSave | BeforeCreate | BeforeUpdate | BeforeDelete => true | _ => false end.

(* which kind of operation the call is (Save: insert when the primary key is blank or the value is a
   slice, update otherwise) *)
Definition op_pipe (o : op) : pipe :=
  match o_kind o with
  | OCreate => PiCreate
  | OSave => match sh_cont (o_shape o), o_recs o with
             | CStruct, r :: _ => if m_id r =? 0 then PiCreate else PiUpdate
             | _, _ => PiCreate
             end
  | OUpdate | OUpdateColumn => PiUpdate
  | ODelete => PiDelete
  | OFind | OFirst => PiQuery
  | OCreateInBatches _ => PiCreate
  end.

Definition no_hooks_op (o : op) : bool :=
  o_skip o || match o_kind o with OUpdateColumn => true | _ => false end.

Definition boss_ty (o : op) := fst (fst (a_tys (o_assocs o))).
Definition kid_ty (o : op) := snd (fst (a_tys (o_assocs o))).
Definition pet_ty (o : op) := snd (a_tys (o_assocs o)).

(* the hooks one record must see, in order *)
Definition exp_rec (t : ty) (p : pipe) (tag : Z) : list hev :=
  map (fun h => (h, ty_id t, tag)) (filter (flag t) (doc_hooks p)).

Definition hev_eqb (a b : hev) : bool :=
  hook_eqb (fst (fst a)) (fst (fst b)) && (snd (fst a) =? snd (fst b)) && (snd a =? snd b).
Definition ev_of (t : ty) (tag : Z) (e : hev) : bool := (snd (fst e) =? ty_id t) && (snd e =? tag).

(* position of a phase in the operation: the record's own before-hooks, its belongs-to values, (the
   statement), its has-many values, its own after-hooks *)
Fixpoint index_of (x : Z) (l : list Z) : Z :=
  match l with [] => 0 | y :: r => if x =? y then 0 else 1 + index_of x r end.

(* CreateInBatches: batch number of a record (0 for every other operation) *)
Definition batch_no (o : op) (tag : Z) : Z :=
  match o_kind o with
  | OCreateInBatches b => index_of tag (map m_tag (o_recs o)) / Z.max 1 b
  | _ => 0
  end.

Definition keeper_ty (o : op) := a_keeper_ty (o_assocs o).

(* phases: own before 0, belongs-to 3/6, has-many values 9/12 (their own belongs-to values 10/11), has-many
   pointers 15/18, own after 21; CreateInBatches: 24 per batch *)
Definition rank (o : op) (e : hev) : Z :=
  let h := fst (fst e) in let t := snd (fst e) in
  if t =? ty_id (o_ty o) then 24 * batch_no o (snd e) + (if is_before h then 0 else 21)
  else if negb (is_nil (a_keepers (o_assocs o))) && (t =? ty_id (keeper_ty o)) then (if is_before h then 10 else 11)
  else if t =? ty_id (boss_ty o) then (if is_before h then 3 else 6)
  else if t =? ty_id (kid_ty o) then (if is_before h then 9 else 12)
  else if t =? ty_id (pet_ty o) then (if is_before h then 15 else 18)
  else 99.

Fixpoint nondecreasing (l : list Z) : bool :=
  match l with
  | a :: ((b :: _) as r) => (a <=? b) && nondecreasing r
  | _ => true
  end.

Fixpoint prefix_b (a b : list hev) : bool :=
  match a, b with
  | [], _ => true
  | x :: a', y :: b' => hev_eqb x y && prefix_b a' b'
  | _ :: _, [] => false
  end.

(* all the (type, pipe, tag) records whose hooks the operation owes *)
Definition owed (o : op) (mem kids pets : list Z) : list (ty * pipe * Z) :=
  let p := op_pipe o in
  match p with
  | PiQuery => map (fun g => (o_ty o, PiQuery, g)) mem
               ++ (if x_preload (o_x o)
                   then map (fun g => (kid_ty o, PiQuery, g)) kids ++ map (fun g => (pet_ty o, PiQuery, g)) pets
                   else [])
  | PiDelete => map (fun r => (o_ty o, PiDelete, m_tag r)) (o_recs o)
                (* Delete with Select(<has-many>): the nested Delete runs on one blank in-memory record *)
                ++ (if is_nil (o_recs o) then []
                    else if x_delassoc (o_x o) =? 1 then [(kid_ty o, PiDelete, 0)]
                    else if x_delassoc (o_x o) =? 2 then [(pet_ty o, PiDelete, 0)] else [])
  | _ => map (fun r => (o_ty o, p, m_tag r)) (o_recs o)
         ++ map (fun r => (boss_ty o, PiCreate, m_tag r)) (a_boss (o_assocs o))
         ++ map (fun r => (kid_ty o, PiCreate, m_tag r)) (a_kids (o_assocs o))
         ++ map (fun r => (pet_ty o, PiCreate, m_tag r)) (a_pets (o_assocs o))
         ++ map (fun r => (keeper_ty o, PiCreate, m_tag r)) (a_keepers (o_assocs o))
  end.

Definition sumz (l : list Z) : Z := fold_right Z.add 0 l.

(* the operation is inside the domain the property speaks about: the value is reachable through a
   pointer (struct by value = ErrInvalidValue, DESIGN 8.0) and holds no nil element *)
Definition in_domain (o : op) : bool :=
  negb (existsb m_nil (o_recs o))
  && match sh_cont (o_shape o) with
     | CStruct => sh_outer_ptr (o_shape o)
     | CSlice => true
     | CArray => sh_outer_ptr (o_shape o) || sh_elem_ptr (o_shape o)
     end.

(* the transaction every hook and statement of the trace ran in = the one open at that moment *)
Fixpoint tx_ok (must_tx : bool) (cur n : Z) (tr : list tev) : bool :=
  match tr with
  | [] => true
  | TBegin :: r => (cur =? 0) && tx_ok must_tx (n + 1) (n + 1) r
  | TCommit :: r | TRollback :: r => negb (cur =? 0) && tx_ok must_tx 0 n r
  | THook _ _ _ p :: r | TStmt _ _ p :: r => (p =? cur) && (negb must_tx || negb (cur =? 0)) && tx_ok must_tx cur n r
  end.

Definition is_commit (e : tev) := match e with TCommit => true | _ => false end.
Definition is_stmt (e : tev) := match e with TStmt _ _ _ => true | _ => false end.
Definition is_hookev (e : tev) := match e with THook _ _ _ _ => true | _ => false end.

(* the part of the trace after the k-th hook invocation *)
Fixpoint after_hook (k : Z) (tr : list tev) : list tev :=
  match tr with
  | [] => []
  | e :: r => if is_hookev e then (if k =? 0 then r else after_hook (k - 1) r) else after_hook k r
  end.

(* before-hooks of the records of table t come before the first statement on t, after-hooks after it *)
Fixpoint bracket_ok (tid : Z) (t : table) (seen : bool) (tr : list tev) : bool :=
  match tr with
  | [] => true
  | THook h ti _ _ :: r =>
      (if ti =? tid then (if is_before h then negb seen else seen) else true) && bracket_ok tid t seen r
  | TStmt _ t' _ :: r => bracket_ok tid t (seen || table_eqb t t') r
  | _ :: r => bracket_ok tid t seen r
  end.

Fixpoint index_from (k : Z) (l : list hev) : list (Z * hev) :=
  match l with [] => [] | e :: r => (k, e) :: index_from (k + 1) r end.

(* the value a record's before-hooks asked for last (None: they asked for nothing) *)
Definition last_set (o : op) (pred : hev -> bool) (hs : list hev) : option Z :=
  fold_left (fun acc ke =>
     let '(k, e) := ke in
     if pred e && is_before_save_hook (fst (fst e)) && memz k (o_sets o) then Some (1000 + k) else acc)
    (index_from 0 hs) None.

Definition row_has (t : table) (tag v : Z) (tb : list row) : bool := existsb (row_eqb (t, tag, v)) tb.

Definition vals_ok (o : op) (hs : list hev) (tb : list row) : bool :=
  let per_rec (t : ty) (tbn : table) (recs : list mrec) :=
    forallb (fun r => match last_set o (ev_of t (m_tag r)) hs with
                      | Some v => row_has tbn (m_tag r) v tb
                      | None => true
                      end) recs in
  match op_pipe o with
  | PiCreate =>
      if x_setall (o_x o) && negb (match sh_cont (o_shape o) with CStruct => true | _ => false end)
      then (* SetColumn(..., true) sets every record of the slice: the last value asked for wins for all *)
        match last_set o (fun e => snd (fst e) =? ty_id (o_ty o)) hs with
        | Some v => forallb (fun r => row_has TRecs (m_tag r) v tb) (o_recs o)
        | None => true
        end
      else per_rec (o_ty o) TRecs (o_recs o)
  | PiUpdate =>
      match o_kind o with
      | OSave => per_rec (o_ty o) TRecs (o_recs o)
      | _ => (* one payload for all the targeted rows: the last value asked for wins *)
          match last_set o (fun e => snd (fst e) =? ty_id (o_ty o)) hs with
          | Some v => forallb (fun r => negb (has_row TRecs (m_tag r) (o_seed o)) || row_has TRecs (m_tag r) v tb) (o_recs o)
          | None => true
          end
      end
  | _ => true
  end
  && match op_pipe o with
     | PiCreate | PiUpdate =>
         per_rec (boss_ty o) TBosses (a_boss (o_assocs o))
         && per_rec (kid_ty o) TKids (a_kids (o_assocs o))
         && per_rec (pet_ty o) TPets (a_pets (o_assocs o))
     | _ => true
     end.

Definition spec_holds (c : case) : bool :=
  let o := c_op c in
  let hs := hooks_of (ob_tr c) in
  let nh := Z.of_nat (length hs) in
  let ow := owed o (ob_mem c) (ob_kids c) (ob_pets c) in
  let failing := filter (fun k => (0 <=? k) && (k <? nh)) (o_fails o) in
  let write := match op_pipe o with PiQuery => false | _ => true end in
  let must_tx := write && match o_txmode o with TxSkipDefault => false | _ => true end in
  negb (ob_panic c)
  (* every hook and statement used the operation's own transaction *)
  && tx_ok must_tx 0 0 (ob_tr c)
  && (if no_hooks_op o then is_nil hs            (* SkipHooks sessions and UpdateColumn(s) run no hooks *)
      else if negb (in_domain o) then
        (* outside the domain: only "never twice" *)
        forallb (fun x => let '(t, p, g) := x in prefix_b (filter (ev_of t g) hs) (exp_rec t p g)) ow
      else
        (* documented order: phases in order, around the statement of their table *)
        nondecreasing (map (rank o) hs)
        && (match o_kind o with OCreateInBatches _ => true   (* one statement per batch: the ranks order the batches *)
            | _ => bracket_ok (ty_id (o_ty o)) TRecs false (ob_tr c) end)
        && bracket_ok (ty_id (boss_ty o)) TBosses false (ob_tr c)
        && bracket_ok (ty_id (kid_ty o)) TKids false (ob_tr c)
        && bracket_ok (ty_id (pet_ty o)) TPets false (ob_tr c)
        && (is_nil (a_keepers (o_assocs o)) || bracket_ok (ty_id (keeper_ty o)) TKeepers false (ob_tr c))
        && match failing with
           | [] =>
             (* each applicable hook exactly once per in-memory record, in the documented order *)
             forallb (fun x => let '(t, p, g) := x in list_eqb hev_eqb (filter (ev_of t g) hs) (exp_rec t p g)) ow
             && (nh =? sumz (map (fun x => let '(t, p, g) := x in Z.of_nat (length (exp_rec t p g))) ow))
             (* no error out of thin air, and values set by before-hooks are the values stored *)
             && (negb (is_nil (ob_err c)) || vals_ok o hs (ob_tbl c))
           | k0 :: _ =>
             let kf := fold_right Z.min k0 failing in        (* the first failing invocation *)
             let rf := rank o (nth (Z.to_nat kf) hs (AfterFind, -1, -1)) in
             (* the error is returned *)
             existsb (err_eqb (EInj kf)) (ob_err c) && ob_lastis c
             (* no later phase runs: no hook of a later phase, no statement after the failure *)
             && forallb (fun e => rank o e <=? rf) hs
             && negb (existsb is_stmt (after_hook kf (ob_tr c)))
             (* the phases before the failing one are complete, nothing fires twice *)
             && forallb (fun x => let '(t, p, g) := x in
                    let got := filter (ev_of t g) hs in
                    prefix_b got (exp_rec t p g)
                    && forallb (fun e => (rf <=? rank o e) || existsb (hev_eqb e) got) (exp_rec t p g)) ow
             (* everything the operation did is rolled back *)
             && (negb must_tx || (rows_same (ob_tbl c) (o_seed o) && negb (existsb is_commit (ob_tr c))))
           end).

Definition check_case (c : case) : N := code_of (model_agrees c) (spec_holds c).
