(* C06_Proofs5.v — every chain method satisfies [ospec] with its list-level counterpart,
   provided no MergeClause body appends in place (md f = false for every f). *)
From Verif Require Import Base C06_Model C06_Proofs2 C06_Proofs3 C06_Proofs4.
Open Scope nat_scope.

Tactic Notation "binv" hyp(E) "as" ident(E1) ident(E2) :=
  let a := fresh "a" in let h1 := fresh "h" in let w1 := fresh "w" in let w2 := fresh "w" in
  apply bind_inv in E; destruct E as (a & h1 & w1 & w2 & E1 & E2 & ->).
Ltac rdinv E := apply rdc_inv in E; destruct E as (-> & -> & ->).
Ltac rinv E := apply ret_inv in E; destruct E as (-> & -> & ->).
Ltac wclean := cbn [app]; rewrite ?app_nil_r.

Lemma rdo_some h c xs : rdo h c = Some xs -> rd h c = xs.
Proof. destruct c; cbn; intro H; inversion H; auto. Qed.

Lemma sres_nil_shape h f ct v h' w : sres h f SNil ct v h' w -> v = SNil \/ fresh h v.
Proof. intro R. destruct (sr_shape _ _ _ _ _ _ _ R) as [E | [F | (l & n & n' & c & E & _)]]; auto. discriminate. Qed.

Lemma sres_nil_w h f ct v h' w : sres h f SNil ct v h' w -> forall l i, In (l, i) w -> length h <= l.
Proof. intros R l i Hin. destruct (sr_w _ _ _ _ _ _ _ R _ _ Hin) as [H | (n & c & E & _)]; auto. discriminate. Qed.

Lemma sres_nil_rd_old h f ct v h' w g x : sres h f SNil ct v h' w -> wf_slice h g x -> rd h' x = rd h x.
Proof.
  intros R W. destruct x as [|l n c]; auto. eapply rd_frame; eauto; [apply (sr_ext _ _ _ _ _ _ _ R)|].
  intros i Hi Hin. apply (sres_nil_w _ _ _ _ _ _ R) in Hin. apply wf_slice_lt in W. lia.
Qed.

Lemma sres_seq_fresh h f c1 s1 h1 w1 c2 s2 h2 w2 :
  sres h f SNil c1 s1 h1 w1 -> sres h1 f SNil c2 s2 h2 w2 -> sres h f SNil c2 s2 h2 (w1 ++ w2).
Proof.
  intros R1 R2. assert (X1 := sr_ext _ _ _ _ _ _ _ R1). assert (L : length h <= length h1) by apply X1.
  constructor.
  - eapply hext_trans; [exact X1 | apply (sr_ext _ _ _ _ _ _ _ R2)].
  - apply (sr_wf _ _ _ _ _ _ _ R2).
  - apply (sr_rd _ _ _ _ _ _ _ R2).
  - intros l i Hin. left. apply in_app_iff in Hin. destruct Hin as [Hin | Hin].
    + apply (sres_nil_w _ _ _ _ _ _ R1 _ _ Hin).
    + apply (sres_nil_w _ _ _ _ _ _ R2) in Hin. lia.
  - destruct (sres_nil_shape _ _ _ _ _ _ R2) as [-> | F]; auto.
    right; left. destruct s2; auto. cbn in *. lia.
Qed.

Lemma sres_ret h f s : wf_slice h f s -> sres h f s (rdo h s) s h [].
Proof. intro W. constructor; auto. apply hext_refl. intros l i []. Qed.

Lemma ospec_weaken P h s s' h' w w' : ospec P h s s' h' w -> incl w w' -> ospec P h s s' h' w'.
Proof. intros O I. destruct O. constructor; auto. eapply hext_weaken; eauto. Qed.

Lemma papp_some l xs : papp (Some l) xs = Some (l ++ xs).
Proof. destruct xs; reflexivity. Qed.

(* set_sl without a change of scalars *)
Lemma ospec_set0 P h s f old content v h' w :
  swf h s -> (old = sl s f \/ old = SNil) ->
  sres h f old content v h' w ->
  (excl f = true \/ v = old \/ fresh h v \/ v = SNil) ->
  peq (mk_p (fun g => if field_eqb g f then content else rdo h (sl s g)) (sc s)) (P (abs h s)) ->
  ospec P h s (set_sl s f v) h' w.
Proof. intros. change (set_sl s f v) with (set_sc (set_sl s f v) (sc s)). eapply ospec_set; eauto. Qed.

Lemma shape_nil h f ct v h' w :
  sres h f SNil ct v h' w -> excl f = true \/ v = SNil \/ fresh h v \/ v = SNil.
Proof. intro R. destruct (sres_nil_shape _ _ _ _ _ _ R); auto. Qed.

Section Ops.
Variable grow : field -> nat -> nat -> nat.
Variable md : field -> bool.
Hypothesis Hmd : forall f, md f = false.

Lemma merge_append_spec f old xs h v h' w :
  wf_slice h f old -> merge_append grow md f old xs h = (v, h', w) ->
  sres h f SNil (Some (rd h old ++ xs)) v h' w.
Proof.
  intros W E. unfold merge_append in E. rewrite Hmd in E. binv E as E0 E1.
  assert (R1 := h_copy_spec _ _ _ _ _ _ SNil E0).
  assert (R2 := h_append_spec grow _ _ _ _ _ _ _ (sr_wf _ _ _ _ _ _ _ R1) E1).
  assert (R := sres_trans _ _ _ _ _ _ _ _ _ _ _ R1 R2).
  rewrite (sr_rd _ _ _ _ _ _ _ R1), papp_some in R. exact R.
Qed.

(* ---- Where.MergeClause ---- *)
Lemma m_where_spec h s c xs h1 w1 s' h' w2 :
  swf h s -> sres h FWhere SNil (Some xs) c h1 w1 ->
  m_where grow md s c h1 = (s', h', w2) ->
  ospec (fun p => p_where p xs) h s s' h' (w1 ++ w2).
Proof.
  intros W R1 E. unfold m_where in E. destruct (sl s FWhere) as [|l n c0] eqn:Ew.
  - rinv E. wclean. eapply ospec_set0 with (old := SNil); eauto using shape_nil.
    unfold p_where. rewrite abs_pl, Ew. cbn [rdo]. apply peq_pointwise; reflexivity.
  - rewrite Hmd in E. binv E as E0 E1. rdinv E0.
    binv E1 as E2 E3. rdinv E2.
    binv E3 as E4 E5. rinv E5. wclean.
    assert (R2 := h_lit_spec _ _ _ _ _ _ SNil E4).
    rewrite (rdo_some _ _ _ (sr_rd _ _ _ _ _ _ _ R1)) in R2.
    assert (Wo : wf_slice h FWhere (SArr l n c0)) by (rewrite <- Ew; apply W).
    rewrite (sres_nil_rd_old _ _ _ _ _ _ _ _ R1 Wo) in R2.
    assert (R := sres_seq_fresh _ _ _ _ _ _ _ _ _ _ R1 R2).
    eapply ospec_set0 with (old := SNil); eauto using shape_nil.
    unfold p_where. rewrite abs_pl, Ew. apply peq_pointwise; reflexivity.
Qed.

(* ---- OrderBy.MergeClause ---- *)
Lemma m_order_spec h s c xs re h1 w1 s' h' w2 :
  swf h s -> sres h FOrder SNil (Some xs) c h1 w1 ->
  m_order grow md s c re h1 = (s', h', w2) ->
  ospec (fun p => p_order p xs re) h s s' h' (w1 ++ w2).
Proof.
  intros W R1 E. unfold m_order in E. destruct (sl s FOrder) as [|l n c0] eqn:Eo.
  - rinv E. wclean. eapply ospec_set0 with (old := SNil); eauto using shape_nil.
    unfold p_order. rewrite abs_pl, Eo. cbn [rdo]. apply peq_pointwise; reflexivity.
  - destruct re.
    + rinv E. wclean. eapply ospec_set0 with (old := SNil); eauto using shape_nil.
      unfold p_order. rewrite abs_pl, Eo. cbn [rdo]. apply peq_pointwise; reflexivity.
    + binv E as E0 E1. rdinv E0. binv E1 as E2 E3. rinv E3. wclean.
      assert (Wo : wf_slice h FOrder (SArr l n c0)) by (rewrite <- Eo; apply W).
      assert (Wo1 : wf_slice h1 FOrder (SArr l n c0)) by (eapply wf_slice_ext; [apply (sr_ext _ _ _ _ _ _ _ R1) | exact Wo]).
      assert (R2 := merge_append_spec _ _ _ _ _ _ _ Wo1 E2).
      rewrite (rdo_some _ _ _ (sr_rd _ _ _ _ _ _ _ R1)) in R2.
      rewrite (sres_nil_rd_old _ _ _ _ _ _ _ _ R1 Wo) in R2.
      assert (R := sres_seq_fresh _ _ _ _ _ _ _ _ _ _ R1 R2).
      eapply ospec_set0 with (old := SNil); eauto using shape_nil.
      unfold p_order. rewrite abs_pl, Eo. apply peq_pointwise; reflexivity.
Qed.

(* an argument slice: nil, or allocated above h (by the operation itself) *)
Definition fin_slice (h h1 : heap) (f : field) (x : slice) (o : option (list cell)) : Prop :=
  wf_slice h1 f x /\ rdo h1 x = o /\ (x = SNil \/ fresh h x).

Lemma sres_of_fin h h1 w1 f x o :
  hext h h1 w1 -> (forall l i, In (l, i) w1 -> length h <= l) -> fin_slice h h1 f x o ->
  sres h f SNil o x h1 w1.
Proof.
  intros X Hw (Wx & Rx & Sx). constructor; auto.
  - intros l i Hin. left. eapply Hw; eauto.
  - destruct Sx; auto.
Qed.

Lemma fin_of_sres h f o x h1 w1 : sres h f SNil o x h1 w1 -> fin_slice h h1 f x o.
Proof. intro R. split; [apply (sr_wf _ _ _ _ _ _ _ R) | split; [apply (sr_rd _ _ _ _ _ _ _ R) | apply (sres_nil_shape _ _ _ _ _ _ R)]]. Qed.

Lemma fin_nil h h1 f : fin_slice h h1 f SNil None.
Proof. split; [exact I | split; auto]. Qed.

Lemma pcopy_rdo h x : pcopy (rdo h x) = rd h x.
Proof. destruct x; reflexivity. Qed.

Lemma rd_fresh_frame h1 h2 w f x :
  hext h1 h2 w -> (forall l i, In (l, i) w -> length h1 <= l) -> wf_slice h1 f x -> rd h2 x = rd h1 x.
Proof.
  intros X Hw W. destruct x as [|l n c]; auto. eapply rd_frame; eauto.
  intros i Hi Hin. apply Hw in Hin. apply wf_slice_lt in W. lia.
Qed.

Lemma rdo_fresh_frame h1 h2 w f x :
  hext h1 h2 w -> (forall l i, In (l, i) w -> length h1 <= l) -> wf_slice h1 f x -> rdo h2 x = rdo h1 x.
Proof. intros X Hw W. destruct x; auto. unfold rdo. f_equal. eapply rd_fresh_frame; eauto. Qed.

Lemma fresh_mono h h1 x : length h <= length h1 -> fresh h1 x -> fresh h x.
Proof. destruct x; cbn; auto. lia. Qed.

(* ---- GroupBy.MergeClause ---- *)
Lemma m_group_spec h s cols having oc oh h1 w1 s' h' w2 :
  swf h s -> hext h h1 w1 -> (forall l i, In (l, i) w1 -> length h <= l) ->
  fin_slice h h1 FGroup cols oc -> fin_slice h h1 FHaving having oh ->
  m_group grow md s cols having h1 = (s', h', w2) ->
  ospec (fun p => p_group p oc oh) h s s' h' (w1 ++ w2).
Proof.
  intros W X1 Hw1 (Wc & Rc & Sc) (Wh & Rh & Sh) E. unfold m_group in E.
  assert (L1 : length h <= length h1) by apply X1.
  destruct (k_grpp (sc s)) eqn:Eg.
  - binv E as E0 E1. rdinv E0. binv E1 as E2 E3. binv E3 as E4 E5. rdinv E4. binv E5 as E6 E7. rinv E7. wclean.
    assert (Wg1 : wf_slice h1 FGroup (sl s FGroup)) by (eapply wf_slice_ext; eauto).
    assert (Rg := merge_append_spec _ _ _ _ _ _ _ Wg1 E2).
    assert (Xg := sr_ext _ _ _ _ _ _ _ Rg). assert (Lg : length h1 <= length h0) by apply Xg.
    assert (Wh2 : wf_slice h0 FHaving (sl s FHaving)) by (eapply wf_slice_ext; [exact Xg | eapply wf_slice_ext; eauto]).
    assert (Rhv := merge_append_spec _ _ _ _ _ _ _ Wh2 E6).
    assert (Xh := sr_ext _ _ _ _ _ _ _ Rhv).
    assert (Hwg := sres_nil_w _ _ _ _ _ _ Rg). assert (Hwh := sres_nil_w _ _ _ _ _ _ Rhv).
    apply ospec_of_writes; auto.
    + eapply hext_trans; [exact X1 | eapply hext_trans; eauto].
    + intro g. cbn. destruct (field_eqb g FHaving) eqn:E1; [apply field_eqb_spec in E1; subst; apply (sr_wf _ _ _ _ _ _ _ Rhv)|].
      destruct (field_eqb g FGroup) eqn:E2'; [apply field_eqb_spec in E2'; subst; eapply wf_slice_ext; [exact Xh | apply (sr_wf _ _ _ _ _ _ _ Rg)]|].
      eapply wf_slice_ext; [exact Xh | eapply wf_slice_ext; [exact Xg | eapply wf_slice_ext; eauto]].
    + intro g. cbn. destruct (field_eqb g FHaving) eqn:E1.
      { destruct (sres_nil_shape _ _ _ _ _ _ Rhv) as [-> | F]; auto. right; right; left. eapply fresh_mono; [|exact F]. lia. }
      destruct (field_eqb g FGroup) eqn:E2'; auto.
      destruct (sres_nil_shape _ _ _ _ _ _ Rg) as [-> | F]; auto. right; right; left. eapply fresh_mono; eauto.
    + intros l i Hin. left. rewrite !in_app_iff in Hin. destruct Hin as [Hin | [Hin | Hin]].
      * apply Hw1 in Hin; lia.
      * apply Hwg in Hin; lia.
      * apply Hwh in Hin; lia.
    + unfold p_group. rewrite abs_pk, Eg. apply peq_pointwise; auto.
      intro g. cbn. destruct (field_eqb g FHaving) eqn:E1.
      { rewrite (sr_rd _ _ _ _ _ _ _ Rhv). f_equal. rewrite !pcopy_rdo. f_equal.
        - rewrite (rd_fresh_frame _ _ _ _ _ Xg Hwg) by (eapply wf_slice_ext; eauto).
          eapply rd_fresh_frame; eauto.
        - rewrite <- Rh, pcopy_rdo. eapply rd_fresh_frame; eauto. }
      destruct (field_eqb g FGroup) eqn:E2'.
      { assert (Wa : wf_slice h0 FGroup a) by apply (sr_wf _ _ _ _ _ _ _ Rg).
        rewrite (rdo_fresh_frame _ _ _ _ _ Xh Hwh Wa), (sr_rd _ _ _ _ _ _ _ Rg). f_equal.
        rewrite !pcopy_rdo. f_equal; [eapply rd_fresh_frame; eauto | rewrite <- Rc, pcopy_rdo; reflexivity]. }
      rewrite (rdo_fresh_frame _ _ _ _ _ Xh Hwh) by (eapply wf_slice_ext; [exact Xg | eapply wf_slice_ext; eauto]).
      rewrite (rdo_fresh_frame _ _ _ _ _ Xg Hwg) by (eapply wf_slice_ext; eauto).
      eapply rdo_fresh_frame; eauto.
  - rinv E. wclean. apply ospec_of_writes; auto.
    + intro g. cbn. destruct (field_eqb g FHaving) eqn:E1; [apply field_eqb_spec in E1; subst; exact Wh|].
      destruct (field_eqb g FGroup) eqn:E2; [apply field_eqb_spec in E2; subst; exact Wc|].
      eapply wf_slice_ext; eauto.
    + intro g. cbn. destruct (field_eqb g FHaving) eqn:E1; [destruct Sh; auto|].
      destruct (field_eqb g FGroup) eqn:E2; [destruct Sc; auto | auto].
    + intros l i Hin. left. eauto.
    + unfold p_group. rewrite abs_pk, Eg. apply peq_pointwise; auto.
      intro g. cbn. destruct (field_eqb g FHaving) eqn:E1; auto.
      destruct (field_eqb g FGroup) eqn:E2; auto.
      eapply rdo_fresh_frame; eauto.
Qed.

(* ---- Returning.MergeClause (with the copy-before-append body) ---- *)
Lemma m_ret_spec h s cols oc h1 w1 s' h' w2 :
  swf h s -> hext h h1 w1 -> (forall l i, In (l, i) w1 -> length h <= l) ->
  fin_slice h h1 FRet cols oc ->
  m_ret grow md s cols h1 = (s', h', w2) ->
  ospec (fun p => p_ret p oc) h s s' h' (w1 ++ w2).
Proof.
  intros W X1 Hw1 Fc E. assert (R1 := sres_of_fin _ _ _ _ _ _ X1 Hw1 Fc).
  destruct Fc as (Wc & Rc & Sc). unfold m_ret in E. binv E as E0 E1. rinv E1. wclean.
  assert (Len : length (pcopy oc) = slen cols) by (rewrite <- Rc, pcopy_rdo; eapply rd_length; eauto).
  destruct (k_retp (sc s) && negb (slen cols =? 0)) eqn:Eb.
  - destruct (sl s FRet) as [|l n c0] eqn:Er.
    + rinv E0. wclean.
      eapply ospec_set with (old := SNil) (content := None); eauto.
      * apply sres_of_fin; auto. apply fin_nil.
      * unfold p_ret. rewrite abs_pk, Len, Eb, abs_pl, Er. apply peq_pointwise; reflexivity.
    + binv E0 as E2 E3. rdinv E2. cbn [app]. rewrite Hmd in E3.
      binv E3 as E4 E5. rdinv E4. cbn [app].
      assert (Wo : wf_slice h FRet (SArr l n c0)) by (rewrite <- Er; apply W).
      assert (R2 := h_lit_spec _ _ _ _ _ _ SNil E5).
      rewrite (sres_nil_rd_old _ _ _ _ _ _ _ _ R1 Wo) in R2.
      assert (R := sres_seq_fresh _ _ _ _ _ _ _ _ _ _ R1 R2).
      eapply ospec_set with (old := SNil); eauto using shape_nil.
      unfold p_ret. rewrite abs_pk, Len, Eb, abs_pl, Er. cbn [rdo].
      rewrite <- Rc, pcopy_rdo. apply peq_pointwise; reflexivity.
  - rinv E0. wclean. eapply ospec_set with (old := SNil); eauto using shape_nil.
    unfold p_ret. rewrite abs_pk, Len, Eb. apply peq_pointwise; reflexivity.
Qed.

(* ---- Select with plain column names ---- *)
Lemma do_select_spec h s c xs0 more h1 w1 s' h' w2 :
  swf h s -> sres h FSel SNil (Some xs0) c h1 w1 ->
  do_select grow s c more h1 = (s', h', w2) ->
  ospec (fun p => pset p FSel (Some (xs0 ++ more))) h s s' h' (w1 ++ w2).
Proof.
  intros W R1 E. unfold do_select in E. binv E as E0 E1. rinv E1. wclean.
  assert (R2 := h_append_each_spec grow _ _ _ _ _ _ _ (sr_wf _ _ _ _ _ _ _ R1) E0).
  assert (R := sres_trans _ _ _ _ _ _ _ _ _ _ _ R1 R2).
  rewrite (sr_rd _ _ _ _ _ _ _ R1), papp_some in R.
  eapply ospec_set0 with (old := SNil); eauto using shape_nil.
  apply peq_pointwise; reflexivity.
Qed.

Lemma ospec_scal0 P h s g :
  swf h s -> peq (p_scal (abs h s) g) (P (abs h s)) -> ospec P h s (upd_scal s g) h [].
Proof. intros W A. unfold upd_scal. apply ospec_scal; auto. Qed.

(* an operation on a statement that differs from s by its scalars only *)
Lemma ospec_after_scal P h s g s' h' w :
  ospec P h (upd_scal s g) s' h' w -> ospec (fun p => P (p_scal p g)) h s s' h' w.
Proof. intro O. destruct O. constructor; auto. Qed.

Theorem apply_op_spec h s o s' h' w :
  swf h s -> apply_op grow md s o h = (s', h', w) ->
  ospec (fun p => p_op p o) h s s' h' w.
Proof.
  intros W E. destruct o; cbn [apply_op p_op] in *.
  - (* Where *)
    destruct xs as [|x xs].
    + rinv E. apply ospec_id; auto. apply peq_refl.
    + binv E as E0 E1. eapply m_where_spec; eauto. eapply h_user_spec; eauto.
  - binv E as E0 E1. eapply m_where_spec; eauto. eapply h_lit_spec; eauto.
  - binv E as E0 E1. eapply m_where_spec; eauto. eapply h_lit_spec; eauto.
  - (* Having *)
    binv E as E0 E1. assert (R := h_user_spec _ _ _ _ _ _ _ SNil E0).
    eapply m_group_spec; eauto.
    + apply (sr_ext _ _ _ _ _ _ _ R).
    + apply (sres_nil_w _ _ _ _ _ _ R).
    + apply fin_nil.
    + apply fin_of_sres with (w1 := w0). exact R.
  - (* Group *)
    binv E as E0 E1. assert (R := h_lit_spec _ _ _ _ _ _ SNil E0).
    eapply m_group_spec; eauto.
    + apply (sr_ext _ _ _ _ _ _ _ R).
    + apply (sres_nil_w _ _ _ _ _ _ R).
    + apply fin_of_sres with (w1 := w0). exact R.
    + apply fin_nil.
  - binv E as E0 E1. eapply m_order_spec; eauto. eapply h_lit_spec; eauto.
  - binv E as E0 E1. eapply m_order_spec; eauto. eapply h_user_spec; eauto.
  - (* Limit *) rinv E. unfold m_limit. apply ospec_scal; auto. apply peq_pointwise; reflexivity.
  - rinv E. unfold m_limit. apply ospec_scal; auto. apply peq_pointwise; reflexivity.
  - (* Select *)
    binv E as E0 E1. eapply (do_select_spec h s _ [x]); eauto. eapply h_lit_spec; eauto.
  - binv E as E0 E1. eapply do_select_spec; eauto. eapply h_user_spec; eauto.
  - (* Distinct *)
    destruct args as [|x more].
    + rinv E. apply ospec_scal0; auto. apply peq_refl.
    + binv E as E0 E1.
      apply (ospec_after_scal (fun p => pset p FSel (Some (x :: more)))).
      eapply (do_select_spec h _ _ [x]); eauto. eapply h_lit_spec; eauto.
  - (* Omit *)
    destruct xs as [|x xs].
    + rinv E. eapply ospec_set0 with (old := SNil) (content := None); eauto.
      * apply (sres_ret h FOmit SNil). exact I.
      * apply peq_pointwise; reflexivity.
    + binv E as E0 E1. rinv E1. wclean. assert (R := h_lit_spec _ _ _ _ _ _ SNil E0).
      eapply ospec_set0 with (old := SNil); eauto using shape_nil. apply peq_pointwise; reflexivity.
  - (* Joins *)
    binv E as E0 E1. rinv E1. wclean.
    assert (R := h_append_spec grow _ _ _ _ _ _ _ (W FJoins) E0).
    eapply ospec_set0 with (old := sl s FJoins); eauto. apply peq_pointwise; reflexivity.
  - (* Scopes *)
    binv E as E0 E1. rinv E1. wclean.
    assert (R := h_append_spec grow _ _ _ _ _ _ _ (W FScopes) E0).
    eapply ospec_set0 with (old := sl s FScopes); eauto. apply peq_pointwise; reflexivity.
  - rinv E. apply ospec_scal0; auto. apply peq_refl.
  - rinv E. apply ospec_scal0; auto. apply peq_refl.
  - rinv E. apply ospec_scal0; auto. apply peq_refl.
  - (* Returning *)
    binv E as E0 E1. destruct u as [[xs cap]|].
    + assert (R := h_user_spec _ _ _ _ _ _ _ SNil E0).
      eapply m_ret_spec; eauto.
      * apply (sr_ext _ _ _ _ _ _ _ R).
      * apply (sres_nil_w _ _ _ _ _ _ R).
      * apply fin_of_sres with (w1 := w0). exact R.
    + rinv E0. change (@nil (nat * nat) ++ w1) with w1.
      replace w1 with ([] ++ w1) by reflexivity.
      eapply m_ret_spec; eauto.
      * apply hext_refl.
      * intros l i [].
      * apply fin_nil.
  - rinv E. apply ospec_scal0; auto. apply peq_refl.
  - rinv E. apply ospec_scal0; auto. apply peq_refl.
  - (* From *)
    binv E as E0 E1. rinv E1. wclean. assert (R := h_user_spec _ _ _ _ _ _ _ SNil E0).
    eapply ospec_set0 with (old := SNil); eauto using shape_nil. apply peq_pointwise; reflexivity.
Qed.
End Ops.
