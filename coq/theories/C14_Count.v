(* C14_Count.v — the counting clause of C14 as the checker evaluates it on gorm's observed history
   ([count_ok]); a file of its own so that the proofs about it (C14_Proofs4..10) do not depend on
   C14_Check.v.  No proofs here. *)
From Verif Require Import Base C14_Model.

Definition b2n (b : bool) : nat := if b then 1 else 0.

(* "A statement text is prepared at most once per cache generation": over a whole history,
   Prepare calls for a text <= generations + failed preparations + evictions + upgrades, where
   an upgrade needs one Tx-level and one pool-level preparation of that text. *)
Definition texts_of (calls : list (nat * bool)) : list nat := map fst calls.
Definition count_tx (q : nat) (b : bool) (l : list (nat * bool)) : nat :=
  length (filter (fun p => (fst p =? q) && Bool.eqb (snd p) b) l).
Definition count_ok (calls : list (nat * bool)) (fails evicts : list nat) (cuts : nat) : bool :=
  forallb (fun q => count_calls q calls <=?
                    1 + cuts + count_nat q fails + count_nat q evicts
                    + Nat.min (count_tx q true calls) (count_tx q false calls))
          (texts_of calls).

