(* Props_C04.v — property C04: ONLY theorem statements, each closed by [exact] of a lemma
   from C04_Proofs*, followed by Print Assumptions. *)
From Verif Require Import Base C04_Model C04_Proofs.
Open Scope Z_scope.

Theorem c04_savepoint_exact : forall n snap above below w,
  (forall x, In x above -> spname_eqb n (fst x) = false) ->
  ref_rbto n (mkTx w (above ++ (n, snap) :: below)) = Some (mkTx snap ((n, snap) :: below)).
Proof. exact rbto_exact. Qed.
Print Assumptions c04_savepoint_exact.
