(* Props_C04.v — property C04: ONLY theorem statements, each closed by [exact] of a lemma
   from C04_Proofs*, followed by Print Assumptions.

   [run_top E C fault manual p extra s0] is the model of db.Transaction(p) (manual = false) or of
   tx := db.Begin(); p; tx.Commit()/tx.Rollback() (manual = true) — the function C04_Check
   evaluates on every case.  E is the environment (SQLite save points, database/sql pool): the
   theorems hold for EVERY environment obeying the three named laws, and [c04_ref_env_laws]
   shows that the environment the checker uses obeys them.  [fault] is an arbitrary set of
   failing driver-operation indices; the programs are arbitrary trees (any depth).
   Domain flags of the final state: x_rb = a fault hit the ROLLBACK TO of a failing nested block
   (outside the property: the database refused to undo); x_drop = the dialector dropped a
   save-point error (breaks gorm's SavePointerDialectorInterface contract; never set when
   c_report C = true).  c_nosp C = false: the dialector implements save points (with one that does
   not, SavePoint / RollbackTo answer ErrUnsupportedDriver: modelled, tied by the correspondence,
   outside these theorems).  plain_prog p: no block cancels its own context (with Cancel the model
   predicts gorm's behaviour, which violates the property: see the _refuted theorem).  Nested
   transactions switched off globally (c_nonest C) or for one call on its receiver
   (tx.Session(&Session{DisableNestedTransaction: true}).Transaction(f) inside a running
   transaction: Child .. nn, observation ONN) are INSIDE the theorems: such a block and every
   block inside it undo nothing by themselves, the enclosing handle keeps its own setting
   (c04_nested_disabled_plain, c04_per_call_disabled_input_ok).  c_soft C =
   false: the pool's transaction wrapper does not fail Commit by itself (with it the transaction
   stays open until the Rollback that follows; c04_every_tx_ended / c04_released cover that case
   too).  The model follows /repo after fix 1c49b86 (the nested branch calls
   SavePoint / RollbackTo on db.Session(&Session{}), so their errors no longer stick to the
   enclosing handle); before it the result/usability theorem needed an extra hypothesis. *)
From Verif Require Import Base C04_Model C04_Check C04_Proofs C04_Proofs2 C04_Proofs3 C04_Proofs4 C04_Proofs5 C04_Proofs6 C04_Proofs7.
Open Scope Z_scope.

(* ATOMICITY. The table afterwards is exactly: everything the observed calls kept, if the block
   function returned nil and COMMIT succeeded; the table before, otherwise (error, panic, failed
   BEGIN / COMMIT).  "What the calls kept" (spec_final, C04_Check) = successful writes, minus
   what RollbackTo undid, minus the writes of every nested block whose function failed (nested
   transactions enabled), resp. nothing undone by a failing nested block itself (disabled). *)
Theorem c04_atomic : forall E,
  (forall n t, sq_save E n t = ref_save n t) ->
  (forall n t, sq_rbto E n t = ref_rbto n t) ->
  forall C, c_nosp C = false -> c_soft C = false ->
  forall fault manual p extra db0 o x s,
  run_top E C fault manual p extra (init_st db0) = (o, x, s) ->
  scoped [] p = true -> plain_prog p = true -> x_rb (s_fl s) = false -> x_drop (s_fl s) = false ->
  s_db s = spec_final (negb (c_nonest C)) o (rev (s_ops s)) db0.
Proof. exact top_atomic. Qed.
Print Assumptions c04_atomic.

(* RESULT and USABILITY. The outermost call returns nil iff the function returned nil and COMMIT
   succeeded, returns the function's error / panic unchanged, returns the BEGIN / COMMIT fault as
   is; every statement or SavePoint call that reports an error was hit by an injected fault and
   reports exactly it (a failing nested block — also one whose SAVEPOINT failed and whose error
   the enclosing function ignores — leaves the enclosing transaction usable). *)
Theorem c04_result_usable : forall E,
  (forall n t, sq_save E n t = ref_save n t) ->
  (forall n t, sq_rbto E n t = ref_rbto n t) ->
  forall C, c_nosp C = false -> c_soft C = false ->
  forall fault manual p extra db0 o x s,
  run_top E C fault manual p extra (init_st db0) = (o, x, s) ->
  scoped [] p = true -> plain_prog p = true -> x_rb (s_fl s) = false -> x_drop (s_fl s) = false ->
  top_ok o (rev (s_ops s)) = true /\ usable o (rev (s_ops s)) = true /\ extras_ok extra x = true.
Proof. exact top_result. Qed.
Print Assumptions c04_result_usable.

(* the input of the former finding (a SAVEPOINT fault ignored by the enclosing function; it
   violated this theorem's statement before fix 1c49b86) now satisfies it, non-vacuously *)
Theorem c04_former_sticky_savepoint_input_ok :
  scoped [] sticky_prog = true /\
  let '(o, x, s) := run_top ref_env cfg_default (fault_at (Some 2%nat)) false sticky_prog [] (init_st []) in
  x_rb (s_fl s) = false /\ x_drop (s_fl s) = false /\
  s_db s = [1; 3] /\ top_ok o (rev (s_ops s)) = true /\ usable o (rev (s_ops s)) = true.
Proof. exact sticky_now_ok. Qed.
Print Assumptions c04_former_sticky_savepoint_input_ok.

(* the per-call switch, non-vacuously: the switched-off failing block and the failing block
   inside it stay (2, 4), the failing ordinary block after it is undone (5); nn_prog is in the
   domain of c04_atomic / c04_result_usable *)
Theorem c04_per_call_disabled_input_ok :
  scoped [] nn_prog = true /\ plain_prog nn_prog = true /\
  let '(o, x, s) := run_top ref_env cfg_default (fault_at None) false nn_prog [] (init_st []) in
  s_db s = [1; 2; 4; 3] /\ spec_final true o (rev (s_ops s)) [] = [1; 2; 4; 3] /\
  map fst (rev (s_ops s)) = [KBegin; KStmt; KStmt; KStmt; KSave; KStmt; KRbTo; KStmt; KCommit].
Proof. exact nn_witness. Qed.
Print Assumptions c04_per_call_disabled_input_ok.

(* atomicity is false for a dialector that drops save-point errors (x_drop): the stock SQLite
   dialector of gorm.io/driver/sqlite (witness: corpus/C04/stock_dialector_drops_savepoint_error.json) *)
Theorem c04_atomic_refuted_dropping_dialector :
  exists C p k, scoped [] p = true /\
    let '(o, x, s) := run_top ref_env C (fault_at (Some k)) false p [] (init_st []) in
    x_rb (s_fl s) = false /\ x_drop (s_fl s) = true /\
    s_db s = [1; 2; 3] /\ spec_final (negb (c_nonest C)) o (rev (s_ops s)) [] = [1; 3].
Proof. exact stock_witness. Qed.
Print Assumptions c04_atomic_refuted_dropping_dialector.

(* the whole specification half of the checker holds on the model's own output *)
Theorem c04_spec_holds : forall E,
  (forall n t, sq_save E n t = ref_save n t) ->
  (forall n t, sq_rbto E n t = ref_rbto n t) ->
  (forall l, bal false l = true -> pool E l = (0, 0)) ->
  forall C, c_nosp C = false -> c_soft C = false ->
  forall fault manual p extra o x s opts,
  run_top E C fault manual p extra (init_st []) = (o, x, s) ->
  scoped [] p = true -> plain_prog p = true ->
  x_rb (s_fl s) = false -> x_drop (s_fl s) = false ->
  spec_holds (mk_case manual p extra [] C None o x [] (s_db s)
                (fst (pool E (rev (s_txlog s)))) (snd (pool E (rev (s_txlog s)))) (rev (s_ops s))
                opts (begin_opt opts) None) = true.
Proof. exact spec_holds_model. Qed.
Print Assumptions c04_spec_holds.

(* PROPAGATION, unconditionally (any environment, any faults, any flags, unscoped programs
   too): when the block function fails, Transaction returns exactly its error / re-raises
   exactly its panic, at the outermost call and at every nested call of the tree; a nested call
   whose function returned nil returns nil; a call that never ran its function returns an error *)
Theorem c04_propagation : forall E C fault manual p extra s0 o x s,
  run_top E C fault manual p extra s0 = (o, x, s) -> top_prop o = true.
Proof. exact propagation. Qed.
Print Assumptions c04_propagation.

(* NESTED ISOLATION: a nested call always hands the enclosing handle back exactly as it was;
   when its function fails it undoes exactly its own writes (the transaction sees the table as
   when the block started, the program's save points are untouched) *)
Theorem c04_nested_isolated : forall E,
  (forall n t, sq_save E n t = ref_save n t) ->
  (forall n t, sq_rbto E n t = ref_rbto n t) ->
  forall C, c_nosp C = false ->
  forall fault cx b h s r o h1 s1 t stk,
  c_nonest C = false -> scoped [] b = true -> plain_prog b = true ->
  nested E C fault cx false (run_body E C fault b) h s = (r, o, h1, s1) ->
  s_dead s = false -> s_nonest s = false ->
  s_tx s = Some (mkTx t stk) -> gen_ok (s_gen s) stk ->
  x_rb (s_fl s1) = false -> x_drop (s_fl s1) = false ->
  h1 = h /\
  (is_ok r = false -> exists stk', s_tx s1 = Some (mkTx t stk') /\ fu stk' = fu stk).
Proof. exact nested_isolated. Qed.
Print Assumptions c04_nested_isolated.

(* NESTED BLOCK, NESTED TRANSACTIONS DISABLED ON THE RECEIVER
   (tx.Session(&Session{DisableNestedTransaction: true}).Transaction(f) inside a running
   transaction): the call is f and nothing else, no SAVEPOINT and no ROLLBACK TO whatever f returns
   (so nothing is undone by the block itself), the enclosing handle comes back as it was and its
   own setting is in force again for the blocks that follow *)
Theorem c04_nested_disabled_plain : forall E C fault body h s r l h0 s0,
  body h (set_nonest s true) = (r, l, h0, s0) ->
  nested E C fault false true body h s
  = (r, ONN (OC true l (cls_of r) (cls_of r)), h, set_nonest s0 (s_nonest s)).
Proof. exact nested_disabled_plain. Qed.
Print Assumptions c04_nested_disabled_plain.

(* ... but when the nested block's own context (tx.WithContext(ctx).Transaction) is cancelled inside
   it, the failing block is NOT undone: the model follows gorm, and gorm violates the property
   (known finding nested-rollback-under-cancelled-context, corpus/C04) *)
Theorem c04_nested_undo_refuted_cancelled_context :
  scoped [] cancel_prog = true /\ plain_prog cancel_prog = false /\
  let '(o, x, s) := run_top ref_env cfg_default (fault_at None) false cancel_prog [] (init_st []) in
  x_rb (s_fl s) = false /\ x_drop (s_fl s) = false /\
  s_db s = [1; 2; 3] /\ spec_final true o (rev (s_ops s)) [] = [1; 3].
Proof. exact cancel_witness. Qed.
Print Assumptions c04_nested_undo_refuted_cancelled_context.

(* SAVEPOINT EXACTNESS: RollbackTo n restores the snapshot of the most recent SavePoint n,
   keeps that save point and drops the later ones *)
Theorem c04_savepoint_exact : forall n snap above below w,
  (forall x, In x above -> spname_eqb n (fst x) = false) ->
  ref_rbto n (mkTx w (above ++ (n, snap) :: below)) = Some (mkTx snap ((n, snap) :: below)).
Proof. exact rbto_exact. Qed.
Print Assumptions c04_savepoint_exact.

(* EXACTLY ONE END PER TRANSACTION, unconditionally: on every path (nil, error, panic, failed
   BEGIN, failed COMMIT, failed ROLLBACK) a begun sql.Tx receives a Commit or Rollback before the
   call returns, and nothing is begun twice *)
Theorem c04_every_tx_ended : forall E C fault manual p extra db0 o x s,
  run_top E C fault manual p extra (init_st db0) = (o, x, s) -> bal false (rev (s_txlog s)) = true.
Proof. exact top_balanced_init. Qed.
Print Assumptions c04_every_tx_ended.

(* RELEASE: hence, under the database/sql hypothesis (a Tx that got its Commit/Rollback gave
   its connection back), in_use = 0 and open_tx = 0 after every run *)
Theorem c04_released : forall E,
  (forall l, bal false l = true -> pool E l = (0, 0)) ->
  forall C fault manual p extra db0 o x s,
  run_top E C fault manual p extra (init_st db0) = (o, x, s) -> pool E (rev (s_txlog s)) = (0, 0).
Proof. exact released. Qed.
Print Assumptions c04_released.

(* the environment C04_Check runs the model against obeys the three laws *)
Theorem c04_ref_env_laws :
  (forall n t, sq_save ref_env n t = ref_save n t) /\
  (forall n t, sq_rbto ref_env n t = ref_rbto n t) /\
  (forall l, bal false l = true -> pool ref_env l = (0, 0)).
Proof. exact ref_env_laws. Qed.
Print Assumptions c04_ref_env_laws.

(* ------------------------------------------------------------------ single calls outside a block
   [run_singles C fault l s] (C04_Single, evaluated by C04_Check on every case of kind "single") is the
   model of write / read calls made one after the other on the pool handle, outside any block: a Create
   runs inside the transaction gorm opens for that one call (callbacks/transaction.go
   BeginTransaction / CommitOrRollbackTransaction) unless SkipDefaultTransaction, a raw Exec and a query
   run on the pool.  [fault] is an arbitrary set of failing driver operations. *)

(* ONE WRITE CALL, from any state in which the handle has no transaction open: the call appends its own
   driver operations [new] and database/sql transaction calls [tl]; every transaction it began is ended
   (bal), none is open afterwards; if it reports nil the write is durable and no fault hit its BEGIN /
   statement / COMMIT; if it reports an error, that error is the injected fault, the table is as before
   and exactly one of its BEGIN / statement / COMMIT was hit (a BEGIN fault is reported and nothing runs
   outside a transaction; a failed statement is rolled back; a failed COMMIT is reported) *)
Theorem c04_single_write_all_or_nothing : forall C fault, c_soft C = false ->
  forall m s c s',
  s_tx s = None /\ s_dead s = false ->
  single_write C fault m s = (c, s') ->
  exists new tl,
    s_ops s' = new ++ s_ops s /\ s_txlog s' = tl ++ s_txlog s /\ bal false (rev tl) = true /\
    (s_tx s' = None /\ s_dead s' = false) /\
    (if is_nil c then s_db s' = s_db s ++ [m] /\ countf3 new = 0%nat
     else is_fault c = true /\ s_db s' = s_db s /\ countf3 new = 1%nat).
Proof. exact single_write_step. Qed.
Print Assumptions c04_single_write_all_or_nothing.

(* ANY SEQUENCE OF CALLS: the table afterwards is the table before plus exactly the writes whose call
   reported nil, in order; every reported error is the injected fault; the number of calls that
   reported an error equals the number of faulted BEGIN / statement / COMMIT operations (so no fault is
   swallowed and no error invented); no transaction is open and every begun one was ended *)
Theorem c04_single_calls : forall C fault, c_soft C = false ->
  forall l db0 o s,
  run_singles C fault l (init_st db0) = (o, s) ->
  s_db s = db0 ++ single_kept o /\
  forallb is_fault (flat_map stmt_errs o) = true /\
  length (flat_map stmt_errs o) = countf3 (rev (s_ops s)) /\
  s_tx s = None /\ bal false (rev (s_txlog s)) = true.
Proof. exact singles_top. Qed.
Print Assumptions c04_single_calls.

(* the checker's specification half for such a case holds on the model's own output *)
Theorem c04_single_spec_holds : forall C fault, c_soft C = false ->
  forall (P : list txcall -> Z * Z),
  (forall l, bal false l = true -> P l = (0, 0)) ->
  forall l o s,
  run_singles C fault l (init_st []) = (o, s) ->
  single_spec (mk_case false (Done RetNil) [] [] C None (OC true o CNil CNil) [] [] (s_db s)
                 (fst (P (rev (s_txlog s)))) (snd (P (rev (s_txlog s)))) (rev (s_ops s)) [] (-1) (Some l)) = true.
Proof. exact single_spec_model. Qed.
Print Assumptions c04_single_spec_holds.

(* non-vacuity: Create 1, Create 2 whose COMMIT fails, Count, raw Exec 3: 1 and 3 durable, 2 not *)
Example c04_single_instance :
  let '(o, s) := run_singles (mk_cfg false false false true false false false) (fault_at (Some 5%nat)) single_demo (init_st []) in
  o = [OW 1 CNil; OW 2 (CErr fault_err); OR CNil 1; OW 3 CNil] /\ s_db s = [1; 3] /\
  map fst (rev (s_ops s)) = [KBegin; KStmt; KCommit; KBegin; KStmt; KCommit; KStmt; KStmt].
Proof. exact single_demo_ok. Qed.

(* non-vacuity: a three-level tree with a save point, a failing grandchild whose error the
   child returns and the parent ignores, a RollbackTo and a faulted statement meets every
   hypothesis above and keeps a strict non-empty subset of its writes *)
Example c04_instance :
  scoped [] demo_prog = true /\
  let '(o, x, s) := run_top ref_env cfg_default (fault_at (Some 12%nat)) false demo_prog [] (init_st []) in
  x_rb (s_fl s) = false /\ x_drop (s_fl s) = false /\ s_db s = [1; 6].
Proof. exact demo_instance. Qed.
