(* C17_Back4.v — the backward domain, part 4: the whole property holds on every backward history. *)
From Verif Require Import Base C17_Model C17_Check C17_Known C17_Proofs C17_Proofs2 C17_Proofs3
  C17_Plugin C17_Plugin2 C17_Plugin3 C17_Plugin4 C17_Plugin5 C17_BackDef C17_Back C17_Back2 C17_Back3.
From Coq Require Import Permutation.
Open Scope string_scope.
Open Scope list_scope.

Lemma ok_step_b_ok : forall F s, ok_step_b F s = true -> ok_step F s.
Proof.
  intros F s H. unfold ok_step_b in H. rewrite !andb_true_iff, !negb_true_iff in H.
  destruct H as ((Sb & Sa) & Hk). split; [exact Sb|]. split; [exact Sa|].
  intros Ek Em. rewrite Ek, Em in Hk. cbn in Hk. apply negb_true_iff, mem_false in Hk. exact Hk.
Qed.

Lemma step_any : forall F p r B U s i,
  binv F p r B U -> r_dom (ref_apply r i s) = true -> ok_step F s ->
  exists B' U', compile_filter (p_cs p ++ [cb_of_step (p_cs p) s i]) = B' ++ U'
                /\ forall fns, binv (tgts s ++ F) (mk_proc (B' ++ U') fns) (ref_apply r i s) B' U'.
Proof.
  intros F p r B U s i I Hdom Hs.
  assert (HiF : incl F (tgts s ++ F)) by (apply incl_appr, incl_refl).
  destruct (st_kind s) eqn:Ek.
  - eapply step_register; eauto.
  - destruct (step_replace F p r B U s i I Hdom Ek) as (B' & U' & E & I').
    exists B', U'. split; [exact E|]. intro fns. eapply binv_mono; eauto.
  - destruct (step_remove F p r B U s i I Hdom Ek) as (B' & U' & E & I').
    exists B', U'. split; [exact E|]. intro fns. eapply binv_mono; eauto.
Qed.

Lemma run_back : forall h F p r i prev B U,
  back_from F h = true ->
  (r_dom r = true -> binv F p r B U /\ prev_link p prev) ->
  judge the_clause false r i prev O h (run_from p i h) = true.
Proof.
  induction h as [|s h IH]; intros F p r i prev B U OKH Inv; [reflexivity|].
  cbn [back_from] in OKH. apply andb_true_iff in OKH. destruct OKH as [Hsb Hrest].
  pose proof (ok_step_b_ok _ _ Hsb) as Hs.
  cbn [judge run_from].
  destruct (r_dom (ref_apply r i s)) eqn:Hdom.
  2:{ (* out of the domain from here on: nothing is judged *)
      destruct (run_step p s i) as [[p'|] o].
      - apply andb_true_iff. split; [unfold judge_step; now rewrite Hdom|].
        apply (IH (tgts s ++ F) p' _ _ _ [] []); [exact Hrest|intro H; congruence].
      - apply andb_true_iff. split; [unfold judge_step; now rewrite Hdom|]. destruct h; reflexivity. }
  destruct (dom_parts _ _ _ Hdom) as [Hd0 _].
  destruct (Inv Hd0) as [I PL].
  destruct (step_any F p r B U s i I Hdom Hs) as (B' & U' & Ekept & I').
  unfold run_step. rewrite Ekept.
  pose proof (binv_back_ok _ _ _ _ _ (I' [])) as OK'.
  pose proof (back_compile B' U' OK') as SC.
  destruct (simple_loop [] (B' ++ U')) as [srt|] eqn:Esl.
  - rewrite SC. set (f := pick (B' ++ U') (map cb_name (B' ++ U')) srt).
    destruct (binv_clauses _ _ _ _ _ srt (I' f) Esl) as (Hfst & Hh & Hsd & Hb). fold f in Hfst, Hh, Hsd, Hb.
    apply andb_true_iff. split.
    + unfold judge_step. rewrite Hdom. cbn. unfold the_clause, cl_and, cl_handler, cl_sides, cl_builtin, cl_replace.
      rewrite Hh, Hsd, Hb. cbn.
      (* Replace keeps the order *)
      unfold spec_replace. destruct (st_kind s) eqn:Ek; try reflexivity.
      destruct prev as [[g|m g|]|]; try reflexivity.
      specialize (PL g eq_refl).
      apply (proj2 (list_eqb_spec String.eqb String.eqb_eq _ _)). rewrite Hfst.
      (* the new list is the old one plus a plain copy of a live name *)
      assert (Hns : forall c, In c (p_cs p) -> nostar c).
      { rewrite (bi_cs _ _ _ _ _ I). apply back_ok_nostar. exact (binv_back_ok _ _ _ _ _ I). }
      revert Ekept Hdom. unfold ref_apply, cb_of_step. rewrite Ek.
      rewrite (replace_fields_nostar _ s Hns). cbn [fst snd].
      destruct (is_live (r_live r) (st_name s) && unconstrained s) eqn:El; [|discriminate].
      apply andb_true_iff in El. destruct El as [El Eu].
      unfold unconstrained in Eu. rewrite !andb_true_iff in Eu. destruct Eu as ((Eb & Ea) & Em).
      unfold is_none in Eb, Ea. apply String.eqb_eq in Eb, Ea.
      rewrite compile_filter_plain by (auto using (rel_flags _ _ (bi_rel _ _ _ _ _ I)); reflexivity).
      cbn [cb_matched]. rewrite Em, Eb, Ea. intros Ekept _.
      assert (Hn : In (st_name s) (map cb_name (p_cs p))).
      { apply (rel_names _ _ (bi_rel _ _ _ _ _ I)). apply is_live_true, El. }
      pose proof (simple_loop_copy (p_cs p) (st_name s) i _ Hn PL) as RS.
      rewrite Ekept in RS. rewrite Esl in RS. now injection RS as <-.
    + apply (IH (tgts s ++ F) _ _ _ _ B' U'); [exact Hrest|]. intros _. split; [apply I'|].
      intros g [= <-]. cbn [p_cs]. now rewrite Esl, Hfst.
  - destruct SC as (en & et & SC). rewrite SC.
    apply andb_true_iff. split; [unfold judge_step; rewrite Hdom; reflexivity|].
    apply (IH (tgts s ++ F) _ _ _ _ B' U'); [exact Hrest|]. intros _. split; [apply I'|]. intros g. discriminate.
Qed.

Lemma binv_init : binv [] (mk_proc [] []) r0 [] [].
Proof.
  constructor; cbn; try tauto; try reflexivity.
  - exact rel_init.
  - intros pre c post E. destruct pre; discriminate.
Qed.

Theorem backward_correct : forall h,
  backward_hist h = true -> spec_from r0 0%N None O h (run h) = true.
Proof.
  intros h H. unfold backward_hist in H.
  pose proof (run_back h [] (mk_proc [] []) r0 0%N None [] [] H
               (fun _ => conj binv_init (fun g (E : None = Some (OOk g)) => match E with eq_refl => Logic.I end))) as RP.
  fold (run h) in RP.
  unfold spec_from, spec_ok. rewrite judge_and. fold the_clause. rewrite RP, andb_true_r.
  rewrite judge_crash, history_exactly_once, andb_true_r.
  rewrite judge_crash in RP. apply andb_true_iff in RP. apply RP.
Qed.

(* ------------------------------------------------------------------ the plugin domain is a special case *)
Lemma tgt_b_cases : forall BN MN t, tgt_b BN MN t = true ->
  is_none t = true \/ (is_star t = false /\ (In t BN \/ ~ In t MN)).
Proof. intros BN MN t H. apply tgt_b_tgt in H. exact H. Qed.

(* every target in F is a matched built-in name or a name no matched call of the history carries *)
Definition plug_F (BN MN F : list string) : Prop := forall t, In t F -> In t BN \/ ~ In t MN.

Lemma tgts_cases : forall s t, In t (tgts s) -> (t = st_before s \/ t = st_after s) /\ is_none t = false.
Proof.
  intros s t H. unfold tgts in H. apply filter_In in H. destruct H as [H Hn].
  apply negb_true_iff in Hn. split; [|exact Hn]. destruct H as [<-|[<-|[]]]; auto.
Qed.

Lemma back_users : forall BN MN us F,
  forallb (user_step_b BN MN) us = true -> plug_F BN MN F ->
  (forall s, In s us -> st_matched s = true -> In (st_name s) MN) ->
  back_from F us = true.
Proof.
  intros BN MN. induction us as [|s us IH]; intros F HU HF HM; [reflexivity|].
  cbn [forallb] in HU. apply andb_true_iff in HU. destruct HU as [Hs HU].
  unfold user_step_b in Hs. rewrite !andb_true_iff, negb_true_iff in Hs. destruct Hs as (((Hb & Tb) & Ta) & Hk).
  apply tgt_b_cases in Tb, Ta.
  assert (HF' : plug_F BN MN (tgts s ++ F)).
  { intros t Ht. apply in_app_iff in Ht. destruct Ht as [Ht|Ht]; [|apply HF, Ht].
    destruct (tgts_cases _ _ Ht) as [[->| ->] Hn].
    - destruct Tb as [Tb|[_ Tb]]; [congruence|exact Tb].
    - destruct Ta as [Ta|[_ Ta]]; [congruence|exact Ta]. }
  cbn [back_from]. apply andb_true_iff. split.
  - unfold ok_step_b. rewrite !andb_true_iff, !negb_true_iff. split; [split|].
    + destruct Tb as [Tb|[Tb _]]; [|exact Tb]. unfold is_none in Tb. apply String.eqb_eq in Tb. now rewrite Tb.
    + destruct Ta as [Ta|[Ta _]]; [|exact Ta]. unfold is_none in Ta. apply String.eqb_eq in Ta. now rewrite Ta.
    + destruct (st_kind s) eqn:Ek; try reflexivity.
      destruct (st_matched s) eqn:Em; [|reflexivity]. cbn.
      apply negb_true_iff, mem_false. intro Hin.
      apply negb_true_iff, mem_false in Hk.
      destruct (HF' _ Hin) as [H|H]; [exact (Hk H)|].
      apply H. apply HM; [left; reflexivity|exact Em].
  - apply IH; [exact HU|exact HF'|]. intros x Hx. apply HM. right. exact Hx.
Qed.

Lemma back_builtins : forall bs us,
  forallb bi_step_b bs = true -> back_from [] (bs ++ us) = back_from [] us.
Proof.
  induction bs as [|b bs IH]; intros us HB; cbn [app]; [reflexivity|].
  cbn [forallb] in HB. apply andb_true_iff in HB. destruct HB as [Hb HB].
  unfold bi_step_b in Hb. rewrite !andb_true_iff in Hb. destruct Hb as (((Hbi & Hkd) & Hbf) & Haf).
  cbn [back_from].
  assert (Et : tgts b = []). { unfold tgts. cbn. now rewrite Hbf, Haf. }
  rewrite Et. cbn [app].
  assert (Eo : ok_step_b [] b = true).
  { unfold ok_step_b. rewrite Et. cbn [app mem existsb]. rewrite andb_false_r. cbn.
    unfold is_none in Hbf, Haf. apply String.eqb_eq in Hbf, Haf. rewrite Hbf, Haf. cbn.
    destruct (st_kind b); reflexivity. }
  rewrite Eo. cbn. apply IH, HB.
Qed.

Theorem plugin_is_backward : forall bs us, plugin_hist bs us = true -> backward_hist (bs ++ us) = true.
Proof.
  intros bs us H. unfold plugin_hist in H. apply andb_true_iff in H. destruct H as [HB HU].
  unfold backward_hist. rewrite (back_builtins bs us HB).
  apply (back_users (matched_names bs) (matched_names (bs ++ us)) us [] HU).
  - intros t [].
  - intros s Hs Hm. apply matched_names_in; [apply in_app_iff; right; exact Hs|exact Hm].
Qed.

(* ------------------------------------------------------------------ non-vacuity: user callbacks naming user callbacks *)
Definition back_example : list step :=
  builtin_steps ["gorm:query"; "gorm:preload"; "gorm:after_query"]
  ++ [reg "p1" "gorm:preload" "";            (* Before(gorm:preload).Register(p1) *)
      reg "p2" "p1" "gorm:query";            (* Before(p1).After(gorm:query).Register(p2): names the user callback p1 *)
      reg "p3" "" "p2";                      (* After(p2).Register(p3) *)
      mk_step KReplace "p1" "" "" false true;
      reg "p4" "" "";
      mk_step KRemove "p2" "" "" false true; (* p3 now names a removed callback *)
      reg "p5" "p3" "p4";                    (* Before(p3).After(p4): conflicting, p4 stands behind p3 *)
      mk_step KRemove "p5" "" "" false true;
      reg "p6" "p3" "p1"].
