(* C17_Plugin3.v — the plugin domain, part 3: whole histories.  Invariant tying the processor state of
   the model to the checker's book, preserved by every in-domain call of a plugin-style history. *)
From Verif Require Import Base C17_Model C17_Check C17_Proofs C17_Proofs2 C17_Plugin C17_Plugin2.
From Coq Require Import Permutation.
Open Scope string_scope.
Open Scope list_scope.

(* the last callback registered under a name *)
Fixpoint last_named (cs : list cb) (m : string) : option cb :=
  match cs with
  | [] => None
  | c :: r => match last_named r m with
              | Some x => Some x
              | None => if String.eqb (cb_name c) m then Some c else None
              end
  end.

Lemma rindex_last_named : forall cs m idx,
  rindex (map cb_name cs) m = Some idx -> nth_error cs idx = last_named cs m.
Proof.
  induction cs as [|c cs IH]; intros m idx; cbn; [discriminate|].
  destruct (rindex (map cb_name cs) m) as [j|] eqn:E.
  - intros [= <-]. cbn. rewrite (IH m j E).
    destruct (last_named cs m) eqn:L; [reflexivity|].
    exfalso. pose proof (IH m j E) as H. rewrite L in H. apply nth_error_None in H.
    pose proof (rindex_nth _ _ _ E) as H2.
    assert (j < length (map cb_name cs)) by (apply nth_error_Some; congruence).
    rewrite map_length in *. lia.
  - destruct (String.eqb (cb_name c) m) eqn:Eq; [|discriminate]. intros [= <-]. cbn.
    assert (L : last_named cs m = None).
    { clear - E. induction cs as [|x cs IH]; cbn in *; [reflexivity|].
      destruct (rindex (map cb_name cs) m); [discriminate|].
      destruct (String.eqb (cb_name x) m); [discriminate|]. now rewrite IH. }
    now rewrite L.
Qed.

Lemma last_named_snoc : forall cs c m,
  last_named (cs ++ [c]) m = if String.eqb (cb_name c) m then Some c else last_named cs m.
Proof.
  induction cs as [|x cs IH]; intros c m; cbn.
  - destruct (String.eqb (cb_name c) m); reflexivity.
  - rewrite IH. destruct (String.eqb (cb_name c) m); [reflexivity|]. reflexivity.
Qed.

Lemma last_named_filter : forall (f : cb -> bool) cs m,
  (forall x, In x cs -> cb_name x = m -> f x = true) ->
  last_named (filter f cs) m = last_named cs m.
Proof.
  intros f. induction cs as [|x cs IH]; intros m H; cbn; [reflexivity|].
  assert (IH' : last_named (filter f cs) m = last_named cs m).
  { apply IH. intros y Hy. apply H. right. exact Hy. }
  destruct (f x) eqn:Ef; cbn.
  - now rewrite IH'.
  - rewrite IH'. destruct (last_named cs m); [reflexivity|].
    destruct (String.eqb (cb_name x) m) eqn:Eq; [|reflexivity].
    apply String.eqb_eq in Eq. rewrite (H x (or_introl eq_refl) Eq) in Ef. discriminate.
Qed.

Section Plugin.
(* names of the matched built-in registrations, names of all matched calls of the history *)
Variables BN MN : list string.

Definition tgt (t : string) : Prop :=
  is_none t = true \/ (is_star t = false /\ (In t BN \/ ~ In t MN)).

Lemma tgt_none : tgt "".
Proof. left. reflexivity. Qed.

Record pinv (p : proc) (r : rstate) (B U : list cb) : Prop := {
  pi_rel : rel p r;
  pi_used : incl (r_used r) MN;
  pi_cs : p_cs p = B ++ U;
  pi_plain : forall b, In b B -> plain b;
  pi_Bn : map cb_name B = builtin_names (r_live r);
  pi_U0 : r_user r = false -> U = [];
  pi_tgt : forall c, In c U -> tgt (cb_before c) /\ tgt (cb_after c);
  pi_bi : forall e, In e (r_live r) -> e_builtin e = true -> e_before e = "" /\ e_after e = "";
  pi_nb : forall e, In e (r_live r) -> e_builtin e = false ->
          ~ In (e_name e) BN
          /\ exists pre c post, U = pre ++ c :: post /\ cb_name c = e_name e
               /\ ~ In (e_name e) (map cb_name pre)
               /\ cb_before c = e_before e /\ cb_after c = e_after e;
  pi_hid : forall e, In e (r_live r) ->
           exists c, last_named (p_cs p) (e_name e) = Some c /\ cb_hid c = e_hid e
}.

Lemma builtin_names_in : forall live n,
  In n (builtin_names live) <-> exists e, In e live /\ e_builtin e = true /\ e_name e = n.
Proof.
  intros live n. unfold builtin_names. rewrite in_map_iff. split.
  - intros (e & <- & He). apply filter_In in He. destruct He. eauto.
  - intros (e & He & Hb & <-). exists e. split; [reflexivity|]. apply filter_In. auto.
Qed.

Lemma nodup_map_filter : forall A (g : A -> string) (f : A -> bool) l,
  NoDup (map g l) -> NoDup (map g (filter f l)).
Proof.
  intros A g f l. induction l as [|x l IH]; cbn; intro H; [constructor|].
  inversion H; subst. destruct (f x); cbn; auto. constructor; auto.
  intro Hin. apply H2. apply in_map_iff in Hin. destruct Hin as (y & <- & Hy).
  apply filter_In in Hy. apply in_map, Hy.
Qed.

(* the state is a "simple" one: sortCallbacks behaves as the simple procedure on it *)
Lemma pinv_simple_ok : forall p r B U, pinv p r B U -> simple_ok B U.
Proof.
  intros p r B U I. destruct I as [R Hu Hcs Hp HBn HU0 Ht Hbi Hnb _].
  constructor.
  - exact Hp.
  - rewrite HBn. unfold builtin_names. apply nodup_map_filter. apply (rel_nodup _ _ R).
  - intros c Hc. destruct (Ht c Hc) as [Tb Ta].
    assert (Hnames : forall n, In n (map cb_name (B ++ U)) -> In n (live_names r)).
    { intros n Hn. rewrite <- Hcs in Hn. apply (rel_names _ _ R), Hn. }
    assert (Inert : forall t, tgt t -> inert (map cb_name B) (map cb_name (B ++ U)) t).
    { intros t [T|[_ [T|T]]].
      - left. exact T.
      - destruct (in_dec string_dec t (map cb_name (B ++ U))) as [Hin|Hout]; [|right; right; exact Hout].
        right. left. rewrite HBn. apply builtin_names_in.
        apply Hnames in Hin. unfold live_names in Hin. apply in_map_iff in Hin. destruct Hin as (e & He & Hel).
        exists e. split; [exact Hel|]. split; [|exact He].
        destruct (e_builtin e) eqn:Eb; [reflexivity|].
        exfalso. destruct (Hnb e Hel Eb) as [Hno _]. apply Hno. now rewrite He.
      - right. right. intro Hin. apply T. apply Hu. apply (rel_used _ _ R). apply Hnames, Hin. }
    assert (NS : forall t, tgt t -> is_star t = false).
    { intros t [T|[T _]]; [|exact T]. unfold is_none in T. apply String.eqb_eq in T. now subst. }
    repeat split; auto.
Qed.

(* ---- what a nil answer then looks like, clause by clause *)
Lemma find_live_named : forall live n e,
  NoDup (map e_name live) -> In e live -> e_name e = n -> find_live live n = Some e.
Proof.
  intros live n e. induction live as [|x live IH]; intros Hnd He Hn; [destruct He|].
  cbn. unfold named at 1. destruct (String.eqb (e_name x) n) eqn:Eq.
  - apply String.eqb_eq in Eq. destruct He as [->|He]; [reflexivity|].
    cbn in Hnd. inversion Hnd as [|y l Hy Hl]. exfalso. apply Hy. rewrite Eq, <- Hn. apply in_map, He.
  - destruct He as [->|He]; [apply String.eqb_neq in Eq; congruence|].
    cbn in Hnd. inversion Hnd as [|y l Hy Hl]. apply IH; auto.
Qed.

Lemma pinv_clauses : forall p r B U s,
  pinv p r B U ->
  simple_loop [] (B ++ U) = Some s ->
  let f := pick (B ++ U) (map cb_name (B ++ U)) s in
  map fst f = s /\ spec_handler (r_live r) f = true /\ spec_sides (r_live r) f = true
  /\ spec_builtin (r_live r) f = true.
Proof.
  intros p r B U s I Hs. cbn zeta.
  pose proof (pinv_simple_ok _ _ _ _ I) as OK.
  destruct I as [R Hu Hcs Hp HBn HU0 Ht Hbi Hnb Hhid].
  set (cs := B ++ U) in *. set (names := map cb_name cs).
  (* the loop after the built-ins *)
  assert (HsU : simple_loop (map cb_name B) U = Some s).
  { unfold cs in Hs. rewrite simple_loop_app in Hs.
    rewrite (simple_loop_plain B [] (so_plain _ _ OK) (so_nodup _ _ OK) (fun _ _ H => H)) in Hs. exact Hs. }
  destruct (simple_loop_props _ _ _ HsU (so_nodup _ _ OK)) as (Nd & G & _ & A & Up & F).
  assert (Hincl : incl s names).
  { intros y Hy. apply Up in Hy. unfold names, cs. rewrite map_app. exact Hy. }
  assert (Hrem : forall c, In c cs -> cb_remove c = false).
  { intros c Hc. apply (rel_flags _ _ R). rewrite Hcs. exact Hc. }
  assert (Hfst : map fst (pick cs names s) = s) by (apply pick_fst; auto).
  split; [exact Hfst|]. split; [|split].
  - (* handler *)
    unfold spec_handler. apply forallb_forall. intros [n h] Hin. cbn [fst snd].
    destruct (pick_in _ _ _ _ _ Hin) as (Hns & idx & c & Er & Ec & Eh).
    assert (Hlive : In n (live_names r)).
    { apply (rel_names _ _ R). rewrite Hcs. apply Hincl, Hns. }
    unfold live_names in Hlive. apply in_map_iff in Hlive. destruct Hlive as (e & He & Hel).
    rewrite (find_live_named _ _ e (rel_nodup _ _ R) Hel He).
    destruct (Hhid e Hel) as (c' & Hl & Hh). rewrite Hcs, He in Hl.
    rewrite <- (rindex_last_named cs n idx Er), Ec in Hl. injection Hl as <-.
    apply N.eqb_eq. congruence.
  - (* sides *)
    unfold spec_sides. apply forallb_forall. intros e Hel. unfold side_ok.
    destruct (e_builtin e) eqn:Eb.
    { destruct (Hbi e Hel Eb) as [-> ->]. reflexivity. }
    destruct (Hnb e Hel Eb) as (HnoBN & pre & c & post & EU & Ecn & Hpre & Ecb & Eca).
    assert (Hc : In c U) by (rewrite EU; apply in_app_iff; right; left; reflexivity).
    destruct (Ht c Hc) as [Tb Ta]. rewrite Ecb in Tb. rewrite Eca in Ta.
    assert (HnB : ~ In (e_name e) (map cb_name B)).
    { rewrite HBn. intro H. apply builtin_names_in in H. destruct H as (e' & He' & Hb' & Hn').
      assert (e' = e).
      { pose proof (find_live_named _ _ e (rel_nodup _ _ R) Hel eq_refl) as F1.
        pose proof (find_live_named _ _ e' (rel_nodup _ _ R) He' Hn') as F2. congruence. }
      subst e'. congruence. }
    rewrite EU in HsU.
    destruct (simple_loop_sides pre c post (map cb_name B) s HsU (so_nodup _ _ OK)) as [SB SA].
    { now rewrite Ecn. } { now rewrite Ecn. }
    assert (LiveB : forall t, tgt t -> is_none t = false -> is_live (r_live r) t = true -> In t (map cb_name B)).
    { intros t T Hn Hl. apply is_live_true in Hl.
      destruct T as [T|[_ [T|T]]]; [congruence| |].
      - apply in_map_iff in Hl. destruct Hl as (e0 & He0 & Hl0).
        rewrite HBn. apply builtin_names_in. exists e0. split; [exact Hl0|]. split; [|exact He0].
        destruct (e_builtin e0) eqn:Eb0; [reflexivity|]. exfalso.
        destruct (Hnb e0 Hl0 Eb0) as [Hno _]. apply Hno. now rewrite He0.
      - exfalso. apply T, Hu, (rel_used _ _ R). exact Hl. }
    apply andb_true_iff. split.
    + destruct (is_none (e_before e)) eqn:En; [reflexivity|].
      assert (Hst : is_star (e_before e) = false).
      { destruct Tb as [T|[T _]]; [congruence|exact T]. }
      rewrite Hst. destruct (is_live (r_live r) (e_before e)) eqn:El; [|reflexivity]. cbn.
      apply ord_fires; [rewrite Hfst; exact Nd|]. rewrite Hfst.
      pose proof (LiveB _ Tb En El) as HinB.
      rewrite <- Ecn. rewrite <- Ecb in HinB, En |- *. apply SB; assumption.
    + destruct (is_none (e_after e)) eqn:En; [reflexivity|].
      assert (Hst : is_star (e_after e) = false).
      { destruct Ta as [T|[T _]]; [congruence|exact T]. }
      rewrite Hst. destruct (is_live (r_live r) (e_after e)) eqn:El; [|reflexivity]. cbn.
      apply ord_fires; [rewrite Hfst; exact Nd|]. rewrite Hfst.
      pose proof (LiveB _ Ta En El) as HinB.
      assert (Hne : e_after e <> e_name e) by (intro E; apply HnB; rewrite <- E; exact HinB).
      rewrite <- Ecn in Hne |- *. rewrite <- Eca in HinB, En, Hne |- *. apply SA; assumption.
  - (* built-in order *)
    unfold spec_builtin. rewrite Hfst, <- HBn.
    apply (proj2 (list_eqb_spec String.eqb String.eqb_eq _ _)).
    rewrite (F (mem (map cb_name B))).
    + apply filter_all. intros x Hx. apply mem_true, Hx.
    + intros c _. destruct (mem (map cb_name B) (cb_name c)) eqn:Em; [right; apply mem_true, Em|left; reflexivity].
Qed.

End Plugin.
