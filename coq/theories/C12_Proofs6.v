(* C12_Proofs6.v — belongs to: the owner's foreign key follows the finite-set reading for every
   operation (scoped or Unscoped); Count / Find and record survival for scoped histories.
   (What Unscoped does to the target table is where the code departs: C12_Proofs4.) *)
From Verif Require Import Base C12_Model C12_Proofs C12_Proofs2 C12_Proofs3 C12_Proofs5.
Open Scope Z_scope.

Definition LB (s : st) (o t : Z) : Prop := look (rows s) o = Some (Some t).

Lemma look_set_fk o v r o' :
  look (set_fk o v r) o' = match look r o' with Some f => if o' =? o then Some v else Some f | None => None end.
Proof.
  unfold set_fk. induction r as [|[a f] r IH]; cbn; [reflexivity|].
  destruct (a =? o) eqn:E; cbn; destruct (a =? o') eqn:E'; try exact IH.
  - apply Z.eqb_eq in E, E'. subst. rewrite Z.eqb_refl. reflexivity.
  - apply Z.eqb_eq in E'. subst. rewrite E. reflexivity.
Qed.
Lemma fst_set_fk o v r : map fst (set_fk o v r) = map fst r.
Proof. unfold set_fk. rewrite map_map. apply map_ext. intro p. destruct (fst p =? o); reflexivity. Qed.

Lemma links_bt s o t : NoDup (map fst (rows s)) -> (In t (links KBelongs s o) <-> LB s o t).
Proof.
  intro ND. cbn [links]. rewrite in_flat_map. split.
  - intros [[a f] [H X]]. cbn in X. destruct (a =? o) eqn:E; [|destruct X]. apply Z.eqb_eq in E. subst a.
    destruct f as [t'|]; [|destruct X]. destruct X as [<-|[]]. apply In_look; assumption.
  - intro L. exists (o, Some t). split; [apply look_In; exact L|]. cbn. rewrite Z.eqb_refl. left. reflexivity.
Qed.

Record wf_bt (os : list Z) (s : st) : Prop := {
  wb_nd : NoDup (map fst (rows s));
  wb_os : NoDup os;
  wb_rows : forall o, In o os -> look (rows s) o <> None;       (* the owners are saved records *)
  wb_len : length (mem s) = length os;
  wb_mem : forall i o m, nth_error os i = Some o -> nth_error (mem s) i = Some m -> forall t, In t m <-> LB s o t
}.
(* every link of the handle points at a record *)
Definition tgt_ok (os : list Z) (s : st) : Prop := forall o t, In o os -> LB s o t -> In t (tgt s).

Definition op_ok_bt (os : list Z) (s : st) (o : op) : Prop :=
  match o with
  | OAppend vs | OReplace vs => length vs = length os /\ Forall (fun v => length v = 1%nat) vs
  | _ => True
  end.

Lemma save_loop_bt : forall os vs ms s,
  NoDup os -> length vs = length os -> length ms = length os -> Forall (fun v => length v = 1%nat) vs ->
  (forall o, In o os -> look (rows s) o <> None) ->
  let r := save_loop KBelongs true os vs ms s in
  fst r = vs /\ joins (snd r) = joins s /\ map fst (rows (snd r)) = map fst (rows s) /\
  (forall o', ~ In o' os -> look (rows (snd r)) o' = look (rows s) o') /\
  (forall i o v, nth_error os i = Some o -> nth_error vs i = Some v -> forall t, look (rows (snd r)) o = Some (Some t) <-> In t v) /\
  (forall x, In x (tgt (snd r)) <-> In x (tgt s) \/ exists v, In v vs /\ In x v).
Proof.
  induction os as [|o os IH]; intros vs ms s ND Lv Lm F1 EX.
  - destruct vs, ms; try discriminate. cbn.
    split; [reflexivity|]. split; [reflexivity|]. split; [reflexivity|]. split; [intros; reflexivity|]. split.
    + intros i o v H. destruct i; discriminate.
    + intro x. split; [auto | intros [H | [v [[] _]]]; exact H].
  - destruct vs as [|v vs]; [discriminate|]. destruct ms as [|m ms]; [discriminate|].
    cbn in Lv, Lm. injection Lv as Lv. injection Lm as Lm. inversion ND as [|? ? NI ND']; subst. inversion F1 as [|? ? L1 F1']; subst.
    destruct v as [|t0 [|? ?]]; try discriminate. clear L1.
    cbn [save_loop new_field last_or rev app].
    set (s1 := save_owner KBelongs o [t0] s).
    assert (R1 : rows s1 = set_fk o (Some t0) (rows s)) by reflexivity.
    assert (T1 : tgt s1 = add_z t0 (tgt s)) by reflexivity.
    assert (EX1 : forall o', In o' os -> look (rows s1) o' <> None).
    { intros o' H. rewrite R1, look_set_fk. specialize (EX o' (or_intror H)). destruct (look (rows s) o'); [destruct (o' =? o); discriminate | congruence]. }
    specialize (IH vs ms s1 ND' Lv Lm F1' EX1). cbn zeta in IH.
    destruct (save_loop KBelongs true os vs ms s1) as [rest s2] eqn:ES. cbn [fst snd] in *.
    destruct IH as [I1 [I2 [I3 [I4 [I5 I6]]]]].
    split; [f_equal; exact I1|]. split; [rewrite I2; reflexivity|]. split; [rewrite I3, R1; apply fst_set_fk|]. split; [|split].
    + intros o' NIo. rewrite I4 by (intro H; apply NIo; right; exact H).
      rewrite R1, look_set_fk. destruct (look (rows s) o'); [|reflexivity].
      destruct (o' =? o) eqn:E; [apply Z.eqb_eq in E; subst; exfalso; apply NIo; left; reflexivity | reflexivity].
    + intros i o' v Ho Hv t. destruct i as [|i]; cbn in Ho, Hv.
      * inversion Ho; inversion Hv; subst o' v. rewrite I4 by exact NI. rewrite R1, look_set_fk.
        specialize (EX o (or_introl eq_refl)). destruct (look (rows s) o); [|congruence]. rewrite Z.eqb_refl. cbn.
        split; [intro H; inversion H; auto | intros [<-|[]]; reflexivity].
      * apply (I5 i o' v Ho Hv t).
    + intro x. rewrite I6, T1, add_z_In. cbn. split.
      * intros [[->|H] | [v [H1 H2]]]; auto; right; [exists [t0]; cbn; auto | exists v; auto].
      * intros [H | [v [[<-|H1] H2]]]; auto. destruct H2 as [<-|[]]. auto. right. exists v. auto.
Qed.

Definition no_values (o : op) : Prop := match o with ODelete _ | OClear | OAppendNone => True | _ => False end.

Section BtStep.
Variable os : list Z.

Theorem bt_step u o s : wf_bt os s -> op_ok_bt os s o ->
  let s' := assoc_step KBelongs os s (u, o) in
  wf_bt os s' /\
  (forall i ow, nth_error os i = Some ow ->
     seteq (links KBelongs s' ow) (spec_owner KBelongs o (links KBelongs s ow) (values_of os o i))) /\
  (u = false -> (forall x, In x (tgt s) -> In x (tgt s')) /\ (tgt_ok os s -> tgt_ok os s')) /\
  (* every operation, scoped or Unscoped, keeps every link of the handle pointing at a record *)
  (tgt_ok os s -> tgt_ok os s').
Proof.
  intros W OK s'. destruct W as [ND NO EX LE ME].
  assert (MEMOS : forall ow, In ow os -> memz ow os = true) by (intros; apply memz_In; assumption).
  assert (REPL : forall vs, length vs = length os -> Forall (fun v => length v = 1%nat) vs ->
            let s2 := do_replace KBelongs u os vs s in
            wf_bt os s2 /\
            (forall i ow v, nth_error os i = Some ow -> nth_error vs i = Some v -> forall t, LB s2 ow t <-> In t v) /\
            (u = false -> (forall x, In x (tgt s) -> In x (tgt s2)) /\ (tgt_ok os s -> tgt_ok os s2)) /\
            (tgt_ok os s -> tgt_ok os s2)).
  { intros vs Lv F1 s2.
    pose proof (save_loop_bt os vs (mem s) s NO Lv LE F1 EX) as H. cbn zeta in H.
    assert (E2 : exists s1, save_loop KBelongs true os vs (mem s) s = (vs, s1) /\
               rows s2 = rows s1 /\ mem s2 = vs /\ (u = false -> tgt s2 = tgt s1) /\
               tgt s2 = (if u then delete_where (fun x => memz x (filter (fun t => negb (memz t (List.concat vs))) (List.concat (mem s)))) (tgt s1)
                         else tgt s1) /\
               joins s1 = joins s /\ map fst (rows s1) = map fst (rows s) /\
               (forall o', ~ In o' os -> look (rows s1) o' = look (rows s) o') /\
               (forall i o v, nth_error os i = Some o -> nth_error vs i = Some v -> forall t, look (rows s1) o = Some (Some t) <-> In t v) /\
               (forall x, In x (tgt s1) <-> In x (tgt s) \/ exists v, In v vs /\ In x v)).
    { unfold s2, do_replace, save_assoc. destruct (save_loop KBelongs true os vs (mem s) s) as [ms1 s1] eqn:ES. cbn [fst snd] in H.
      destruct H as [I1 [I2 [I3 [I4 [I5 I6]]]]]. subst ms1. exists s1. cbn.
      split; [reflexivity|]. split; [reflexivity|]. split; [reflexivity|]. split; [intro U; subst u; reflexivity|].
      split; [reflexivity|].
      split; [exact I2|]. split; [exact I3|]. split; [exact I4|]. split; [exact I5 | exact I6]. }
    destruct E2 as [s1 [_ [R2 [M2 [T2 [TG [J1 [F2 [O2 [K2 X2]]]]]]]]]].
    assert (K : forall i ow v, nth_error os i = Some ow -> nth_error vs i = Some v -> forall t, LB s2 ow t <-> In t v)
      by (intros i ow v Ho Hv t; unfold LB; rewrite R2; apply (K2 i ow v Ho Hv t)).
    assert (TOK : tgt_ok os s2).
    { (* the record linked by this call was just saved and is never among the deleted ones *)
      intros ow t Hin L. apply In_nth_error in Hin. destruct Hin as [i Ho].
      destruct (nth_error_ex vs i) as [v Hv]; [rewrite Lv; apply nth_error_Some; congruence|].
      apply (K i ow v Ho Hv t) in L.
      assert (T1 : In t (tgt s1)) by (apply X2; right; exists v; split; [eapply nth_error_In; eauto | exact L]).
      rewrite TG. destruct u; [|exact T1]. apply delete_where_In. split; [exact T1|].
      apply memz_false. intro Hf. apply filter_In in Hf. destruct Hf as [_ Hf].
      apply Bool.negb_true_iff, memz_false in Hf. apply Hf. apply In_concat_nth. exists i, v. auto. }
    split; [|split; [exact K|split; [|intros _; exact TOK]]].
    - constructor; auto.
      + rewrite R2, F2. exact ND.
      + intros ow Hin. rewrite R2. apply In_nth_error in Hin. destruct Hin as [i Ho].
        destruct (nth_error_ex vs i) as [v Hv]; [rewrite Lv; apply nth_error_Some; congruence|].
        rewrite Forall_forall in F1. pose proof (F1 v (nth_error_In _ _ Hv)) as L1.
        destruct v as [|t0 [|? ?]]; try discriminate.
        rewrite (proj2 (K2 i ow [t0] Ho Hv t0) (or_introl eq_refl)). discriminate.
      + rewrite M2. congruence.
      + intros i ow m Ho Hm t. rewrite M2 in Hm. symmetry. apply (K i ow m Ho Hm t).
    - intro U. rewrite (T2 U). split.
      + intros x Hx. apply X2. auto.
      + intros TK ow t Hin L. apply In_nth_error in Hin. destruct Hin as [i Ho].
        destruct (nth_error_ex vs i) as [v Hv]; [rewrite Lv; apply nth_error_Some; congruence|].
        apply (K i ow v Ho Hv t) in L. rewrite (T2 U). apply X2. right. exists v. split; [eapply nth_error_In; eauto | exact L]. }
  destruct o as [vs|vs|ts| |]; cbn [assoc_step do_append] in s'.
  5:{ split; [constructor; assumption|]. split; [intros i ow Ho t; reflexivity|].
      split; [intros _; split; [intros x Hx; exact Hx | intro TK; exact TK] | intro TK; exact TK]. }
  - destruct OK as [Lv F1]. destruct (REPL vs Lv F1) as [W' [K' [S' TK']]]. fold s' in W', K', S', TK'.
    split; [exact W'|]. split; [|split; [exact S' | exact TK']].
    intros i ow Ho t. rewrite links_bt by apply (wb_nd _ _ W').
    destruct (nth_error_ex vs i) as [v Hv]; [rewrite Lv; apply nth_error_Some; congruence|].
    rewrite (K' i ow v Ho Hv t). unfold values_of. cbn [op_values spec_owner single_valued]. rewrite (nth_error_nth vs i [] Hv). reflexivity.
  - destruct OK as [Lv F1]. destruct (REPL vs Lv F1) as [W' [K' [S' TK']]]. fold s' in W', K', S', TK'.
    split; [exact W'|]. split; [|split; [exact S' | exact TK']].
    intros i ow Ho t. rewrite links_bt by apply (wb_nd _ _ W').
    destruct (nth_error_ex vs i) as [v Hv]; [rewrite Lv; apply nth_error_Some; congruence|].
    rewrite (K' i ow v Ho Hv t). unfold values_of. cbn [op_values spec_owner]. rewrite (nth_error_nth vs i [] Hv). reflexivity.
  - (* Delete *)
    set (P := fun p : Z * option Z => memz (fst p) os && in_os ts (snd p)).
    assert (R : rows s' = null_where P (rows s)) by reflexivity.
    assert (M : mem s' = map (filter (fun t => negb (memz t ts))) (mem s)) by reflexivity.
    assert (K : forall i ow, nth_error os i = Some ow -> forall t, LB s' ow t <-> LB s ow t /\ ~ In t ts).
    { intros i ow Ho t. unfold LB. rewrite R, look_null. destruct (look (rows s) ow) as [f|]; [|split; [discriminate | intros [H _]; discriminate]].
      unfold P. cbn [fst snd]. rewrite (MEMOS ow) by (eapply nth_error_In; eauto). cbn [andb].
      destruct f as [t'|]; cbn [in_os].
      - destruct (memz t' ts) eqn:Em; split.
        + discriminate.
        + intros [H N]. inversion H; subst. apply memz_In in Em. contradiction.
        + intro H. inversion H; subst. split; [reflexivity | apply memz_false, Em].
        + intros [H _]. exact H.
      - split; [discriminate | intros [H _]; discriminate]. }
    split; [|split; [|split]].
    4:{ intros TK ow t Hin L. apply In_nth_error in Hin. destruct Hin as [i Ho]. apply (K i ow Ho t) in L. destruct L as [L NT].
        assert (T0 : In t (tgt s)) by (eapply TK; [eapply nth_error_In; eauto | exact L]).
        assert (T : tgt s' = if u then delete_where (fun x => memz x (List.concat (mem s)) && memz x ts) (tgt s) else tgt s) by reflexivity.
        rewrite T. destruct u; [|exact T0]. apply delete_where_In. split; [exact T0|].
        apply memz_false in NT. rewrite NT. apply andb_false_r. }
    + constructor; auto.
      * rewrite R, fst_null. exact ND.
      * intros ow Hin. rewrite R, look_null. specialize (EX ow Hin). destruct (look (rows s) ow); [destruct (P (ow, o)); discriminate | congruence].
      * rewrite M, map_length. exact LE.
      * intros i ow m Ho Hm t. rewrite (K i ow Ho t). rewrite M, nth_error_map in Hm.
        destruct (nth_error (mem s) i) as [m0|] eqn:E0; [|discriminate]. inversion Hm; subst m.
        rewrite filter_In, (ME i ow m0 Ho E0 t), Bool.negb_true_iff, memz_false. reflexivity.
    + intros i ow Ho t. rewrite links_bt by (rewrite R, fst_null; exact ND). rewrite (K i ow Ho t).
      cbn [spec_owner]. unfold minus. rewrite filter_In, links_bt by exact ND. rewrite Bool.negb_true_iff, memz_false. reflexivity.
    + intro U. subst u. assert (T : tgt s' = tgt s) by reflexivity. rewrite T. split; [auto|].
      intros TK ow t Hin L. apply In_nth_error in Hin. destruct Hin as [i Ho]. apply (K i ow Ho t) in L.
      eapply TK; [eapply nth_error_In; eauto | exact (proj1 L)].
  - (* Clear *)
    set (P := fun p : Z * option Z => memz (fst p) os).
    assert (R : rows s' = null_where P (rows s)) by reflexivity.
    assert (M : mem s' = map (fun _ => []) (mem s)) by reflexivity.
    assert (K : forall i ow, nth_error os i = Some ow -> forall t, ~ LB s' ow t).
    { intros i ow Ho t. unfold LB. rewrite R, look_null. destruct (look (rows s) ow); [|discriminate].
      unfold P. cbn [fst]. rewrite (MEMOS ow) by (eapply nth_error_In; eauto). discriminate. }
    split; [|split; [|split]].
    4:{ intros TK ow t Hin L. apply In_nth_error in Hin. destruct Hin as [i Ho]. exfalso. exact (K i ow Ho t L). }
    + constructor; auto.
      * rewrite R, fst_null. exact ND.
      * intros ow Hin. rewrite R, look_null. specialize (EX ow Hin). destruct (look (rows s) ow); [destruct (P (ow, o)); discriminate | congruence].
      * rewrite M, map_length. exact LE.
      * intros i ow m Ho Hm t. rewrite M, nth_error_map in Hm. destruct (nth_error (mem s) i); [|discriminate]. inversion Hm; subst m.
        split; [intros [] | intro L; exact (K i ow Ho t L)].
    + intros i ow Ho t. rewrite links_bt by (rewrite R, fst_null; exact ND). cbn [spec_owner].
      split; [intro L; exact (K i ow Ho t L) | intros []].
    + intro U. subst u. assert (T : tgt s' = tgt s).
      { unfold s', do_clear, detach_others. cbn [tgt]. reflexivity. }
      rewrite T. split; [auto|]. intros TK ow t Hin L. apply In_nth_error in Hin. destruct Hin as [i Ho]. exfalso. exact (K i ow Ho t L).
Qed.

Lemma ok_len_bt s o : op_ok_bt os s o ->
  match o with OAppend vs | OReplace vs => length vs = length os | _ => True end.
Proof. destruct o; cbn; tauto. Qed.

(* the foreign keys after any history (scoped or Unscoped operations) are those it defines *)
Theorem bt_history : forall ops s A,
  wf_bt os s -> hist_ok_g KBelongs os (op_ok_bt os) s ops -> length A = length os ->
  (forall i o, nth_error os i = Some o -> seteq (links KBelongs s o) (nth i A [])) ->
  let s' := final KBelongs os s ops in
  wf_bt os s' /\ (forall i o, nth_error os i = Some o -> seteq (links KBelongs s' o) (nth i (spec_run KBelongs ops A) [])).
Proof.
  apply (lift_history KBelongs os (wf_bt os) (op_ok_bt os) ok_len_bt).
  intros u o s W OK. destruct (bt_step u o s W OK) as [A [B _]]. split; assumption.
Qed.

(* scoped histories: records survive and every link keeps pointing at a record *)
Theorem bt_scoped_targets : forall ops s,
  wf_bt os s -> hist_ok_g KBelongs os (op_ok_bt os) s ops -> Forall (fun uo => fst uo = false) ops ->
  tgt_ok os s ->
  (forall x, In x (tgt s) -> In x (tgt (final KBelongs os s ops))) /\ tgt_ok os (final KBelongs os s ops).
Proof.
  induction ops as [|[u o] ops IH]; intros s W OK SC TK; cbn [final fold_left]; [split; auto|].
  destruct OK as [OK1 OK2]. cbn [snd] in OK1. inversion SC as [|? ? U SC']; subst. cbn in U. subst u.
  destruct (bt_step false o s W OK1) as [W' [_ [S' _]]]. destruct (S' eq_refl) as [S1 S2].
  destruct (IH _ W' OK2 SC' (S2 TK)) as [A B]. split; [intros x Hx; apply A, S1, Hx | exact B].
Qed.

(* EVERY history, scoped or Unscoped: every foreign key of the handle keeps pointing at a record
   (so Count and Find stay exact, bt_find) *)
Theorem bt_links_point_at_records : forall ops s,
  wf_bt os s -> hist_ok_g KBelongs os (op_ok_bt os) s ops ->
  tgt_ok os s -> tgt_ok os (final KBelongs os s ops).
Proof.
  induction ops as [|[u o] ops IH]; intros s W OK TK; cbn [final fold_left]; [exact TK|].
  destruct OK as [OK1 OK2]. cbn [snd] in OK1.
  destruct (bt_step u o s W OK1) as [W' [_ [_ S2]]].
  apply IH; auto.
Qed.

(* Count and Find report exactly the distinct linked records *)
Lemma nodupz_In l x : In x (nodupz l) <-> In x l.
Proof.
  induction l as [|y l IH]; cbn; [reflexivity|]. destruct (memz y l) eqn:E.
  - rewrite IH. apply memz_In in E. split; [auto | intros [->|H]; auto].
  - cbn. rewrite IH. reflexivity.
Qed.
Lemma nodupz_NoDup l : NoDup (nodupz l).
Proof.
  induction l as [|y l IH]; cbn; [constructor|]. destruct (memz y l) eqn:E; [exact IH|].
  constructor; [rewrite nodupz_In; apply memz_false, E | exact IH].
Qed.

Theorem bt_find s : wf_bt os s -> tgt_ok os s ->
  NoDup (find_ids KBelongs os s) /\
  (forall t, In t (find_ids KBelongs os s) <-> exists o, In o os /\ LB s o t).
Proof.
  intros W TK. unfold find_ids. split; [apply nodupz_NoDup|].
  intro t. rewrite nodupz_In, in_flat_map. split.
  - intros [o [Ho H]]. apply filter_In in H. destruct H as [H _]. apply links_bt in H; [|apply (wb_nd _ _ W)]. eauto.
  - intros [o [Ho L]]. exists o. split; [exact Ho|]. apply filter_In. split; [apply links_bt; [apply (wb_nd _ _ W) | exact L]|].
    cbn [target_exists]. apply memz_In. eapply TK; eauto.
Qed.

End BtStep.
