(* C04_Proofs5.v — the theorems about a whole run: atomicity, result, usability, release. *)
From Verif Require Import Base C04_Model C04_Check C04_Proofs C04_Proofs2 C04_Proofs3 C04_Proofs4.
Open Scope Z_scope.

Lemma commit_ok_final : forall k f nops, forallb body_op nops = true ->
  commit_ok (rev ((k, f) :: nops ++ [(KBegin, false)])) = opkind_eqb k KCommit && negb f.
Proof.
  intros k f nops H. unfold commit_ok. rewrite existsb_rev. cbn [existsb fst snd].
  rewrite existsb_app. fold (commit_ok nops). rewrite (commit_ok_body _ H). cbn. rewrite !orb_false_r. reflexivity.
Qed.
Lemma countf_final : forall k0 k f nops,
  (countf k0 nops <= countf k0 (rev ((k, f) :: nops ++ [(KBegin, false)])))%nat.
Proof.
  intros. rewrite countf_rev. change ((k, f) :: nops ++ [(KBegin, false)]) with ([(k, f)] ++ nops ++ [(KBegin, false)]).
  rewrite !countf_app. lia.
Qed.

Section Top.
Variable E : env.
Variable C : cfg.
Variable fault : nat -> bool.

(* a Commit / Rollback call never touches the flags; it reaches database/sql (TEnd) unless it is
   a Commit that the pool's own wrapper failed — and then the handle carries the error *)
Lemma h_end_fl : forall c h s h' s', h_end C fault c h s = (h', s') ->
  s_fl s' = s_fl s /\
  (s_txlog s' = TEnd :: s_txlog s \/ (c = true /\ s_txlog s' = s_txlog s /\ h' <> None)).
Proof.
  intros c h s h' s' H. unfold h_end, tx_end, issue in H.
  destruct (c && c_soft C) eqn:Ecs.
  - inversion H; subst. split; [reflexivity|]. right. apply andb_prop in Ecs. destruct Ecs as [Ec _].
    repeat split; [exact Ec|]. destruct h; discriminate.
  - cbn [log_tx s_tx s_ops s_db s_gen s_txlog s_fl] in H.
    destruct (s_tx s); [destruct (fault _); destruct c|]; inversion H; split; try reflexivity; left; reflexivity.
Qed.
Lemma run_extra_fl : forall l h s x s', run_extra C fault l h s = (x, s') ->
  s_fl s' = s_fl s /\ exists k, Forall (eq TEnd) k /\ s_txlog s' = k ++ s_txlog s.
Proof.
  induction l as [|c l IH]; intros h s x s' H; cbn [run_extra] in H.
  - inversion H; subst. split; [reflexivity|]. exists []; split; [constructor | reflexivity].
  - destruct (h_end C fault c h s) as [h1 s1] eqn:Eh. apply h_end_fl in Eh. destruct Eh as [F1 L1].
    destruct (run_extra C fault l h1 s1) as [o s2] eqn:Er. apply IH in Er. destruct Er as [F2 [k [K1 K2]]].
    inversion H; subst. split; [congruence|].
    destruct L1 as [L1 | [_ [L1 _]]].
    + exists (k ++ [TEnd]). split.
      * apply Forall_app; split; [exact K1 | repeat constructor].
      * rewrite K2, L1, <- app_assoc; reflexivity.
    + exists k. split; [exact K1 | rewrite K2, L1; reflexivity].
Qed.

Lemma tend_app : forall k (l : list txcall), Forall (eq TEnd) k -> Forall (eq TEnd) (k ++ [TEnd]) /\ k ++ [TEnd] <> [].
Proof. intros k l K. split; [apply Forall_app; split; [exact K | repeat constructor] | destruct k; discriminate]. Qed.

Lemma finish_fl : forall manual extra r l h s2 o x s,
  finish C fault manual extra r l h s2 = (o, x, s) ->
  s_fl s = s_fl s2 /\ exists k, Forall (eq TEnd) k /\ k <> [] /\ s_txlog s = k ++ s_txlog s2.
Proof.
  intros manual extra r l h s2 o x s H. unfold finish in H.
  destruct r.
  - destruct (h_end C fault true h s2) as [h2 s3] eqn:Eh. apply h_end_fl in Eh. destruct Eh as [F1 L1].
    destruct h2 as [e|].
    + destruct (h_end C fault false (Some e) s3) as [h4 s4] eqn:Eh2. apply h_end_fl in Eh2. destruct Eh2 as [F2 L2].
      destruct L2 as [L2 | [K _]]; [|discriminate].
      destruct (run_extra C fault (if manual then extra else []) h4 s4) as [x' s5] eqn:Er. apply run_extra_fl in Er.
      destruct Er as [F3 [k [K1 K2]]]. inversion H; subst. split; [congruence|].
      destruct L1 as [L1 | [_ [L1 _]]].
      * exists (k ++ [TEnd; TEnd]). repeat split.
        -- apply Forall_app; split; [exact K1 | repeat constructor].
        -- destruct k; discriminate.
        -- rewrite K2, L2, L1, <- app_assoc; reflexivity.
      * exists (k ++ [TEnd]). destruct (tend_app k [] K1) as [T1 T2]. repeat split; [exact T1 | exact T2 |].
        rewrite K2, L2, L1, <- app_assoc; reflexivity.
    + destruct L1 as [L1 | [_ [_ K]]]; [|contradiction K; reflexivity].
      destruct (run_extra C fault (if manual then extra else []) None s3) as [x' s4] eqn:Er. apply run_extra_fl in Er.
      destruct Er as [F2 [k [K1 K2]]]. inversion H; subst. split; [congruence|].
      exists (k ++ [TEnd]). destruct (tend_app k [] K1) as [T1 T2]. repeat split; [exact T1 | exact T2 |].
      rewrite K2, L1, <- app_assoc; reflexivity.
  - destruct (h_end C fault false h s2) as [h2 s3] eqn:Eh. apply h_end_fl in Eh. destruct Eh as [F1 L1].
    destruct L1 as [L1 | [K _]]; [|discriminate].
    destruct (run_extra C fault (if manual then extra else []) h2 s3) as [x' s4] eqn:Er. apply run_extra_fl in Er.
    destruct Er as [F2 [k [K1 K2]]]. inversion H; subst. split; [congruence|].
    exists (k ++ [TEnd]). destruct (tend_app k [] K1) as [T1 T2]. repeat split; [exact T1 | exact T2 |].
    rewrite K2, L1, <- app_assoc; reflexivity.
  - destruct (h_end C fault false h s2) as [h2 s3] eqn:Eh. apply h_end_fl in Eh. destruct Eh as [F1 L1].
    destruct L1 as [L1 | [K _]]; [|discriminate].
    inversion H; subst. split; [congruence|]. exists [TEnd]. repeat split; [repeat constructor | discriminate | exact L1].
Qed.

Hypothesis hard_commit : c_soft C = false.

(* a Commit issued on the finished transaction reports an error *)
Lemma run_extra_commits : forall l h s x s', s_tx s = None -> run_extra C fault l h s = (x, s') ->
  extras_ok l x = true.
Proof.
  induction l as [|c l IH]; intros h s x s' Htx H; cbn [run_extra] in H; [inversion H; reflexivity|].
  rewrite (h_end_closed C fault hard_commit c h s Htx) in H.
  destruct (run_extra C fault l (add_error h (Some (mkErr ETxDone false))) (log_tx s TEnd)) as [o s2] eqn:Er.
  inversion H; subst. cbn [extras_ok]. rewrite (IH _ _ _ _ (Htx : s_tx (log_tx s TEnd) = None) Er), andb_true_r.
  destruct h; cbn; apply orb_true_r.
Qed.
Lemma run_extra_commits' : forall (manual : bool) extra h s x s', s_tx s = None ->
  run_extra C fault (if manual then extra else []) h s = (x, s') -> extras_ok extra x = true.
Proof.
  intros [|] extra h s x s' Htx H; [eapply run_extra_commits; eassumption|].
  cbn [run_extra] in H. inversion H; subst. destruct extra; reflexivity.
Qed.

(* the end of the run when the transaction is still open after the block function *)
Lemma finish_open : forall manual extra r l h s2 o x s t' stk,
  finish C fault manual extra r l h s2 = (o, x, s) -> s_tx s2 = Some (mkTx t' stk) ->
  let fc := fault (length (s_ops s2)) in
  s_db s = (if is_ok r && negb fc then t' else s_db s2)
  /\ s_ops s = ((if is_ok r then KCommit else KRollback), fc) :: s_ops s2
  /\ o = OC true l (cls_of r)
          (if is_ok r then cls_oe (add_error h (if fc then Some fault_err else None)) else cls_of r)
  /\ s_tx s = None /\ extras_ok extra x = true.
Proof.
  intros manual extra r l h s2 o x s t' stk H Htx fc. unfold finish in H.
  destruct r; cbn [is_ok cls_of andb].
  - rewrite (h_end_open C fault hard_commit true h s2 _ Htx) in H. fold fc in H. cbn [andb work] in H.
    set (s3 := mkSt (if negb fc then t' else s_db s2) None ((KCommit, fc) :: s_ops s2) (s_gen s2) (TEnd :: s_txlog s2) (s_fl s2) (s_dead s2) (s_nonest s2)) in *.
    assert (Hc : s_tx s3 = None) by reflexivity.
    destruct (add_error h (if fc then Some fault_err else None)) as [e|] eqn:Ea.
    + rewrite (h_end_closed C fault hard_commit false (Some e) s3 Hc) in H.
      match type of H with context [run_extra C fault _ ?hh ?ss] => set (h3 := hh) in *; set (s4 := ss) in * end.
      assert (Hc4 : s_tx s4 = None) by reflexivity.
      destruct (run_extra C fault (if manual then extra else []) h3 s4) as [x' s5] eqn:Er.
      destruct (run_extra_closed C fault hard_commit _ _ _ _ _ Hc4 Er) as (A1 & A2 & _ & A4 & _).
      pose proof (run_extra_commits' _ _ _ _ _ _ Hc4 Er) as Hx. inversion H; subst.
      rewrite A1, A2. repeat split; try reflexivity; assumption.
    + destruct (run_extra C fault (if manual then extra else []) None s3) as [x' s4] eqn:Er.
      destruct (run_extra_closed C fault hard_commit _ _ _ _ _ Hc Er) as (A1 & A2 & _ & A4 & _).
      pose proof (run_extra_commits' _ _ _ _ _ _ Hc Er) as Hx. inversion H; subst.
      rewrite A1, A2. repeat split; try reflexivity; assumption.
  - rewrite (h_end_open C fault hard_commit false h s2 _ Htx) in H. fold fc in H. cbn [andb] in H.
    match type of H with context [run_extra C fault _ ?hh ?ss] => set (h2 := hh) in *; set (s3 := ss) in * end.
    assert (Hc : s_tx s3 = None) by reflexivity.
    destruct (run_extra C fault (if manual then extra else []) h2 s3) as [x' s4] eqn:Er.
    destruct (run_extra_closed C fault hard_commit _ _ _ _ _ Hc Er) as (A1 & A2 & _ & A4 & _).
    pose proof (run_extra_commits' _ _ _ _ _ _ Hc Er) as Hx. inversion H; subst.
    rewrite A1, A2. repeat split; try reflexivity; assumption.
  - rewrite (h_end_open C fault hard_commit false h s2 _ Htx) in H. fold fc in H. cbn [andb] in H.
    inversion H; subst. repeat split; try reflexivity. destruct extra; reflexivity.
Qed.

(* every run ends with every begun transaction finished: one TBegin, then at least one TEnd *)
Lemma top_balanced : forall manual p extra s0 o x s,
  s_txlog s0 = [] ->
  run_top E C fault manual p extra s0 = (o, x, s) -> bal false (rev (s_txlog s)) = true.
Proof.
  intros manual p extra s0 o x s H0 H. unfold run_top, issue in H.
  destruct (fault (length (s_ops s0))).
  - inversion H; subst. cbn [log_tx s_txlog]. rewrite H0. reflexivity.
  - match type of H with context [run_body E C fault p None ?ss] => set (s1 := ss) in * end.
    destruct (run_body E C fault p None s1) as [[[r l] h] s2] eqn:Eb.
    pose proof (run_body_log E C fault p _ _ _ _ _ _ Eb) as L2.
    destruct (finish_fl _ _ _ _ _ _ _ _ _ H) as [_ [k [K1 [K2 K3]]]].
    rewrite K3, L2. subst s1; cbn [set_tx log_tx s_txlog]. rewrite H0.
    rewrite rev_app_distr. cbn [rev app bal].
    apply Forall_rev in K1. destruct (bal_ends _ K1) as [_ B]. apply B.
    intro K. apply K2. rewrite <- (rev_involutive k), K. reflexivity.
Qed.

Lemma top_balanced_init : forall manual p extra db0 o x s,
  run_top E C fault manual p extra (init_st db0) = (o, x, s) -> bal false (rev (s_txlog s)) = true.
Proof. intros manual p extra db0 o x s H. exact (top_balanced manual p extra (init_st db0) o x s eq_refl H). Qed.

End Top.

Section TopSpec.
Variable E : env.
Hypothesis savepoint_pushes : forall n t, sq_save E n t = ref_save n t.
Hypothesis rollback_to_exact : forall n t, sq_rbto E n t = ref_rbto n t.
Variable C : cfg.
Hypothesis savepoints : c_nosp C = false.
Hypothesis hard_commit : c_soft C = false.
Variable fault : nat -> bool.

Lemma stmt_errs_top : forall e l x r, stmt_errs (OC e l x r) = stmt_errs_l l.
Proof. reflexivity. Qed.
Lemma save_errs_top : forall e l x r, save_errs (OC e l x r) = save_errs_l l.
Proof. reflexivity. Qed.

Lemma run_extra_failed_ok : forall l h, h <> None -> extras_ok l (run_extra_failed C l h) = true.
Proof.
  induction l as [|c l IH]; intros h Hh; cbn [run_extra_failed extras_ok]; [reflexivity|].
  assert (Hn : (if c || c_prep C || c_wrap C then add_error h (Some (mkErr EInvalidTx false)) else h) <> None).
  { destruct (c || c_prep C || c_wrap C); [destruct h; discriminate | exact Hh]. }
  rewrite (IH _ Hn), andb_true_r.
  destruct (if c || c_prep C || c_wrap C then add_error h (Some (mkErr EInvalidTx false)) else h); [apply orb_true_r | contradiction Hn; reflexivity].
Qed.

Theorem top_spec : forall manual p extra db0 o x s,
  run_top E C fault manual p extra (init_st db0) = (o, x, s) ->
  scoped [] p = true -> plain_prog p = true -> x_rb (s_fl s) = false -> x_drop (s_fl s) = false ->
  s_db s = spec_final (negb (c_nonest C)) o (rev (s_ops s)) db0
  /\ top_ok o (rev (s_ops s)) = true /\ usable o (rev (s_ops s)) = true /\ extras_ok extra x = true.
Proof.
  intros manual p extra db0 o x s H Hsc Hnc Hrb Hdr. unfold run_top, issue in H.
  cbn [init_st s_ops length s_db s_tx s_gen s_txlog s_fl s_dead s_nonest] in H.
  destruct (fault 0%nat) eqn:F0.
  - (* BEGIN failed *)
    inversion H; subst. split; [reflexivity|]. split; [reflexivity|]. split; [reflexivity|].
    destruct manual; [apply run_extra_failed_ok; discriminate | destruct extra; reflexivity].
  - match type of H with context [run_body E C fault p None ?ss] => set (s1 := ss) in * end.
    destruct (run_body E C fault p None s1) as [[[r l] h] s2] eqn:Eb.
    destruct (finish_fl _ _ _ _ _ _ _ _ _ _ _ H) as [Hfl _].
    rewrite Hfl in Hrb, Hdr.
    assert (Htx1 : s_tx s1 = Some (mkTx db0 ([] ++ []))) by reflexivity.
    assert (Hg1 : gen_ok (s_gen s1) ([] ++ [])) by (intros k t []).
    destruct (body_inv E savepoint_pushes rollback_to_exact C savepoints fault p [] None s1 r l h s2 db0 [] []
                Eb eq_refl Hnc Htx1 (sub_nil _) Hsc Hg1 Hrb Hdr) as [t' [local' HI]].
    destruct HI as (A1 & A2 & A3 & A4 & A5 & A6 & A7 & A8 & A9 & nops & B1 & B2 & B3).
    cbn [app fu] in A2.
    assert (En1 : nest_of C s1 = negb (c_nonest C)) by (unfold nest_of; subst s1; cbn; rewrite orb_false_r; reflexivity).
    rewrite En1 in A2.
    destruct (finish_open C fault hard_commit _ _ _ _ _ _ _ _ _ _ _ H A1) as (D1 & D2 & D3 & D4 & D5). cbv zeta in *.
    assert (Hops : s_ops s = (if is_ok r then KCommit else KRollback, fault (length (s_ops s2))) :: nops ++ [(KBegin, false)]).
    { rewrite D2, B1. subst s1; reflexivity. }
    assert (Hdb0 : s_db s2 = db0) by (rewrite A6; subst s1; reflexivity).
    rewrite Hops. subst o.
    set (fc := fault (length (s_ops s2))) in *.
    split.
    + (* atomicity *)
      unfold spec_final. rewrite (commit_ok_final _ _ _ B2). cbn [andb].
      rewrite D1, Hdb0. destruct r; cbn [is_ok cls_of is_nil opkind_eqb andb]; try reflexivity.
      destruct fc; cbn [negb]; [reflexivity|]. symmetry. exact (f_equal fst A2).
    + destruct (B3 eq_refl) as (P1 & P2 & P3 & P4 & P5).
      split.
      * unfold top_ok. rewrite (commit_ok_final _ _ _ B2), A8, andb_true_r.
        destruct r; cbn [is_ok cls_of is_nil opkind_eqb andb]; try apply cls_eqb_refl.
        rewrite (P1 eq_refl). destruct fc; reflexivity.
      * split; [|exact D5].
        unfold usable, errs_explained. rewrite stmt_errs_top, save_errs_top.
        rewrite (all_fault_forallb _ P2), (all_fault_forallb _ P4). cbn [andb].
        apply andb_true_intro; split; apply Nat.leb_le; (eapply Nat.le_trans; [|apply countf_final]); assumption.
Qed.

Lemma top_atomic : forall manual p extra db0 o x s,
  run_top E C fault manual p extra (init_st db0) = (o, x, s) ->
  scoped [] p = true -> plain_prog p = true -> x_rb (s_fl s) = false -> x_drop (s_fl s) = false ->
  s_db s = spec_final (negb (c_nonest C)) o (rev (s_ops s)) db0.
Proof. intros manual p extra db0 o x s H Hs Hn Hr Hd. exact (proj1 (top_spec _ _ _ _ _ _ _ H Hs Hn Hr Hd)). Qed.

Lemma top_result : forall manual p extra db0 o x s,
  run_top E C fault manual p extra (init_st db0) = (o, x, s) ->
  scoped [] p = true -> plain_prog p = true -> x_rb (s_fl s) = false -> x_drop (s_fl s) = false ->
  top_ok o (rev (s_ops s)) = true /\ usable o (rev (s_ops s)) = true /\ extras_ok extra x = true.
Proof. intros manual p extra db0 o x s H Hs Hn Hr Hd. exact (proj2 (top_spec _ _ _ _ _ _ _ H Hs Hn Hr Hd)). Qed.

End TopSpec.
