(* C11_Model.v — eager loading: identity keys and the preload matching loop.
   Modelled code (no proofs here):
     utils/utils.go    ToStringKey + escapeKeyPart       -> esc, esc_str, part_str, to_string_key
     schema/utils.go   GetIdentityFieldValuesMap         -> identity_map (bucket map + IN list)
     schema/utils.go   ToQueryValues + clause.IN         -> in_list / fetch (SQL row-value IN, 3-valued)
     callbacks/preload.go preload, single hop            -> preload_hop
     callbacks/preload.go preload, rel.JoinTable branch  -> preload_m2m
     callbacks/preload.go nested `tx.Preload(p)`         -> preload_nested (second hop on the fetched rows)
     association.go    Find / buildCondition + schema/relationship.go ToQueryConditions -> assoc_find
     callbacks/query.go association Joins (LEFT JOIN ... ON fk = key AND live) -> joins_model
   The specification side ([belongs], [attach]) is written from the property text: VALUE
   equality of the foreign key and the referenced key, conditions, soft-delete scope. *)
From Coq Require Import DecimalString.
From Verif Require Import Base.
Open Scope Z_scope.

(* ---- key parts: the Go values handed to utils.ToStringKey ---- *)
Inductive keypart :=
| KStr  (s : string)   (* Go string (or []byte) field *)
| KPStr (s : string)   (* non-nil *string, or a valid sql.NullString *)
| KUint (n : N)        (* Go uint field (has its own case in ToStringKey) *)
| KInt  (z : Z)        (* any other integer kind, by value *)
| KPInt (z : Z)        (* non-nil pointer to an integer *)
| KNil.                (* nil pointer / nil interface / invalid Null* *)
Definition key := list keypart.

(* strconv / fmt.Sprint of an integer *)
Definition dec (z : Z) : string := NilEmpty.string_of_int (Z.to_int z).

(* utils.ToStringKey as it is on the tree (since fix 5d340d3): one element of [results].
   escapeKeyPart: the string "nil" -> "\nil"; otherwise '\' -> "\\" and '_' -> "\_";
   a nil pointer / nil interface -> "nil"; every other value is printed (zero numbers as numbers,
   pointers dereferenced). *)
Definition bs : ascii := "\"%char.
Definition us : ascii := "_"%char.
Fixpoint esc (s : string) : string :=
  match s with
  | EmptyString => EmptyString
  | String a r => if Ascii.eqb a bs then String bs (String bs (esc r))
                  else if Ascii.eqb a us then String bs (String us (esc r))
                  else String a (esc r)
  end.
Definition esc_str (s : string) : string := if String.eqb s "nil" then String bs "nil" else esc s.
Definition part_str (p : keypart) : string :=
  match p with
  | KStr s | KPStr s => esc_str s
  | KUint n => dec (Z.of_N n)
  | KInt z | KPInt z => dec z
  | KNil => "nil"
  end.
Definition to_string_key (k : key) : string := String.concat "_" (map part_str k).

(* field.ValueOf's second result: reflect.Value.IsZero of the field *)
Definition part_zero (p : keypart) : bool :=
  match p with
  | KStr s => String.eqb s ""
  | KUint n => N.eqb n 0
  | KInt z => z =? 0
  | KPStr _ | KPInt _ => false
  | KNil => true
  end.
Definition all_zero (k : key) : bool := forallb part_zero k.

(* ---- SQL values and comparison (what the IN query and the specification use) ---- *)
Inductive sqlval := VNull | VInt (z : Z) | VText (s : string).
Definition part_val (p : keypart) : sqlval :=
  match p with
  | KStr s | KPStr s => VText s
  | KUint n => VInt (Z.of_N n)
  | KInt z | KPInt z => VInt z
  | KNil => VNull
  end.
Definition kvals (k : key) : list sqlval := map part_val k.
(* [a = b] is TRUE (not UNKNOWN, not FALSE) *)
Definition sql_eqb (a b : sqlval) : bool :=
  match a, b with
  | VInt x, VInt y => x =? y
  | VText x, VText y => String.eqb x y
  | _, _ => false
  end.
Fixpoint tuple_eqb (a b : list sqlval) : bool :=
  match a, b with
  | [], [] => true
  | x :: a', y :: b' => sql_eqb x y && tuple_eqb a' b'
  | _, _ => false
  end.
Definition key_eqv (a b : key) : bool := tuple_eqb (kvals a) (kvals b).

(* ---- rows ---- *)
(* CAnd: the relation's own conditions AND those given with Preload(clause.Associations, ...) *)
Inductive cond := CAll | CMod (m r : Z) | CGt (k : Z) | CNone | CAnd (a b : cond).
Fixpoint cond_holds (c : cond) (v : Z) : bool :=
  match c with
  | CAll => true | CMod m r => v mod m =? r | CGt k => k <? v | CNone => false
  | CAnd a b => cond_holds a v && cond_holds b v
  end.

Record child := mk_child {
  c_uid : Z;          (* identifies the row in observations *)
  c_key : key;        (* the columns matched against the parents (foreign key, or referenced key for belongs-to) *)
  c_v : Z;            (* data column used by preload conditions *)
  c_del : bool;       (* deleted_at IS NOT NULL *)
  c_ty : string;      (* polymorphic type column ("" when the table has none) *)
  c_key2 : key        (* the columns this row offers as a PARENT of the next hop of a nested path *)
}.

Record hop := mk_hop {
  h_single : bool;            (* has-one / belongs-to: the field is Set; has-many / many2many: appended *)
  h_cond : cond;              (* Preload(name, conds...) / scope function *)
  h_unscoped : bool;          (* db.Unscoped() *)
  h_poly : option string      (* ref.PrimaryValue: polymorphic type value *)
}.

(* the WHERE of the child query apart from the IN list *)
Definition child_ok (h : hop) (c : child) : bool :=
  cond_holds (h_cond h) (c_v c)
  && (h_unscoped h || negb (c_del c))
  && match h_poly h with None => true | Some t => String.eqb (c_ty c) t end.

(* ---- GetIdentityFieldValuesMap (slice case; a struct is the one-element case) ---- *)
Definition imap := list (string * list nat).   (* Go map[string][]reflect.Value, values = parent positions *)
Fixpoint im_find (s : string) (m : imap) : option (list nat) :=
  match m with
  | [] => None
  | (k, v) :: r => if String.eqb k s then Some v else im_find s r
  end.
(* dataResults[k] = append(dataResults[k], is...) *)
Fixpoint im_append (s : string) (is_ : list nat) (m : imap) : imap :=
  match m with
  | [] => [(s, is_)]
  | (k, v) :: r => if String.eqb k s then (k, v ++ is_) :: r else (k, v) :: im_append s is_ r
  end.

(* everything below is parameterised by the key encoding [tsk] (instantiated with to_string_key,
   utils.ToStringKey on the current tree) *)
Section WithKey.
Variable tsk : key -> string.

Definition idmap_step (st : imap * list key) (ik : nat * key) : imap * list key :=
  let '(m, vals) := st in
  let '(i, k) := ik in
  if all_zero k then st
  else let s := tsk k in
       match im_find s m with
       | Some _ => (im_append s [i] m, vals)          (* key string seen: no new IN entry *)
       | None => (im_append s [i] m, vals ++ [k])
       end.
Definition indexed {A} (l : list A) : list (nat * A) := combine (seq 0 (length l)) l.
Definition identity_map (ps : list key) : imap * list key :=
  fold_left idmap_step (indexed ps) ([], []).

(* ---- the child query: column(s) IN (values) AND conditions ---- *)
Definition in_list (vals : list key) (k : key) : bool := existsb (fun v => key_eqv v k) vals.
Definition fetch (h : hop) (vals : list key) (cs : list child) : list child :=
  filter (fun c => in_list vals (c_key c) && child_ok h c) cs.

(* ---- assignment back (the loop over reflectResults) ---- *)
Definition outs := list (list Z).       (* per parent position: attached child uids, in attach order *)
Fixpoint upd_at (i : nat) (f : list Z -> list Z) (o : outs) : outs :=
  match o, i with
  | [], _ => []
  | x :: r, O => f x :: r
  | x :: r, S i' => x :: upd_at i' f r
  end.
Definition assign (single : bool) (uid : Z) (o : outs) (i : nat) : outs :=
  upd_at i (fun l => if single then [uid] else l ++ [uid]) o.
Fixpoint match_loop (single : bool) (m : imap) (cs : list child) (o : outs) : option outs :=
  match cs with
  | [] => Some o
  | c :: r =>
    match im_find (tsk (c_key c)) m with
    | None => None                                   (* "failed to assign association" *)
    | Some is_ => match_loop single m r (fold_left (assign single (c_uid c)) is_ o)
    end
  end.
Definition empty_outs (n : nat) : outs := repeat [] n.

Definition preload_hop (h : hop) (ps : list key) (cs : list child) : option outs :=
  let '(m, vals) := identity_map ps in
  match vals with
  | [] => Some (empty_outs (length ps))              (* len(foreignValues) == 0: return nil *)
  | _ => match_loop (h_single h) m (fetch h vals cs) (empty_outs (length ps))
  end.

(* ---- many-to-many: join-table hop ---- *)
Definition jrow := (key * key)%type.       (* (owner-side columns, target-side columns) of a join row *)
Definition join_step (jm : imap) (m : imap) (j : jrow) : imap :=
  match im_find (tsk (fst j)) jm with
  | Some res => im_append (tsk (snd j)) res m
  | None => m
  end.
Definition preload_m2m (h : hop) (ps : list key) (js : list jrow) (cs : list child) : option outs :=
  let '(jm, jvals) := identity_map ps in
  match jvals with
  | [] => Some (empty_outs (length ps))
  | _ =>
    let jrows := filter (fun j => in_list jvals (fst j)) js in
    let m := fold_left (join_step jm) jrows [] in
    let fvals := snd (identity_map (map snd jrows)) in
    match_loop false m (match fvals with [] => [] | _ => fetch h fvals cs end) (empty_outs (length ps))
  end.

(* ---- nested path "A.B": the rows fetched for A are the parents of hop B ---- *)
Definition fetched_hop (h : hop) (ps : list key) (cs : list child) : list child :=
  match snd (identity_map ps) with [] => [] | vals => fetch h vals cs end.
Definition preload_nested (h1 h2 : hop) (ps : list key) (cs1 cs2 : list child)
  : option outs * list Z * option outs :=
  let f := fetched_hop h1 ps cs1 in
  (preload_hop h1 ps cs1, map c_uid f, preload_hop h2 (map c_key2 f) cs2).

(* ---- Association(...).Find: WHERE fk IN (identity values of the owners) ---- *)
Definition assoc_find (h : hop) (ps : list key) (cs : list child) : list Z :=
  map c_uid (fetch h (snd (identity_map ps)) cs).
Definition assoc_find_m2m (h : hop) (ps : list key) (js : list jrow) (cs : list child) : list Z :=
  let vals := snd (identity_map ps) in
  map c_uid (filter (fun c => child_ok h c
                              && existsb (fun j => in_list vals (fst j) && key_eqv (snd j) (c_key c)) js) cs).

End WithKey.

(* ---- association Joins: LEFT JOIN child ON child.fk = parent.key AND live (query.go) ---- *)
Definition joins_model (h : hop) (ps : list key) (cs : list child) : outs :=
  map (fun kp => map c_uid (filter (fun c => key_eqv kp (c_key c) && child_ok h c) cs)) ps.

(* ================= specification (from the property text) ================= *)
(* child c belongs to the parent with referenced key kp iff fk(c) = kp as VALUES, c satisfies the
   conditions and the soft-delete scope.  NULL never equals anything; an all-zero key is gorm's
   "no key" (unsaved record) and attaches nothing (DESIGN 8.0). *)
Definition belongs (h : hop) (kp : key) (c : child) : bool :=
  negb (all_zero kp) && key_eqv kp (c_key c) && child_ok h c.
Definition attach (h : hop) (ps : list key) (cs : list child) : outs :=
  map (fun kp => map c_uid (filter (belongs h kp) cs)) ps.
(* many2many: a join row links them.  Preload treats an all-zero TARGET key like an all-zero parent
   key ("no key": GetIdentityFieldValuesMap skips it); Association().Find joins in SQL and does not. *)
Definition linked (skip_zero_target : bool) (js : list jrow) (kp : key) (c : child) : bool :=
  existsb (fun j => (negb skip_zero_target || negb (all_zero (snd j)))
                    && key_eqv kp (fst j) && key_eqv (snd j) (c_key c)) js.
(* association Joins compare in SQL: no "zero key = no key" convention there *)
Definition belongs_sql (h : hop) (kp : key) (c : child) : bool := key_eqv kp (c_key c) && child_ok h c.
Definition attach_sql (h : hop) (ps : list key) (cs : list child) : outs :=
  map (fun kp => map c_uid (filter (belongs_sql h kp) cs)) ps.
Definition belongs_m2m (h : hop) (js : list jrow) (kp : key) (c : child) : bool :=
  negb (all_zero kp) && child_ok h c && linked true js kp c.
Definition belongs_m2m_find (h : hop) (js : list jrow) (kp : key) (c : child) : bool :=
  negb (all_zero kp) && child_ok h c && linked false js kp c.
Definition attach_m2m (h : hop) (ps : list key) (js : list jrow) (cs : list child) : outs :=
  map (fun kp => map c_uid (filter (belongs_m2m h js kp) cs)) ps.
(* a Set field keeps the last assignment *)
Definition last1 (l : list Z) : list Z := match rev l with [] => [] | x :: _ => [x] end.
Definition norm_single (single : bool) (o : outs) : outs := if single then map last1 o else o.

(* ================= the PREVIOUS encoding (utils.ToStringKey before fix 5d340d3) =================
   Kept only to state what was wrong with it (Props_C11, the c11_prev theorems): no escaping, zero values of the
   default case printed as "nil". Nothing in the checker evaluates it. *)
Definition part_str_prev (p : keypart) : string :=
  match p with
  | KStr s | KPStr s => s
  | KUint n => dec (Z.of_N n)
  | KInt z => if z =? 0 then "nil" else dec z
  | KPInt z => dec z
  | KNil => "nil"
  end.
Definition to_string_key_prev (k : key) : string := String.concat "_" (map part_str_prev k).
