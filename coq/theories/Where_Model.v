(* Where_Model.v — shared executable model of how gorm turns a chain of Where/Not/Or calls into
   the token structure of a WHERE clause.  Modelled code: statement.go (BuildCondition),
   chainable_api.go (Where/Not/Or), clause/where.go (Where.Build, buildExprs, And/Or/Not
   constructors, And/Or/NotConditions.Build, Where.MergeClause), soft_delete.go
   (SoftDeleteQueryClause.ModifyStatement), callbacks/helper.go (checkMissingWhereConditions).
   Used by C02, C08, C09.  No proofs here. *)
From Verif Require Import Base Sem.

(* ------------------------------------------------------------------ *)
(* text: upper-casing, substring test, lexer                            *)

Definition la := list ascii.
Definition s2l (s : string) : la := list_ascii_of_string s.

Definition upper_ascii (c : ascii) : ascii :=
  let n := nat_of_ascii c in
  if (97 <=? n)%nat && (n <=? 122)%nat then ascii_of_nat (n - 32) else c.
Definition upper (s : la) : la := map upper_ascii s.

Fixpoint prefix (p s : la) : bool :=
  match p, s with
  | [], _ => true
  | a :: p', b :: s' => Ascii.eqb a b && prefix p' s'
  | _ :: _, [] => false
  end.
Fixpoint contains (p s : la) : bool :=
  match s with
  | [] => prefix p []
  | _ :: r => prefix p s || contains p r
  end.

(* clause/where.go hasAndOr: does the text contain AND or OR as a whole word (letters, digits
   and '_' make words), in any letter case? *)
Definition is_word (c : ascii) : bool :=
  let n := nat_of_ascii c in
  (n =? 95)%nat || ((48 <=? n)%nat && (n <=? 57)%nat)
  || ((65 <=? n)%nat && (n <=? 90)%nat) || ((97 <=? n)%nat && (n <=? 122)%nat).
Definition is_and_or (w : la) : bool :=
  let u := upper w in
  list_eqb Ascii.eqb u ["A"; "N"; "D"]%char || list_eqb Ascii.eqb u ["O"; "R"]%char.
(* [cur] = the word being read, reversed *)
Fixpoint has_and_or_from (s : la) (cur : la) : bool :=
  match s with
  | [] => is_and_or (rev cur)
  | c :: r => if is_word c then has_and_or_from r (c :: cur)
              else is_and_or (rev cur) || has_and_or_from r []
  end.
Definition wrap_test (tmpl : string) : bool := has_and_or_from (s2l tmpl) [].

Definition is_space (c : ascii) : bool :=
  let n := nat_of_ascii c in (n =? 32)%nat || (n =? 9)%nat || (n =? 10)%nat || (n =? 13)%nat.
Definition is_alpha (c : ascii) : bool :=
  let n := nat_of_ascii c in ((65 <=? n)%nat && (n <=? 90)%nat) || ((97 <=? n)%nat && (n <=? 122)%nat).
Definition is_delim (s : la) : bool :=
  match s with
  | [] => true
  | c :: _ => is_space c || Ascii.eqb c "("%char || Ascii.eqb c ")"%char
  end.

(* atom table: id -> accepted texts (what gorm renders for that atom alone, in each form) *)
Definition atom_table := list (nat * list string).

(* longest atom text that is a prefix of [s] and is followed by a delimiter *)
Fixpoint match_texts (id : nat) (texts : list string) (s : la) (best : option (nat * nat)) : option (nat * nat) :=
  match texts with
  | [] => best
  | t :: r =>
    let tl := s2l t in
    let n := List.length tl in
    let ok := prefix tl s && is_delim (skipn n s) && negb (n =? 0)%nat in
    let best' := if ok then
                   match best with
                   | Some (_, m) => if (m <? n)%nat then Some (id, n) else best
                   | None => Some (id, n)
                   end
                 else best in
    match_texts id r s best'
  end.
Fixpoint match_atom (tbl : atom_table) (s : la) (best : option (nat * nat)) : option (nat * nat) :=
  match tbl with
  | [] => best
  | (id, texts) :: r => match_atom r s (match_texts id texts s best)
  end.

Fixpoint span_alpha (s : la) : la * la :=
  match s with
  | c :: r => if is_alpha c then let (w, rest) := span_alpha r in (c :: w, rest) else ([], s)
  | [] => ([], [])
  end.

Definition la_eqb (a b : la) : bool := list_eqb Ascii.eqb a b.

Fixpoint lex_fuel (fuel : nat) (tbl : atom_table) (s : la) : option (list tok) :=
  match fuel with
  | O => None
  | S f =>
    match s with
    | [] => Some []
    | c :: r =>
      if is_space c then lex_fuel f tbl r
      else match match_atom tbl s None with
           | Some (id, n) =>
             match lex_fuel f tbl (skipn n s) with Some ts => Some (TAtom id :: ts) | None => None end
           | None =>
             if Ascii.eqb c "("%char then
               match lex_fuel f tbl r with Some ts => Some (TL :: ts) | None => None end
             else if Ascii.eqb c ")"%char then
               match lex_fuel f tbl r with Some ts => Some (TR :: ts) | None => None end
             else
               let (w, rest) := span_alpha s in
               let u := upper w in
               let k := if la_eqb u (s2l "AND") then Some TAnd
                        else if la_eqb u (s2l "OR") then Some TOr
                        else if la_eqb u (s2l "NOT") then Some TNot else None in
               match k with
               | Some t => match lex_fuel f tbl rest with Some ts => Some (t :: ts) | None => None end
               | None => None
               end
           end
    end
  end.
Definition lex (tbl : atom_table) (s : string) : option (list tok) :=
  lex_fuel (S (String.length s)) tbl (s2l s).

(* ------------------------------------------------------------------ *)
(* clause.Expression values                                             *)

Inductive expr :=
| XAtom (a na : nat)              (* Eq/Neq/Gt/Lt/Like/IN...: Build = atom a, NegationBuild = atom na *)
| XRaw (w : bool) (ts : list tok) (* clause.Expr: w = gorm's textual wrap test on its SQL; ts = its tokens *)
| XNamed (w : bool) (ts : list tok)
| XAnd (l : list expr)            (* AndConditions *)
| XOr (l : list expr)             (* OrConditions *)
| XNot (l : list expr).           (* NotConditions *)

Definition is_single_or (x : expr) : bool := match x with XOr [_] => true | _ => false end.
Definition is_or (x : expr) : bool := match x with XOr _ => true | _ => false end.
Definition is_atom (x : expr) : bool := match x with XAtom _ _ => true | _ => false end.

(* clause.And / clause.Or / clause.Not ([None] = the nil Expression) *)
Definition mk_and (l : list expr) : option expr :=
  match l with
  | [] => None
  | [x] => if is_or x then Some (XAnd [x]) else Some x
  | _ => Some (XAnd l)
  end.
Definition mk_or (l : list expr) : option expr :=
  match l with [] => None | _ => Some (XOr l) end.
Definition mk_not (l : list expr) : option expr :=
  match l with
  | [] => None
  | [XAnd l'] => Some (XNot l')
  | _ => Some (XNot l)
  end.
Definition olist {A} (o : option A) : list A := match o with Some x => [x] | None => [] end.

(* the switch of buildExprs deciding on parentheses (only when the list has > 1 element) *)
(* needsParentheses: clause.Expr / clause.NamedExpr whose SQL has an AND/OR word, looked up
   through any depth of single-member And/Or wrappers *)
Fixpoint wrap_of (x : expr) : bool :=
  match x with
  | XRaw w _ | XNamed w _ => w
  | XOr [y] => wrap_of y
  | XAnd [y] => wrap_of y
  | _ => false
  end.

Definition paren (ts : list tok) : list tok := TL :: ts ++ [TR].
Definition gt1 {A} (l : list A) : bool := match l with _ :: _ :: _ => true | _ => false end.

Fixpoint render (x : expr) : list tok :=
  let bex := fix bex (multi first : bool) (join : tok) (l : list expr) : list tok :=
    match l with
    | [] => []
    | e :: r =>
      (if first then [] else [if is_single_or e then TOr else join])
      ++ (if multi && wrap_of e then paren (render e) else render e)
      ++ bex multi false join r
    end in
  let nota := fix nota (first : bool) (l : list expr) : list tok :=
    match l with
    | [] => []
    | e :: r =>
      (if first then [] else [TAnd])
      ++ (match e with
          | XAtom _ na => [TAtom na]
          | _ => TNot :: (if wrap_of e then paren (render e) else render e)   (* buildWrapped *)
          end)
      ++ nota false r
    end in
  match x with
  | XAtom a _ => [TAtom a]
  | XRaw _ ts => ts
  | XNamed _ ts => ts
  | XAnd l => if gt1 l then paren (bex true true TAnd l) else bex false true TAnd l
  | XOr l => if gt1 l then paren (bex true true TOr l) else bex false true TOr l
  | XNot l =>
    if existsb is_atom l && negb (existsb is_single_or (tl l))
    then (if gt1 l then paren (nota true l) else nota true l)      (* every member negated *)
    else TNot :: (match l with
                  | [e] => if wrap_of e then paren (render e) else render e
                  | _ => paren (bex true true TAnd l)
                  end)                                              (* negated as a whole *)
  end.

(* buildExprs as a top-level function *)
Fixpoint build_exprs (multi first : bool) (join : tok) (l : list expr) : list tok :=
  match l with
  | [] => []
  | e :: r =>
    (if first then [] else [if is_single_or e then TOr else join])
    ++ (if multi && wrap_of e then paren (render e) else render e)
    ++ build_exprs multi false join r
  end.

(* Where.Build: unwrap a lone AndConditions, move the first non-single-Or expression to the front *)
Fixpoint find_non_single_or (l : list expr) (i : nat) : option (nat * expr) :=
  match l with
  | [] => None
  | x :: r => if is_single_or x then find_non_single_or r (S i) else Some (i, x)
  end.
Fixpoint set_nth {A} (n : nat) (x : A) (l : list A) : list A :=
  match l, n with
  | [], _ => []
  | _ :: r, O => x :: r
  | y :: r, S n' => y :: set_nth n' x r
  end.
Definition swap_first (l : list expr) : list expr :=
  match l with
  | [] => []
  | x0 :: _ =>
    match find_non_single_or l 0 with
    | Some (S i, xi) => set_nth (S i) x0 (set_nth 0 xi l)
    | _ => l
    end
  end.
Definition where_exprs_built (exprs : list expr) : list expr :=
  swap_first (match exprs with [XAnd l] => l | _ => exprs end).
Definition where_tokens (exprs : list expr) : list tok :=
  let l := where_exprs_built exprs in build_exprs (gt1 l) true TAnd l.

(* ------------------------------------------------------------------ *)
(* condition forms accepted by Where/Not/Or and inline conditions       *)

Inductive ckind := KWhere | KNot | KOr.

Inductive cexpr :=                (* a value built with gorm's clause constructors *)
| CAtom (a na : nat)
| CRaw (tmpl txt : string)        (* clause.Expr{SQL: ...} / gorm.Expr *)
| CAndE (l : list cexpr)          (* clause.And(...) *)
| COrE (l : list cexpr)           (* clause.Or(...) *)
| CNotE (l : list cexpr).         (* clause.Not(...) *)

Inductive unit_ :=
| URaw (tmpl txt : string)                   (* string condition, with or without ? arguments *)
| UNamed (tmpl txt : string)                 (* string condition with @name arguments *)
| UMap (ms : list (nat * nat))               (* map: one Eq / IS NULL / IN atom per key, keys sorted *)
| UStruct (ms : list (nat * nat))            (* struct: one Eq atom per non-zero field *)
| UExpr (c : cexpr)
| UGroup (calls : list (ckind * unit_)).     (* db.Where(db.Where(..).Or(..)) *)

Definition call := (ckind * unit_)%type.

Section WithAtoms.
Variable tbl : atom_table.

Fixpoint cx (c : cexpr) : option (option expr) :=   (* outer None = lexer failure *)
  let cxs := fix cxs (l : list cexpr) : option (list expr) :=
    match l with
    | [] => Some []
    | c :: r => match cx c, cxs r with
                | Some o, Some l' => Some (olist o ++ l')
                | _, _ => None
                end
    end in
  match c with
  | CAtom a na => Some (Some (XAtom a na))
  | CRaw tmpl txt => match lex tbl txt with Some ts => Some (Some (XRaw (wrap_test tmpl) ts)) | None => None end
  | CAndE l => match cxs l with Some l' => Some (mk_and l') | None => None end
  | COrE l => match cxs l with Some l' => Some (mk_or l') | None => None end
  | CNotE l => match cxs l with Some l' => Some (mk_not l') | None => None end
  end.

(* Statement.BuildCondition + the three chain methods, as a fold over the calls; the
   accumulator is the Exprs slice of the WHERE clause (Where.MergeClause appends). *)
Fixpoint build_cond (u : unit_) : option (list expr) :=
  let chain := fix chain (acc : list expr) (cs : list (ckind * unit_)) : option (list expr) :=
    match cs with
    | [] => Some acc
    | (k, u) :: r =>
      match build_cond u with
      | None => None
      | Some [] => chain acc r
      | Some conds =>
        let add := match k with
                   | KWhere => conds
                   | KNot => olist (mk_not conds)
                   | KOr => match mk_and conds with Some a => [XOr [a]] | None => [] end
                   end in
        chain (acc ++ add) r
      end
    end in
  match u with
  | URaw tmpl txt =>
    if String.eqb tmpl "" then Some []
    else match lex tbl txt with Some ts => Some [XRaw (wrap_test tmpl) ts] | None => None end
  | UNamed tmpl txt =>
    match lex tbl txt with Some ts => Some [XNamed (wrap_test tmpl) ts] | None => None end
  | UMap ms => Some (olist (mk_and (map (fun p => XAtom (fst p) (snd p)) ms)))
  | UStruct ms => Some (olist (mk_and (map (fun p => XAtom (fst p) (snd p)) ms)))
  | UExpr c => match cx c with Some o => Some (olist (mk_and (olist o))) | None => None end
  | UGroup cs =>
    match chain [] cs with
    | None => None
    | Some [] => Some []
    | Some wh =>
      let wh' := match wh with [XOr l] => [XAnd l] | _ => wh end in
      Some (olist (mk_and (olist (mk_and wh'))))
    end
  end.

Fixpoint build_chain_from (acc : list expr) (cs : list call) : option (list expr) :=
  match cs with
  | [] => Some acc
  | (k, u) :: r =>
    match build_cond u with
    | None => None
    | Some [] => build_chain_from acc r
    | Some conds =>
      let add := match k with
                 | KWhere => conds
                 | KNot => olist (mk_not conds)
                 | KOr => match mk_and conds with Some a => [XOr [a]] | None => [] end
                 end in
      build_chain_from (acc ++ add) r
    end
  end.
Definition build_chain (cs : list call) : option (list expr) := build_chain_from [] cs.

End WithAtoms.

(* SoftDeleteQueryClause.ModifyStatement on the Exprs of the WHERE clause; [live] is the
   `deleted_at IS NULL` atom *)
Definition soft_delete_exprs (live nlive : nat) (exprs : list expr) : list expr :=
  let grouped := if existsb is_single_or exprs then olist (mk_and exprs) else exprs in
  grouped ++ [XAtom live nlive].

(* checkMissingWhereConditions: true = ErrMissingWhereClause *)
Definition missing_where (allow_global soft_enabled : bool) (exprs : list expr) : bool :=
  if allow_global then false
  else if soft_enabled then negb (gt1 exprs)
  else match exprs with [] => true | _ => false end.

(* ------------------------------------------------------------------ *)
(* the specification side: what a chain MEANS (property text of C02)    *)

Inductive sem := SAtom (a : nat) | SNot (s : sem) | SAnd (l : list sem) | SOr (l : list sem).

Fixpoint sev (v : nat -> tv) (s : sem) : tv :=
  match s with
  | SAtom a => v a
  | SNot s' => tv_not (sev v s')
  | SAnd l => fold_right tv_and TT (map (sev v) l)
  | SOr l => fold_right tv_or TF (map (sev v) l)
  end.

Fixpoint sem_of_F (f : fexp) : sem :=
  match f with
  | FAtom a => SAtom a
  | FNot g => SNot (sem_of_F g)
  | FPar e => SOr (map (fun t => SAnd (map sem_of_F t)) e)
  end.
Definition sem_of_E (e : eexp) : sem := SOr (map (fun t => SAnd (map sem_of_F t)) e).

(* standard SQL precedence over a left-to-right sequence: the list is split at every OR *)
Fixpoint or_groups (l : list (bool * sem)) (cur : list sem) : list (list sem) :=
  match l with
  | [] => [rev cur]
  | (is_or_, s) :: r => if is_or_ then rev cur :: or_groups r [s] else or_groups r (s :: cur)
  end.
Definition prec_sem (l : list (bool * sem)) : sem :=
  match l with
  | [] => SAnd []
  | (_, s) :: r => SOr (map SAnd (or_groups r [s]))
  end.

(* clause.And with a single operand returns that operand *)
Fixpoint cstrip (c : cexpr) : cexpr :=
  match c with
  | CAndE [x] => cstrip x
  | _ => c
  end.

Section SpecWithAtoms.
Variable tbl : atom_table.

Fixpoint csem (c : cexpr) : option sem :=
  let csems := fix csems (l : list cexpr) : option (list sem) :=
    match l with
    | [] => Some []
    | c :: r => match csem c, csems r with Some s, Some l' => Some (s :: l') | _, _ => None end
    end in
  match c with
  | CAtom a _ => Some (SAtom a)
  | CRaw _ txt => match lex tbl txt with
                  | Some ts => match parse ts with Some e => Some (sem_of_E e) | None => None end
                  | None => None
                  end
  | CAndE l => match csems l with Some l' => Some (SAnd l') | None => None end
  | COrE l => match csems l with Some l' => Some (SOr l') | None => None end
  | CNotE l =>
    (* clause.Not(clause.And(a, b, ..)) reads "every operand false"; anything else is negated whole *)
    match l with
    | [CAndE ((_ :: _ :: _) as k)] => match csems k with Some k' => Some (SAnd (map SNot k')) | None => None end
    | _ => match csems l with
           | Some [s] => Some (SNot s)
           | Some l' => Some (SAnd (map SNot l'))
           | None => None
           end
    end
  end.

(* meaning of a unit, and its reading under Not:
   Some (None)  = the unit is empty and contributes nothing
   Some (Some (m, n)) = meaning m, Not-reading n *)
Fixpoint umean (u : unit_) : option (option (sem * sem)) :=
  let chain := fix chain (cs : list (ckind * unit_)) : option (list (ckind * (sem * sem))) :=
    match cs with
    | [] => Some []
    | (k, u) :: r =>
      match umean u, chain r with
      | Some None, Some l => Some l
      | Some (Some mn), Some l => Some ((k, mn) :: l)
      | _, _ => None
      end
    end in
  match u with
  | URaw tmpl txt =>
    if String.eqb tmpl "" then Some None
    else match lex tbl txt with
         | Some ts => match parse ts with
                      | Some e => Some (Some (sem_of_E e, SNot (sem_of_E e)))
                      | None => None
                      end
         | None => None
         end
  | UNamed tmpl txt =>
    match lex tbl txt with
    | Some ts => match parse ts with
                 | Some e => Some (Some (sem_of_E e, SNot (sem_of_E e)))
                 | None => None
                 end
    | None => None
    end
  | UMap ms | UStruct ms =>
    match ms with
    | [] => Some None
    | [p] => Some (Some (SAtom (fst p), SNot (SAtom (fst p))))
    | _ => Some (Some (SAnd (map (fun p => SAtom (fst p)) ms), SAnd (map (fun p => SNot (SAtom (fst p))) ms)))
    end
  | UExpr c =>
    match csem c with
    | Some s =>
      (* clause.And(x) with one operand is x itself: look through such wrappers *)
      let n := match cstrip c, csem (cstrip c) with
               | CAndE (_ :: _ :: _), Some (SAnd l) => SAnd (map SNot l)   (* AND-combined: every member false *)
               | _, _ => SNot s
               end in
      Some (Some (s, n))
    | None => None
    end
  | UGroup cs =>
    match chain cs with
    | None => None
    | Some [] => Some None
    | Some [(KNot, (_, n))] => Some (Some (n, SNot n))      (* a group of one call is that call *)
    | Some [(_, (m, n))] => Some (Some (m, n))
    | Some l =>
      let seq := map (fun kmn => match kmn with
                                 | (KWhere, (m, _)) => (false, m)
                                 | (KNot, (_, n)) => (false, n)
                                 | (KOr, (m, _)) => (true, m)
                                 end) l in
      let m := prec_sem seq in
      let has_or := existsb (fun kmn => match fst kmn with KOr => true | _ => false end) (tl l) in
      let n := if negb has_or && gt1 l then SAnd (map (fun bs => SNot (snd bs)) seq) else SNot m in
      Some (Some (m, n))
    end
  end.

Fixpoint chain_seq (cs : list call) : option (list (bool * sem)) :=
  match cs with
  | [] => Some []
  | (k, u) :: r =>
    match umean u, chain_seq r with
    | Some None, Some l => Some l
    | Some (Some (m, n)), Some l =>
      Some (match k with KWhere => (false, m) | KNot => (false, n) | KOr => (true, m) end :: l)
    | _, _ => None
    end
  end.
Definition spec_chain (cs : list call) : option sem :=
  match chain_seq cs with Some l => Some (prec_sem l) | None => None end.

(* C09: does the chain supply any effective condition? *)
Definition effective (cs : list call) : option bool :=
  match chain_seq cs with Some [] => Some false | Some _ => Some true | None => None end.

End SpecWithAtoms.

(* ------------------------------------------------------------------ *)
(* rows selected, given per-row atom valuations                          *)

Definition valuation := list (nat * tv).     (* atom id -> truth value in one row; missing = TU *)
Fixpoint vlookup (v : valuation) (a : nat) : tv :=
  match v with
  | [] => TU
  | (b, t) :: r => if (a =? b)%nat then t else vlookup r a
  end.
Definition rows_where (rows : list (Z * valuation)) (f : (nat -> tv) -> tv) : list Z :=
  map fst (filter (fun r => tv_is_true (f (vlookup (snd r)))) rows).
