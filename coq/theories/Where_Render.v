(* Where_Render.v — the tokens gorm renders for a WHERE clause are the minimal-parenthesis
   printing of an explicit condition tree [toE_where], which the SQL-precedence parser therefore
   returns.  Definitions first (executable: the checkers evaluate them), proofs below. *)
From Verif Require Import Base Sem Where_Model Where_Proofs.

Local Arguments wrap_of : simpl never.

(* ------------------------------------------------------------------ *)
(* top-level versions of render's local fixpoints                       *)

Fixpoint nota_items (first : bool) (l : list expr) : list tok :=
  match l with
  | [] => []
  | e :: r =>
    (if first then [] else [TAnd])
    ++ (match e with
        | XAtom _ na => [TAtom na]
        | _ => TNot :: (if wrap_of e then paren (render e) else render e)
        end)
    ++ nota_items false r
  end.

Lemma render_and l :
  render (XAnd l) = if gt1 l then paren (build_exprs true true TAnd l) else build_exprs false true TAnd l.
Proof. reflexivity. Qed.
Lemma render_or l :
  render (XOr l) = if gt1 l then paren (build_exprs true true TOr l) else build_exprs false true TOr l.
Proof. reflexivity. Qed.
Lemma render_not l :
  render (XNot l) =
  if existsb is_atom l && negb (existsb is_single_or (tl l))
  then (if gt1 l then paren (nota_items true l) else nota_items true l)
  else TNot :: (match l with
                | [e] => if wrap_of e then paren (render e) else render e
                | _ => paren (build_exprs true true TAnd l)
                end).
Proof. reflexivity. Qed.

(* ------------------------------------------------------------------ *)
(* the condition tree of an expression                                   *)

Definition theF (e : eexp) : fexp := match e with [[f]] => f | _ => FPar e end.
Definition is_singleF (e : eexp) : bool := match e with [[_]] => true | _ => false end.
Definition raw_tree (ts : list tok) : eexp := match parse ts with Some e => e | None => [] end.

Fixpoint toE (x : expr) : eexp :=
  let grp := fix grp (l : list expr) (cur : texp) : eexp :=
    match l with
    | [] => [cur]
    | e :: r =>
      if is_single_or e
      then cur :: grp r [if wrap_of e then FPar (toE e) else theF (toE e)]
      else grp r (cur ++ [if wrap_of e then FPar (toE e) else theF (toE e)])
    end in
  let ors := fix ors (l : list expr) : eexp :=
    match l with
    | [] => []
    | e :: r => [if wrap_of e then FPar (toE e) else theF (toE e)] :: ors r
    end in
  let negs := fix negs (l : list expr) : texp :=
    match l with
    | [] => []
    | e :: r =>
      (match e with
       | XAtom _ na => FAtom na
       | _ => FNot (if wrap_of e then FPar (toE e) else theF (toE e))
       end) :: negs r
    end in
  match x with
  | XAtom a _ => [[FAtom a]]
  | XRaw _ ts => raw_tree ts
  | XNamed _ ts => raw_tree ts
  | XAnd l => match l with
              | [] => []
              | [e] => toE e
              | e :: r => [[FPar (grp r [if wrap_of e then FPar (toE e) else theF (toE e)])]]
              end
  | XOr l => match l with
             | [] => []
             | [e] => toE e
             | _ => [[FPar (ors l)]]
             end
  | XNot l =>
    if existsb is_atom l && negb (existsb is_single_or (tl l))
    then (if gt1 l then [[FPar [negs l]]] else [negs l])
    else [[FNot (match l with
                 | [] => FPar []
                 | [e] => if wrap_of e then FPar (toE e) else theF (toE e)
                 | e :: r => FPar (grp r [if wrap_of e then FPar (toE e) else theF (toE e)])
                 end)]]
  end.

(* top-level versions *)
Definition itemF (e : expr) : fexp := if wrap_of e then FPar (toE e) else theF (toE e).
Fixpoint grpE (l : list expr) (cur : texp) : eexp :=
  match l with
  | [] => [cur]
  | e :: r => if is_single_or e then cur :: grpE r [itemF e] else grpE r (cur ++ [itemF e])
  end.
Fixpoint orsE (l : list expr) : eexp :=
  match l with [] => [] | e :: r => [itemF e] :: orsE r end.
Fixpoint negsT (l : list expr) : texp :=
  match l with
  | [] => []
  | e :: r => (match e with XAtom _ na => FAtom na | _ => FNot (itemF e) end) :: negsT r
  end.

Lemma toE_and l : toE (XAnd l) = match l with [] => [] | [e] => toE e | e :: r => [[FPar (grpE r [itemF e])]] end.
Proof. destruct l as [|e [|e2 r]]; reflexivity. Qed.
Lemma toE_or l : toE (XOr l) = match l with [] => [] | [e] => toE e | _ => [[FPar (orsE l)]] end.
Proof. destruct l as [|e [|e2 r]]; reflexivity. Qed.
Lemma toE_not l :
  toE (XNot l) =
  if existsb is_atom l && negb (existsb is_single_or (tl l))
  then (if gt1 l then [[FPar [negsT l]]] else [negsT l])
  else [[FNot (match l with [] => FPar [] | [e] => itemF e | e :: r => FPar (grpE r [itemF e]) end)]].
Proof. destruct l as [|e [|e2 r]]; reflexivity. Qed.

(* the tree of the whole WHERE clause (Where.Build) *)
Definition toE_list (l : list expr) : eexp :=
  match l with [] => [] | [e] => toE e | e :: r => grpE r [itemF e] end.
Definition toE_where (exprs : list expr) : eexp := toE_list (where_exprs_built exprs).

(* well-formedness: raw SQL parses, and every expression combined with others is either
   parenthesised by gorm or renders as a single factor *)
Definition closedx (e : expr) : bool := wrap_of e || is_singleF (toE e).
Fixpoint okx (x : expr) : bool :=
  let oks := fix oks (l : list expr) : bool :=
    match l with [] => true | e :: r => okx e && closedx e && oks r end in
  match x with
  | XAtom _ _ => true
  | XRaw _ ts => match parse ts with Some _ => true | None => false end
  | XNamed _ ts => match parse ts with Some _ => true | None => false end
  | XAnd l => match l with [] => false | [e] => okx e | _ => oks l end
  | XOr l => match l with [] => false | [e] => okx e | _ => oks l end
  | XNot l => match l with [] => false | _ => oks l end
  end.
Fixpoint oksL (l : list expr) : bool :=
  match l with [] => true | e :: r => okx e && closedx e && oksL r end.
Definition ok_list (l : list expr) : bool :=
  match l with [] => false | [e] => okx e | _ => oksL l end.
Definition ok_where (exprs : list expr) : bool := ok_list (where_exprs_built exprs).

Lemma okx_and l : okx (XAnd l) = ok_list l.
Proof. destruct l as [|e [|e2 r]]; reflexivity. Qed.
Lemma okx_or l : okx (XOr l) = ok_list l.
Proof. destruct l as [|e [|e2 r]]; reflexivity. Qed.
Lemma okx_not l : okx (XNot l) = match l with [] => false | _ => oksL l end.
Proof. destruct l as [|e [|e2 r]]; reflexivity. Qed.

(* ------------------------------------------------------------------ *)
(* proofs                                                                *)

Section ExprInd.
  Variable P : expr -> Prop.
  Hypothesis Hatom : forall a na, P (XAtom a na).
  Hypothesis Hraw : forall w ts, P (XRaw w ts).
  Hypothesis Hnamed : forall w ts, P (XNamed w ts).
  Hypothesis Hand : forall l, Forall P l -> P (XAnd l).
  Hypothesis Hor : forall l, Forall P l -> P (XOr l).
  Hypothesis Hnot : forall l, Forall P l -> P (XNot l).
  Fixpoint expr_ind' (x : expr) : P x :=
    let go := fix go (l : list expr) : Forall P l :=
      match l with [] => Forall_nil _ | e :: r => Forall_cons e (expr_ind' e) (go r) end in
    match x with
    | XAtom a na => Hatom a na
    | XRaw w ts => Hraw w ts
    | XNamed w ts => Hnamed w ts
    | XAnd l => Hand l (go l)
    | XOr l => Hor l (go l)
    | XNot l => Hnot l (go l)
    end.
End ExprInd.

Definition good (x : expr) : Prop := okx x = true -> render x = prE (toE x) /\ wfE (toE x) = true.

Lemma prT_single f : prT [f] = prF f.
Proof. reflexivity. Qed.
Lemma prE_single t : prE [t] = prT t.
Proof. reflexivity. Qed.
Lemma prT_snoc t f : t <> [] -> prT (t ++ [f]) = prT t ++ TAnd :: prF f.
Proof.
  induction t as [|g t IH]; [intros H; congruence|]. intros _. destruct t as [|g2 t'].
  - reflexivity.
  - change ((g :: g2 :: t') ++ [f]) with (g :: ((g2 :: t') ++ [f])).
    rewrite prT_cons by (destruct t'; discriminate). rewrite IH by discriminate.
    rewrite (prT_cons g (g2 :: t')) by discriminate. rewrite <- app_assoc. reflexivity.
Qed.
Lemma wfT_snoc t f : wfT t = true -> wfF f = true -> wfT (t ++ [f]) = true.
Proof.
  unfold wfT. intros H Hf. apply andb_prop in H. destruct H as [_ H].
  rewrite forallb_app, H. cbn. rewrite Hf. destruct t; reflexivity.
Qed.
Lemma wfE_cons_intro t e : wfT t = true -> wfE e = true -> wfE (t :: e) = true.
Proof.
  unfold wfE. intros Ht He. apply andb_prop in He. destruct He as [_ He].
  cbn [negb forallb andb]. rewrite Ht, He. reflexivity.
Qed.
Lemma wfE_1 t : wfT t = true -> wfE [t] = true.
Proof. unfold wfE. cbn. intros ->. reflexivity. Qed.
Lemma wfT_1 f : wfF f = true -> wfT [f] = true.
Proof. unfold wfT. cbn. intros ->. reflexivity. Qed.

(* one expression in a list: rendered parenthesised or as a single factor *)
Lemma item_good e : good e -> okx e = true -> closedx e = true ->
  (if wrap_of e then paren (render e) else render e) = prF (itemF e) /\ wfF (itemF e) = true.
Proof.
  intros Hg Hok Hc. destruct (Hg Hok) as [Hr Hw]. unfold itemF, closedx in *.
  destruct (wrap_of e).
  - split; [|exact Hw]. unfold paren. rewrite Hr. reflexivity.
  - cbn in Hc. destruct (toE e) as [|[|f [|? ?]] [|? ?]]; try discriminate.
    split; [rewrite Hr; reflexivity|]. cbn [theF]. apply wfT_single, wfE_single, Hw.
Qed.

Lemma grpE_nonempty : forall r cur, grpE r cur <> [].
Proof.
  induction r as [|e r IH]; intros cur; cbn; [discriminate|].
  destruct (is_single_or e); [discriminate|apply IH].
Qed.

Lemma grp_good : forall r cur,
  Forall good r -> oksL r = true -> wfT cur = true ->
  prT cur ++ build_exprs true false TAnd r = prE (grpE r cur) /\ wfE (grpE r cur) = true.
Proof.
  induction r as [|e r IH]; intros cur Hg Hok Hcur.
  - cbn. rewrite app_nil_r. split; [reflexivity|apply wfE_1, Hcur].
  - inversion Hg as [|? ? Hge Hgr]; subst. cbn [oksL] in Hok.
    apply andb_prop in Hok. destruct Hok as [Hok Hokr]. apply andb_prop in Hok. destruct Hok as [Hoke Hce].
    destruct (item_good e Hge Hoke Hce) as [Hi Hwi].
    cbn [build_exprs grpE andb]. rewrite Hi. destruct (is_single_or e).
    + destruct (IH [itemF e] Hgr Hokr (wfT_1 _ Hwi)) as [H1 H2]. rewrite prT_single in H1.
      pose proof (grpE_nonempty r [itemF e]) as Hne.
      split.
      * rewrite prE_cons by exact Hne. rewrite <- H1. reflexivity.
      * apply wfE_cons_intro; assumption.
    + assert (Hc' : cur <> []) by (destruct cur; [discriminate Hcur|discriminate]).
      destruct (IH (cur ++ [itemF e]) Hgr Hokr (wfT_snoc _ _ Hcur Hwi)) as [H1 H2].
      split; [|exact H2]. rewrite <- H1. rewrite prT_snoc by exact Hc'.
      rewrite <- !app_assoc. reflexivity.
Qed.

Lemma build_exprs_or_join : forall r, build_exprs true false TOr r =
  concat (map (fun e => TOr :: (if wrap_of e then paren (render e) else render e)) r).
Proof.
  induction r as [|e r IH]; [reflexivity|]. cbn [build_exprs map concat andb].
  rewrite IH. destruct (is_single_or e); reflexivity.
Qed.

Lemma ors_good : forall r,
  Forall good r -> oksL r = true -> r <> [] ->
  build_exprs true true TOr r = prE (orsE r) /\ wfE (orsE r) = true.
Proof.
  induction r as [|e r IH]; intros Hg Hok Hne; [congruence|].
  inversion Hg as [|? ? Hge Hgr]; subst. cbn [oksL] in Hok.
  apply andb_prop in Hok. destruct Hok as [Hok Hokr]. apply andb_prop in Hok. destruct Hok as [Hoke Hce].
  destruct (item_good e Hge Hoke Hce) as [Hi Hwi].
  cbn [build_exprs orsE andb app]. rewrite Hi. destruct r as [|e2 r'].
  - cbn [build_exprs orsE]. rewrite app_nil_r. split; [reflexivity|apply wfE_1, wfT_1, Hwi].
  - destruct (IH Hgr Hokr ltac:(discriminate)) as [H1 H2]. split.
    + rewrite prE_cons by discriminate. rewrite prT_single. rewrite <- H1.
      cbn [build_exprs andb app]. destruct (is_single_or e2); reflexivity.
    + apply wfE_cons_intro; [apply wfT_1, Hwi|exact H2].
Qed.

Lemma negs_good : forall r,
  Forall good r -> oksL r = true -> r <> [] ->
  nota_items true r = prT (negsT r) /\ wfT (negsT r) = true.
Proof.
  assert (Hitem : forall e, good e -> okx e = true -> closedx e = true ->
     (match e with XAtom _ na => [TAtom na] | _ => TNot :: (if wrap_of e then paren (render e) else render e) end)
     = prF (match e with XAtom _ na => FAtom na | _ => FNot (itemF e) end)
     /\ wfF (match e with XAtom _ na => FAtom na | _ => FNot (itemF e) end) = true).
  { intros e Hg Hok Hc. destruct (item_good e Hg Hok Hc) as [Hi Hwi].
    destruct e; try (split; [reflexivity|reflexivity]); (split; [cbn [prF]; rewrite <- Hi; reflexivity|exact Hwi]). }
  induction r as [|e r IH]; intros Hg Hok Hne; [congruence|].
  inversion Hg as [|? ? Hge Hgr]; subst. cbn [oksL] in Hok.
  apply andb_prop in Hok. destruct Hok as [Hok Hokr]. apply andb_prop in Hok. destruct Hok as [Hoke Hce].
  destruct (Hitem e Hge Hoke Hce) as [Hi Hwi].
  cbn [nota_items negsT app]. rewrite Hi. destruct r as [|e2 r'].
  - cbn [nota_items negsT]. rewrite app_nil_r. split; [reflexivity|apply wfT_1, Hwi].
  - destruct (IH Hgr Hokr ltac:(discriminate)) as [H1 H2].
    assert (Hn2 : negsT (e2 :: r') <> []) by discriminate. split.
    + rewrite prT_cons by exact Hn2. f_equal.
      (* nota_items false = TAnd :: nota_items true *)
      cbn [nota_items app] in *. rewrite <- H1. reflexivity.
    + unfold wfT in *. cbn [forallb negb andb] in *. apply andb_prop in H2. destruct H2 as [_ H2].
      cbn [negsT forallb] in H2. rewrite Hwi. exact H2.
Qed.

Lemma list_good l :
  Forall good l -> ok_list l = true ->
  build_exprs (gt1 l) true TAnd l = prE (toE_list l) /\ wfE (toE_list l) = true.
Proof.
  intros Hg Hok. destruct l as [|e [|e2 r]]; [discriminate| |].
  - inversion Hg as [|? ? Hge _]; subst. cbn [build_exprs gt1 andb app toE_list]. rewrite app_nil_r.
    exact (Hge Hok).
  - inversion Hg as [|? ? Hge Hgr]; subst. cbn [ok_list oksL] in Hok.
    apply andb_prop in Hok. destruct Hok as [Hok Hokr]. apply andb_prop in Hok. destruct Hok as [Hoke Hce].
    destruct (item_good e Hge Hoke Hce) as [Hi Hwi].
    destruct (grp_good (e2 :: r) [itemF e] Hgr Hokr (wfT_1 _ Hwi)) as [H1 H2].
    cbn [gt1 toE_list]. rewrite <- H1. rewrite prT_single.
    cbn [build_exprs andb app]. rewrite Hi. split; [reflexivity|exact H2].
Qed.

Lemma wfE_par e : wfE e = true -> wfE [[FPar e]] = true.
Proof. intros H. apply wfE_1, wfT_1. exact H. Qed.

(* every well-formed expression renders as the printing of its tree *)
Theorem render_is_print : forall x, good x.
Proof.
  induction x as [a na|w ts|w ts|l IH|l IH|l IH] using expr_ind'; intros Hok.
  - split; reflexivity.
  - cbn in Hok |- *. unfold raw_tree. destruct (parse ts) as [e|] eqn:E; [|discriminate].
    destruct (parse_sound _ _ E) as [-> Hw]. tauto.
  - cbn in Hok |- *. unfold raw_tree. destruct (parse ts) as [e|] eqn:E; [|discriminate].
    destruct (parse_sound _ _ E) as [-> Hw]. tauto.
  - (* And *)
    rewrite okx_and in Hok. rewrite render_and, toE_and.
    destruct (list_good l IH Hok) as [H1 H2]. destruct l as [|e [|e2 r]]; [discriminate| |].
    + cbn [gt1] in *. cbn [toE_list] in *. tauto.
    + cbn [gt1 toE_list] in *. rewrite H1. split; [reflexivity|apply wfE_par, H2].
  - (* Or *)
    rewrite okx_or in Hok. rewrite render_or, toE_or. destruct l as [|e [|e2 r]]; [discriminate| |].
    + inversion IH as [|? ? Hge _]; subst. cbn [gt1 build_exprs andb app]. rewrite app_nil_r. exact (Hge Hok).
    + cbn [ok_list] in Hok. destruct (ors_good (e :: e2 :: r) IH Hok ltac:(discriminate)) as [H1 H2].
      cbn [gt1]. rewrite H1. split; [reflexivity|apply wfE_par, H2].
  - (* Not *)
    rewrite okx_not in Hok. rewrite render_not, toE_not.
    destruct l as [|e r]; [discriminate|].
    destruct (existsb is_atom (e :: r) && negb (existsb is_single_or (tl (e :: r)))).
    + destruct (negs_good (e :: r) IH Hok ltac:(discriminate)) as [H1 H2]. rewrite H1.
      destruct r as [|e2 r']; cbn [gt1].
      * split; [reflexivity|apply wfE_1, H2].
      * split; [reflexivity|apply wfE_par, wfE_1, H2].
    + destruct r as [|e2 r'].
      * inversion IH as [|? ? Hge _]; subst. cbn [oksL] in Hok. rewrite andb_true_r in Hok.
        apply andb_prop in Hok. destruct Hok as [Hoke Hce].
        destruct (item_good e Hge Hoke Hce) as [Hi Hwi]. rewrite Hi.
        split; [reflexivity|apply wfE_1, wfT_1; exact Hwi].
      * destruct (list_good (e :: e2 :: r') IH Hok) as [H1 H2]. cbn [gt1 toE_list] in H1, H2.
        rewrite H1. split; [reflexivity|apply wfE_1, wfT_1; exact H2].
Qed.

(* the WHERE clause as a whole: its tokens parse, under SQL precedence, to [toE_where] *)
Theorem where_parses : forall exprs, ok_where exprs = true ->
  parse (where_tokens exprs) = Some (toE_where exprs).
Proof.
  intros exprs Hok. unfold where_tokens, toE_where, ok_where in *.
  set (l := where_exprs_built exprs) in *.
  assert (Hg : Forall good l) by (apply Forall_forall; intros x _; apply render_is_print).
  destruct (list_good l Hg Hok) as [H1 H2]. rewrite H1. apply parse_complete, H2.
Qed.
