(* C17_Proofs4.v — further witnesses (after the depth guard of /repo 591f9f1). *)
From Verif Require Import Base C17_Model C17_Check C17_Known C17_Proofs3.
Open Scope string_scope.
Open Scope list_scope.

(* Before(u3).After(u2).Register(u1); Before(u3).Register(u2); Before(u1).Register(u3):
   u1 < u3 and u3 < u1 - a cycle among named requests, answered nil (u3 fires before u1) *)
Definition w_cycle_silent := row ++ [reg "u1" "u3" "u2"; reg "u2" "u3" ""; reg "u3" "u1" ""].
Lemma cycle_silent :
  in_domain w_cycle_silent = true
  /\ last (run w_cycle_silent) OCrash = OOk [("gorm:row", 0%N); ("u2", 2%N); ("u3", 3%N); ("u1", 1%N)]
  /\ runs cl_sides true w_cycle_silent = false
  /\ (let live := r_live (book r0 0%N w_cycle_silent) in
      cyclic (map e_name live) (builtin_chain None live ++ named_edges live) = true).
Proof. vm_compute. auto 6. Qed.
