(* C08_WriteProofs.v — the key conditions of a write never take the soft-delete filter out of the
   top-level conjunction. *)
From Verif Require Import Base Sem Where_Model Where_Proofs Where_Render Where_Sem C08_Write.

Local Arguments wrap_of : simpl never.

(* the conjunction of the key conditions *)
Definition keys_val (v : nat -> tv) (keys : list expr) : tv :=
  fold_left (fun a k => tv_and a (dx v k)) keys TT.

Lemma atoms_no_single_or keys : forallb is_atom keys = true -> existsb is_single_or keys = false.
Proof.
  induction keys as [|k r IH]; [reflexivity|]. cbn. intros H. apply andb_prop in H. destruct H as [Hk Hr].
  rewrite (IH Hr). destruct k; try discriminate. reflexivity.
Qed.

Lemma no_single_or_no_swap l : existsb is_single_or l = false -> swap_first l = l.
Proof.
  intros H. unfold swap_first. destruct l as [|x r]; [reflexivity|].
  rewrite (find_non_single_or_none _ 0 H). reflexivity.
Qed.

Lemma fold_and_init (f : expr -> tv) keys a :
  fold_left (fun x k => tv_and x (f k)) keys a = tv_and a (fold_left (fun x k => tv_and x (f k)) keys TT).
Proof.
  revert a. induction keys as [|k r IH]; intros a; cbn [fold_left].
  - rewrite tv_and_TT_r. reflexivity.
  - rewrite (IH (tv_and a (f k))), (IH (tv_and TT (f k))), tv_and_TT_l, tv_and_assoc. reflexivity.
Qed.

(* appending atoms to a list without OR alternatives: each is one more conjunct *)
Lemma val_list_app_atoms v l keys :
  existsb is_single_or l = false -> forallb is_atom keys = true ->
  val_list v (l ++ keys) = tv_and (val_list v l) (keys_val v keys).
Proof.
  intros Hl Hk. revert l Hl. induction keys as [|k r IH]; intros l Hl.
  - rewrite app_nil_r. unfold keys_val. cbn. rewrite tv_and_TT_r. reflexivity.
  - cbn in Hk. apply andb_prop in Hk. destruct Hk as [Hka Hr].
    assert (Hks : is_single_or k = false) by (destruct k; try discriminate; reflexivity).
    replace (l ++ k :: r) with ((l ++ [k]) ++ r) by (rewrite <- app_assoc; reflexivity).
    rewrite IH; [|exact Hr|rewrite existsb_app, Hl; cbn; rewrite Hks; reflexivity].
    rewrite val_list_snoc_no_or by assumption.
    unfold keys_val. cbn [fold_left]. rewrite (fold_and_init (dx v) r (tv_and TT (dx v k))).
    rewrite tv_and_TT_l, tv_and_assoc. reflexivity.
Qed.

(* the user's part of a soft-delete statement, grouped, means what the user's list means *)
Lemma grouped_val v exprs :
  (forall x, In x (if existsb is_single_or exprs then olist (mk_and exprs) else exprs) -> okx x = true) ->
  val_list v (if existsb is_single_or exprs then olist (mk_and exprs) else exprs) = val_list v exprs.
Proof.
  intros Hokg. destruct (existsb is_single_or exprs) eqn:Eor; [|reflexivity].
  destruct exprs as [|e [|e2 r]]; [discriminate| |].
  - cbn [mk_and olist]. destruct (is_or e) eqn:Eo; [reflexivity|]. destruct e; discriminate.
  - cbn [mk_and olist] in *. change (val_list v [XAnd (e :: e2 :: r)]) with (dx v (XAnd (e :: e2 :: r))).
    assert (Hx : okx (XAnd (e :: e2 :: r)) = true) by (apply Hokg; left; reflexivity).
    rewrite okx_and in Hx. apply dx_and; [exact Hx|reflexivity].
Qed.

(* UPDATE: user conditions AND filter AND every key condition *)
Theorem update_filter_conjunct v live nlive user keys E :
  forallb is_atom keys = true ->
  ok_where (update_exprs live nlive user keys) = true ->
  parse (where_tokens (update_exprs live nlive user keys)) = Some E ->
  evE v E = tv_and (tv_and (val_list v user) (v live)) (keys_val v keys).
Proof.
  intros Hk Hok Hp. destruct keys as [|k0 kr].
  { unfold update_exprs in *. rewrite app_nil_r in *.
    rewrite (soft_delete_filter_conjunct v live nlive user E Hok Hp).
    unfold keys_val. cbn. rewrite tv_and_TT_r. reflexivity. }
  rewrite (where_parses _ Hok) in Hp. inversion Hp; subst; clear Hp.
  unfold toE_where, ok_where, where_exprs_built, update_exprs in *.
  set (sd := soft_delete_exprs live nlive user) in *.
  pose proof (soft_delete_no_toplevel_or live nlive user) as Hno. fold sd in Hno.
  assert (HnoW : existsb is_single_or (sd ++ k0 :: kr) = false).
  { rewrite existsb_app, Hno, (atoms_no_single_or _ Hk). reflexivity. }
  assert (Hlone : match sd ++ k0 :: kr with [XAnd l] => l | _ => sd ++ k0 :: kr end = sd ++ k0 :: kr).
  { unfold sd, soft_delete_exprs.
    destruct (if existsb is_single_or user then _ else _) as [|g [|g2 r]]; cbn [app]; try reflexivity;
      destruct g; reflexivity. }
  rewrite Hlone, (no_single_or_no_swap _ HnoW) in *.
  assert (Hne : exists a b r, sd ++ k0 :: kr = a :: b :: r).
  { unfold sd, soft_delete_exprs.
    destruct (if existsb is_single_or user then _ else _) as [|g [|g2 r]]; cbn [app]; eauto. }
  destruct Hne as [a [b [r Hne]]].
  assert (Hoks : oksL (sd ++ k0 :: kr) = true) by (rewrite Hne in *; exact Hok).
  rewrite evE_toE_list; [|apply oksL_allclosed, Hoks|rewrite Hne; discriminate].
  rewrite val_list_app_atoms by assumption. f_equal.
  (* the soft-delete part *)
  unfold sd, soft_delete_exprs in *.
  set (grouped := if existsb is_single_or user then olist (mk_and user) else user) in *.
  assert (Hg_no : existsb is_single_or grouped = false).
  { rewrite existsb_app in Hno. apply orb_false_elim in Hno. tauto. }
  rewrite val_list_snoc_no_or by (exact Hg_no || reflexivity). rewrite dx_atom. f_equal.
  apply grouped_val. intros x Hx. apply (oksL_in _ Hoks). apply in_or_app. left. apply in_or_app. left. exact Hx.
Qed.

(* a marked row is never matched by an update, whatever records the Model value names *)
Corollary update_never_matches_marked v live nlive user keys E :
  forallb is_atom keys = true ->
  ok_where (update_exprs live nlive user keys) = true ->
  parse (where_tokens (update_exprs live nlive user keys)) = Some E ->
  v live <> TT -> evE v E <> TT.
Proof.
  intros Hk Hok Hp Hl. rewrite (update_filter_conjunct v live nlive user keys E Hk Hok Hp).
  destruct (val_list v user), (v live), (keys_val v keys); cbn; congruence.
Qed.

(* DELETE: the filter is a conjunct of (user conditions followed by the key conditions) *)
Theorem delete_filter_conjunct v live nlive user keys E :
  ok_where (delete_exprs live nlive user keys) = true ->
  parse (where_tokens (delete_exprs live nlive user keys)) = Some E ->
  evE v E = tv_and (val_list v (user ++ keys)) (v live).
Proof. apply soft_delete_filter_conjunct. Qed.

(* REFUTATION of the variant that adds the key condition of a one-record slice as a single-member
   Or (clause.Or(group) without the clause.And wrapper): the filter is OR-ed away *)
Lemma single_or_key_refuted :
  exists v live nlive user key E,
    parse (where_tokens (update_exprs live nlive user [XOr [key]])) = Some E /\
    v live = TF /\ evE v E = TT.
Proof.
  exists (fun a => if Nat.eqb a 2 then TT else TF), 0%nat, 50%nat, [XAtom 1 51], (XAtom 2 52).
  eexists. split; [vm_compute; reflexivity|]. split; reflexivity.
Qed.
