(* C17_Proofs3.v — (1) the checker's specification is the conjunction of six independent judgements;
   (2) witnesses: histories of the property's domain on which the model of callbacks.go breaks a clause
   (each was replayed on the real code: corpus/C17); (3) the bounded-exhaustive check. *)
From Verif Require Import Base C17_Model C17_Check C17_Known.
Open Scope string_scope.
Open Scope list_scope.

Definition cl_true : clause := fun _ _ _ _ => true.

Lemma judge_step_and : forall p q c r prev s o,
  judge_step (cl_and p q) c r prev s o = judge_step p c r prev s o && judge_step q c r prev s o.
Proof.
  intros p q c r prev s o. unfold judge_step, cl_and.
  destruct (negb (r_dom r)); cbn; [reflexivity|].
  destruct o; cbn; try reflexivity; destruct c; reflexivity.
Qed.

Lemma judge_and : forall p q c h r i prev k os,
  judge (cl_and p q) c r i prev k h os = judge p c r i prev k h os && judge q c r i prev k h os.
Proof.
  intros p q c. induction h as [|s h IH]; intros r i prev k os; cbn [judge]; [reflexivity|].
  destruct k as [|k]; [|apply IH].
  destruct os as [|o os]; [reflexivity|].
  rewrite judge_step_and, IH.
  destruct (judge_step p c (ref_apply r i s) prev s o), (judge_step q c (ref_apply r i s) prev s o),
    (judge p c (ref_apply r i s) (N.succ i) (Some o) 0 h os); reflexivity.
Qed.

Lemma judge_step_crash : forall q r prev s o,
  judge_step q false r prev s o = judge_step cl_true false r prev s o && judge_step q true r prev s o.
Proof.
  intros q r prev s o. unfold judge_step, cl_true.
  destruct (negb (r_dom r)); cbn; [reflexivity|]. destruct o; cbn; reflexivity.
Qed.

Lemma judge_crash : forall q h r i prev k os,
  judge q false r i prev k h os = judge cl_true false r i prev k h os && judge q true r i prev k h os.
Proof.
  intros q. induction h as [|s h IH]; intros r i prev k os; cbn [judge]; [reflexivity|].
  destruct k as [|k]; [|apply IH].
  destruct os as [|o os]; [reflexivity|].
  rewrite judge_step_crash, IH.
  destruct (judge_step cl_true false (ref_apply r i s) prev s o), (judge_step q true (ref_apply r i s) prev s o),
    (judge cl_true false (ref_apply r i s) (N.succ i) (Some o) 0 h os); reflexivity.
Qed.

(* "either an error is returned [never a dead process], or once, handler, sides, built-in order, Replace position" *)
Theorem spec_decomposes : forall h r i prev k os,
  spec_from r i prev k h os =
  judge cl_true false r i prev k h os
  && (judge cl_once true r i prev k h os
  && (judge cl_handler true r i prev k h os
  && (judge cl_sides true r i prev k h os
  && (judge cl_builtin true r i prev k h os
  && judge cl_replace true r i prev k h os)))).
Proof.
  intros. unfold spec_from, spec_ok. rewrite judge_crash. f_equal. now rewrite !judge_and.
Qed.

(* ------------------------------------------------------------------ witnesses *)
Definition row := builtin_steps ["gorm:row"].
Definition runs (q : clause) (c : bool) (h : list step) : bool := judge q c r0 0%N None O h (run h).
Definition in_domain (h : list step) : bool := r_dom (book r0 0%N h).

(* After(u2).Register(u1); After(u1).Register(u2): the recursion of sortCallback is cut by the depth
   guard (before /repo 591f9f1 the process died of a stack overflow): an error is returned *)
Definition w_cycle := row ++ [reg "u1" "" "u2"; reg "u2" "" "u1"].
Lemma cycle_detected : in_domain w_cycle = true
  /\ last (run w_cycle) OCrash = OErr "conflicting callback u1 with cyclic before/after" []
  /\ runs spec_ok false w_cycle = true.
Proof. vm_compute. auto. Qed.

(* After(x).Register(x) *)
Definition w_self := row ++ [reg "u1" "" "u1"].
Lemma self_detected : in_domain w_self = true
  /\ last (run w_self) OCrash = OErr "conflicting callback u1 with cyclic before/after" []
  /\ runs spec_ok false w_self = true.
Proof. vm_compute. auto. Qed.

(* ... but Before(gorm:row).After(u1).Register(u1) is accepted: the Before half places u1 first, the After
   half then finds u1 "already sorted" *)
Definition w_self_silent := row ++ [reg "u1" "gorm:row" "u1"].
Lemma self_silent : in_domain w_self_silent = true
  /\ last (run w_self_silent) OCrash = OOk [("u1", 1%N); ("gorm:row", 0%N)]
  /\ runs cl_sides true w_self_silent = false.
Proof. vm_compute. auto. Qed.

(* Before("*").Register(u1); Replace(u1): since /repo e28c215 the replacement inherits the "*" request:
   the NEW handler (step 2) runs, still first.  (Before: the old handler ran, behind gorm:row.) *)
Definition w_star_replace := row ++ [reg "u1" "*" ""; mk_step KReplace "u1" "" "" false true].
Lemma star_replace_fixed :
  in_domain w_star_replace = true
  /\ last (run w_star_replace) OCrash = OOk [("u1", 2%N); ("gorm:row", 0%N)]
  /\ runs spec_ok false w_star_replace = true.
Proof. vm_compute. auto. Qed.

(* After("*").Register(u1); Before(u1).Register(u2); Register(u3): satisfiable, yet u3 fires after u1 *)
Definition w_overwrite := row ++ [reg "u1" "" "*"; reg "u2" "u1" ""; reg "u3" "" ""].
Lemma after_overwritten_side :
  in_domain w_overwrite = true
  /\ last (run w_overwrite) OCrash = OOk [("gorm:row", 0%N); ("u2", 2%N); ("u1", 1%N); ("u3", 3%N)]
  /\ runs cl_sides true w_overwrite = false
  /\ (let live := r_live (book r0 0%N w_overwrite) in
      cyclic (map e_name live) (builtin_chain None live ++ named_edges live ++ star_edges live) = false).
Proof. vm_compute. auto 6. Qed.

(* Before(gorm:row).After("*").Register(u1): cannot be met, no error *)
Definition w_star_unsat := row ++ [reg "u1" "gorm:row" "*"].
Lemma star_unsat_silent :
  in_domain w_star_unsat = true
  /\ last (run w_star_unsat) OCrash = OOk [("u1", 1%N); ("gorm:row", 0%N)]
  /\ runs cl_sides true w_star_unsat = false.
Proof. vm_compute. auto. Qed.

(* ------------------------------------------------------------------ bounded-exhaustive check *)
Lemma all_ok_extensions : forall n bs h,
  all_ok n bs h = true -> forall h', In h' (extensions n bs h) -> ok_or_known h' = true.
Proof.
  induction n as [|m IH]; intros bs h H h' Hin; cbn in H, Hin; apply andb_true_iff in H; destruct H as [H1 H2].
  - destruct Hin as [<-|[]]. exact H1.
  - destruct Hin as [<-|Hin]; [exact H1|].
    apply in_flat_map in Hin. destruct Hin as (s & Hs & Hin).
    rewrite forallb_forall in H2. exact (IH bs _ (H2 s Hs) h' Hin).
Qed.

(* ---- the incremental evaluation computes the same thing *)
Lemma judge_nil : forall q c h r i prev, judge q c r i prev O h [] = true.
Proof. intros q c [|s h] r i prev; reflexivity. Qed.

Definition goodness (e : est) (h : list step) : bool :=
  x_good e && match x_proc e with
              | Some p => spec_from (x_r e) (x_i e) (x_prev e) O h (run_from p (x_i e) h)
              | None => true
              end.

Lemma goodness_step : forall e s h, goodness (est_step e s) h = goodness e (s :: h).
Proof.
  intros e s h. unfold goodness, est_step. destruct (x_proc e) as [p|]; cbn [x_proc x_good]; [|reflexivity].
  cbn [run_from]. destruct (run_step p s (x_i e)) as [[p'|] o]; cbn [x_proc x_good x_r x_i x_prev].
  - unfold spec_from. cbn [judge]. now rewrite andb_assoc.
  - unfold spec_from. cbn [judge]. now rewrite judge_nil, !andb_true_r.
Qed.

Lemma goodness_fold : forall h e, x_good (fold_left est_step h e) = goodness e h.
Proof.
  induction h as [|s h IH]; intro e; cbn [fold_left].
  - unfold goodness. destruct (x_proc e); cbn; now rewrite ?andb_true_r.
  - rewrite IH. apply goodness_step.
Qed.

Lemma est_step_r : forall e s, x_r (est_step e s) = ref_apply (x_r e) (x_i e) s
                            /\ x_i (est_step e s) = N.succ (x_i e).
Proof.
  intros e s. unfold est_step. destruct (x_proc e) as [p|]; [|split; reflexivity].
  destruct (run_step p s (x_i e)); split; reflexivity.
Qed.

Lemma book_fold : forall h e, x_r (fold_left est_step h e) = book (x_r e) (x_i e) h.
Proof.
  induction h as [|s h IH]; intro e; cbn [fold_left book]; [reflexivity|].
  rewrite IH. destruct (est_step_r e s) as [-> ->]. reflexivity.
Qed.

Lemma known_fold : forall h e,
  x_known (fold_left est_step h e) = x_known e || known_from (x_r e) (x_i e) h.
Proof.
  induction h as [|s h IH]; intro e; cbn [fold_left known_from]; [now rewrite orb_false_r|].
  rewrite IH. destruct (est_step_r e s) as [-> ->].
  assert (K : x_known (est_step e s) = x_known e || (r_dom (ref_apply (x_r e) (x_i e) s) && is_known (ref_apply (x_r e) (x_i e) s))).
  { unfold est_step. destruct (x_proc e) as [p|]; [|reflexivity]. destruct (run_step p s (x_i e)); reflexivity. }
  rewrite K. now rewrite orb_assoc.
Qed.

Lemma run_from_length : forall h p i, length (run_from p i h) = length h.
Proof.
  induction h as [|s h IH]; intros p i; cbn [run_from]; [reflexivity|].
  unfold run_step. destruct (sort_callbacks _); cbn; now rewrite IH.
Qed.

Lemma complete_run_from : forall h p i, complete O h (run_from p i h) = true.
Proof.
  intros h p i. unfold complete. cbn [Nat.add]. now rewrite run_from_length, Nat.eqb_refl.
Qed.

(* the model never answers with a dead process (depth guard) *)
Lemma run_from_no_crash : forall h p i, ~ In OCrash (run_from p i h).
Proof.
  induction h as [|s h IH]; intros p i; cbn [run_from]; [intros []|].
  unfold run_step. destruct (sort_callbacks _); cbn; intros [H|H]; try discriminate; eapply IH; eauto.
Qed.

Lemma judge_no_crash : forall h r i prev os,
  ~ In OCrash os -> judge cl_true false r i prev O h os = true.
Proof.
  induction h as [|s h IH]; intros r i prev os H; cbn [judge]; [reflexivity|].
  destruct os as [|o os]; [reflexivity|]. apply andb_true_iff. split.
  - unfold judge_step, cl_true. destruct (negb (r_dom (ref_apply r i s))); cbn; [reflexivity|].
    destruct o; try reflexivity. exfalso. apply H. left. reflexivity.
  - apply IH. intro Hin. apply H. right. exact Hin.
Qed.

Theorem history_never_crashes : forall h, judge cl_true false r0 0%N None O h (run h) = true.
Proof. intro h. apply judge_no_crash, run_from_no_crash. Qed.

Lemma ok_or_known_fold : forall h,
  (let e := fold_left est_step h est0 in x_good e || x_known e) = ok_or_known h.
Proof.
  intro h. cbn zeta. rewrite goodness_fold, known_fold. unfold ok_or_known, spec_run, hist_known, run, goodness.
  cbn [x_good x_proc x_r x_i x_prev x_known est0]. now rewrite complete_run_from.
Qed.

Lemma forallb_ext' : forall A (f g : A -> bool) l, (forall x, f x = g x) -> forallb f l = forallb g l.
Proof. intros A f g l H. induction l as [|x l IH]; cbn; [reflexivity|]. now rewrite H, IH. Qed.

Lemma all_ok_inc_eq : forall n bs h, all_ok_inc n bs (fold_left est_step h est0) = all_ok n bs h.
Proof.
  induction n as [|m IH]; intros bs h; cbn [all_ok_inc all_ok].
  - now rewrite ok_or_known_fold.
  - rewrite ok_or_known_fold. f_equal. rewrite book_fold. cbn [x_r x_i est0].
    apply forallb_ext'. intro s. rewrite <- IH, fold_left_app. reflexivity.
Qed.
