(* C01_Stmt.v — statement builder, construction half: how API calls become the clause tree
   that C01_Model.bval renders.  Modelled code (as it is in /repo now):
     statement.go       BuildCondition (string / named / Eq / expression / grouped *DB / map /
                        struct / primary-key forms), AddClause, Build (clause order)
     chainable_api.go   Where Not Or Having Select Table Joins Group Order Limit Offset Distinct Clauses Raw
     clause/*.go        And/Or/Not constructors, the MergeClause bodies, and the plain Build methods
                        (Select From GroupBy OrderBy Limit Values Set Insert Update Delete OnConflict Returning)
     finisher_api.go    Find First Take Last Count Pluck Update Updates Delete Create Exec, Raw+Scan
     callbacks/query.go BuildQuerySQL; callbacks/create.go ConvertToCreateValues; callbacks/helper.go
                        ConvertMapToValuesForCreate / ConvertSliceOfMapToValuesForCreate;
                        callbacks/update.go ConvertToAssignments; callbacks/delete.go Delete
   [inl] = the dialector installs the SQLite LIMIT clause builder (integers written inline).
   No proofs here. *)
From Verif Require Import Base C01_Model.

Definition olist {A} (o : option A) : list A := match o with Some x => [x] | None => [] end.
Definition nonempty {A} (l : list A) : bool := match l with [] => false | _ => true end.

(* clause.And / clause.Or / clause.Not ([None] = the nil Expression) *)
Definition mk_and (l : list val) : option val :=
  match l with
  | [] => None
  | [x] => if is_or x then Some (VAnd [x]) else Some x
  | _ => Some (VAnd l)
  end.
Definition mk_or (l : list val) : option val := match l with [] => None | _ => Some (VOr l) end.
Definition mk_not (l : list val) : option val :=
  match l with
  | [] => None
  | [VAnd l'] => Some (VNot l')
  | _ => Some (VNot l)
  end.
(* a clause.Where about to be built: Where.Build's prologue is applied here *)
Definition mk_where (l : list val) : val := VWhere (where_exprs l).

(* ------------------------------------------------------------------ *)
(* small string functions used by the chain methods                     *)
Definition is_space (c : ascii) : bool := ceq c " " || ceq c "009" || ceq c "010" || ceq c "013" || ceq c "011" || ceq c "012".
Fixpoint drop_space (s : la) : la := match s with c :: r => if is_space c then drop_space r else s | [] => [] end.
Definition trim_space (s : la) : la := rev (drop_space (rev (drop_space s))).
Fixpoint all_digits (s : la) : bool := match s with [] => true | c :: r => is_digit c && all_digits r end.
(* strconv.Atoi succeeds (numerals of at most 18 digits; longer ones are not generated) *)
Definition is_atoi (s : la) : bool :=
  let d := match s with c :: r => if ceq c "-" || ceq c "+" then r else s | [] => [] end in
  nonempty d && all_digits d && (length d <=? 18)%nat.
(* utils.IsValidDBNameChar is the SEPARATOR test of strings.FieldsFunc: true for bytes that are
   not part of a name *)
Definition is_name_char (c : ascii) : bool :=
  ceq c "." || ceq c "*" || ceq c "_" || ceq c "$" || ceq c "@" || is_digit c || is_upper c || is_lower c.
Fixpoint fields_count (s : la) (inword : bool) : nat :=
  match s with
  | [] => O
  | c :: r => if is_name_char c then (if inword then 0 else 1) + fields_count r true
              else fields_count r false
  end.
Definition single_field (s : string) : bool := (fields_count (s2l s) false =? 1)%nat.
Definition lower_c (c : ascii) : ascii := if is_upper c then ascii_of_N (ccode c + 32) else c.

(* Schema.LookUpField: by Go name or by column name *)
Fixpoint look_up_field (fs : list (string * string)) (n : string) : option string :=
  match fs with
  | [] => None
  | (g, c) :: r => if String.eqb g n || String.eqb c n then Some c else look_up_field r n
  end.
Definition col_of (ti : tinfo) (n : string) : string :=
  match look_up_field (t_fields ti) n with Some c => c | None => n end.

Definition primary_column : val := VCol current_table primary_key "" false.

(* ------------------------------------------------------------------ *)
(* Statement.BuildCondition                                             *)
Definition is_expression (v : val) : bool :=
  match v with
  | VExpr _ _ _ | VNamedExpr _ _ | VCmp _ _ _ | VIn _ _ | VAnd _ | VOr _ | VNot _ | VWhere _ => true
  | _ => false
  end.
(* the elements of a value whose reflect.Kind is Slice or Array *)
Definition slice_elems (v : val) : option (list val) :=
  match v with
  | VList _ l => Some l
  | VS (SBytes b) => Some (map (fun c => VS (SInt (Z.of_N (ccode c)))) (s2l b))
  | _ => None
  end.
(* the primary-key arm (70948e8): the only argument is a LIST of keys when its kind is slice or array and
   it is not a []byte (element type uint8 itself) - a []byte, also as the Value() of a driver.Valuer,
   is one key *)
Definition key_elems (v : val) : option (list val) :=
  match v with VList _ l => Some l | _ => None end.
Definition map_entry_cond (x : val) : list val :=
  match x with
  | VNamed key v =>
    match v with
    | VDrv _ | VGormValuer _ _ | VS (SBytes _)       (* []byte: one value *)
    | VList LU8 _ => [VCmp OEq (VQStr key) v]   (* Elem().Kind() == Uint8: taken for a []byte *)
    | _ => match slice_elems v with
           | Some vs => [VIn (VQStr key) vs]
           | None => [VCmp OEq (VQStr key) v]
           end
    end
  | _ => []
  end.
Definition struct_field_cond (x : val) : list val :=
  match x with
  | VField name false v => [VCmp OEq (VCol current_table name "" false) v]
  | _ => []
  end.

Fixpoint gen_conds (nargs : nat) (all : list val) (l : list val) (conds : list val) : list val :=
  match l with
  | [] => conds
  | a :: r =>
    let a' := match a with VDrv s => VS s | _ => a end in     (* arg, _ = valuer.Value() *)
    let conds' :=
      match a' with
      | VS SNull => conds
      | VSubN _ _ wh =>
        match wh with
        | [] => conds
        | _ => conds ++ olist (mk_and (match wh with [VOr l'] => [VAnd l'] | _ => wh end))
        end
      | VRawSub _ _ => conds
      | VMapCond es => conds ++ flat_map map_entry_cond es
      | VStructCond fs => conds ++ flat_map struct_field_cond fs
      | _ =>
        if is_expression a' then conds ++ [a']
        else match conds with
             | _ :: _ => conds
             | [] =>
               match (if (nargs =? 1)%nat then key_elems a' else None) with
               | Some [] => []
               | Some vs => [VIn primary_column vs]
               | None => [VIn primary_column all]
               end
             end
      end in
    gen_conds nargs all r conds'
  end.

Definition build_condition (q : val) (args : list val) : list val :=
  let all := q :: args in
  let generic := olist (mk_and (gen_conds (length all) all all [])) in
  match q with
  | VQStr s =>
    let sl := s2l s in
    if is_atoi sl then generic
    else if String.eqb s "" && negb (nonempty args) then []
    else if negb (nonempty args) || contains_c "?" sl then [VExpr false s args]
    else if contains_c "@" sl then [VNamedExpr s args]
    else if contains_c " " (trim_space sl) then [VExpr false s args]
    else match args with [a] => [VCmp OEq (VQStr s) a] | _ => generic end
  | _ => generic
  end.

(* ------------------------------------------------------------------ *)
(* the statement under construction                                     *)
Record st := mk_st {
  s_ti : tinfo;
  s_texpr : option val;               (* Statement.TableExpr *)
  s_where : list val;                 (* Clauses["WHERE"].Exprs *)
  s_selects : list string;            (* Statement.Selects *)
  s_selexpr : option val;             (* Clauses["SELECT"].Expression when it is an expression *)
  s_pluck : option val;               (* the column clause Pluck adds *)
  s_distinct : bool;
  s_joins : list val;
  s_gcols : list val; s_having : list val; s_group : bool;
  s_ocols : list val; s_oexpr : option val; s_order : bool;
  s_limit : option (option Z * Z);
  s_onconf : option val;
  s_mpk : option val                  (* non-zero primary key of the value given to Model() *)
}.
Definition st0 (ti : tinfo) : st :=
  mk_st ti None [] [] None None false [] [] [] false [] None false None None None.

Definition set_where (s : st) (w : list val) : st :=
  mk_st (s_ti s) (s_texpr s) w (s_selects s) (s_selexpr s) (s_pluck s) (s_distinct s) (s_joins s)
        (s_gcols s) (s_having s) (s_group s) (s_ocols s) (s_oexpr s) (s_order s) (s_limit s) (s_onconf s) (s_mpk s).
Definition set_select (s : st) (sel : list string) (x : option val) : st :=
  mk_st (s_ti s) (s_texpr s) (s_where s) sel x (s_pluck s) (s_distinct s) (s_joins s)
        (s_gcols s) (s_having s) (s_group s) (s_ocols s) (s_oexpr s) (s_order s) (s_limit s) (s_onconf s) (s_mpk s).
Definition set_pluck (s : st) (p : option val) : st :=
  mk_st (s_ti s) (s_texpr s) (s_where s) (s_selects s) (s_selexpr s) p (s_distinct s) (s_joins s)
        (s_gcols s) (s_having s) (s_group s) (s_ocols s) (s_oexpr s) (s_order s) (s_limit s) (s_onconf s) (s_mpk s).
Definition set_table (s : st) (ti : tinfo) (x : option val) : st :=
  mk_st ti x (s_where s) (s_selects s) (s_selexpr s) (s_pluck s) (s_distinct s) (s_joins s)
        (s_gcols s) (s_having s) (s_group s) (s_ocols s) (s_oexpr s) (s_order s) (s_limit s) (s_onconf s) (s_mpk s).
Definition set_distinct (s : st) : st :=
  mk_st (s_ti s) (s_texpr s) (s_where s) (s_selects s) (s_selexpr s) (s_pluck s) true (s_joins s)
        (s_gcols s) (s_having s) (s_group s) (s_ocols s) (s_oexpr s) (s_order s) (s_limit s) (s_onconf s) (s_mpk s).
Definition set_joins (s : st) (j : list val) : st :=
  mk_st (s_ti s) (s_texpr s) (s_where s) (s_selects s) (s_selexpr s) (s_pluck s) (s_distinct s) j
        (s_gcols s) (s_having s) (s_group s) (s_ocols s) (s_oexpr s) (s_order s) (s_limit s) (s_onconf s) (s_mpk s).
Definition set_group (s : st) (c h : list val) : st :=
  mk_st (s_ti s) (s_texpr s) (s_where s) (s_selects s) (s_selexpr s) (s_pluck s) (s_distinct s) (s_joins s)
        c h true (s_ocols s) (s_oexpr s) (s_order s) (s_limit s) (s_onconf s) (s_mpk s).
Definition set_order (s : st) (c : list val) (x : option val) (present : bool) : st :=
  mk_st (s_ti s) (s_texpr s) (s_where s) (s_selects s) (s_selexpr s) (s_pluck s) (s_distinct s) (s_joins s)
        (s_gcols s) (s_having s) (s_group s) c x present (s_limit s) (s_onconf s) (s_mpk s).
Definition set_limit (s : st) (l : option (option Z * Z)) : st :=
  mk_st (s_ti s) (s_texpr s) (s_where s) (s_selects s) (s_selexpr s) (s_pluck s) (s_distinct s) (s_joins s)
        (s_gcols s) (s_having s) (s_group s) (s_ocols s) (s_oexpr s) (s_order s) l (s_onconf s) (s_mpk s).
Definition set_mpk (s : st) (k : option val) : st :=
  mk_st (s_ti s) (s_texpr s) (s_where s) (s_selects s) (s_selexpr s) (s_pluck s) (s_distinct s) (s_joins s)
        (s_gcols s) (s_having s) (s_group s) (s_ocols s) (s_oexpr s) (s_order s) (s_limit s) (s_onconf s) k.
Definition set_onconf (s : st) (o : option val) : st :=
  mk_st (s_ti s) (s_texpr s) (s_where s) (s_selects s) (s_selexpr s) (s_pluck s) (s_distinct s) (s_joins s)
        (s_gcols s) (s_having s) (s_group s) (s_ocols s) (s_oexpr s) (s_order s) (s_limit s) o (s_mpk s).

(* Limit.MergeClause ([new] is the receiver) *)
Definition limit_merge (new : option Z * Z) (old : option (option Z * Z)) : option Z * Z :=
  match old with
  | None => new
  | Some (ol, oo) =>
    let l := match fst new, ol with
             | None, Some v => Some v
             | Some 0%Z, Some v => Some v
             | n, _ => n
             end in
    let o := if (snd new =? 0)%Z && (0 <? oo)%Z then oo
             else if (snd new <? 0)%Z then 0%Z else snd new in
    (l, o)
  end.

Definition add_conds (k : ckind) (conds : list val) : list val :=
  match conds with
  | [] => []
  | _ => match k with
         | KWh => conds
         | KNot => olist (mk_not conds)
         | KOr => match mk_and conds with Some a => olist (mk_or [a]) | None => [] end
         end
  end.

(* further column names given to Select are Go strings in identifier position (VQStr) *)
Definition is_str_arg (v : val) : option string :=
  match v with VQStr s => Some s | _ => None end.
Fixpoint all_str_args (l : list val) : option (list string) :=
  match l with
  | [] => Some []
  | v :: r => match is_str_arg v, all_str_args r with Some s, Some l' => Some (s :: l') | _, _ => None end
  end.

Definition apply_call (s : st) (c : val) : st :=
  match c with
  | KCond k q args => set_where s (s_where s ++ add_conds k (build_condition q args))
  | KHaving q args => set_group s (s_gcols s) (s_having s ++ build_condition q args)
  | KSelect q args =>
    let ql := s2l q in
    let dq := if s_distinct s then ("DISTINCT " ++ q)%string else q in
    if (length args <=? count_c "?" ql)%nat && nonempty args then set_select s (s_selects s) (Some (VExpr false dq args))
    else if (0 <? count_c "@" ql)%nat && nonempty args then set_select s (s_selects s) (Some (VNamedExpr q args))
    else match all_str_args args with
         | Some l => set_select s (q :: l) None
         | None => set_select s [q] (Some (VExpr false dq args))
         end
  | KSelectCols cols => set_select s cols None
  | KTable name alias args =>
    let nl := s2l name in
    let ti := s_ti s in
    if contains_c " " nl || contains_c "`" nl || nonempty args then
      set_table s (mk_tinfo (if String.eqb alias "" then t_table ti else alias) (t_pk ti) (t_fields ti))
                (Some (VExpr false name args))
    else if String.eqb name "" then set_table s (mk_tinfo "" (t_pk ti) (t_fields ti)) None
    else set_table s (mk_tinfo (if String.eqb alias "" then name else alias) (t_pk ti) (t_fields ti))
                   (Some (VText (l2s (quote_id name))))
  | KJoins q args => set_joins s (s_joins s ++ [VNamedExpr q args])
  | KGroup name => set_group s (s_gcols s ++ [VCol "" name "" (negb (single_field name))]) (s_having s)
  | KOrder o => if String.eqb o "" then s else set_order s (s_ocols s ++ [VCol "" o "" true]) None true
  | KOrderExpr x => set_order s (s_ocols s) (Some x) true
  | KLimit n => set_limit s (Some (limit_merge (Some n, 0%Z) (s_limit s)))
  | KOffset n => set_limit s (Some (limit_merge (None, n) (s_limit s)))
  | KDistinct => set_distinct s
  | VField _ false v => set_mpk s (Some v)        (* Model(&Item{ID: v}) *)
  | KClauses l =>
    let s1 := fold_left (fun acc x => match x with
                                      | VWhere w => set_where acc (s_where acc ++ w)
                                      | VOnConflict _ _ _ _ => set_onconf acc (Some x)
                                      | _ => acc
                                      end) l s in
    let wc := filter (fun x => match x with VWhere _ | VOnConflict _ _ _ _ => false | _ => true end) l in
    match wc with
    | [] => s1
    | q :: args => set_where s1 (s_where s1 ++ build_condition q args)
    end
  | _ => s
  end.
Definition run_chain (ti : tinfo) (chain : list val) : st := fold_left apply_call chain (st0 ti).

(* ------------------------------------------------------------------ *)
(* clause Build methods that only concatenate                            *)
Definition vseq0 (l : list val) : val := VSeq "" l.
Definition has_schema (ti : tinfo) : bool := nonempty (t_fields ti).

(* Limit.Build, or the SQLite dialector's LIMIT clause builder *)
Definition limit_val (inl : bool) (l : option Z * Z) : val :=
  let lim := match fst l with Some n => if (0 <=? n)%Z then Some n else None | None => None end in
  let off := snd l in
  if inl then
    vseq0 ((if nonempty (olist lim) || (0 <? off)%Z
            then [VText "LIMIT "; VText (l2s (dec_z (match lim with Some n => n | None => (-1)%Z end)))] else [])
           ++ (if (0 <? off)%Z then [VText " OFFSET "; VText (l2s (dec_z off))] else []))
  else
    vseq0 ((match lim with Some n => [VText "LIMIT "; VS (SInt n)] | None => [] end)
           ++ (if (0 <? off)%Z
               then (match lim with Some _ => [VText " "] | None => [] end) ++ [VText "OFFSET "; VS (SInt off)]
               else [])).

Definition table_val (s : st) : val :=
  match s_texpr s with Some x => x | None => VTable current_table "" false end.

Definition select_columns (s : st) : list val :=
  let ti := s_ti s in
  match s_selects s with
  | _ :: _ =>
    map (fun n => if has_schema ti
                  then match look_up_field (t_fields ti) n with
                       | Some c => VCol "" c "" false
                       | None => VCol "" n "" true
                       end
                  else VCol "" n "" true) (s_selects s)
  | [] => if nonempty (s_joins s) && has_schema ti
          then map (fun f => VCol (t_table ti) (snd f) "" false) (t_fields ti)
          else []
  end.
(* clause.Select.Build *)
Definition columns_val (distinct : bool) (cols : list val) : val :=
  match cols with
  | [] => VText "*"
  | _ => vseq0 ((if distinct then [VText "DISTINCT "] else []) ++ [VSeq "," cols])
  end.

Definition where_clause (s : st) : list val :=
  match s_where s with [] => [] | w => [vseq0 [VText "WHERE "; mk_where w]] end.

(* BuildQuerySQL + Statement.Build over the query clauses *)
Definition query_stmt (inl : bool) (s : st) : val :=
  let sel := match s_selexpr s with
             | Some x => x
             | None => match s_pluck s with
                       | Some p => p
                       | None => columns_val (s_distinct s) (select_columns s)
                       end
             end in
  VSeq " "
    ([vseq0 [VText "SELECT "; sel]]
     ++ [vseq0 (VText "FROM " :: table_val s :: flat_map (fun j => [VText " "; j]) (s_joins s))]
     ++ where_clause s
     ++ (if s_group s
         then [vseq0 ((if nonempty (s_gcols s) then [VText "GROUP BY "; VSeq "," (s_gcols s)] else [])
                      ++ (match s_having s with [] => [] | h => [VText " HAVING "; mk_where h] end))]
         else [])
     ++ (if s_order s
         then [vseq0 [VText "ORDER BY "; match s_oexpr s with Some x => x | None => VSeq "," (s_ocols s) end]]
         else [])
     ++ (match s_limit s with Some l => [limit_val inl l] | None => [] end)).

(* ------------------------------------------------------------------ *)
(* finishers                                                            *)
Inductive fin :=
| FFind (conds : list val) | FFirst (conds : list val) | FTake (conds : list val) | FLast (conds : list val)
| FCount
| FPluck (col : string)
| FUpdate (col : string) (v : val)
| FUpdatesMap (kv : list val)            (* VNamed entries, keys sorted *)
| FUpdatesStruct (fields : list val)     (* VField per column, DBNames order *)
| FDelete (conds : list val)
| FCreateStruct (fields : list val)      (* VField per column, DBNames order, primary key included *)
| FCreateSlice (rows : list val)         (* VSeq "" fields per record *)
| FCreateMap (kv : list val)             (* VNamed entries, keys sorted *)
| FCreateMaps (rows : list val)          (* VNameSrc per map *)
| FSaveStruct (fields : list val)        (* Save(&record) with a non-zero key: VField per column *)
| FSaveSlice (rows : list val)           (* Save(&records): insert, on conflict update all *)
| FRaw (sql : string) (args : list val)  (* Raw(sql, args...).Scan / Rows *)
| FExec (sql : string) (args : list val).

Definition inline_conds (s : st) (conds : list val) : st :=
  match conds with
  | [] => s
  | q :: args => set_where s (s_where s ++ build_condition q args)
  end.

Definition field_name (x : val) : string := match x with VField n _ _ | VNamed n _ => n | _ => "" end.
Definition field_value (x : val) : val := match x with VField _ _ v | VNamed _ v => v | _ => VS SNull end.
Definition field_zero (x : val) : bool := match x with VField _ z _ => z | _ => false end.
Definition is_pk (ti : tinfo) (n : string) : bool :=
  match t_pk ti with Some p => String.eqb p n | None => false end.

(* Set.Build *)
Definition set_val (assigns : list (string * val)) : val :=
  match assigns with
  | [] => vseq0 [VCol "" primary_key "" false; VText "="; VCol "" primary_key "" false]
  | _ => VSeq "," (map (fun a => vseq0 [VCol "" (fst a) "" false; VText "="; snd a]) assigns)
  end.
(* ConvertToAssignments wraps a *gorm.DB value into []interface{}{v} *)
Definition assign_value (v : val) : val :=
  match v with VSubN _ _ _ | VRawSub _ _ => VList LIface [v] | _ => v end.

(* ConvertToAssignments: the non-zero key of the Model value becomes a condition, after the chain's *)
Definition with_model_key (s : st) : st :=
  match s_mpk s, t_pk (s_ti s) with
  | Some (VList _ keys), Some pk =>       (* Model(&records): IN over the key column *)
    match keys with [] => s | _ => set_where s (s_where s ++ [VIn (VCol "" pk "" false) keys]) end
  | Some v, Some pk => set_where s (s_where s ++ [VCmp OEq (VQStr pk) v])
  | _, _ => s
  end.
Definition update_stmt (s0 : st) (assigns : list (string * val)) : val :=
  let s := with_model_key s0 in
  VSeq " " ([vseq0 [VText "UPDATE "; table_val s]; vseq0 [VText "SET "; set_val assigns]] ++ where_clause s).

(* Values.Build *)
Definition values_val (cols : list string) (rows : list (list val)) : val :=
  match cols with
  | [] => VText "DEFAULT VALUES"
  | _ => vseq0 [VText "("; VSeq "," (map (fun c => VCol "" c "" false) cols); VText ")"; VText " VALUES ";
                VSeq "," (map (fun r => vseq0 [VText "("; VSeq "," r; VText ")"]) rows)]
  end.

(* OnConflict.Build *)
Definition onconflict_val (x : val) : list val :=
  match x with
  | VOnConflict cols donothing sets wh =>
    [vseq0 ([VText "ON CONFLICT "]
            ++ (match cols with [] => [] | _ => [VText "("; VSeq "," cols; VText ") "] end)
            ++ (if donothing then [VText "DO NOTHING"]
                else [VText "DO UPDATE SET "; set_val (map (fun a => (field_name a, field_value a)) sets)])
            ++ (match wh with [] => [] | _ => [VText " WHERE "; mk_where wh; VText " "] end))]
  | _ => []
  end.

Definition create_stmt (s : st) (cols : list string) (rows : list (list val)) : val :=
  let ti := s_ti s in
  VSeq " " ([vseq0 [VText "INSERT INTO "; table_val s]; values_val cols rows]
            ++ (match s_onconf s with Some o => onconflict_val o | None => [] end)
            ++ (match t_pk ti with
                | Some pk => if has_schema ti then [vseq0 [VText "RETURNING "; VCol "" pk "" false]] else []
                | None => []
                end)).

(* ConvertToCreateValues, struct and slice-of-struct destinations: the columns without a database
   default (everything but the auto-increment key) in DBNames order, then the key when some record
   has it set *)
Definition create_cols (ti : tinfo) (fields : list val) : list string :=
  filter (fun n => negb (is_pk ti n)) (map field_name fields).
Definition create_row (ti : tinfo) (fields : list val) : list val :=
  map field_value (filter (fun f => negb (is_pk ti (field_name f))) fields).
Definition pk_set (ti : tinfo) (fields : list val) : list val :=
  map field_value (filter (fun f => is_pk ti (field_name f) && negb (field_zero f)) fields).

Fixpoint lookup_named (l : list val) (n : string) : val :=
  match l with
  | [] => VS SNull
  | VNamed k v :: r => if String.eqb k n then v else lookup_named r n
  | _ :: r => lookup_named r n
  end.
Fixpoint insert_str (x : string) (l : list string) : list string :=
  match l with
  | [] => [x]
  | y :: r => match String.compare x y with
              | Lt => x :: l
              | Eq => l
              | Gt => y :: insert_str x r
              end
  end.
Definition sorted_keys (rows : list val) (ti : tinfo) : list string :=
  fold_left (fun acc r => match r with
                          | VNameSrc es => fold_left (fun a e => insert_str (col_of ti (field_name e)) a) es acc
                          | _ => acc
                          end) rows [].
Definition map_row (ti : tinfo) (cols : list string) (r : val) : list val :=
  match r with
  | VNameSrc es => map (fun c => lookup_named (map (fun e => VNamed (col_of ti (field_name e)) (field_value e)) es) c) cols
  | _ => []
  end.

(* ConvertToCreateValues over a slice: when some record has its key set, the key column is added and
   the other records get the dialect's default expression (DEFAULT; NULL for SQLite's auto-increment).
   [upd_all]: OnConflict{UpdateAll} as Save adds it: every created non-key column from "excluded" *)
Definition default_expr (inl : bool) : val := VText (if inl then "NULL" else "DEFAULT").
Definition slice_create (inl : bool) (s : st) (rows : list val) (upd_all : bool) : val :=
  let ti := s_ti s in
  match rows with
  | VSeq _ f0 :: _ =>
    let any_pk := existsb (fun r => match r with VSeq _ fs => nonempty (pk_set ti fs) | _ => false end) rows in
    let cols := create_cols ti f0 in
    let s' := if upd_all
              then set_onconf s (Some (VOnConflict (match t_pk ti with Some p => [VCol "" p "" false] | None => [] end) false
                                         (map (fun c => VNamed c (VCol "excluded" c "" false)) cols) []))
              else s in
    create_stmt s' (cols ++ (match any_pk, t_pk ti with true, Some p => [p] | _, _ => [] end))
      (map (fun r => match r with
                     | VSeq _ fs => create_row ti fs ++
                                    (if any_pk then match pk_set ti fs with [] => [default_expr inl] | k => k end else [])
                     | _ => []
                     end) rows)
  | _ => VText ""
  end.

Definition raw_val (sql : string) (args : list val) : val :=
  if contains_c "@" (s2l sql) then VNamedExpr sql args else VExpr false sql args.

Definition stmt_of (inl : bool) (ti : tinfo) (chain : list val) (f : fin) : val :=
  let s := run_chain ti chain in
  let ti' := s_ti s in
  match f with
  | FFind conds => query_stmt inl (inline_conds s conds)
  | FFirst conds =>
    let s1 := set_limit s (Some (limit_merge (Some 1%Z, 0%Z) (s_limit s))) in
    let s2 := set_order s1 (s_ocols s1 ++ [primary_column]) None true in
    query_stmt inl (inline_conds s2 conds)
  | FLast conds =>
    let s1 := set_limit s (Some (limit_merge (Some 1%Z, 0%Z) (s_limit s))) in
    let s2 := set_order s1 (s_ocols s1 ++ [vseq0 [primary_column; VText " DESC"]]) None true in
    query_stmt inl (inline_conds s2 conds)
  | FTake conds =>
    let s1 := set_limit s (Some (limit_merge (Some 1%Z, 0%Z) (s_limit s))) in
    query_stmt inl (inline_conds s1 conds)
  | FCount =>
    let s1 :=
      match s_selects s with
      | [] => set_select s [] (Some (VExpr false "count(*)" []))
      | [c] =>
        if prefix (s2l "count(") (map lower_c (trim_space (s2l c))) then s
        else if single_field c then
          let dbn := col_of ti' c in
          if s_distinct s then set_select s [c] (Some (VExpr false "COUNT(DISTINCT(?))" [VCol "" dbn "" false]))
          else if String.eqb dbn "*" then set_select s [c] (Some (VExpr false "count(*)" []))
          else set_select s [c] (Some (VExpr false "COUNT(?)" [VCol "" dbn "" false]))
        else set_select s [c] (Some (VExpr false "count(*)" []))
      | c :: _ =>
        if prefix (s2l "count(") (map lower_c (trim_space (s2l c))) then s
        else set_select s (s_selects s) (Some (VExpr false "count(*)" []))
      end in
    let s2 := if s_order s1 && negb (s_group s1) then set_order s1 [] None false else s1 in
    query_stmt inl s2
  | FPluck col =>
    let c := if has_schema ti' then col_of ti' col else col in
    let s1 := match s_selects s with
              | [_] => s
              | _ => match s_selexpr s with
                     | Some _ => s
                     | None => set_pluck s (Some (columns_val (s_distinct s) [VCol "" c "" (negb (single_field c))]))
                     end
              end in
    query_stmt inl s1
  | FUpdate col v => update_stmt s [(col_of ti' col, assign_value v)]
  | FUpdatesMap kv => update_stmt s (map (fun e => (col_of ti' (field_name e), assign_value (field_value e))) kv)
  | FUpdatesStruct fields =>
    update_stmt s (map (fun f => (field_name f, field_value f)) (filter (fun f => negb (field_zero f)) fields))
  | FDelete conds =>
    let s0 := inline_conds s conds in
    (* callbacks/delete.go: the key of the Model value, as IN over the table's key column *)
    let s1 := match s_mpk s0, t_pk ti' with
              | Some v, Some pk => set_where s0 (s_where s0 ++ [VIn (VCol (t_table ti') pk "" false) [v]])
              | _, _ => s0
              end in
    VSeq " " ([VText "DELETE"; vseq0 [VText "FROM "; table_val s1]] ++ where_clause s1)
  | FCreateStruct fields =>
    let pk := pk_set ti' fields in
    create_stmt s (create_cols ti' fields ++ (match pk, t_pk ti' with _ :: _, Some p => [p] | _, _ => [] end))
                [create_row ti' fields ++ pk]
  | FCreateSlice rows => slice_create inl s rows false
  | FCreateMap kv =>
    create_stmt s (map (fun e => col_of ti' (field_name e)) kv) [map field_value kv]
  | FCreateMaps rows =>
    let cols := sorted_keys rows ti' in
    create_stmt s cols (map (map_row ti' cols) rows)
  | FSaveStruct fields =>
    (* Save with a key: Select("*") update of every column; the key becomes the condition *)
    let keyc := map (fun f => VCmp OEq (VQStr (field_name f)) (field_value f))
                    (filter (fun f => is_pk ti' (field_name f)) fields) in
    update_stmt (set_where s (s_where s ++ keyc))
      (map (fun f => (field_name f, field_value f)) (filter (fun f => negb (is_pk ti' (field_name f))) fields))
  | FSaveSlice rows => slice_create inl s rows true
  | FRaw sql args => raw_val sql args
  | FExec sql args => raw_val sql args
  end.

(* ------------------------------------------------------------------ *)
(* norm: API calls to clause tree, bottom-up                             *)
Fixpoint norm (inl : bool) (v : val) {struct v} : val :=
  let n := norm inl in
  match v with
  | VS _ | VDrv _ | VCol _ _ _ _ | VTable _ _ _ | VQStr _ | VText _
  | KSelectCols _ | KGroup _ | KOrder _ | KLimit _ | KOffset _ | KDistinct => v
  | VList k l => VList k (map n l)
  | VNamed nm x => VNamed nm (n x)
  | VNameSrc l => VNameSrc (map n l)
  | VGormValuer b x => VGormValuer b (n x)
  | VExpr w s vars => VExpr w s (map n vars)
  | VNamedExpr s vars => VNamedExpr s (map n vars)
  | VCmp o c x => VCmp o (n c) (n x)
  | VIn c vs => VIn (n c) (map n vs)
  | VAnd l => VAnd (map n l)
  | VOr l => VOr (map n l)
  | VNot l => VNot (map n l)
  | VWhere l => VWhere (map n l)
  | VSeq sp l => VSeq sp (map n l)
  | VSubN ti q wh => VSubN ti (n q) (map n wh)
  | VRawSub s vars => VRawSub s (map n vars)
  | VSub ti chain =>
    let s := run_chain ti (map n chain) in
    VSubN (s_ti s) (query_stmt inl s) (s_where s)
  | KCond k q args => KCond k (n q) (map n args)
  | KHaving q args => KHaving (n q) (map n args)
  | KSelect q args => KSelect q (map n args)
  | KTable nm al args => KTable nm al (map n args)
  | KJoins q args => KJoins q (map n args)
  | KOrderExpr x => KOrderExpr (n x)
  | KClauses l => KClauses (map n l)
  | VMapCond l => VMapCond (map n l)
  | VStructCond l => VStructCond (map n l)
  | VField nm z x => VField nm z (n x)
  | VOnConflict cols dn sets wh => VOnConflict (map n cols) dn (map n sets) (map n wh)
  end.

Definition norm_fin (inl : bool) (f : fin) : fin :=
  let n := norm inl in
  match f with
  | FFind c => FFind (map n c) | FFirst c => FFirst (map n c) | FTake c => FTake (map n c) | FLast c => FLast (map n c)
  | FCount => FCount
  | FPluck c => FPluck c
  | FUpdate c v => FUpdate c (n v)
  | FUpdatesMap kv => FUpdatesMap (map n kv)
  | FUpdatesStruct fs => FUpdatesStruct (map n fs)
  | FDelete c => FDelete (map n c)
  | FCreateStruct fs => FCreateStruct (map n fs)
  | FCreateSlice rows => FCreateSlice (map n rows)
  | FCreateMap kv => FCreateMap (map n kv)
  | FCreateMaps rows => FCreateMaps (map n rows)
  | FSaveStruct fs => FSaveStruct (map n fs)
  | FSaveSlice rows => FSaveSlice (map n rows)
  | FRaw s a => FRaw s (map n a)
  | FExec s a => FExec s (map n a)
  end.

(* the statement a finisher builds: its clause tree, and the table it is built under *)
Definition statement (inl : bool) (ti : tinfo) (chain : list val) (f : fin) : tinfo * val :=
  let chain' := map (norm inl) chain in
  (s_ti (run_chain ti chain'), stmt_of inl ti chain' (norm_fin inl f)).
