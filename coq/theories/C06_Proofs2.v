(* C06_Proofs2.v — heap lemmas: arrays, writes, heap extension with a write set, and the
   specifications of the slice primitives (alloc, copy, append, swap). *)
From Verif Require Import Base C06_Model.
Open Scope nat_scope.

(* ---- lists ---- *)
Lemma upd_nth_length {A} (l : list A) i v : length (upd_nth l i v) = length l.
Proof. revert i; induction l as [|x l IH]; intros [|i]; cbn; auto. Qed.

Lemma nth_upd_nth_eq {A} (l : list A) i v d : i < length l -> nth i (upd_nth l i v) d = v.
Proof. revert i; induction l as [|x l IH]; intros [|i] H; cbn in *; try lia; auto. apply IH; lia. Qed.

Lemma nth_upd_nth_neq {A} (l : list A) i j v d : i <> j -> nth j (upd_nth l i v) d = nth j l d.
Proof.
  revert i j; induction l as [|x l IH]; intros [|i] [|j] H; cbn; auto; try congruence;
    try (apply IH; congruence).
Qed.

Lemma nth_error_upd_nth_eq {A} (l : list A) i v : i < length l -> nth_error (upd_nth l i v) i = Some v.
Proof. revert i; induction l as [|x l IH]; intros [|i] H; cbn in *; try lia; auto. apply IH; lia. Qed.

Lemma nth_error_upd_nth_neq {A} (l : list A) i j v : i <> j -> nth_error (upd_nth l i v) j = nth_error l j.
Proof.
  revert i j; induction l as [|x l IH]; intros [|i] [|j] H; cbn; auto; try congruence;
    try (apply IH; congruence).
Qed.

Lemma firstn_ext {A} (a b : list A) n d :
  n <= length a -> n <= length b -> (forall i, i < n -> nth i a d = nth i b d) -> firstn n a = firstn n b.
Proof.
  revert a b; induction n as [|n IH]; intros [|x a] [|y b] Ha Hb H; cbn in *; try lia; auto.
  f_equal.
  - apply (H 0); lia.
  - apply IH; try lia. intros i Hi. apply (H (S i)); lia.
Qed.

Lemma firstn_S_upd_nth {A} (a : list A) i x : i < length a -> firstn (S i) (upd_nth a i x) = firstn i a ++ [x].
Proof.
  revert i; induction a as [|y a IH]; intros [|i] Hi; cbn in *; try lia; auto.
  f_equal. apply IH. lia.
Qed.

(* ---- cells ---- *)
Lemma cells_of_nth_error h l f a : nth_error h l = Some (f, a) -> cells_of h l = a.
Proof. intro H. unfold cells_of. rewrite (nth_error_nth _ _ _ H). reflexivity. Qed.

Lemma cells_of_app_old h x l : l < length h -> cells_of (h ++ x) l = cells_of h l.
Proof. intro H. unfold cells_of. rewrite app_nth1; auto. Qed.

Lemma cells_of_app_new h f a : cells_of (h ++ [(f, a)]) (length h) = a.
Proof. unfold cells_of. rewrite app_nth2, Nat.sub_diag; auto. Qed.

Lemma hwrite_length h l i v : length (hwrite h l i v) = length h.
Proof. unfold hwrite. destruct (nth_error h l) as [[f a]|]; auto. apply upd_nth_length. Qed.

Lemma hwrite_nth_error_neq h l i v l' : l <> l' -> nth_error (hwrite h l i v) l' = nth_error h l'.
Proof. intro H. unfold hwrite. destruct (nth_error h l) as [[f a]|]; auto. apply nth_error_upd_nth_neq; auto. Qed.

Lemma hwrite_nth_error_eq h l i v f a :
  nth_error h l = Some (f, a) -> nth_error (hwrite h l i v) l = Some (f, upd_nth a i v).
Proof.
  intro H. unfold hwrite. rewrite H. apply nth_error_upd_nth_eq. apply nth_error_Some. congruence.
Qed.

Lemma hwrite_shape h l i v l' f a :
  nth_error h l' = Some (f, a) ->
  exists a', nth_error (hwrite h l i v) l' = Some (f, a') /\ length a' = length a.
Proof.
  intro H. destruct (Nat.eq_dec l l') as [->|N].
  - exists (upd_nth a i v). split; [apply hwrite_nth_error_eq, H | apply upd_nth_length].
  - exists a. split; auto. rewrite hwrite_nth_error_neq; auto.
Qed.

Lemma hwrite_cell_other h l i v l' i' :
  (l', i') <> (l, i) -> nth i' (cells_of (hwrite h l i v) l') 0%Z = nth i' (cells_of h l') 0%Z.
Proof.
  intro N. destruct (Nat.eq_dec l l') as [->|Nl].
  - destruct (nth_error h l') as [[f a]|] eqn:E.
    + rewrite (cells_of_nth_error _ _ _ _ (hwrite_nth_error_eq _ _ i v _ _ E)), (cells_of_nth_error _ _ _ _ E).
      apply nth_upd_nth_neq. congruence.
    + unfold hwrite. rewrite E. reflexivity.
  - unfold cells_of. f_equal. f_equal.
    destruct (nth_error h l') as [p|] eqn:E.
    + assert (E' := E). rewrite <- (hwrite_nth_error_neq h l i v l' Nl) in E'.
      rewrite (nth_error_nth _ _ _ E), (nth_error_nth _ _ _ E'). reflexivity.
    + apply nth_error_None in E. rewrite !nth_overflow; auto. rewrite hwrite_length; auto.
Qed.

Lemma hwrite_cell_same h l i v f a :
  nth_error h l = Some (f, a) -> i < length a -> nth i (cells_of (hwrite h l i v) l) 0%Z = v.
Proof.
  intros E Hi. rewrite (cells_of_nth_error _ _ _ _ (hwrite_nth_error_eq _ _ i v _ _ E)).
  apply nth_upd_nth_eq; auto.
Qed.

(* ---- well-formed slices ---- *)
Definition wf_slice (h : heap) (f : field) (s : slice) : Prop :=
  match s with
  | SNil => True
  | SArr l n c => exists a, nth_error h l = Some (f, a) /\ length a = c /\ n <= c
  end.

Lemma wf_slice_lt h f l n c : wf_slice h f (SArr l n c) -> l < length h.
Proof. intros (a & E & _). apply nth_error_Some. congruence. Qed.

Lemma rd_length h f s : wf_slice h f s -> length (rd h s) = slen s.
Proof.
  destruct s as [|l n c]; cbn; auto. intros (a & E & L & Hn).
  rewrite (cells_of_nth_error _ _ _ _ E), firstn_length. lia.
Qed.

(* ---- heap extension: [h'] extends [h], and differs on old cells at most at [w] ---- *)
Definition hext (h h' : heap) (w : wset) : Prop :=
  length h <= length h'
  /\ (forall l f a, nth_error h l = Some (f, a) -> exists a', nth_error h' l = Some (f, a') /\ length a' = length a)
  /\ (forall l i, l < length h -> ~ In (l, i) w -> nth i (cells_of h' l) 0%Z = nth i (cells_of h l) 0%Z).

Lemma hext_refl h : hext h h [].
Proof. split; [|split]; auto. intros l f a E. exists a; auto. Qed.

Lemma hext_trans h h1 h2 w1 w2 : hext h h1 w1 -> hext h1 h2 w2 -> hext h h2 (w1 ++ w2).
Proof.
  intros (L1 & S1 & F1) (L2 & S2 & F2). split; [lia|split].
  - intros l f a E. destruct (S1 _ _ _ E) as (a1 & E1 & La1). destruct (S2 _ _ _ E1) as (a2 & E2 & La2).
    exists a2. split; auto. lia.
  - intros l i Hl N. rewrite in_app_iff in N.
    transitivity (nth i (cells_of h1 l) 0%Z); [apply F2; [lia | tauto] | apply F1; [auto | tauto]].
Qed.

Lemma hext_weaken h h' w w' : hext h h' w -> incl w w' -> hext h h' w'.
Proof. intros (L & S & F) I. split; [|split]; auto. Qed.

Lemma hext_alloc h x : hext h (h ++ [x]) [].
Proof.
  split; [|split].
  - rewrite app_length; lia.
  - intros l f a E. exists a. split; auto. rewrite nth_error_app1; auto. apply nth_error_Some; congruence.
  - intros l i Hl _. rewrite cells_of_app_old; auto.
Qed.

Lemma hext_write h l i v : hext h (hwrite h l i v) [(l, i)].
Proof.
  split; [|split].
  - rewrite hwrite_length; lia.
  - intros l' f a E. apply hwrite_shape, E.
  - intros l' i' Hl N. apply hwrite_cell_other. intro E. apply N. left. congruence.
Qed.

Lemma wf_slice_ext h h' w f s : hext h h' w -> wf_slice h f s -> wf_slice h' f s.
Proof.
  intros (_ & S & _) W. destruct s as [|l n c]; auto. destruct W as (a & E & L & Hn).
  destruct (S _ _ _ E) as (a' & E' & L'). exists a'. repeat split; auto; lia.
Qed.

(* reading an old slice whose cells were not written *)
Lemma rd_frame h h' w f l n c :
  hext h h' w -> wf_slice h f (SArr l n c) -> (forall i, i < n -> ~ In (l, i) w) ->
  rd h' (SArr l n c) = rd h (SArr l n c).
Proof.
  intros X W N. assert (W' := wf_slice_ext _ _ _ _ _ X W).
  destruct X as (_ & S & F). destruct W as (a & E & L & Hn). destruct W' as (a' & E' & L' & _).
  cbn. apply firstn_ext with (d := 0%Z).
  - rewrite (cells_of_nth_error _ _ _ _ E'). lia.
  - rewrite (cells_of_nth_error _ _ _ _ E). lia.
  - intros i Hi. apply F; auto. apply nth_error_Some. congruence.
Qed.

Lemma rdo_frame h h' w f s :
  hext h h' w -> wf_slice h f s ->
  (forall l n c i, s = SArr l n c -> i < n -> ~ In (l, i) w) -> rdo h' s = rdo h s.
Proof.
  intros X W N. destruct s as [|l n c]; auto. unfold rdo. f_equal.
  eapply rd_frame; eauto.
Qed.

(* ---- commands ---- *)
Lemma bind_inv {A B} (m : cmd A) (k : A -> cmd B) h b h2 w :
  bind m k h = (b, h2, w) ->
  exists a h1 w1 w2, m h = (a, h1, w1) /\ k a h1 = (b, h2, w2) /\ w = w1 ++ w2.
Proof.
  unfold bind. destruct (m h) as [[a h1] w1]. destruct (k a h1) as [[b' h2'] w2] eqn:E.
  intro H. inversion H; subst. exists a, h1, w1, w2. auto.
Qed.

Lemma ret_inv {A} (a : A) h b h' w : ret a h = (b, h', w) -> b = a /\ h' = h /\ w = [].
Proof. unfold ret. intro H. inversion H; auto. Qed.

Lemma rdc_inv s h b h' w : rdc s h = (b, h', w) -> b = rd h s /\ h' = h /\ w = [].
Proof. unfold rdc. intro H. inversion H; auto. Qed.

(* writing a run of cells *)
Fixpoint hwrite_list (h : heap) (l i : nat) (xs : list cell) : heap :=
  match xs with [] => h | x :: r => hwrite_list (hwrite h l i x) l (S i) r end.
Fixpoint wcells (l i k : nat) : wset :=
  match k with O => [] | S k' => (l, i) :: wcells l (S i) k' end.

Lemma wr_list_eq l i xs h : wr_list l i xs h = (tt, hwrite_list h l i xs, wcells l i (length xs)).
Proof.
  revert i h; induction xs as [|x r IH]; intros i h; cbn; auto.
  rewrite IH. reflexivity.
Qed.

Lemma in_wcells l i k l' j : In (l', j) (wcells l i k) <-> l' = l /\ i <= j < i + k.
Proof.
  revert i; induction k as [|k IH]; intro i; cbn.
  - split; [tauto | lia].
  - rewrite IH. split.
    + intros [E | (-> & H)]; [inversion E; subst; lia | lia].
    + intros (-> & H). destruct (Nat.eq_dec i j) as [->|N]; [left; auto | right; lia].
Qed.

Lemma hext_write_list h l i xs : hext h (hwrite_list h l i xs) (wcells l i (length xs)).
Proof.
  revert h i; induction xs as [|x r IH]; intros h i; cbn.
  - apply hext_refl.
  - change ((l, i) :: wcells l (S i) (length r)) with ([(l, i)] ++ wcells l (S i) (length r)).
    eapply hext_trans; [apply hext_write | apply IH].
Qed.

Lemma hwrite_list_cells h l i xs f a :
  nth_error h l = Some (f, a) -> i + length xs <= length a ->
  exists a', nth_error (hwrite_list h l i xs) l = Some (f, a') /\ length a' = length a
             /\ firstn (i + length xs) a' = firstn i a ++ xs.
Proof.
  revert h i a; induction xs as [|x r IH]; intros h i a E L; cbn in *.
  - exists a. rewrite Nat.add_0_r, app_nil_r. auto.
  - assert (E1 := hwrite_nth_error_eq _ _ i x _ _ E).
    destruct (IH _ (S i) _ E1) as (a' & E' & L' & C); [rewrite upd_nth_length; lia|].
    exists a'. rewrite upd_nth_length in L'. repeat split; auto.
    replace (i + S (length r)) with (S i + length r) by lia. rewrite C.
    rewrite firstn_S_upd_nth by lia. rewrite <- app_assoc. reflexivity.
Qed.

(* ---- slice primitives ---- *)
Definition fresh (h : heap) (s : slice) : Prop :=
  match s with SArr l _ _ => length h <= l | SNil => False end.

(* result of a slice-producing command started from the slice [old] (writes only beyond old's length) *)
Record sres (h : heap) (f : field) (old : slice) (content : option (list cell))
            (s' : slice) (h' : heap) (w : wset) : Prop := {
  sr_ext : hext h h' w;
  sr_wf : wf_slice h' f s';
  sr_rd : rdo h' s' = content;
  sr_w : forall l i, In (l, i) w -> length h <= l \/ exists n c, old = SArr l n c /\ n <= i < c;
  sr_shape : s' = old \/ fresh h s' \/ (exists l n n' c, old = SArr l n c /\ s' = SArr l n' c /\ n <= n')
}.

Lemma rd_alloc_new h f a n c : n <= length a -> rd (h ++ [(f, a)]) (SArr (length h) n c) = firstn n a.
Proof. intros _. cbn. rewrite cells_of_app_new. reflexivity. Qed.

Lemma wf_alloc_new h f a n : n <= length a -> wf_slice (h ++ [(f, a)]) f (SArr (length h) n (length a)).
Proof.
  intro H. exists a. repeat split; auto. rewrite nth_error_app2, Nat.sub_diag; auto.
Qed.

Lemma pad_length n : length (pad n) = n.
Proof. apply repeat_length. Qed.

Lemma h_user_eq f xs cap h :
  h_user f xs cap h =
  (SArr (length h) (length xs) (Nat.max cap (length xs)),
   h ++ [(f, xs ++ pad (Nat.max cap (length xs) - length xs))], []).
Proof. reflexivity. Qed.

Lemma h_user_spec f xs cap h s' h' w old :
  h_user f xs cap h = (s', h', w) -> sres h f old (Some xs) s' h' w.
Proof.
  rewrite h_user_eq. intro E. inversion E; subst; clear E.
  set (c := Nat.max cap (length xs)).
  assert (La : length (xs ++ pad (c - length xs)) = c) by (rewrite app_length, pad_length; unfold c; lia).
  constructor.
  - apply hext_alloc.
  - rewrite <- La at 2. apply wf_alloc_new. rewrite app_length. lia.
  - unfold rdo. f_equal. rewrite rd_alloc_new by (rewrite app_length; lia).
    rewrite firstn_app, Nat.sub_diag, firstn_all. cbn. apply app_nil_r.
  - intros l i [].
  - right; left. cbn. lia.
Qed.

Lemma h_lit_spec f xs h s' h' w old :
  h_lit f xs h = (s', h', w) -> sres h f old (Some xs) s' h' w.
Proof. apply h_user_spec. Qed.

Lemma h_copy_eq f s h :
  h_copy f s h = (SArr (length h) (length (rd h s)) (length (rd h s)), h ++ [(f, rd h s)], []).
Proof. reflexivity. Qed.

Lemma h_copy_spec f s h s' h' w old :
  h_copy f s h = (s', h', w) -> sres h f old (Some (rd h s)) s' h' w.
Proof.
  rewrite h_copy_eq. intro E. inversion E; subst; clear E. constructor.
  - apply hext_alloc.
  - apply wf_alloc_new. lia.
  - unfold rdo. f_equal. rewrite rd_alloc_new by lia. apply firstn_all.
  - intros l i [].
  - right; left. cbn. lia.
Qed.

Section Append.
Variable grow : field -> nat -> nat -> nat.

Definition papp_l (a : option (list cell)) (xs : list cell) : list cell :=
  (match a with Some l => l | None => [] end) ++ xs.

Lemma h_append_spec f s xs h s' h' w :
  wf_slice h f s -> h_append grow f s xs h = (s', h', w) ->
  sres h f s (papp (rdo h s) xs) s' h' w.
Proof.
  intros W E. unfold h_append in E. destruct xs as [|x r].
  { apply ret_inv in E. destruct E as (-> & -> & ->). constructor; auto.
    - apply hext_refl.
    - destruct s; reflexivity || (cbn; rewrite app_nil_r; reflexivity).
    - intros l i []. }
  remember (x :: r) as xs eqn:Exs. assert (Hne : xs <> []) by (subst; discriminate).
  assert (Hp : forall o, papp o xs = Some (papp_l o xs)) by (intro o; subst xs; destruct o; reflexivity).
  clear Exs x r. destruct s as [|l n c].
  - (* nil: allocate *)
    rewrite Hp. cbn [rdo papp_l app]. eapply h_user_spec, E.
  - destruct (n + length xs <=? c) eqn:Hfit.
    + (* in place *)
      apply Nat.leb_le in Hfit.
      apply bind_inv in E. destruct E as (u & h1 & w1 & w2 & E1 & E2 & ->).
      rewrite wr_list_eq in E1. inversion E1; subst; clear E1.
      apply ret_inv in E2. destruct E2 as (-> & -> & ->). rewrite app_nil_r.
      destruct W as (a & Ea & La & Hn).
      destruct (hwrite_list_cells h l n xs f a Ea) as (a' & Ea' & La' & C); [lia|].
      constructor.
      * apply hext_write_list.
      * exists a'. repeat split; auto; lia.
      * rewrite Hp. unfold rdo. f_equal. cbn. rewrite (cells_of_nth_error _ _ _ _ Ea'), C.
        rewrite (cells_of_nth_error _ _ _ _ Ea). reflexivity.
      * intros l' i Hin. apply in_wcells in Hin. destruct Hin as (-> & Hi). right. exists n, c. split; auto; lia.
      * right; right. exists l, n, (n + length xs), c. repeat split; auto; lia.
    + (* reallocate *)
      apply Nat.leb_gt in Hfit.
      set (c' := Nat.max (grow f c (n + length xs)) (n + length xs)) in *.
      apply bind_inv in E. destruct E as (old & h1 & w1 & w2 & E1 & E2 & ->).
      apply rdc_inv in E1. destruct E1 as (-> & -> & ->).
      apply bind_inv in E2. destruct E2 as (l' & h2 & w3 & w4 & E2 & E3 & ->).
      unfold alloc in E2. inversion E2; subst; clear E2.
      apply ret_inv in E3. destruct E3 as (-> & -> & ->). cbn [app].
      assert (Lo : length (rd h (SArr l n c)) = n) by (apply (rd_length h f (SArr l n c) W)).
      set (arr := rd h (SArr l n c) ++ xs ++ pad (c' - (n + length xs))).
      assert (La : length arr = c') by (unfold arr; rewrite !app_length, pad_length, Lo; unfold c'; lia).
      constructor.
      * apply hext_alloc.
      * exists arr. split; [rewrite nth_error_app2, Nat.sub_diag by lia; reflexivity | split; [exact La | unfold c'; lia]].
      * rewrite Hp. unfold rdo. f_equal. cbn [rd]. rewrite cells_of_app_new.
        change (firstn n (cells_of h l)) with (rd h (SArr l n c)).
        rewrite app_assoc, firstn_app.
        rewrite app_length, Lo, Nat.sub_diag, firstn_all2 by (rewrite app_length, Lo; lia).
        cbn. rewrite app_nil_r. reflexivity.
      * intros l0 i [].
      * right; left. cbn. lia.
Qed.

(* composing two slice steps that continue from the result of the first *)
Lemma sres_trans h f s c1 s1 h1 w1 c2 s2 h2 w2 :
  sres h f s c1 s1 h1 w1 -> sres h1 f s1 c2 s2 h2 w2 ->
  sres h f s c2 s2 h2 (w1 ++ w2).
Proof.
  intros R1 R2. assert (X1 := sr_ext _ _ _ _ _ _ _ R1). assert (L1 : length h <= length h1) by apply X1.
  constructor.
  - eapply hext_trans; [exact X1 | apply (sr_ext _ _ _ _ _ _ _ R2)].
  - apply (sr_wf _ _ _ _ _ _ _ R2).
  - apply (sr_rd _ _ _ _ _ _ _ R2).
  - intros l i Hin. apply in_app_iff in Hin. destruct Hin as [Hin | Hin].
    + apply (sr_w _ _ _ _ _ _ _ R1 _ _ Hin).
    + destruct (sr_w _ _ _ _ _ _ _ R2 _ _ Hin) as [Hf | (n & c & E & Hi)]; [left; lia|].
      destruct (sr_shape _ _ _ _ _ _ _ R1) as [-> | [F | (l0 & n0 & n0' & c0 & Eo & Es & Hn)]].
      * right. exists n, c; auto.
      * subst s1. cbn in F. left. exact F.
      * subst. inversion Es; subst. right. exists n0, c0. split; auto. lia.
  - destruct (sr_shape _ _ _ _ _ _ _ R1) as [-> | [F | (l0 & n0 & n0' & c0 & Eo & Es & Hn)]].
    + destruct (sr_shape _ _ _ _ _ _ _ R2) as [-> | [F2 | H2]]; auto.
      right; left. destruct s2; auto. cbn in *. lia.
    + destruct (sr_shape _ _ _ _ _ _ _ R2) as [-> | [F2 | (l1 & n1 & n1' & c1' & Eo1 & Es1 & Hn1)]].
      * right; left; auto.
      * right; left. destruct s2; auto. cbn in *. lia.
      * subst. right; left. cbn in *. lia.
    + subst. destruct (sr_shape _ _ _ _ _ _ _ R2) as [-> | [F2 | (l1 & n1 & n1' & c1' & Eo1 & Es1 & Hn1)]].
      * right; right. exists l0, n0, n0', c0. auto.
      * right; left. destruct s2; auto. cbn in *. lia.
      * inversion Eo1; subst. right; right. exists l1, n0, n1', c1'. repeat split; auto. lia.
Qed.

Lemma h_append_each_spec f xs : forall s h s' h' w,
  wf_slice h f s -> h_append_each grow f s xs h = (s', h', w) ->
  sres h f s (papp (rdo h s) xs) s' h' w.
Proof.
  induction xs as [|x r IH]; intros s h s' h' w W E; cbn [h_append_each] in E.
  - apply ret_inv in E. destruct E as (-> & -> & ->). constructor; auto.
    + apply hext_refl.
    + destruct s; reflexivity || (cbn; rewrite app_nil_r; reflexivity).
    + intros l i [].
  - apply bind_inv in E. destruct E as (s1 & h1 & w1 & w2 & E1 & E2 & ->).
    assert (R1 := h_append_spec _ _ _ _ _ _ _ W E1).
    assert (R2 := IH _ _ _ _ _ (sr_wf _ _ _ _ _ _ _ R1) E2).
    assert (R := sres_trans _ _ _ _ _ _ _ _ _ _ _ R1 R2).
    rewrite (sr_rd _ _ _ _ _ _ _ R1) in R.
    replace (papp (rdo h s) (x :: r)) with (papp (papp (rdo h s) [x]) r); auto.
    destruct (rdo h s); cbn; [rewrite <- app_assoc|]; reflexivity.
Qed.

End Append.

(* ---- the in-place swap of Where.Build ---- *)
Lemma firstn_upd_nth {A} (a : list A) n i v : firstn n (upd_nth a i v) = upd_nth (firstn n a) i v.
Proof.
  revert a i; induction n as [|n IH]; intros [|x a] [|i]; cbn; auto. f_equal. apply IH.
Qed.

Lemma first_non_or_range l : forall i k, first_non_or l i = Some k -> i <= k < i + length l.
Proof.
  induction l as [|x l IH]; intros i k E; cbn in *; [discriminate|].
  destruct (is_or x).
  - apply IH in E. lia.
  - inversion E; subst. lia.
Qed.

Lemma h_swap_spec grow h f s s' h' w :
  wf_slice h f s -> h_swap grow f s h = (s', h', w) ->
  w = [] /\ hext h h' [] /\ wf_slice h' f s' /\ rdo h' s' = option_map wnorm (rdo h s).
Proof.
  intros W E. destruct s as [|l n c]; cbn [h_swap] in E.
  { apply ret_inv in E. destruct E as (-> & -> & ->). split; auto. split; [apply hext_refl | split; auto]. }
  apply bind_inv in E. destruct E as (xs & h1 & w1 & w2 & E1 & E2 & ->).
  apply rdc_inv in E1. destruct E1 as (-> & -> & ->). cbn [app].
  destruct (first_non_or (rd h (SArr l n c)) 0) as [[|j]|] eqn:Ef.
  - apply ret_inv in E2. destruct E2 as (-> & -> & ->).
    split; auto. split; [apply hext_refl|]. split; auto.
    unfold rdo. cbn [option_map]. unfold wnorm. rewrite Ef. reflexivity.
  - assert (R := h_user_spec _ _ _ _ _ _ _ SNil E2).
    rewrite h_user_eq in E2. inversion E2; subst; clear E2.
    split; auto. split; [apply hext_alloc|]. split; [apply (sr_wf _ _ _ _ _ _ _ R)|].
    rewrite (sr_rd _ _ _ _ _ _ _ R). reflexivity.
  - apply ret_inv in E2. destruct E2 as (-> & -> & ->).
    split; auto. split; [apply hext_refl|]. split; auto.
    unfold rdo. cbn [option_map]. unfold wnorm. rewrite Ef. reflexivity.
Qed.
