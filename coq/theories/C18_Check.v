(* C18_Check.v — correspondence checker for C18.
   A case is a short program of operations, each started from a handle bound to its own tagged
   context, with every begin/prepare/exec/query the recording driver saw on its behalf.
   model_agrees: for each driver event the model derives the context through the event's derivation
   path (the internal Session literals between the caller's handle and the call site, with the
   fields they have in the CURRENT source, and the form of the call site's context argument) and
   must obtain the tag the driver observed.
   In addition (round 7), for the operations whose STRUCTURE the harness states as an [opdesc]
   (C18_Ops.v), the model builds the whole operation tree itself (op_tree over the roles record of
   the current source) and its run from the caller's handle must equal the WHOLE list of driver
   events of the operation, in order, as (kind, tag) pairs (prepare events left out on both sides).
   spec_holds: the property text on the observation: every event of an operation carries the
   operation's tag; a pre-cancelled context lets nothing run. *)
From Verif Require Export Base C18_Model C18_Ops.
Open Scope Z_scope.

Record ev := mk_ev {
  e_kind : ckind;
  e_path : list slit;           (* outermost first *)
  e_site : cform;               (* context argument of the callback / finisher call site *)
  e_inner : option cform;       (* with PrepareStmt: context argument of the wrapper's own call site *)
  e_tag : ctx;                  (* what the driver observed: the tag of the context it was handed (0 = none) *)
  e_failed : bool;              (* the call returned an error *)
  e_done : bool                 (* the context was already done when the call arrived *)
}.

Record opc := mk_opc {
  o_tag : ctx;                  (* the context the caller bound the handle to *)
  o_cancelled : bool;           (* ... which was cancelled before the operation started *)
  o_err : bool;                 (* the operation returned an error *)
  o_unchanged : bool;           (* all tables equal before and after *)
  o_events : list ev;
  o_prep : bool;                (* PrepareStmt in force for the operation (Config or the caller's session) *)
  o_derive : option slit;       (* the caller's further session that does not repeat the context *)
  o_desc : option (list opdesc) (* the finisher calls of the operation, when the harness states their structure *)
}.

Record case := mk_case { c_copies : copies; c_roles : roles; c_ops : list opc }.

Definition ckind_eqb (a b : ckind) : bool :=
  match a, b with KBegin, KBegin | KPrepare, KPrepare | KExec, KExec | KQuery, KQuery => true | _, _ => false end.

(* the tree of one event: the caller's rebinding, the path, the call *)
Definition ev_tree (tag : ctx) (e : ev) : node :=
  let leaf := match e_inner e with
              | None => NCall (e_kind e) (e_site e)
              | Some f => NWrapped (e_site e) [(e_kind e, f)]
              end in
  NWith tag [fold_right (fun l n => NSess l [n]) leaf (e_path e)].

Definition root_handle : handle := mk_h ctx_background 1.

Definition ev_agrees (cp : copies) (tag : ctx) (e : ev) : bool :=
  match run cp (ev_tree tag e) root_handle with
  | [(k, c)] => ckind_eqb k (e_kind e) && (c =? e_tag e)
  | _ => false
  end.

Definition call_eqb (a b : call) : bool := ckind_eqb (fst a) (fst b) && (snd a =? snd b).
Fixpoint calls_eqb (a b : list call) : bool :=
  match a, b with
  | [], [] => true
  | x :: r, y :: s => call_eqb x y && calls_eqb r s
  | _, _ => false
  end.

Definition observed_calls (o : opc) : list call := map (fun e => (e_kind e, e_tag e)) (o_events o).

(* the whole operation: the tree the MODEL builds for the stated structure, run from the caller's
   handle, yields the observed events one for one (a live operation that completed) *)
Definition op_whole (cp : copies) (R : roles) (o : opc) : bool :=
  match o_desc o with
  | None => true
  | Some ds =>
      o_cancelled o || o_err o
      || calls_eqb (filter not_prepare (run cp (caller_tree R (o_prep o) (o_tag o) (o_derive o) ds) root_handle))
                   (filter not_prepare (observed_calls o))
  end.

(* the model has no failing statement: an operation whose context is live completes *)
Definition model_agrees (c : case) : bool :=
  forallb (fun o => forallb (ev_agrees (c_copies c) (o_tag o)) (o_events o)
                    && (o_cancelled o || negb (o_err o))
                    && op_whole (c_copies c) (c_roles c) o) (c_ops c).

Definition op_spec (o : opc) : bool :=
  (* every driver call made on behalf of the operation received the caller's context *)
  forallb (fun e => e_tag e =? o_tag o) (o_events o)
  (* an already-cancelled context lets no statement run *)
  && (negb (o_cancelled o)
      || (forallb (fun e => e_failed e) (o_events o) && o_err o && o_unchanged o)).

Definition spec_holds (c : case) : bool := forallb op_spec (c_ops c).

Definition check_case (c : case) : N := code_of (model_agrees c) (spec_holds c).
