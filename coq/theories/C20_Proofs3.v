(* C20_Proofs3.v — ReorderModels terminates within the fuel the checker gives it: the recursion of
   insertIntoOrderedList is as deep as the number of models that HAVE dependencies, plus one. *)
From Verif Require Import Base C20_Model.
Open Scope Z_scope.

Section Fuel.
  Variable deps : string -> list string.
  Variable K : list string.                        (* the models that have dependencies (any superset, any order, repeats allowed) *)
  Hypothesis deps_in_K : forall n, deps n <> [] -> In n K.

  Definition memb (x : string) (l : list string) : bool := existsb (String.eqb x) l.
  (* entries of K not marked yet *)
  Definition cnt (marked : list string) : nat := length (filter (fun k => negb (memb k marked)) K).

  Lemma memb_spec : forall x l, memb x l = true <-> In x l.
  Proof.
    intros x l. unfold memb. rewrite existsb_exists. split.
    - intros [y [Hy E]]. apply String.eqb_eq in E. subst y. exact Hy.
    - intro H. exists x. split; [exact H | apply String.eqb_refl].
  Qed.

  Lemma filter_len_le : forall (p q : string -> bool) l,
    (forall x, q x = true -> p x = true) -> (length (filter q l) <= length (filter p l))%nat.
  Proof.
    intros p q l H. induction l as [|x l IH]; cbn; [lia|].
    destruct (q x) eqn:Eq.
    - rewrite (H x Eq). cbn. lia.
    - destruct (p x); cbn; lia.
  Qed.

  Lemma filter_len_lt : forall (p q : string -> bool) l a,
    (forall x, q x = true -> p x = true) -> In a l -> p a = true -> q a = false ->
    (length (filter q l) < length (filter p l))%nat.
  Proof.
    intros p q l a H. induction l as [|x l IH]; intros Hin Hp Hq; [destruct Hin|].
    cbn. destruct Hin as [E|Hin].
    - subst x. rewrite Hp, Hq. cbn. pose proof (filter_len_le p q l H). lia.
    - specialize (IH Hin Hp Hq). destruct (q x) eqn:Eq.
      + rewrite (H x Eq). cbn. lia.
      + destruct (p x); cbn; lia.
  Qed.

  Lemma cnt_antitone : forall m m', incl m m' -> (cnt m' <= cnt m)%nat.
  Proof.
    intros m m' Hi. unfold cnt. apply filter_len_le. intros x Hx.
    apply negb_true_iff in Hx. apply negb_true_iff.
    destruct (memb x m) eqn:E; [|reflexivity].
    apply memb_spec in E. apply Hi in E. apply memb_spec in E. congruence.
  Qed.

  Lemma cnt_mark : forall name m, In name K -> memb name m = false -> (cnt (name :: m) < cnt m)%nat.
  Proof.
    intros name m Hin Hm. unfold cnt. apply filter_len_lt with (a := name).
    - intros x Hx. apply negb_true_iff in Hx. apply negb_true_iff.
      destruct (memb x m) eqn:E; [|reflexivity].
      apply memb_spec in E. assert (X : memb x (name :: m) = true) by (apply memb_spec; right; exact E).
      congruence.
    - exact Hin.
    - rewrite Hm. reflexivity.
    - apply negb_false_iff. apply memb_spec. left. reflexivity.
  Qed.

  Definition ok (f : nat) : Prop :=
    forall name st, (cnt (fst st) < f)%nat ->
      exists st', visit deps f name st = Some st' /\ incl (fst st) (fst st').

  Lemma ofold_ok : forall f, ok f -> forall l st, (cnt (fst st) < f)%nat ->
    exists st', ofold (visit deps f) l st = Some st' /\ incl (fst st) (fst st').
  Proof.
    intros f Hok. induction l as [|a l IH]; intros st Hc; cbn [ofold].
    - exists st. split; [reflexivity | apply incl_refl].
    - destruct (Hok a st Hc) as [st1 [E1 I1]]. rewrite E1.
      assert (Hc1 : (cnt (fst st1) < f)%nat) by (pose proof (cnt_antitone _ _ I1); lia).
      destruct (IH st1 Hc1) as [st2 [E2 I2]]. exists st2. split; [exact E2|].
      eapply incl_tran; eassumption.
  Qed.

  Lemma visit_ok : forall f, ok f.
  Proof.
    induction f as [|f IH]; intros name st Hc; [lia|].
    cbn [visit]. fold (memb name (fst st)).
    destruct (memb name (fst st)) eqn:Em.
    - exists st. split; [reflexivity | apply incl_refl].
    - destruct (deps name) as [|d ds] eqn:Ed.
      + cbn [ofold]. eexists. split; [reflexivity|]. cbn [fst]. apply incl_tl, incl_refl.
      + assert (Hk : In name K) by (apply deps_in_K; rewrite Ed; discriminate).
        pose proof (cnt_mark name (fst st) Hk Em) as Hlt.
        destruct (ofold_ok f IH (d :: ds) (name :: fst st, snd st)) as [st1 [E1 I1]]; [cbn [fst]; lia|].
        rewrite E1. eexists. split; [reflexivity|]. cbn [fst] in *.
        intros x Hx. apply I1. right. exact Hx.
  Qed.

  (* the fuel [S (length K)] always suffices *)
  Theorem reorder_total : forall names, reorder deps (S (length K)) names <> None.
  Proof.
    intro names. unfold reorder.
    destruct (ofold_ok (S (length K)) (visit_ok _) names ([], [])) as [st [E _]].
    - cbn [fst]. unfold cnt. pose proof (filter_len_le (fun _ => true) (fun k => negb (memb k [])) K (fun _ _ => eq_refl)).
      assert (length (filter (fun _ : string => true) K) = length K).
      { clear. induction K as [|x l IHl]; cbn; [reflexivity | rewrite IHl; reflexivity]. }
      lia.
    - rewrite E. discriminate.
  Qed.
End Fuel.

(* the instance the checker evaluates: dependencies given as an association list, fuel = its length + 1 *)
Lemma lookup_in_keys : forall (dl : list (string * list string)) n l, lookup n dl = Some l -> In n (map fst dl).
Proof.
  induction dl as [|[k v] dl IH]; intros n l H; cbn in H; [discriminate|].
  destruct (String.eqb k n) eqn:E.
  - apply String.eqb_eq in E. left. exact E.
  - right. eapply IH. exact H.
Qed.

Theorem reorder_total_assoc : forall dl names, reorder (deps_of dl) (S (length dl)) names <> None.
Proof.
  intros dl names. rewrite <- (map_length fst dl).
  apply reorder_total. intros n Hn. unfold deps_of in Hn.
  destruct (lookup n dl) as [l|] eqn:E; [|contradiction].
  eapply lookup_in_keys. exact E.
Qed.
