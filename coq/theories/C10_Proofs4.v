(* C10_Proofs4.v — round 7, TASK B: the executable specification C10_Spec.spec_case (the predicate the checker
   evaluates on what gorm wrote) holds of the MODEL's own output for Updates(struct) / UpdateColumns(struct):
   every clause at once — exactly the targeted rows, only permitted / selected / non-omitted columns, every
   column the property demands, the value sources, and an error only where a refusal is legitimate. *)
From Verif Require Import Base C10_Model C10_Spec C10_Proofs C10_Proofs2 C10_Proofs3.
Open Scope Z_scope.

(* ---- the rows: the model's key test is the specification's ----------------------------------------------------- *)
Lemma struct_match_key_ok mk : forall ks, struct_match mk ks = key_ok mk ks.
Proof.
  unfold struct_match. induction mk as [|m mk IH]; intros [|k ks]; cbn; try reflexivity.
  now rewrite IH.
Qed.

Lemma existsb_filter {A} (p q : A -> bool) l : existsb q (filter p l) = existsb (fun x => p x && q x) l.
Proof.
  induction l as [|a l IH]; cbn; [reflexivity|]. destruct (p a); cbn; now rewrite IH.
Qed.
Lemma filter_nil_existsb {A} (p : A -> bool) l : match filter p l with [] => true | _ => false end = negb (existsb p l).
Proof. induction l as [|a l IH]; cbn; [reflexivity|]. destruct (p a); cbn; [reflexivity|exact IH]. Qed.

Lemma key_match_mkey_ok mk ks : key_match mk ks = mkey_ok mk ks.
Proof.
  destruct mk as [m|l]; cbn [key_match mkey_ok]; [apply struct_match_key_ok|].
  pose proof (filter_nil_existsb (fun k => negb (k =? 0)) l) as F.
  destruct (filter (fun k => negb (k =? 0)) l) as [|k0 r] eqn:E.
  - symmetry in F. apply negb_true_iff in F. rewrite F. reflexivity.
  - symmetry in F. apply negb_false_iff in F. rewrite F. cbn [negb orb].
    destruct ks as [|k ks]; cbn [hd].
    + apply not_true_is_false. intros H. apply existsb_exists in H. destruct H as (x & _ & H).
      apply andb_prop in H. destruct H as [H1 H2]. apply Z.eqb_eq in H2. subst x. discriminate H1.
    + unfold mem_z. rewrite <- E, existsb_filter. reflexivity.
Qed.

Lemma targeted_in_rows stored mk wh :
  targeted stored mk wh = map fst (filter (in_rows mk wh) stored).
Proof.
  unfold targeted. f_equal. apply filter_ext. intros r. unfold in_rows. now rewrite key_match_mkey_ok.
Qed.

Lemma mem_z_in x l : In x l -> mem_z x l = true.
Proof. intros H. unfold mem_z. apply existsb_exists. exists x. split; [exact H|apply Z.eqb_refl]. Qed.

Lemma no_condition_unconditional mk wh : no_condition mk wh = unconditional mk wh.
Proof. reflexivity. Qed.

Lemma has_cell_cells_for rows set r c k : In r rows -> In (c, k) set -> has_cell (cells_for rows set) r c = true.
Proof.
  intros Hr Ha. unfold has_cell. apply existsb_exists. exists (mk_cell r c k). split.
  - unfold cells_for. apply in_flat_map. exists r. split; [exact Hr|]. apply in_map_iff. now exists (c, k).
  - cbn. now rewrite Z.eqb_refl, String.eqb_refl.
Qed.

Section StructSpec.
Variables (s : schema) (table : string).
Hypothesis Hwf : wf s.

Lemma field_of_col f : In f s -> has_col f = true -> field_of s (f_db f) = Some f.
Proof.
  intros Hin Hc. unfold field_of.
  destruct (find_some_ex (fun g => has_col g && String.eqb (f_db g) (f_db f)) s f Hin) as (y & H1 & H2 & H3).
  { now rewrite Hc, String.eqb_refl. }
  rewrite H1. f_equal. apply andb_prop in H3. destruct H3 as [C E]. apply String.eqb_eq in E.
  destruct Hwf as (W1 & _). apply W1; auto.
Qed.

(* a column of the schema that is assigned survives [canon] *)
Lemma canon_keeps set f k : In f s -> has_col f = true -> In (f_db f, k) set ->
  exists k', In (f_db f, k') (canon s set).
Proof.
  intros Hin Hc Ha. unfold canon.
  destruct (find_some_ex (fun a : assignment => String.eqb (fst a) (f_db f)) set (f_db f, k) Ha (String.eqb_refl _))
    as ([c k'] & F & _ & E).
  cbn in E. apply String.eqb_eq in E. subst c. exists k'. apply in_or_app. left.
  apply in_flat_map. exists f. split; [now apply in_col_fields|]. cbv beta. unfold assignment in F. rewrite F. now left.
Qed.

Theorem struct_update_meets_spec o skip selects omits ps stored mk wh earlier :
  is_struct_update o = Some skip -> local table selects = true -> local table omits = true ->
  let m := run_case s table o selects omits ps stored mk wh None earlier in
  spec_case s table o selects omits ps stored mk wh None (out_cells m) (out_err m) = true.
Proof.
  intros Ho Ls Lo. cbv zeta. rewrite run_case_plain.
  set (p := match ps with p :: _ => p | [] => (0, []) end).
  set (sm := select_and_omit s table selects omits false true).
  set (set_ := assign_struct s sm skip false p).
  set (rows := targeted stored mk wh).
  assert (R : run_op s table o selects omits ps stored mk wh = guarded_update s mk wh rows set_).
  { destruct o; try discriminate Ho; inversion Ho; subst skip; reflexivity. }
  rewrite R. clear R.
  assert (Sh : update_shape o = Some (ShStruct, negb skip)).
  { destruct o; try discriminate Ho; inversion Ho; reflexivity. }
  assert (MF : forall stored', may_fail o p stored' mk wh
               = unconditional mk wh || (1 <? Z.of_nat (length (filter (in_rows mk wh) stored')))).
  { intros st. destruct o; try discriminate Ho; reflexivity. }
  (* the exactness theorem, for every field of the schema *)
  assert (Ex : forall f, In f s -> has_col f = true ->
                 ((exists k, In (f_db f, k) set_) <-> may_update table ShStruct (negb skip) selects omits p f = true)).
  { intros f Hin Hc. unfold set_, sm.
    rewrite (assign_struct_exact s table Hwf selects omits skip false p f Hin Hc Ls Lo).
    rewrite andb_false_r. tauto. }
  (* the update part of the specification, for a SET list that is [canon s set_] or empty *)
  assert (Upd : forall cells, (cells = cells_for rows (canon s set_) \/ (cells = [] /\ set_ = [])) ->
            spec_update s table ShStruct (negb skip) selects omits p
                        (map fst (filter (in_rows mk wh) stored)) cells = true).
  { intros cells Hc. rewrite <- targeted_in_rows. fold rows. unfold spec_update.
    apply andb_true_intro. split.
    - apply forallb_forall. intros x Hx. destruct Hc as [->|[-> _]]; [|contradiction].
      apply cells_for_rows in Hx. destruct Hx as [Hr Ha]. apply canon_in in Ha.
      rewrite (mem_z_in _ _ Hr). cbn [andb].
      destruct (assign_struct_in s table selects omits skip false p _ _ Ha) as (f & Hin & Hcol & Ec & U & K).
      rewrite Ec, (field_of_col f Hin Hcol).
      assert (M : may_update table ShStruct (negb skip) selects omits p f = true).
      { apply (Ex f Hin Hcol). exists (c_src x). now rewrite <- Ec. }
      rewrite M. cbn [andb]. unfold update_src_ok. rewrite K. unfold hooked.
      destruct (negb skip && tracked_update f); reflexivity.
    - apply forallb_forall. intros r Hr. apply andb_true_intro. split.
      + apply forallb_forall. intros f Hin. destruct (must_update _ _ _ _ _ _ f) eqn:Mu; [|reflexivity].
        cbn [negb orb]. unfold must_update in Mu. apply andb_prop in Mu. destruct Mu as [Ma _].
        assert (Hcol : has_col f = true).
        { unfold may_update in Ma. destruct (has_col f); [reflexivity|discriminate Ma]. }
        destruct (proj2 (Ex f Hin Hcol) Ma) as [k Hk].
        destruct Hc as [->|[_ E]]; [|rewrite E in Hk; contradiction].
        destruct (canon_keeps set_ f k Hin Hcol Hk) as [k' Hk'].
        now apply (has_cell_cells_for rows _ r (f_db f) k').
      + apply forallb_forall. intros e _. unfold raw_write. cbn [andb]. now rewrite andb_false_r. }
  unfold spec_case. fold p. unfold guarded_update.
  destruct set_ as [|a l] eqn:Eset.
  - (* nothing to set: the callback ends, nothing is written *)
    cbn [out_cells out_err]. rewrite Sh. destruct o; try discriminate Ho; apply Upd; right; split; reflexivity.
  - destruct (no_condition mk wh) eqn:NC.
    + cbn [out_cells out_err]. rewrite MF, <- no_condition_unconditional, NC. reflexivity.
    + unfold do_update.
      destruct (existsb (fun a0 : string * src => String.eqb (fst a0) (key_name s)) (canon s (a :: l)) && (1 <? Z.of_nat (length rows))) eqn:K; cbn [out_cells out_err].
      * rewrite MF. apply andb_prop in K. destruct K as [_ K].
        unfold rows in K. rewrite targeted_in_rows, map_length in K. apply orb_true_iff. right. exact K.
      * rewrite Sh. destruct o; try discriminate Ho; apply Upd; left; reflexivity.
Qed.
End StructSpec.
