(* Props_C08.v — property C08: theorem statements only. *)
From Verif Require Import Base Sem Where_Model Where_Proofs.

(* Whatever conditions a chain supplies (any number of Where/Not/Or calls in any order, any
   form), the WHERE expressions of a soft-delete statement never contain an OR alternative at
   the top level, and the `deleted_at IS NULL` filter is their last element: the filter is
   always a top-level AND operand of everything the user supplied. *)
Theorem c08_filter_is_toplevel_operand : forall live nlive exprs,
  existsb is_single_or (soft_delete_exprs live nlive exprs) = false
  /\ exists pre, soft_delete_exprs live nlive exprs = pre ++ [XAtom live nlive].
Proof. intros; split; [apply soft_delete_no_toplevel_or | apply soft_delete_last]. Qed.
Print Assumptions c08_filter_is_toplevel_operand.

(* and Where.Build's "move the first non-Or expression to the front" never reorders them *)
Theorem c08_no_reordering : forall live nlive exprs,
  swap_first (soft_delete_exprs live nlive exprs) = soft_delete_exprs live nlive exprs.
Proof. exact soft_delete_no_swap. Qed.
Print Assumptions c08_no_reordering.
