(* Props_C08.v — property C08: theorem statements only. *)
From Verif Require Import Base Sem Where_Model Where_Proofs Where_Render Where_Sem C08_Hist C08_HistProofs C08_Assoc C08_AssocProofs C08_Write C08_WriteProofs.

(* Whatever conditions a chain supplies (any number of Where/Not/Or calls in any order, any
   form), the WHERE expressions of a soft-delete statement never contain an OR alternative at
   the top level, and the `deleted_at IS NULL` filter is their last element: the filter is
   always a top-level AND operand of everything the user supplied. *)
Theorem c08_filter_is_toplevel_operand : forall live nlive exprs,
  existsb is_single_or (soft_delete_exprs live nlive exprs) = false
  /\ exists pre, soft_delete_exprs live nlive exprs = pre ++ [XAtom live nlive].
Proof. intros; split; [apply soft_delete_no_toplevel_or | apply soft_delete_last]. Qed.
Print Assumptions c08_filter_is_toplevel_operand.

(* and Where.Build's "move the first non-Or expression to the front" never reorders them *)
Theorem c08_no_reordering : forall live nlive exprs,
  swap_first (soft_delete_exprs live nlive exprs) = soft_delete_exprs live nlive exprs.
Proof. exact soft_delete_no_swap. Qed.
Print Assumptions c08_no_reordering.

(* MAIN: for every list of user expressions (any chain, leading Or included) the WHERE text of a
   soft-delete statement parses under SQL precedence and means, in Kleene logic and for every
   row valuation,  (the user's conditions read left to right with AND/OR precedence) AND
   (deleted_at IS NULL): no condition form can make a soft-deleted row satisfy it.
   [ok_where] (raw SQL parses; every combined expression is parenthesised by gorm or is a single
   factor) is evaluated by the checker on every case (C08_Check.theorem_applies). *)
Theorem c08_filter_is_conjunct : forall v live nlive exprs E,
  ok_where (soft_delete_exprs live nlive exprs) = true ->
  parse (where_tokens (soft_delete_exprs live nlive exprs)) = Some E ->
  evE v E = tv_and (val_list v exprs) (v live).
Proof. exact soft_delete_filter_conjunct. Qed.
Print Assumptions c08_filter_is_conjunct.

(* and the text does parse, to the explicit tree [toE_where] *)
Theorem c08_where_parses : forall exprs, ok_where exprs = true ->
  parse (where_tokens exprs) = Some (toE_where exprs).
Proof. exact where_parses. Qed.
Print Assumptions c08_where_parses.

Theorem c08_deleted_row_never_selected : forall v live nlive exprs E,
  ok_where (soft_delete_exprs live nlive exprs) = true ->
  parse (where_tokens (soft_delete_exprs live nlive exprs)) = Some E ->
  v live <> TT -> evE v E <> TT.
Proof.
  intros v live nlive exprs E H1 H2 Hl. rewrite (soft_delete_filter_conjunct v live nlive exprs E H1 H2).
  destruct (val_list v exprs), (v live); cbn; congruence.
Qed.
Print Assumptions c08_deleted_row_never_selected.

(* non-vacuity: leading Or of a raw OR condition plus a map condition *)
Example c08_instance :
  let exprs := [XOr [XRaw true [TAtom 1; TOr; TAtom 2]]; XAnd [XAtom 3 53; XAtom 4 54]] in
  ok_where (soft_delete_exprs 40 90 exprs) = true.
Proof. vm_compute. reflexivity. Qed.

(* HISTORIES.  For every history of creates, deletes, updates and reads, scoped or Unscoped, with
   any conditions over the key and the data column, from any table: what a caller who never says
   Unscoped can see of the table afterwards, and the result of every one of his operations, are
   exactly what the same history yields on a plain table that never held the marked rows and on
   which Delete removes rows ("behaves as if the marked rows did not exist"). *)
Theorem c08_history_as_if_absent : forall ops s,
  erase (fst (hrun s ops)) = fst (prun (erase s) ops) /\
  scoped_obs ops (snd (hrun s ops)) = scoped_obs ops (snd (prun (erase s) ops)).
Proof. exact run_sim. Qed.
Print Assumptions c08_history_as_if_absent.

(* a step without Unscoped leaves every marked row as it was, value and stamp *)
Theorem c08_marked_rows_untouched : forall s o r,
  is_scoped o = true -> In r s -> live r = false -> In r (fst (hstep s o)).
Proof. exact marked_untouched. Qed.
Print Assumptions c08_marked_rows_untouched.

(* Delete without Unscoped marks: no row leaves the table *)
Theorem c08_delete_marks : forall s o, is_scoped o = true ->
  map hid (fst (hstep s o)) = map hid s ++ match o with OCreate i _ => [i] | _ => [] end.
Proof. exact scoped_keeps_rows. Qed.
Print Assumptions c08_delete_marks.

(* a repeated Delete changes nothing, not even the stamp of the rows marked by the first *)
Theorem c08_repeated_delete : forall s p t t',
  fst (hstep (fst (hstep s (ODelete p t))) (ODelete p t')) = fst (hstep s (ODelete p t)).
Proof. exact delete_idem. Qed.
Print Assumptions c08_repeated_delete.

(* with Unscoped, Delete removes rows physically and reads see the marked rows again *)
Theorem c08_unscoped_delete_removes : forall s p r, In r (fst (hstep s (OUDelete p))) -> rholds p r = false.
Proof. exact udelete_removes. Qed.
Print Assumptions c08_unscoped_delete_removes.
Theorem c08_unscoped_sees_marked : forall s p r,
  In r s -> rholds p r = true -> In (hid r) (snd (hstep s (OUFind p))).
Proof. exact ufind_sees_marked. Qed.
Print Assumptions c08_unscoped_sees_marked.

(* the premises are satisfiable and the statements not vacuous: a history that marks, re-reads,
   re-deletes and finally removes *)
Example c08_history_example :
  let s0 := [mk_hrow 1 0 None; mk_hrow 2 0 (Some 5); mk_hrow 3 0 None] in
  let ops := [ODelete (HOr (HIds [1]) (HIds [2])) 7; OFind HAll; OUFind HAll; ODelete HAll 8; OUDelete (HIds [1])] in
  hrun s0 ops = ([mk_hrow 2 0 (Some 5); mk_hrow 3 0 (Some 8)], [[1]; [3]; [1; 2; 3]; [1]; [1]]).
Proof. vm_compute. reflexivity. Qed.

(* WRITES THAT NAME THEIR RECORDS THROUGH THE MODEL / DELETE VALUE (one record, or a slice of 0, 1, 2...
   records, single or composite key): [HKeys l] - the keys of the records that have one become a key
   condition, a slice in which no record has a key adds none.  All the theorems above hold for these
   conditions too (they quantify over every condition); in particular, for every table, slice and
   condition of the caller's own: the write changes only live rows that satisfy the caller's condition
   and are named by the slice; a slice that names only marked records changes nothing, reports 0. *)
Theorem c08_slice_named_update_scope : forall s l q v r, In r s ->
  In r (fst (hstep s (OUpdate (HAnd (HKeys l) q) v))) \/
  (live r = true /\ rholds q r = true /\ (named_keys l = [] \/ In (hid r) (named_keys l))).
Proof. exact keys_update_scope. Qed.
Print Assumptions c08_slice_named_update_scope.
Theorem c08_slice_named_delete_scope : forall s l q t r, In r s ->
  In r (fst (hstep s (ODelete (HAnd (HKeys l) q) t))) \/
  (live r = true /\ rholds q r = true /\ (named_keys l = [] \/ In (hid r) (named_keys l))).
Proof. exact keys_delete_scope. Qed.
Print Assumptions c08_slice_named_delete_scope.
Theorem c08_write_naming_marked_records_is_noop : forall s l q v t,
  named_keys l <> [] ->
  (forall r, In r s -> In (hid r) (named_keys l) -> live r = false) ->
  hstep s (OUpdate (HAnd (HKeys l) q) v) = (s, [0]) /\ hstep s (ODelete (HAnd (HKeys l) q) t) = (s, [0]).
Proof. exact keys_of_marked_noop. Qed.
Print Assumptions c08_write_naming_marked_records_is_noop.

Example c08_slice_named_example :
  let s0 := [mk_hrow 1 0 None; mk_hrow 101 0 (Some 5); mk_hrow 3 0 None] in
  hrun s0 [OUpdate (HKeys [101]) 9; OUpdate (HKeys [0; 3]) 7; ODelete (HKeys []) 8; OUUpdate (HKeys [101; 1]) 2]
  = ([mk_hrow 1 2 (Some 8); mk_hrow 101 2 (Some 5); mk_hrow 3 7 (Some 8)], [[0]; [1]; [2]; [2]]).
Proof. vm_compute. reflexivity. Qed.

(* THE WHERE CLAUSE OF A WRITE WHOSE MODEL / DELETE VALUE NAMES RECORDS BY KEY (C08_Write: the functions
   the checker runs on the Update and the Delete statement of every case).  Update: the filter is
   added before the key conditions are appended; for every list of user expressions and every list of
   key conditions (clause.Eq / clause.IN values: atoms) the text parses and means
   (user's conditions) AND (deleted_at IS NULL) AND (every key condition): a marked record is never
   matched, whatever records the value names. *)
Theorem c08_update_key_conditions_are_conjuncts : forall v live nlive user keys E,
  forallb is_atom keys = true ->
  ok_where (update_exprs live nlive user keys) = true ->
  parse (where_tokens (update_exprs live nlive user keys)) = Some E ->
  evE v E = tv_and (tv_and (val_list v user) (v live)) (keys_val v keys).
Proof. exact update_filter_conjunct. Qed.
Print Assumptions c08_update_key_conditions_are_conjuncts.
Theorem c08_update_never_matches_marked : forall v live nlive user keys E,
  forallb is_atom keys = true ->
  ok_where (update_exprs live nlive user keys) = true ->
  parse (where_tokens (update_exprs live nlive user keys)) = Some E ->
  v live <> TT -> evE v E <> TT.
Proof. exact update_never_matches_marked. Qed.
Print Assumptions c08_update_never_matches_marked.
(* Delete: the key conditions are appended first, then everything is grouped under the filter *)
Theorem c08_delete_filter_is_conjunct : forall v live nlive user keys E,
  ok_where (delete_exprs live nlive user keys) = true ->
  parse (where_tokens (delete_exprs live nlive user keys)) = Some E ->
  evE v E = tv_and (val_list v (user ++ keys)) (v live).
Proof. exact delete_filter_conjunct. Qed.
Print Assumptions c08_delete_filter_is_conjunct.
(* the hypothesis "key conditions are atoms" is needed: a key condition added as a single-member Or
   (clause.Or(group) of ONE record without the clause.And wrapper) lets a marked row through *)
Theorem c08_update_single_or_key_refuted :
  exists v live nlive user key E,
    parse (where_tokens (update_exprs live nlive user [XOr [key]])) = Some E /\
    v live = TF /\ evE v E = TT.
Proof. exact single_or_key_refuted. Qed.
Print Assumptions c08_update_single_or_key_refuted.

(* ---- association paths (C08_Assoc: the functions the checker runs on the fixture of every third
   case).  For every related table, parent key, caller condition and ON condition: ---- *)

(* Preload / Association().Find / Count of a has-many relation without Unscoped return what any
   lookup - scoped or not - returns on the table from which the marked rows were removed *)
Theorem c08_assoc_children_as_if_absent : forall u c tbl p,
  children false c tbl p = children u c (erase_a tbl) p
  /\ child_count false c tbl p = child_count u c (erase_a tbl) p.
Proof. intros; split; [apply children_erase | apply child_count_erase]. Qed.
Print Assumptions c08_assoc_children_as_if_absent.

(* none missing, none marked: exactly the live rows of that parent that satisfy the condition *)
Theorem c08_assoc_children_exact : forall c tbl p,
  (forall i, In i (children false c tbl p) ->
     exists r, In r tbl /\ a_id r = i /\ alive r = true /\ a_fk r = p /\ c (a_val r) = true)
  /\ (forall r, In r tbl -> alive r = true -> a_fk r = p -> c (a_val r) = true ->
       In (a_id r) (children false c tbl p)).
Proof. intros; split; [apply children_live | intros r; apply children_complete]. Qed.
Print Assumptions c08_assoc_children_exact.

(* Joins / InnerJoins / Preload of a soft-deletable belongs-to target: the same, whatever the ON
   condition; a marked target is never joined *)
Theorem c08_assoc_joins_as_if_absent : forall u on tbl src k,
  target false on tbl k = target u on (erase_a tbl) k
  /\ left_join false on tbl src = left_join u on (erase_a tbl) src
  /\ inner_join false on tbl src = inner_join u on (erase_a tbl) src.
Proof. intros; repeat split; [apply target_erase | apply left_join_erase | apply inner_join_erase]. Qed.
Print Assumptions c08_assoc_joins_as_if_absent.

Theorem c08_assoc_marked_target_never_joined : forall on tbl k i,
  target false on tbl k = Some i ->
  exists r, In r tbl /\ a_id r = i /\ i = k /\ alive r = true /\ on (a_val r) = true.
Proof. exact target_live. Qed.
Print Assumptions c08_assoc_marked_target_never_joined.

(* the twin tables of the property's quantifier: every live row has a marked copy with identical
   columns.  Without Unscoped every path reports what it reports without the copies; with Unscoped
   a copy is reported exactly where its original is *)
Theorem c08_assoc_twins : forall c on t s p k src, all_live s ->
  children false c (s ++ map (twin t) s) p = children false c s p
  /\ target false on (s ++ map (twin t) s) k = target false on s k
  /\ left_join false on (s ++ map (twin t) s) src = left_join false on s src
  /\ inner_join false on (s ++ map (twin t) s) src = inner_join false on s src
  /\ children true c (s ++ map (twin t) s) p
     = children true c s p ++ map (fun i => i + 100)%Z (children true c s p).
Proof.
  intros c on t s p k src H. repeat split.
  - apply scoped_children_twins; exact H.
  - apply scoped_target_twins; exact H.
  - apply scoped_left_join_twins; exact H.
  - apply scoped_inner_join_twins; exact H.
  - apply unscoped_children_twins.
Qed.
Print Assumptions c08_assoc_twins.

(* a source row that points at a marked copy has no target without Unscoped *)
Theorem c08_assoc_pointer_to_marked : forall on t s k, all_live s -> (forall r, In r s -> a_id r <> k) ->
  target false on (s ++ map (twin t) s) k = None.
Proof. exact target_of_twin_scoped. Qed.
Print Assumptions c08_assoc_pointer_to_marked.

Example c08_assoc_nonvacuous :
  scoped_paths true [(1, 0); (2, 3); (4, 5)] = scoped_paths false [(1, 0); (2, 3); (4, 5)]
  /\ nth 0 (unscoped_paths true [(1, 0); (2, 3)]) [] = [1; 2; 3; 101; 102; 103]%Z
  /\ nth 3 (unscoped_paths true [(1, 0); (2, 3)]) [] = [1; 101]%Z.
Proof. repeat split. Qed.
