(* Props_C08.v — property C08: theorem statements only. *)
From Verif Require Import Base Sem Where_Model Where_Proofs Where_Render Where_Sem.

(* Whatever conditions a chain supplies (any number of Where/Not/Or calls in any order, any
   form), the WHERE expressions of a soft-delete statement never contain an OR alternative at
   the top level, and the `deleted_at IS NULL` filter is their last element: the filter is
   always a top-level AND operand of everything the user supplied. *)
Theorem c08_filter_is_toplevel_operand : forall live nlive exprs,
  existsb is_single_or (soft_delete_exprs live nlive exprs) = false
  /\ exists pre, soft_delete_exprs live nlive exprs = pre ++ [XAtom live nlive].
Proof. intros; split; [apply soft_delete_no_toplevel_or | apply soft_delete_last]. Qed.
Print Assumptions c08_filter_is_toplevel_operand.

(* and Where.Build's "move the first non-Or expression to the front" never reorders them *)
Theorem c08_no_reordering : forall live nlive exprs,
  swap_first (soft_delete_exprs live nlive exprs) = soft_delete_exprs live nlive exprs.
Proof. exact soft_delete_no_swap. Qed.
Print Assumptions c08_no_reordering.

(* MAIN: for every list of user expressions (any chain, leading Or included) the WHERE text of a
   soft-delete statement parses under SQL precedence and means, in Kleene logic and for every
   row valuation,  (the user's conditions read left to right with AND/OR precedence) AND
   (deleted_at IS NULL): no condition form can make a soft-deleted row satisfy it.
   [ok_where] (raw SQL parses; every combined expression is parenthesised by gorm or is a single
   factor) is evaluated by the checker on every case (C08_Check.theorem_applies). *)
Theorem c08_filter_is_conjunct : forall v live nlive exprs E,
  ok_where (soft_delete_exprs live nlive exprs) = true ->
  parse (where_tokens (soft_delete_exprs live nlive exprs)) = Some E ->
  evE v E = tv_and (val_list v exprs) (v live).
Proof. exact soft_delete_filter_conjunct. Qed.
Print Assumptions c08_filter_is_conjunct.

(* and the text does parse, to the explicit tree [toE_where] *)
Theorem c08_where_parses : forall exprs, ok_where exprs = true ->
  parse (where_tokens exprs) = Some (toE_where exprs).
Proof. exact where_parses. Qed.
Print Assumptions c08_where_parses.

Theorem c08_deleted_row_never_selected : forall v live nlive exprs E,
  ok_where (soft_delete_exprs live nlive exprs) = true ->
  parse (where_tokens (soft_delete_exprs live nlive exprs)) = Some E ->
  v live <> TT -> evE v E <> TT.
Proof.
  intros v live nlive exprs E H1 H2 Hl. rewrite (soft_delete_filter_conjunct v live nlive exprs E H1 H2).
  destruct (val_list v exprs), (v live); cbn; congruence.
Qed.
Print Assumptions c08_deleted_row_never_selected.

(* non-vacuity: leading Or of a raw OR condition plus a map condition *)
Example c08_instance :
  let exprs := [XOr [XRaw true [TAtom 1; TOr; TAtom 2]]; XAnd [XAtom 3 53; XAtom 4 54]] in
  ok_where (soft_delete_exprs 40 90 exprs) = true.
Proof. vm_compute. reflexivity. Qed.
