(* C04_Proofs2.v — the invariant of running a block body: the SQL save-point stack keeps the
   frame below the body, the transaction's view of the table is what the specification
   computes from the observed results, the handle stays clean, errors are explained. *)
From Verif Require Import Base C04_Model C04_Check C04_Proofs.
Open Scope Z_scope.

Definition stack := list (spname * tbl).
Definition gen_ok (g : nat) (l : stack) := forall k t, In (NGen k, t) l -> (k < g)%nat.
Definition new_names (g : nat) (old new : stack) :=
  forall nm t, In (nm, t) new ->
    In (nm, t) old \/ (exists k, nm = NGen k /\ (g <= k)%nat) \/ (exists n, nm = NUser n).
Definition body_op (o : opkind * bool) := match fst o with KStmt | KSave | KRbTo => true | _ => false end.
Definition all_fault (l : list cls) := Forall (fun c => c = CErr fault_err) l.
Definition is_ok (r : res) := match r with ROk => true | _ => false end.

Ltac fin := intros; unfold all_fault, stmt_errs_l, save_errs_l; cbn;
  repeat split; try reflexivity; try discriminate; try (repeat constructor; fail); try lia.

Lemma sp_cut_suffix : forall n l snap l', sp_cut n l = Some (snap, l') -> exists pre, l = pre ++ l'.
Proof.
  intros n l; induction l as [|[m t] l IH]; intros snap l' H; cbn [sp_cut] in H; [discriminate|].
  destruct (spname_eqb n m).
  - inversion H; subst. exists []; reflexivity.
  - destruct (IH _ _ H) as [pre Hp]. exists ((m, t) :: pre). cbn; rewrite <- Hp; reflexivity.
Qed.

Lemma app_inv_tail_len : forall (A : Type) (a b c d : list A), a ++ c = b ++ d -> length c = length d -> a = b /\ c = d.
Proof.
  intros A a; induction a as [|x a IH]; intros b c d H L.
  - destruct b as [|y b]; [split; [reflexivity | exact H]|].
    cbn in H. subst c. cbn in L. rewrite app_length in L. lia.
  - destruct b as [|y b].
    + cbn in H. subst d. cbn in L. rewrite app_length in L. lia.
    + cbn in H. inversion H; subst. destruct (IH b c d H2 L) as [A1 A2]. subst; split; reflexivity.
Qed.

(* cut_local, with the information that the surviving part is a suffix of the body's part *)
Lemma cut_local' : forall local avail n base,
  Sub avail (unames local) -> In n avail ->
  exists snap local2 pre, sp_cut (NUser n) (local ++ base) = Some (snap, local2 ++ base)
                      /\ Sub (cutz n avail) (unames local2) /\ local = pre ++ local2.
Proof.
  intros local avail n base HS HI.
  destruct (cut_local local avail n base HS HI) as [snap [local2 [Hc Hs]]].
  exists snap, local2.
  destruct (sp_cut_suffix _ _ _ _ Hc) as [pre Hp].
  (* local ++ base = pre ++ local2 ++ base *)
  rewrite app_assoc in Hp. apply app_inv_tail_len in Hp; [|reflexivity].
  destruct Hp as [Hp _]. exists pre. repeat split; assumption.
Qed.

Section Inv.
Variable E : env.
Hypothesis savepoint_pushes : forall n t, sq_save E n t = ref_save n t.
Hypothesis rollback_to_exact : forall n t, sq_rbto E n t = ref_rbto n t.
Variable C : cfg.
Hypothesis savepoints : c_nosp C = false.   (* the dialector implements save points *)
Variable fault : nat -> bool.
(* nested transactions are in force for the handle the body runs on *)
Definition nest_of (s : st) : bool := negb (c_nonest C || s_nonest s).

(* what a body never changes: the calls that reached database/sql's Tx API, and (without Cancel)
   the state of the context *)
Definition s_logd (s : st) : list txcall * bool * bool := (s_txlog s, s_dead s, s_nonest s).

Definition Inv (base : stack) (ok : bool) (h : option err) (s : st) (t : tbl) (local : stack)
    (l : list obs) (h' : option err) (s' : st) (t' : tbl) (local' : stack) : Prop :=
  s_tx s' = Some (mkTx t' (local' ++ base)) /\
  spec_list (nest_of s) l (t, fu (local ++ base)) = (t', fu (local' ++ base)) /\
  gen_ok (s_gen s') (local' ++ base) /\ (s_gen s <= s_gen s')%nat /\ new_names (s_gen s) local local' /\
  s_db s' = s_db s /\ s_logd s' = s_logd s /\
  forallb prop_ok l = true /\ flags_le (s_fl s) (s_fl s') /\
  exists nops, s_ops s' = nops ++ s_ops s /\ forallb body_op nops = true /\
    (h = None ->
       (ok = true -> h' = None) /\
       all_fault (stmt_errs_l l) /\ (length (stmt_errs_l l) <= countf KStmt nops)%nat /\
       all_fault (save_errs_l l) /\ (length (save_errs_l l) <= countf KSave nops)%nat).

Lemma inv_ok_false : forall base ok h s t local l h' s' t' local',
  Inv base ok h s t local l h' s' t' local' -> Inv base false h s t local l h' s' t' local'.
Proof.
  intros base ok h s t local l h' s' t' local' H.
  destruct H as (A1 & A2 & A3 & A4 & A5 & A6 & A7 & A8 & A9 & nops & B1 & B2 & B3).
  repeat (split; [assumption|]). exists nops. repeat (split; [assumption|]).
  intros Hh. destruct (B3 Hh) as (D1 & D2 & D3 & D4 & D5).
  repeat split; try assumption. discriminate.
Qed.

Lemma new_names_refl : forall g l, new_names g l l.
Proof. intros g l nm t H; left; exact H. Qed.

Lemma new_names_trans : forall g g1 a b c, (g <= g1)%nat ->
  new_names g a b -> new_names g1 b c -> new_names g a c.
Proof.
  intros g g1 a b c L H1 H2 nm t Hin.
  destruct (H2 nm t Hin) as [H|[[k [Ek Lk]]|[n En]]].
  - apply H1; exact H.
  - right; left; exists k; split; [exact Ek | lia].
  - right; right; exists n; exact En.
Qed.

Lemma all_fault_app : forall a b, all_fault a -> all_fault b -> all_fault (a ++ b).
Proof. intros a b; unfold all_fault; intros; apply Forall_app; split; assumption. Qed.

Lemma inv_trans : forall base ok h s t local l1 h1 s1 t1 local1 l2 h2 s2 t2 local2,
  Inv base true h s t local l1 h1 s1 t1 local1 ->
  Inv base ok h1 s1 t1 local1 l2 h2 s2 t2 local2 ->
  Inv base ok h s t local (l1 ++ l2) h2 s2 t2 local2.
Proof.
  intros base ok h s t local l1 h1 s1 t1 local1 l2 h2 s2 t2 local2 H1 H2.
  destruct H1 as (A1 & A2 & A3 & A4 & A5 & A6 & A7 & A8 & A9 & n1 & B1 & B2 & B3).
  destruct H2 as (C1 & C2 & C3 & C4 & C5 & C6 & C7 & C8 & C9 & n2 & D1 & D2 & D3).
  assert (En : nest_of s1 = nest_of s).
  { unfold nest_of. rewrite (f_equal snd A7 : s_nonest s1 = s_nonest s). reflexivity. }
  rewrite En in C2.
  unfold Inv. split; [exact C1|].
  split. { rewrite spec_list_app, A2; exact C2. }
  split; [exact C3|]. split; [lia|].
  split. { eapply new_names_trans; [exact A4 | exact A5 | exact C5]. }
  split; [congruence|]. split; [congruence|].
  split. { rewrite forallb_app, A8, C8; reflexivity. }
  split. { eapply flags_le_trans; eassumption. }
  exists (n2 ++ n1). split. { rewrite D1, B1, app_assoc; reflexivity. }
  split. { rewrite forallb_app, D2, B2; reflexivity. }
  intros Hh.
  destruct (B3 Hh) as (P1 & P2 & P3 & P4 & P5).
  destruct (D3 (P1 eq_refl)) as (Q1 & Q2 & Q3 & Q4 & Q5).
  unfold stmt_errs_l, save_errs_l in *. rewrite !flat_map_app, !app_length, !countf_app.
  split; [exact Q1|]. split; [apply all_fault_app; assumption|]. split; [lia|].
  split; [apply all_fault_app; assumption|]. lia.
Qed.

Lemma gen_ok_incl : forall g g' (a b : stack), gen_ok g a -> (g <= g')%nat -> (forall x, In x b -> In x a) -> gen_ok g' b.
Proof. intros g g' a b H L I k t Hin. specialize (H k t (I _ Hin)). lia. Qed.

(* ---------------------------------------------------------------- statements *)
Lemma write_step : forall m h s e n s1 t local base,
  h_stmt fault (Some m) h s = (e, n, s1) -> s_dead s = false ->
  s_tx s = Some (mkTx t (local ++ base)) -> gen_ok (s_gen s) (local ++ base) ->
  Inv base true h s t local [OW m (cls_oe e)] h s1 (match e with None => t ++ [m] | Some _ => t end) local.
Proof.
  intros m h s e n s1 t local base H Hdead Htx Hg. unfold h_stmt, issue in H. rewrite Hdead in H.
  destruct h as [e0|].
  - inversion H; subst. unfold Inv. repeat (split; [first [assumption | reflexivity | lia | apply new_names_refl | apply flags_le_refl | (unfold s_logd; cbn; congruence)]|]).
    exists []. split; [reflexivity|]. split; [reflexivity|]. fin.
  - rewrite Htx in H. destruct (fault (length (s_ops s))) eqn:Ef; inversion H; subst; unfold Inv;
      cbn [set_tx s_tx s_gen s_db s_txlog s_ops s_fl s_dead s_nonest s_logd cls_oe work sps].
    + repeat (split; [first [assumption | reflexivity | lia | apply new_names_refl | apply flags_le_refl | (unfold s_logd; cbn; congruence)]|]).
      exists [(KStmt, true)]. split; [reflexivity|]. split; [reflexivity|]. fin.
    + repeat (split; [first [assumption | reflexivity | lia | apply new_names_refl | apply flags_le_refl | (unfold s_logd; cbn; congruence)]|]).
      exists [(KStmt, false)]. split; [reflexivity|]. split; [reflexivity|]. fin.
Qed.

Lemma read_step : forall h s e n s1 t local base,
  h_stmt fault None h s = (e, n, s1) -> s_dead s = false ->
  s_tx s = Some (mkTx t (local ++ base)) -> gen_ok (s_gen s) (local ++ base) ->
  Inv base true h s t local [OR (cls_oe e) n] h s1 t local.
Proof.
  intros h s e n s1 t local base H Hdead Htx Hg. unfold h_stmt, issue in H. rewrite Hdead in H.
  destruct h as [e0|].
  - inversion H; subst. unfold Inv. repeat (split; [first [assumption | reflexivity | lia | apply new_names_refl | apply flags_le_refl | (unfold s_logd; cbn; congruence)]|]).
    exists []. split; [reflexivity|]. split; [reflexivity|]. fin.
  - rewrite Htx in H. destruct (fault (length (s_ops s))) eqn:Ef; inversion H; subst; unfold Inv;
      cbn [set_tx s_tx s_gen s_db s_txlog s_ops s_fl s_dead s_nonest s_logd cls_oe work sps].
    + repeat (split; [first [assumption | reflexivity | lia | apply new_names_refl | apply flags_le_refl | (unfold s_logd; cbn; congruence)]|]).
      exists [(KStmt, true)]. split; [reflexivity|]. split; [reflexivity|]. fin.
    + repeat (split; [first [assumption | reflexivity | lia | apply new_names_refl | apply flags_le_refl | (unfold s_logd; cbn; congruence)]|]).
      exists [(KStmt, false)]. split; [reflexivity|]. split; [reflexivity|]. fin.
Qed.

(* ---------------------------------------------------------------- SAVEPOINT / ROLLBACK TO *)
(* outcome of h_sp when no dialector error was dropped *)
Lemma h_sp_cases : forall save nm h s h1 s1 tx,
  h_sp E C fault save nm h s = (h1, s1) -> s_dead s = false -> s_tx s = Some tx -> x_drop (s_fl s1) = false ->
  (* not issued: the handle already carries an error *)
  (exists e0, h = Some e0 /\ c_report C = true /\ h1 = Some (mkErr (e_code e0) true) /\ s1 = s)
  \/ (h = None /\
      let s' := mkSt (s_db s) (s_tx s) ((if save then KSave else KRbTo, fault (length (s_ops s))) :: s_ops s)
                     (s_gen s) (s_txlog s) (s_fl s) (s_dead s) (s_nonest s) in
      (* the injected fault hit it *)
      (fault (length (s_ops s)) = true /\ c_report C = true /\ h1 = Some fault_err /\ s1 = s')
      (* executed *)
      \/ (fault (length (s_ops s)) = false /\ save = true /\ h1 = None /\ s1 = set_tx s' (Some (ref_save nm tx)))
      \/ (fault (length (s_ops s)) = false /\ save = false /\
          exists tx', ref_rbto nm tx = Some tx' /\ h1 = None /\ s1 = set_tx s' (Some tx'))
      \/ (fault (length (s_ops s)) = false /\ save = false /\ c_report C = true /\
          ref_rbto nm tx = None /\ h1 = Some (mkErr ENoSp false) /\ s1 = s')).
Proof.
  intros save nm h s h1 s1 tx H Hdead Htx Hd. unfold h_sp in H. rewrite savepoints in H. unfold exec_sp, issue in H. rewrite Hdead in H.
  destruct h as [e0|].
  - destruct (c_report C) eqn:Er.
    + inversion H; subst. left. exists e0. repeat split; reflexivity.
    + inversion H; subst. cbn in Hd. discriminate.
  - right. split; [reflexivity|]. rewrite Htx in H. cbv zeta. rewrite Htx, Hdead.
    destruct (fault (length (s_ops s))) eqn:Ef.
    + destruct (c_report C) eqn:Er; inversion H; subst; [|cbn in Hd; discriminate].
      left. repeat split; reflexivity.
    + destruct save.
      * rewrite savepoint_pushes in H. right; left.
        destruct (c_report C); inversion H; subst; repeat split; reflexivity.
      * rewrite rollback_to_exact in H. destruct (ref_rbto nm tx) as [tx'|] eqn:Erb.
        -- right; right; left. repeat split. exists tx'.
           destruct (c_report C); inversion H; subst; repeat split; reflexivity.
        -- right; right; right.
           destruct (c_report C) eqn:Er; inversion H; subst; [|cbn in Hd; discriminate].
           repeat split; reflexivity.
Qed.

Lemma save_step : forall n h s h1 s1 t local base,
  h_sp E C fault true (NUser n) h s = (h1, s1) -> s_dead s = false ->
  s_tx s = Some (mkTx t (local ++ base)) -> gen_ok (s_gen s) (local ++ base) ->
  x_drop (s_fl s1) = false ->
  (h1 = None /\ Inv base true h s t local [OS n CNil] None s1 t ((NUser n, t) :: local))
  \/ (exists e, h1 = Some e /\ Inv base false h s t local [OS n (CErr e)] h1 s1 t local).
Proof.
  intros n h s h1 s1 t local base H Hdead Htx Hg Hd.
  destruct (h_sp_cases _ _ _ _ _ _ _ H Hdead Htx Hd) as [[e0 [Eh [Er [E1 Es]]]] | [Eh [K | [K | [K | K]]]]]; cbv zeta in *.
  - right. exists (mkErr (e_code e0) true). split; [exact E1|]. subst.
    unfold Inv. repeat (split; [first [assumption | reflexivity | lia | apply new_names_refl | apply flags_le_refl | (unfold s_logd; cbn; congruence)]|]).
    exists []. split; [reflexivity|]. split; [reflexivity|]. fin.
  - destruct K as [Ef [Er [E1 Es]]]. right. exists fault_err. split; [exact E1|]. subst.
    unfold Inv; cbn [s_tx s_gen s_db s_txlog s_ops s_fl s_dead s_nonest s_logd].
    repeat (split; [first [assumption | reflexivity | lia | apply new_names_refl | apply flags_le_refl | (unfold s_logd; cbn; congruence)]|]).
    exists [(KSave, fault (length (s_ops s)))]. rewrite Ef. split; [reflexivity|]. split; [reflexivity|]. fin.
  - destruct K as [Ef [_ [E1 Es]]]. left. split; [exact E1|]. subst.
    unfold Inv; cbn [set_tx s_tx s_gen s_db s_txlog s_ops s_fl s_dead s_nonest s_logd ref_save work sps].
    split; [reflexivity|]. split; [reflexivity|].
    split. { intros k t0 [Hin|Hin]; [discriminate | eapply Hg; exact Hin]. }
    split; [lia|].
    split. { intros nm t0 [Hin|Hin]; [inversion Hin; subst; right; right; exists n; reflexivity | left; exact Hin]. }
    repeat (split; [first [assumption | reflexivity | apply flags_le_refl | (unfold s_logd; cbn; congruence)]|]).
    exists [(KSave, fault (length (s_ops s)))]. rewrite Ef. split; [reflexivity|]. split; [reflexivity|]. fin.
  - destruct K as [_ [K _]]; discriminate.
  - destruct K as [_ [K _]]; discriminate.
Qed.

Lemma rbto_step : forall n h s h1 s1 t local base avail,
  h_sp E C fault false (NUser n) h s = (h1, s1) -> s_dead s = false ->
  s_tx s = Some (mkTx t (local ++ base)) -> gen_ok (s_gen s) (local ++ base) ->
  Sub avail (unames local) -> In n avail ->
  x_drop (s_fl s1) = false ->
  (h1 = None /\ exists snap local2,
      Inv base true h s t local [ORb n CNil] None s1 snap local2 /\ Sub (cutz n avail) (unames local2))
  \/ (exists e, h1 = Some e /\ Inv base false h s t local [ORb n (CErr e)] h1 s1 t local).
Proof.
  intros n h s h1 s1 t local base avail H Hdead Htx Hg HS HI Hd.
  destruct (cut_local' local avail n base HS HI) as [snap [local2 [pre [Hc [HS2 Hpre]]]]].
  destruct (h_sp_cases _ _ _ _ _ _ _ H Hdead Htx Hd) as [[e0 [Eh [Er [E1 Es]]]] | [Eh [K | [K | [K | K]]]]]; cbv zeta in *.
  - right. exists (mkErr (e_code e0) true). split; [exact E1|]. subst h h1 s1.
    unfold Inv. repeat (split; [first [assumption | reflexivity | lia | apply new_names_refl | apply flags_le_refl | (unfold s_logd; cbn; congruence)]|]).
    exists []. split; [reflexivity|]. split; [reflexivity|]. fin.
  - destruct K as [Ef [Er [E1 Es]]]. right. exists fault_err. split; [exact E1|]. subst h h1 s1.
    unfold Inv; cbn [s_tx s_gen s_db s_txlog s_ops s_fl s_dead s_nonest s_logd].
    repeat (split; [first [assumption | reflexivity | lia | apply new_names_refl | apply flags_le_refl | (unfold s_logd; cbn; congruence)]|]).
    exists [(KRbTo, fault (length (s_ops s)))]. rewrite Ef. split; [reflexivity|]. split; [reflexivity|]. fin.
  - destruct K as [_ [K _]]; discriminate.
  - destruct K as [Ef [_ [tx' [Erb [E1 Es]]]]]. left. split; [exact E1|].
    unfold ref_rbto in Erb; cbn [sps] in Erb. rewrite Hc in Erb. inversion Erb; subst tx'.
    exists snap, local2. split; [|exact HS2]. subst h h1 s1.
    unfold Inv; cbn [set_tx s_tx s_gen s_db s_txlog s_ops s_fl s_dead s_nonest s_logd].
    split; [reflexivity|].
    split. { cbn [spec_list fold_left spec_obs fst snd].
             pose proof (cut_fu n (local ++ base)) as Hcf. rewrite Hc in Hcf. rewrite Hcf. reflexivity. }
    split. { eapply gen_ok_incl; [exact Hg | lia |]. intros x Hx. rewrite Hpre, <- app_assoc.
             apply in_or_app; right; exact Hx. }
    split; [lia|].
    split. { intros nm t0 Hin. left. rewrite Hpre. apply in_or_app; right; exact Hin. }
    repeat (split; [first [assumption | reflexivity | apply flags_le_refl | (unfold s_logd; cbn; congruence)]|]).
    exists [(KRbTo, fault (length (s_ops s)))]. rewrite Ef. split; [reflexivity|]. split; [reflexivity|]. fin.
  - destruct K as [_ [_ [_ [Erb _]]]]. unfold ref_rbto in Erb; cbn [sps] in Erb. rewrite Hc in Erb. discriminate.
Qed.

End Inv.
