(* C01_Proofs6.v — main induction, part 2: comparison builders, arguments of templates, named
   arguments. *)
From Verif Require Import Base C01_Model C01_Stmt C01_Spec C01_Ind C01_Proofs C01_Proofs2 C01_Proofs3 C01_Proofs4 C01_Proofs5.

Section Main.
Variable numbered : bool.
Notation B := (bval numbered).
Notation Q := (Q numbered).
Notation argr_of := (argr_of numbered).
Notation par_of := (par_of numbered).
Notation names_of := (names_of numbered).

Definition all_good (l : list pieces) : Prop := Forall (fun p => goodp p = true) l.

(* ---- Eq / Neq / Gt ... / Like ---- *)
Lemma cmp_build_vars : forall o qc el isnil var,
  vars_of (cmp_build o qc el isnil var) =
  vars_of qc ++ match o with
                | OEq | ONeq => match el with
                                | Some l => List.concat (map vars_of l)
                                | None => if isnil then [] else vars_of var
                                end
                | _ => vars_of var
                end.
Proof.
  intros o qc el isnil var.
  destruct o; cbn [cmp_build]; try (rewrite !vars_of_app, vars_pstr; reflexivity);
    destruct el as [[|p l]|]; try destruct isnil;
    rewrite ?vars_of_app, ?vars_pstr, ?vars_of_sepc by reflexivity; cbn [vars_of app]; rewrite ?List.app_nil_r; reflexivity.
Qed.

Lemma cmp_build_good : forall o qc el isnil var,
  goodp qc = true -> (forall l, el = Some l -> all_good l) -> goodp var = true ->
  goodp (cmp_build o qc el isnil var) = true.
Proof.
  intros o qc el isnil var Hq He Hv.
  assert (S : forall l, el = Some l -> goodp (sepc [PC ","] l) = true).
  { intros l E. apply goodp_sepc; [reflexivity | apply He; exact E]. }
  destruct o; cbn [cmp_build];
    try (repeat apply goodp_app; auto using good_pstr; fail);
    destruct el as [[|p l]|]; try destruct isnil;
    repeat apply goodp_app; auto using good_pstr; try (apply S; reflexivity); reflexivity.
Qed.

(* ---- IN ---- *)
Lemma in_build_vars : forall neg qc vals si,
  vars_of (in_build neg qc vals si) = vars_of qc ++ List.concat (map vars_of vals).
Proof.
  intros neg qc vals si. destruct vals as [|x [|y r]]; cbn [in_build].
  - rewrite vars_of_app, vars_pstr. reflexivity.
  - destruct si; rewrite !vars_of_app, vars_pstr; cbn; rewrite ?List.app_nil_r; reflexivity.
  - rewrite !vars_of_app, vars_pstr, vars_of_sepc by reflexivity. cbn [vars_of app]. rewrite List.app_nil_r. reflexivity.
Qed.
Lemma in_build_good : forall neg qc vals si,
  goodp qc = true -> all_good vals -> goodp (in_build neg qc vals si) = true.
Proof.
  intros neg qc vals si Hq Hv.
  assert (S : goodp (sepc [PC ","] vals) = true) by (apply goodp_sepc; [reflexivity | exact Hv]).
  destruct vals as [|x [|y r]]; cbn [in_build].
  - apply goodp_app; [exact Hq|]. destruct neg; reflexivity.
  - inversion Hv; subst. destruct si; repeat apply goodp_app; auto; destruct neg; reflexivity.
  - apply goodp_app; [exact Hq|]. apply goodp_app; [destruct neg; reflexivity|].
    apply goodp_app; [exact S | reflexivity].
Qed.

(* ---- columns ---- *)
Lemma quoted_facts : forall e c, tinfo_ok e = true -> Her Q c -> wfcol c = true ->
  vars_of (quoted numbered e c) = bvcol c /\ goodp (quoted numbered e c) = true.
Proof.
  intros e c He Hc Hw.
  assert (D : (exists s, c = VQStr s) \/ (quoted numbered e c = B e c /\ bvcol c = bound_values c /\ wfcol c = wfb c)).
  { destruct c; try (right; repeat split; reflexivity). left; eauto. }
  destruct D as [[s ->]|(E1 & E2 & E3)].
  - cbn [quoted bvcol wfcol] in *. split; [apply vars_of_ptext | apply goodp_ptext, clean_quote; exact Hw].
  - rewrite E1, E2. rewrite E3 in Hw. exact (her_q _ _ Hc e He Hw).
Qed.

(* ---- one argument of a template ---- *)
Lemma arg_facts : forall e x, tinfo_ok e = true -> Her Q x -> wfb x = true ->
  vars_of (B e x) = bound_values x /\ goodp (B e x) = true
  /\ vars_of (par_of e x) = bvpar x /\ goodp (par_of e x) = true.
Proof.
  intros e x He Hx Hw. destruct (her_q _ _ Hx e He Hw) as [V G].
  split; [exact V|]. split; [exact G|].
  destruct x; try (split; [exact V | exact G]).
  - (* VS *) destruct s; try (split; reflexivity). cbn [par_of scalar_par bvpar]. destruct (s2l s); split; reflexivity.
  - (* VList *)
    apply her_kids in Hx. cbn [kids] in Hx. cbn [wfb] in Hw.
    destruct l as [|y l']; [destruct k; split; reflexivity|].
    destruct (Q_list numbered e (y :: l') He Hx Hw) as [V' G'].
    destruct k; try (split; [exact V | exact G]);
    (cbn [par_of bvpar];
     split; [rewrite vars_of_sepc by reflexivity; rewrite V'; apply concat_map_flat
            | apply goodp_sepc; [reflexivity | exact G']]).
Qed.

Lemma args_good : forall e vars, tinfo_ok e = true -> Forall (Her Q) vars -> forallb wfb vars = true ->
  Forall arg_good (map (argr_of e) vars).
Proof.
  intros e vars He H. induction H as [|x l Hx Hl IH]; intro Hw; [constructor|].
  cbn in Hw. apply andb_prop in Hw. destruct Hw as [Hw1 Hw2].
  destruct (arg_facts e x He Hx Hw1) as (_ & G & _ & G').
  cbn [map]. constructor; [split; assumption | apply IH; exact Hw2].
Qed.

Lemma zipw_sel : forall e wop vars, tinfo_ok e = true -> Forall (Her Q) vars -> forallb wfb vars = true ->
  forall flags,
  zipw (sel_vars wop) flags (map (argr_of e) vars) =
  zipw (fun (f : bool) (p : list scalar * list scalar) => if f || wop then fst p else snd p) flags
       (map (fun x => (bvpar x, bound_values x)) vars).
Proof.
  intros e wop vars He H. induction H as [|x l Hx Hl IH]; intros Hw flags; [reflexivity|].
  cbn in Hw. apply andb_prop in Hw. destruct Hw as [Hw1 Hw2].
  destruct (arg_facts e x He Hx Hw1) as (V & _ & V' & _).
  destruct flags as [|f flags]; [reflexivity|].
  cbn [map zipw]. rewrite (IH Hw2). f_equal.
  unfold sel_vars. cbn [fst snd a_par a_var argr_of]. destruct (f || wop); assumption.
Qed.

(* positional template *)
Lemma tmpl_ok_elim : forall sl, tmpl_ok sl = true ->
  contains_c "$" sl = false /\ sd sl = false /\ after_q_ok sl = true.
Proof.
  intros sl H. unfold tmpl_ok in H. repeat (apply andb_prop in H; destruct H as [H ?]).
  apply negb_true_iff in H, H1. auto.
Qed.

Lemma positional_facts : forall e wop sql vars, tinfo_ok e = true -> Forall (Her Q) vars ->
  tmpl_ok (s2l sql) = true -> contains_c "@" (s2l sql) = false ->
  count_c "?" (s2l sql) = length vars -> forallb wfb vars = true ->
  vars_of (expr_scan wop (s2l sql) (map (argr_of e) vars) false) = bv_pos wop sql vars
  /\ goodp (expr_scan wop (s2l sql) (map (argr_of e) vars) false) = true.
Proof.
  intros e wop sql vars He H Ht Ha Hc Hw.
  destruct (tmpl_ok_elim _ Ht) as (T1 & T2 & T3).
  split.
  - rewrite expr_scan_vars by (rewrite map_length; exact Hc).
    unfold bv_pos. rewrite (zipw_sel e wop vars He H Hw). reflexivity.
  - apply expr_scan_goodp; try assumption; [rewrite map_length; exact Hc | apply args_good; assumption].
Qed.

Lemma zipw_ext : forall {A B0 C} (f g : A -> B0 -> C), (forall a b, f a b = g a b) ->
  forall l m, zipw f l m = zipw g l m.
Proof.
  intros A B0 C f g H l m. revert l. induction m as [|b m IH]; intros [|a l]; cbn; try reflexivity.
  rewrite H, IH. reflexivity.
Qed.
Lemma bv_pos_false : forall sql vars, bv_pos false sql vars = bv_pos0 sql vars.
Proof.
  intros. unfold bv_pos, bv_pos0. f_equal. apply zipw_ext. intros a b. rewrite orb_false_r. reflexivity.
Qed.

(* ---- named arguments ---- *)
Definition ent_rel (a : string * pieces) (b : string * list scalar) : Prop :=
  fst a = fst b /\ vars_of (snd a) = snd b /\ goodp (snd a) = true.

Lemma names_rel_src : forall e l, tinfo_ok e = true -> Forall (Her Q) l ->
  forallb (fun y => match y with VNamed n z => wfb z | _ => false end) l = true ->
  Forall2 ent_rel (flat_map (fun y => match y with VNamed n z => [(n, B e z)] | _ => [] end) l)
                  (flat_map (fun y => match y with VNamed n z => [(n, bound_values z)] | _ => [] end) l).
Proof.
  intros e l He H. induction H as [|y l Hy Hl IH]; intro Hw; [constructor|].
  cbn [forallb] in Hw. apply andb_prop in Hw. destruct Hw as [Hw1 Hw2].
  destruct y; try discriminate. cbn [flat_map app].
  apply her_kids in Hy. cbn [kids] in Hy. inversion Hy; subst.
  destruct (her_q _ _ H1 e He Hw1) as [V G].
  constructor; [repeat split; assumption | apply IH; exact Hw2].
Qed.

Lemma names_rel : forall e vars, tinfo_ok e = true -> Forall (Her Q) vars ->
  forallb named_arg_ok vars = true ->
  Forall2 ent_rel (flat_map (names_of e) vars) (flat_map bvdefs vars).
Proof.
  intros e vars He H. induction H as [|x l Hx Hl IH]; intro Hw; [constructor|].
  cbn [forallb] in Hw. apply andb_prop in Hw. destruct Hw as [Hw1 Hw2].
  cbn [flat_map]. apply Forall2_app; [|apply IH; exact Hw2].
  destruct x; try discriminate.
  - (* VNamed *) cbn [names_of bvdefs named_arg_ok] in *.
    apply her_kids in Hx. cbn [kids] in Hx. inversion Hx; subst.
    destruct (her_q _ _ H1 e He Hw1) as [V G]. constructor; [repeat split; assumption | constructor].
  - (* VNameSrc *) cbn [names_of bvdefs named_arg_ok] in *.
    apply her_kids in Hx. cbn [kids] in Hx. apply names_rel_src; assumption.
Qed.

Definition acc_rel (a : option pieces) (b : option (list scalar)) : Prop :=
  match a, b with
  | Some p, Some l => vars_of p = l /\ goodp p = true
  | None, None => True
  | _, _ => False
  end.
Lemma lookup_rel : forall nm defs, Forall2 ent_rel nm defs -> forall n a b, acc_rel a b ->
  acc_rel (lookup_last nm n a) (lookup_last_v defs n b).
Proof.
  induction 1 as [|[k p] [k' l] nm defs [E1 [E2 E3]] Hr IH]; intros n a b Hab; [exact Hab|].
  cbn [lookup_last lookup_last_v fst snd] in *. subst k'. apply IH.
  destruct (String.eqb k n); [split; assumption | exact Hab].
Qed.

Lemma lookup_found : forall nm defs, Forall2 ent_rel nm defs -> forall n a,
  (existsb (String.eqb n) (map fst defs) = true \/ exists p, a = Some p /\ goodp p = true) ->
  exists p, lookup_last nm n a = Some p /\ goodp p = true.
Proof.
  induction 1 as [|[k p] [k' l] nm defs [E1 [E2 E3]] Hr IH]; intros n a Ha.
  - destruct Ha as [Ha|Ha]; [discriminate | exact Ha].
  - cbn [lookup_last fst snd map existsb] in *. subst k'. apply IH.
    destruct (String.eqb k n) eqn:E.
    + right. eauto.
    + destruct Ha as [Ha|Ha]; [|right; exact Ha].
      rewrite String.eqb_sym, E in Ha. cbn in Ha. left. exact Ha.
Qed.

Lemma def_names_fst : forall vars, map fst (flat_map bvdefs vars) = flat_map def_names vars.
Proof.
  induction vars as [|x l IH]; [reflexivity|].
  cbn [flat_map]. rewrite map_app, IH. f_equal.
  destruct x; try reflexivity.
  cbn [bvdefs def_names]. induction l0 as [|y l0 IH0]; [reflexivity|].
  cbn [flat_map]. rewrite map_app, IH0. destruct y; reflexivity.
Qed.

Lemma all_names_map : forall e vars, all_names (map (argr_of e) vars) = flat_map (names_of e) vars.
Proof.
  intros e vars. unfold all_names. induction vars as [|x l IH]; [reflexivity|].
  cbn [map flat_map]. rewrite IH. reflexivity.
Qed.

Lemma named_facts : forall e sql vars, tinfo_ok e = true -> Forall (Her Q) vars ->
  tmpl_ok (s2l sql) = true -> contains_c "?" (s2l sql) = false -> forallb named_arg_ok vars = true ->
  forallb (fun n => word_name n && existsb (String.eqb (l2s n)) (flat_map def_names vars)) (names_in (s2l sql) None) = true ->
  let ps := named_scan (all_names (map (argr_of e) vars)) (s2l sql) (map (argr_of e) vars) false [] false in
  vars_of ps = bv_names sql vars /\ goodp ps = true.
Proof.
  intros e sql vars He H Ht Hq Hn Hnames ps.
  destruct (tmpl_ok_elim _ Ht) as (T1 & T2 & T3).
  pose proof (names_rel e vars He H Hn) as R.
  subst ps. rewrite all_names_map. split.
  - rewrite named_scan_vars by exact Hq. cbn [cur_of]. unfold bv_names.
    apply flat_map_ext. intro n. unfold name_vars.
    pose proof (lookup_rel _ _ R (l2s n) None None I) as L. unfold acc_rel in L.
    destruct (lookup_last (flat_map (names_of e) vars) (l2s n) None),
             (lookup_last_v (flat_map bvdefs vars) (l2s n) None); try contradiction; [apply L | reflexivity].
  - assert (NG : Forall (name_good (flat_map (names_of e) vars)) (names_in (s2l sql) (cur_of false []))).
    { cbn [cur_of]. rewrite forallb_forall in Hnames. apply Forall_forall. intros n Hin.
      specialize (Hnames n Hin). apply andb_prop in Hnames. destruct Hnames as [_ Hex].
      unfold name_good. apply (lookup_found _ _ R). left. rewrite def_names_fst. exact Hex. }
    destruct (named_scan_goodq (flat_map (names_of e) vars) (s2l sql) (map (argr_of e) vars) false [] false Hq T1 NG) as [G S].
    apply goodp_of_q; [exact G | apply S; intros _; exact T2].
Qed.

(* both kinds of template, as db.Raw / Statement.AddVar choose the scanner *)
Lemma template_facts : forall e sql vars, tinfo_ok e = true -> Forall (Her Q) vars -> template_ok sql vars = true ->
  let bv := if contains_c "@" (s2l sql) then bv_names sql vars else bv_pos0 sql vars in
  (vars_of (raw_scan (s2l sql) (map (argr_of e) vars)) = bv /\ goodp (raw_scan (s2l sql) (map (argr_of e) vars)) = true)
  /\ (vars_of (B e (VNamedExpr sql vars)) = bv /\ goodp (B e (VNamedExpr sql vars)) = true).
Proof.
  intros e sql vars He H Ht bv. unfold template_ok in Ht.
  apply andb_prop in Ht. destruct Ht as [Ht Hr]. apply andb_prop in Ht. destruct Ht as [Ht _].
  rewrite B_VNamedExpr. unfold raw_scan. subst bv.
  destruct (contains_c "@" (s2l sql)) eqn:Ea.
  - apply andb_prop in Hr. destruct Hr as [Hr Hnames]. apply andb_prop in Hr. destruct Hr as [Hq Hn].
    apply negb_true_iff in Hq.
    pose proof (named_facts e sql vars He H Ht Hq Hn Hnames) as F. cbn zeta in F. split; exact F.
  - apply andb_prop in Hr. destruct Hr as [Hc Hw]. apply Nat.eqb_eq in Hc.
    rewrite named_scan_positional by (rewrite ?map_length; assumption).
    rewrite <- bv_pos_false.
    pose proof (positional_facts e false sql vars He H Ht Ea Hc Hw) as F. split; exact F.
Qed.

End Main.
