(* C17_Proofs2.v — whole histories: after ANY sequence of Register / Before/After(..).Register /
   Replace / Remove calls, a call that returns nil leaves a pipeline that fires every registered,
   non-removed callback exactly once (clause [cl_once] of the checker), for the model of callbacks.go. *)
From Verif Require Import Base C17_Model C17_Check C17_Proofs.
From Coq Require Import Permutation.
Open Scope string_scope.

(* ------------------------------------------------------------------ booleans of the checker *)
Lemma mem_true : forall l s, mem l s = true <-> In s l.
Proof.
  intros l s. unfold mem. rewrite existsb_exists. split.
  - intros (x & Hx & E). apply String.eqb_eq in E. now subst.
  - intro H. exists s. split; [exact H|apply String.eqb_refl].
Qed.

Lemma mem_false : forall l s, mem l s = false <-> ~ In s l.
Proof.
  intros l s. destruct (mem l s) eqn:E.
  - apply mem_true in E. split; [discriminate|contradiction].
  - split; [|reflexivity]. intros _ H. apply mem_true in H. congruence.
Qed.

Lemma nodupb_true : forall l, nodupb l = true <-> NoDup l.
Proof.
  induction l as [|x l IH]; cbn.
  - split; [constructor|reflexivity].
  - rewrite andb_true_iff, negb_true_iff, mem_false, IH. split.
    + intros [A B]. constructor; assumption.
    + intro H. inversion H; subst. split; assumption.
Qed.

Definition live_names (r : rstate) : list string := map e_name (r_live r).

Lemma is_live_true : forall l n, is_live l n = true <-> In n (map e_name l).
Proof.
  intros l n. unfold is_live, named. rewrite existsb_exists, in_map_iff. split.
  - intros (e & He & E). apply String.eqb_eq in E. eauto.
  - intros (e & E & He). exists e. split; [exact He|]. subst. apply String.eqb_refl.
Qed.

(* ------------------------------------------------------------------ processor state vs. the book *)
Record rel (p : proc) (r : rstate) : Prop := {
  rel_names : forall n, In n (map cb_name (p_cs p)) <-> In n (live_names r);
  rel_flags : forall c, In c (p_cs p) -> cb_remove c = false /\ cb_matched c = true;
  rel_nodup : NoDup (live_names r);
  rel_used : incl (live_names r) (r_used r)
}.

Lemma rel_init : rel (mk_proc [] []) r0.
Proof. constructor; cbn; try tauto; try constructor. intros x []. Qed.

Lemma dom_mono : forall r i s, r_dom (ref_apply r i s) = true -> r_dom r = true.
Proof.
  intros r i s. unfold ref_apply.
  destruct (st_kind s).
  - destruct (negb (st_matched s)); cbn; rewrite ?andb_true_iff; tauto.
  - destruct (is_live (r_live r) (st_name s) && unconstrained s); cbn; rewrite ?andb_true_iff; try tauto.
    discriminate.
  - destruct (is_live (r_live r) (st_name s) && unconstrained s); cbn; rewrite ?andb_true_iff; try tauto.
    discriminate.
Qed.

(* compile's filters, on a state whose callbacks are all matched and none a Remove marker *)
Lemma filter_all : forall A (f : A -> bool) l, (forall x, In x l -> f x = true) -> filter f l = l.
Proof.
  intros A f l. induction l as [|x l IH]; intro H; cbn; [reflexivity|].
  rewrite (H x (or_introl eq_refl)). f_equal. apply IH. intros y Hy. apply H. right. exact Hy.
Qed.

Lemma filter_none : forall A (f : A -> bool) l, (forall x, In x l -> f x = false) -> filter f l = [].
Proof.
  intros A f l. induction l as [|x l IH]; intro H; cbn; [reflexivity|].
  rewrite (H x (or_introl eq_refl)). apply IH. intros y Hy. apply H. right. exact Hy.
Qed.

Lemma compile_filter_plain : forall cs c,
  (forall x, In x cs -> cb_remove x = false /\ cb_matched x = true) ->
  cb_remove c = false ->
  compile_filter (cs ++ [c]) = (cs ++ (if cb_matched c then [c] else []))%list.
Proof.
  intros cs c H Hc. unfold compile_filter.
  rewrite !filter_app. cbn. rewrite Hc.
  rewrite (filter_none _ cb_remove cs) by (intros x Hx; apply H, Hx). cbn.
  rewrite (filter_all _ cb_matched cs) by (intros x Hx; apply H, Hx).
  destruct (cb_matched c); reflexivity.
Qed.

Lemma compile_filter_remove : forall cs c,
  (forall x, In x cs -> cb_remove x = false /\ cb_matched x = true) ->
  cb_remove c = true -> cb_matched c = true ->
  compile_filter (cs ++ [c]) = filter (fun x => negb (String.eqb (cb_name c) (cb_name x))) cs.
Proof.
  intros cs c H Hc Hm. unfold compile_filter.
  rewrite !filter_app. cbn. rewrite Hc, Hm.
  rewrite (filter_none _ cb_remove cs) by (intros x Hx; apply H, Hx). cbn.
  rewrite (filter_all _ cb_matched cs) by (intros x Hx; apply H, Hx).
  rewrite String.eqb_refl. cbn. rewrite app_nil_r.
  apply filter_ext. intro x. now rewrite orb_false_r, String.eqb_sym.
Qed.

(* keys carry names and flags *)
Lemma keys_in_names : forall cs cs', map key cs = map key cs' ->
  forall n, In n (map cb_name cs) <-> In n (map cb_name cs').
Proof. intros cs cs' H n. rewrite <- !keys_names, H. tauto. Qed.

Lemma keys_flags : forall cs cs', map key cs = map key cs' ->
  (forall c, In c cs' -> cb_remove c = false /\ cb_matched c = true) ->
  forall c, In c cs -> cb_remove c = false /\ cb_matched c = true.
Proof.
  intros cs cs' Hk Hr c Hc.
  apply (in_map key) in Hc. rewrite Hk in Hc. apply in_map_iff in Hc.
  destruct Hc as (c' & Hkey & Hc'). specialize (Hr c' Hc').
  unfold key in Hkey. injection Hkey as _ H1 _ H2 _. rewrite <- H1, <- H2. exact Hr.
Qed.

Lemma presort_names : forall cs n, In n (map cb_name (presort cs)) <-> In n (map cb_name cs).
Proof.
  intros cs n. split; apply Permutation_in.
  - apply Permutation_map, presort_perm.
  - apply Permutation_sym, Permutation_map, presort_perm.
Qed.

Lemma presort_flags : forall cs,
  (forall c, In c cs -> cb_remove c = false /\ cb_matched c = true) ->
  forall c, In c (presort cs) -> cb_remove c = false /\ cb_matched c = true.
Proof. intros cs H c Hc. apply H. apply (Permutation_in _ (presort_perm cs)). exact Hc. Qed.

(* what a compile of [kept] leaves behind, whichever way it ends *)
Lemma sort_callbacks_rel : forall kept,
  (forall c, In c kept -> cb_remove c = false /\ cb_matched c = true) ->
  match sort_callbacks kept with
  | SOk cs fns =>
      (forall n, In n (map cb_name cs) <-> In n (map cb_name kept))
      /\ (forall c, In c cs -> cb_remove c = false /\ cb_matched c = true)
      /\ NoDup (map fst fns) /\ (forall n, In n (map fst fns) <-> In n (map cb_name kept))
  | SErr cs _ _ =>
      (forall n, In n (map cb_name cs) <-> In n (map cb_name kept))
      /\ (forall c, In c cs -> cb_remove c = false /\ cb_matched c = true)
  | SCyc cs _ =>
      (forall n, In n (map cb_name cs) <-> In n (map cb_name kept))
      /\ (forall c, In c cs -> cb_remove c = false /\ cb_matched c = true)
  end.
Proof.
  intros kept Hf. destruct (sort_callbacks kept) as [cs fns|cs n t|cs n] eqn:E.
  - destruct (sort_callbacks_once _ _ _ E (fun c Hc => proj1 (Hf c Hc))) as (K & ND & IN).
    split; [|split; [|split]]; auto.
    + intro n. rewrite (keys_in_names _ _ K). apply presort_names.
    + apply (keys_flags _ _ K). apply presort_flags, Hf.
  - pose proof (sort_callbacks_err_keys _ _ _ _ E) as K. split.
    + intro m. rewrite (keys_in_names _ _ K). apply presort_names.
    + apply (keys_flags _ _ K). apply presort_flags, Hf.
  - pose proof (sort_callbacks_cyc_keys _ _ _ E) as K. split.
    + intro m. rewrite (keys_in_names _ _ K). apply presort_names.
    + apply (keys_flags _ _ K). apply presort_flags, Hf.
Qed.

(* the book after one call, against the callbacks compile keeps *)
Lemma step_kept : forall p r s i,
  rel p r -> r_dom (ref_apply r i s) = true ->
  let kept := compile_filter (p_cs p ++ [cb_of_step (p_cs p) s i]) in
  let r' := ref_apply r i s in
  (forall n, In n (map cb_name kept) <-> In n (live_names r'))
  /\ (forall c, In c kept -> cb_remove c = false /\ cb_matched c = true)
  /\ NoDup (live_names r') /\ incl (live_names r') (r_used r').
Proof.
  intros p r s i [Hn Hf Hd Hu] Hdom. cbn zeta.
  unfold ref_apply, live_names in *. unfold cb_of_step.
  destruct (st_kind s) eqn:Ek.
  - (* Register *)
    rewrite compile_filter_plain by (auto; reflexivity). cbn [cb_matched].
    destruct (st_matched s) eqn:Em; cbn [negb] in *.
    + cbn in Hdom. rewrite !andb_true_iff, negb_true_iff, !orb_false_iff in Hdom.
      destruct Hdom as (_ & _ & Hmem).
      assert (Hmem' : ~ In (st_name s) (map e_name (r_live r))).
      { intro H. apply is_live_true in H. congruence. }
      cbn [r_live r_used]. rewrite !map_app. cbn.
      split; [|split; [|split]].
      * intro n. rewrite !in_app_iff. rewrite (Hn n). tauto.
      * intros c Hc. apply in_app_iff in Hc. destruct Hc as [Hc|[<-|[]]]; auto.
      * apply nodup_snoc; auto.
      * intros x Hx. apply in_app_iff in Hx. destruct Hx as [Hx|[<-|[]]]; [right; auto|left; reflexivity].
    + cbn [r_live r_used]. rewrite app_nil_r. auto.
  - (* Replace *)
    destruct (is_live (r_live r) (st_name s) && unconstrained s) eqn:El; [|discriminate].
    apply andb_true_iff in El. destruct El as [El Eu].
    unfold unconstrained in Eu. rewrite !andb_true_iff in Eu. destruct Eu as (_ & Em).
    rewrite compile_filter_plain by (auto; reflexivity). cbn [cb_matched]. rewrite Em.
    cbn [r_live r_used].
    assert (Hmap : map e_name (map (fun e => if named (st_name s) e
               then mk_entry (e_name e) (e_before e) (e_after e) i (e_reg e) (e_builtin e) else e) (r_live r))
             = map e_name (r_live r)).
    { rewrite map_map. apply map_ext. intro e. destruct (named (st_name s) e); reflexivity. }
    rewrite Hmap. apply is_live_true in El.
    split; [|split; [|split]]; auto.
    + intro n. rewrite map_app, in_app_iff. cbn. rewrite (Hn n). split; [|tauto].
      intros [H|[<-|[]]]; auto.
    + intros c Hc. apply in_app_iff in Hc. destruct Hc as [Hc|[<-|[]]]; auto.
  - (* Remove *)
    destruct (is_live (r_live r) (st_name s) && unconstrained s) eqn:El; [|discriminate].
    apply andb_true_iff in El. destruct El as [El Eu].
    unfold unconstrained in Eu. rewrite !andb_true_iff in Eu. destruct Eu as (_ & Em).
    rewrite compile_filter_remove by (auto; reflexivity). cbn [cb_name r_live r_used].
    split; [|split; [|split]].
    + intro n. rewrite !in_map_iff. split.
      * intros (c & <- & Hc). apply filter_In in Hc. destruct Hc as [Hc Hne].
        apply negb_true_iff, String.eqb_neq in Hne.
        assert (Hin : In (cb_name c) (map e_name (r_live r))) by (apply Hn, in_map, Hc).
        apply in_map_iff in Hin. destruct Hin as (e & He & Hel). exists e. split; [exact He|].
        apply filter_In. split; [exact Hel|]. unfold named. apply negb_true_iff, String.eqb_neq. congruence.
      * intros (e & <- & He). apply filter_In in He. destruct He as [He Hne].
        unfold named in Hne. apply negb_true_iff, String.eqb_neq in Hne.
        assert (Hin : In (e_name e) (map cb_name (p_cs p))) by (apply Hn, in_map, He).
        apply in_map_iff in Hin. destruct Hin as (c & Hc & Hcl). exists c. split; [exact Hc|].
        apply filter_In. split; [exact Hcl|]. apply negb_true_iff, String.eqb_neq. congruence.
    + intros c Hc. apply filter_In in Hc. apply Hf, Hc.
    + clear - Hd. induction (r_live r) as [|e l IH]; cbn in *; [constructor|].
      inversion Hd; subst. destruct (negb (named (st_name s) e)); cbn; auto.
      constructor; auto. intro H. apply H1. apply in_map_iff in H. destruct H as (x & Hx & Hxl).
      apply filter_In in Hxl. rewrite <- Hx. apply in_map, Hxl.
    + intros x Hx. apply Hu. apply in_map_iff in Hx. destruct Hx as (e & <- & He).
      apply filter_In in He. apply in_map, He.
Qed.

Lemma once_from_sets : forall live f,
  NoDup (map e_name live) -> NoDup (map fst f) ->
  (forall n, In n (map fst f) <-> In n (map e_name live)) ->
  spec_once live f = true.
Proof.
  intros live f Hl Hf Hs. unfold spec_once. rewrite !andb_true_iff. split; [split|].
  - apply Nat.eqb_eq. rewrite <- (map_length fst f), <- (map_length e_name live).
    apply Permutation_length, NoDup_Permutation; assumption.
  - apply nodupb_true, Hf.
  - apply forallb_forall. intros x Hx. apply is_live_true, Hs, in_map, Hx.
Qed.

Lemma run_step_rel : forall p r s i,
  (r_dom r = true -> rel p r) ->
  let r' := ref_apply r i s in
  match run_step p s i with
  | (Some p', o) => (r_dom r' = true -> rel p' r')
                    /\ (r_dom r' = true -> forall f, o = OOk f -> spec_once (r_live r') f = true)
  | (None, o) => o = OCrash
  end.
Proof.
  intros p r s i H. cbn zeta. unfold run_step.
  destruct (r_dom (ref_apply r i s)) eqn:Ed.
  2:{ destruct (sort_callbacks _); split; discriminate. }
  pose proof (H (dom_mono _ _ _ Ed)) as R.
  destruct (step_kept p r s i R Ed) as (Kn & Kf & Kd & Ku).
  pose proof (sort_callbacks_rel _ Kf) as S.
  destruct (sort_callbacks (compile_filter (p_cs p ++ [cb_of_step (p_cs p) s i]))) as [cs fns|cs en et|cs en].
  - destruct S as (Sn & Sf & Sd & Si). split.
    + intros _. constructor; cbn; auto. intro n. rewrite Sn. apply Kn.
    + intros _ f [= <-]. apply once_from_sets; auto. intro n. rewrite Si. apply Kn.
  - destruct S as (Sn & Sf). split.
    + intros _. constructor; cbn; auto. intro n. rewrite Sn. apply Kn.
    + intros _ f. discriminate.
  - destruct S as (Sn & Sf). split.
    + intros _. constructor; cbn; auto. intro n. rewrite Sn. apply Kn.
    + intros _ f. discriminate.
Qed.

Lemma judge_once_from : forall h p r i prev,
  (r_dom r = true -> rel p r) ->
  judge cl_once true r i prev O h (run_from p i h) = true.
Proof.
  induction h as [|s h IH]; intros p r i prev H; cbn [judge run_from]; [reflexivity|].
  pose proof (run_step_rel p r s i H) as RS. cbn zeta in RS.
  destruct (run_step p s i) as [[p'|] o].
  - destruct RS as [R' O']. apply andb_true_iff. split.
    + unfold judge_step. destruct (r_dom (ref_apply r i s)) eqn:Ed; [|reflexivity]. cbn.
      destruct o as [f|m f|]; try reflexivity. unfold cl_once. apply O'; auto.
    + apply IH. exact R'.
  - subst o. apply andb_true_iff. split.
    + unfold judge_step. destruct (r_dom (ref_apply r i s)); reflexivity.
    + destruct h; reflexivity.
Qed.

Theorem history_exactly_once : forall h, judge cl_once true r0 0%N None O h (run h) = true.
Proof. intro h. apply judge_once_from. intros _. exact rel_init. Qed.
