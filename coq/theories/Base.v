(* Base.v — shared helpers for every model.  Stdlib only.  No proofs of properties here. *)
From Coq Require Export List ZArith NArith Bool Arith Lia.
From Coq Require Export Strings.String Strings.Ascii.
Export ListNotations.
(* String.length / String.concat shadow the list functions: restore them *)
Notation length := List.length (only parsing).
Notation concat := List.concat (only parsing).

(* ------------------------------------------------------------------ *)
(* Result codes of a correspondence case (see DESIGN §2 step 4):
     0 = model agrees with the implementation and the spec holds on the observed output
     1 = model disagrees (broken tie), spec still holds on the observed output
     2 = spec fails on the observed output, model agrees (model itself violates spec!)
     3 = spec fails on the observed output and the model disagrees                    *)
Definition code_of (model_agrees spec_holds : bool) : N :=
  match model_agrees, spec_holds with
  | true, true => 0 | false, true => 1 | true, false => 2 | false, false => 3
  end%N.

(* [collect f cases] = the (index, code) pairs of the cases whose code is not 0. *)
Fixpoint collect_from {A} (i : N) (f : A -> N) (l : list A) : list (N * N) :=
  match l with
  | [] => []
  | x :: r => let c := f x in
              if N.eqb c 0 then collect_from (N.succ i) f r
              else (i, c) :: collect_from (N.succ i) f r
  end.
Definition collect {A} (f : A -> N) (l : list A) : list (N * N) := collect_from 0%N f l.

(* ------------------------------------------------------------------ *)
(* decidable equalities used by the checkers *)
Fixpoint list_eqb {A} (eqb : A -> A -> bool) (a b : list A) : bool :=
  match a, b with
  | [], [] => true
  | x :: a', y :: b' => eqb x y && list_eqb eqb a' b'
  | _, _ => false
  end.

Lemma list_eqb_spec {A} (eqb : A -> A -> bool) :
  (forall x y, eqb x y = true <-> x = y) ->
  forall a b, list_eqb eqb a b = true <-> a = b.
Proof.
  intros H a; induction a as [|x a IH]; intros [|y b]; cbn; split; intro E;
    try reflexivity; try discriminate.
  - apply andb_prop in E; destruct E as [E1 E2]. apply H in E1; apply IH in E2; congruence.
  - inversion E; subst. apply andb_true_intro; split; [apply H | apply IH]; reflexivity.
Qed.

Definition option_eqb {A} (eqb : A -> A -> bool) (a b : option A) : bool :=
  match a, b with
  | None, None => true
  | Some x, Some y => eqb x y
  | _, _ => false
  end.

Definition zlist_eqb := list_eqb Z.eqb.
Definition zzlist_eqb := list_eqb (fun a b : Z * Z => Z.eqb (fst a) (fst b) && Z.eqb (snd a) (snd b)).

(* ------------------------------------------------------------------ *)
(* Kleene three-valued logic (SQL truth values) *)
Inductive tv := TT | TF | TU.
Definition tv_and a b := match a, b with TF, _ | _, TF => TF | TT, TT => TT | _, _ => TU end.
Definition tv_or  a b := match a, b with TT, _ | _, TT => TT | TF, TF => TF | _, _ => TU end.
Definition tv_not a   := match a with TT => TF | TF => TT | TU => TU end.
Definition tv_eqb a b := match a, b with TT, TT | TF, TF | TU, TU => true | _, _ => false end.
Definition tv_is_true a := match a with TT => true | _ => false end.

(* generic list helpers *)
Fixpoint lastz (l : list Z) (d : Z) : Z :=
  match l with [] => d | [x] => x | _ :: r => lastz r d end.

Fixpoint sep {A} (s : A) (l : list (list A)) : list A :=
  match l with
  | [] => []
  | [x] => x
  | x :: r => x ++ s :: sep s r
  end.
