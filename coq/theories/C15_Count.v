(* C15_Count.v — Count on a chain that carries a Select (finisher_api.go Count: the
   single-selected-column shortcut).  No proofs here (C15_FillProofs.v has them). *)
From Verif Require Import Base C15_Model C15_Fill.
Open Scope Z_scope.

(* utils.IsValidDBNameChar is the SEPARATOR test of strings.FieldsFunc: letters, digits and
   . * _ $ @ make up a token *)
Definition name_char (c : ascii) : bool :=
  let n := nat_of_ascii c in
  ((48 <=? n) && (n <=? 57))%nat || ((65 <=? n) && (n <=? 90))%nat || ((97 <=? n) && (n <=? 122))%nat
  || (n =? 46)%nat || (n =? 42)%nat || (n =? 95)%nat || (n =? 36)%nat || (n =? 64)%nat.
(* strings.FieldsFunc: the number of tokens of [s]; [inside] = a token is being read *)
Fixpoint count_tokens (s : string) (inside : bool) : nat :=
  match s with
  | EmptyString => O
  | String c r => if name_char c then (if inside then count_tokens r true else S (count_tokens r true))
                  else count_tokens r false
  end.

(* Schema.LookUpField on the fixture's model: a Go field name or a column name -> the column *)
Definition db_name (s : string) : string :=
  if String.eqb s "ID" then "id" else if String.eqb s "V" then "v" else if String.eqb s "N" then "n"
  else if String.eqb s "KeyCopy" then "key_copy" else if String.eqb s "Rank" then "order" else s.

(* what Count counts: [selects] = Statement.Selects.  One entry that is one token: COUNT(column),
   i.e. the rows whose column is not NULL; anything else: count( * ) *)
Definition counts_column (selects : list string) : option string :=
  match selects with
  | [s] => if (count_tokens s false =? 1)%nat && negb (String.eqb s "*") then Some (db_name s) else None
  | _ => None
  end.
Definition count_sel (selects : list string) (ms : list row) : Z :=
  match counts_column selects with
  | Some c => Z.of_nat (length (filter (fun r => match col_value c r with Some _ => true | None => false end) ms))
  | None => Z.of_nat (length ms)
  end.
