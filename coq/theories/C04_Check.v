(* C04_Check.v — correspondence checker for C04.  [model_agrees]: the model, run inside Coq on
   the program / configuration / fault the real gorm just executed, predicts every observation.
   [spec_holds]: the property's statement evaluated on what gorm was OBSERVED to do (the tree of
   per-call results, the driver operations, the table read back through a fresh connection,
   the returned error / panic, the pool counters) — it never calls the model of the code. *)
From Verif Require Export Base C04_Model C04_Single.
Open Scope Z_scope.

Definition ecode_eqb a b :=
  match a, b with
  | EUser x, EUser y => x =? y
  | EFault, EFault | ETxDone, ETxDone | EInvalidTx, EInvalidTx | ENoSp, ENoSp | EUnsupported, EUnsupported | ECanceled, ECanceled | EOther, EOther => true
  | _, _ => false
  end.
Definition err_eqb a b := ecode_eqb (e_code a) (e_code b) && Bool.eqb (e_wrapped a) (e_wrapped b).
Definition cls_eqb a b :=
  match a, b with
  | CNil, CNil => true
  | CErr x, CErr y => err_eqb x y
  | CPanic x, CPanic y => x =? y
  | _, _ => false
  end.
Fixpoint obs_eqb (a b : obs) : bool :=
  match a, b with
  | OW m r, OW m' r' => (m =? m') && cls_eqb r r'
  | OR r n, OR r' n' => cls_eqb r r' && (n =? n')
  | OS n r, OS n' r' => (n =? n') && cls_eqb r r'
  | ORb n r, ORb n' r' => (n =? n') && cls_eqb r r'
  | OC e l x r, OC e' l' x' r' =>
    Bool.eqb e e' && cls_eqb x x' && cls_eqb r r'
    && (fix go (l l' : list obs) : bool :=
          match l, l' with
          | [], [] => true
          | o :: t, o' :: t' => obs_eqb o o' && go t t'
          | _, _ => false
          end) l l'
  | ONN a', ONN b' => obs_eqb a' b'
  | _, _ => false
  end.
Definition opkind_eqb a b :=
  match a, b with
  | KBegin, KBegin | KSave, KSave | KRbTo, KRbTo | KStmt, KStmt | KCommit, KCommit | KRollback, KRollback => true
  | _, _ => false
  end.
Definition op_eqb (a b : opkind * bool) := opkind_eqb (fst a) (fst b) && Bool.eqb (snd a) (snd b).
Definition same_set (a b : list Z) :=
  forallb (fun x => memz x b) a && forallb (fun x => memz x a) b && Nat.eqb (length a) (length b).

Record case := mk_case {
  c_manual : bool; c_prog : prog; c_extra : list bool; c_stray : list bool; c_cfg : cfg; c_fault : option nat;
  (* observed *)
  o_top : obs; o_extra : list cls; o_stray : list cls; o_table : list Z; o_in_use : Z; o_open_tx : Z;
  o_ops : list (opkind * bool);
  (* the variadic transaction options of the outermost Transaction / Begin call (0 = nil pointer) and the
     options the pool's BeginTx received (-1: not observable, the pool is *sql.DB itself) *)
  c_opts : list Z; o_bopt : Z;
  (* Some l: the program is not a block but the calls l made one after the other on the pool handle,
     each write inside the transaction gorm opens for it (o_top = OC true <their results> CNil CNil) *)
  c_single : option (list scall)
}.

Definition model_agrees (c : case) : bool :=
  let '(o, x, s) := run_top ref_env (c_cfg c) (fault_at (c_fault c)) (c_manual c) (c_prog c) (c_extra c) (init_st []) in
  scoped [] (c_prog c) && cancel_ok false (c_prog c)   (* the generator's contract *)
  && obs_eqb o (o_top c)
  && list_eqb cls_eqb x (o_extra c)
  && list_eqb cls_eqb (run_stray (c_stray c)) (o_stray c)
  && same_set (s_db s) (o_table c)
  && list_eqb op_eqb (rev (s_ops s)) (o_ops c)
  && (fst (pool ref_env (rev (s_txlog s))) =? o_in_use c)
  && (snd (pool ref_env (rev (s_txlog s))) =? o_open_tx c)
  && ((o_bopt c =? -1) || (o_bopt c =? begin_opt (c_opts c))).

(* ------------------------------------------------------------------ the property *)
Definition is_nil (c : cls) := match c with CNil => true | _ => false end.
Definition ustack := list (Z * tbl).
Fixpoint ucut (n : Z) (l : ustack) : option (tbl * ustack) :=
  match l with
  | [] => None
  | (n', t) :: r => if n =? n' then Some (t, l) else ucut n r
  end.

(* What the transaction's view of the table must be after the observed calls:
   a write that reported success is there; a block function that returned nil keeps what it did;
   one that failed undoes exactly its own writes (nested transactions enabled) or nothing
   (disabled); RollbackTo n undoes exactly what happened after SavePoint n. *)
Fixpoint spec_obs (nest : bool) (o : obs) (ts : tbl * ustack) : tbl * ustack :=
  match o with
  | OW m CNil => (fst ts ++ [m], snd ts)
  | OS n CNil => (fst ts, (n, fst ts) :: snd ts)
  | ORb n CNil => match ucut n (snd ts) with Some (t, l) => (t, l) | None => ts end
  | OC _ body exit _ =>
    let ts' := fold_left (fun a x => spec_obs nest x a) body ts in
    match exit with CNil => ts' | _ => if nest then ts else ts' end
  | ONN o' => spec_obs false o' ts   (* nested transactions disabled for this call and below: nothing undone by itself *)
  | _ => ts
  end.
Definition spec_list (nest : bool) (l : list obs) (a : tbl * ustack) : tbl * ustack :=
  fold_left (fun a x => spec_obs nest x a) l a.

Definition commit_ok (ops : list (opkind * bool)) :=
  existsb (fun o => opkind_eqb (fst o) KCommit && negb (snd o)) ops.
Definition faulted (k : opkind) (ops : list (opkind * bool)) :=
  existsb (fun o => opkind_eqb (fst o) k && snd o) ops.

(* all durable iff the function returned nil and the commit succeeded, else none *)
Definition spec_final (nest : bool) (top : obs) (ops : list (opkind * bool)) (t0 : tbl) : tbl :=
  match top with
  | OC entered body exit _ =>
    if entered && is_nil exit && commit_ok ops then fst (spec_list nest body (t0, [])) else t0
  | _ => t0
  end.

(* errors and panics propagate unchanged; a nested block whose function returned nil returns
   nil; a block that was not entered reports why *)
Fixpoint prop_ok (o : obs) : bool :=
  match o with
  | OC entered body exit ret =>
    (if is_nil exit then (if entered then is_nil ret else negb (is_nil ret)) else cls_eqb ret exit)
    && forallb prop_ok body
  | ONN o' => prop_ok o'
  | _ => true
  end.
(* the outermost call: nil iff function returned nil and the commit succeeded; a failed
   BEGIN / COMMIT is returned as is *)
Definition top_ok (top : obs) (ops : list (opkind * bool)) : bool :=
  match top with
  | OC entered body exit ret =>
    (if is_nil exit
     then (if entered && commit_ok ops then is_nil ret else cls_eqb ret (CErr fault_err))
     else cls_eqb ret exit)
    && forallb prop_ok body
  | _ => false
  end.

(* "leaves the enclosing transaction usable": a statement or SavePoint call reports an error
   only when an injected fault hit it, and then reports exactly that fault *)
Fixpoint stmt_errs (o : obs) : list cls :=
  match o with
  | OW _ r | OR r _ => if is_nil r then [] else [r]
  | OC _ body _ _ => flat_map stmt_errs body
  | ONN o' => stmt_errs o'
  | _ => []
  end.
Fixpoint save_errs (o : obs) : list cls :=
  match o with
  | OS _ r => if is_nil r then [] else [r]
  | OC _ body _ _ => flat_map save_errs body
  | ONN o' => save_errs o'
  | _ => []
  end.
Fixpoint rb_errs (o : obs) : list cls :=
  match o with
  | ORb _ r => if is_nil r then [] else [r]
  | OC _ body _ _ => flat_map rb_errs body
  | ONN o' => rb_errs o'
  | _ => []
  end.
Definition countf (k : opkind) (ops : list (opkind * bool)) : nat :=
  length (filter (fun o => opkind_eqb (fst o) k && snd o) ops).
Definition errs_explained (errs : list cls) (k : opkind) (ops : list (opkind * bool)) : bool :=
  forallb (fun e => cls_eqb e (CErr fault_err)) errs && Nat.leb (length errs) (countf k ops).
Definition usable (top : obs) (ops : list (opkind * bool)) : bool :=
  errs_explained (stmt_errs top) KStmt ops && errs_explained (save_errs top) KSave ops.

(* with a dialector that has no save points a SavePoint / RollbackTo call reports exactly
   ErrUnsupportedDriver (that is not a failure of the enclosing transaction); in a program that
   cancels the context of a block, calls made under that context report context.Canceled *)
Definition is_canceled (e : cls) := cls_eqb e (CErr canceled_err).
Definition usable_cfg (nosp cancels : bool) (top : obs) (ops : list (opkind * bool)) : bool :=
  let stmts := if cancels then filter (fun e => negb (is_canceled e)) (stmt_errs top) else stmt_errs top in
  let saves := if cancels then filter (fun e => negb (is_canceled e)) (save_errs top) else save_errs top in
  errs_explained stmts KStmt ops
  && (if nosp
      then forallb (fun e => cls_eqb e (CErr (mkErr EUnsupported false))) (save_errs top ++ rb_errs top)
      else errs_explained saves KSave ops).

(* a Commit issued after the transaction has ended cannot have committed anything: it must
   report an error (true = Commit in the list of further calls) *)
Fixpoint extras_ok (calls : list bool) (res : list cls) : bool :=
  match calls, res with
  | c :: cs, r :: rs => (negb c || negb (is_nil r)) && extras_ok cs rs
  | _, _ => true
  end.

(* outside the atomicity statement: the database refused the ROLLBACK TO of a failing block
   (a faulted ROLLBACK TO that no RollbackTo call of the program reported) *)
Definition rb_refused (top : obs) (ops : list (opkind * bool)) : bool :=
  faulted KRbTo ops && negb (existsb (fun e => cls_eqb e (CErr fault_err)) (rb_errs top)).

Definition spec_holds (c : case) : bool :=
  (o_in_use c =? 0) && (o_open_tx c =? 0)
  && (rb_refused (o_top c) (o_ops c)
      || (same_set (o_table c) (spec_final (negb (c_nonest (c_cfg c))) (o_top c) (o_ops c) [])
          && top_ok (o_top c) (o_ops c)
          && usable_cfg (c_nosp (c_cfg c)) (negb (plain_prog (c_prog c))) (o_top c) (o_ops c)
          && extras_ok (c_extra c) (o_extra c))).

(* ------------------------------------------------------------------ single calls outside a block *)
Definition single_agrees (c : case) (l : list scall) : bool :=
  let '(o, s) := run_singles (c_cfg c) (fault_at (c_fault c)) l (init_st []) in
  obs_eqb (OC true o CNil CNil) (o_top c)
  && same_set (s_db s) (o_table c)
  && list_eqb op_eqb (rev (s_ops s)) (o_ops c)
  && (fst (pool ref_env (rev (s_txlog s))) =? o_in_use c)
  && (snd (pool ref_env (rev (s_txlog s))) =? o_open_tx c).

(* the property for one write call (the block gorm puts around it): the write is durable iff the call
   reported no error; a call reports an error iff a fault hit one of its own driver operations
   (BEGIN, the statement, COMMIT - a failing ROLLBACK comes on top of a failed statement), and then
   reports that fault; the transaction is finished and the connection back in the pool *)
Definition is_fault (c : cls) := match c with CErr e => ecode_eqb (e_code e) EFault | _ => false end.
Definition single_kept (l : list obs) : tbl :=
  flat_map (fun o => match o with OW m CNil => [m] | _ => [] end) l.
Definition countf3 (ops : list (opkind * bool)) : nat := (countf KBegin ops + countf KStmt ops + countf KCommit ops)%nat.
Definition single_ok (body : list obs) (ops : list (opkind * bool)) (t0 table : tbl) : bool :=
  same_set table (t0 ++ single_kept body)
  && forallb is_fault (flat_map stmt_errs body)
  && Nat.eqb (length (flat_map stmt_errs body)) (countf3 ops).
Definition single_spec (c : case) : bool :=
  (o_in_use c =? 0) && (o_open_tx c =? 0)
  && match o_top c with
     | OC _ body _ _ => single_ok body (o_ops c) [] (o_table c)
     | _ => false
     end.

Definition check_case (c : case) : N :=
  match c_single c with
  | Some l => code_of (single_agrees c l) (single_spec c)
  | None => code_of (model_agrees c) (spec_holds c)
  end.
