(* C17_Plugin5.v — the plugin domain, part 5: the whole property holds on every plugin-style history. *)
From Verif Require Import Base C17_Model C17_Check C17_Known C17_Proofs C17_Proofs2 C17_Proofs3
  C17_Plugin C17_Plugin2 C17_Plugin3 C17_Plugin4.
From Coq Require Import Permutation.
Open Scope string_scope.
Open Scope list_scope.

Section Main.
Variables BN MN : list string.
Notation pinv := (pinv BN MN).
Notation bi_step := (bi_step BN MN).
Notation user_step := (user_step BN MN).

Definition ok_step (r : rstate) (s : step) : Prop := bi_step s \/ (user_step s /\ incl BN (r_used r)).

Inductive ok_hist : rstate -> N -> list step -> Prop :=
| ok_nil : forall r i, ok_hist r i []
| ok_cons : forall r i s h, ok_step r s -> ok_hist (ref_apply r i s) (N.succ i) h -> ok_hist r i (s :: h).

Lemma step_any : forall p r B U s i,
  pinv p r B U -> r_dom (ref_apply r i s) = true -> ok_step r s ->
  exists B' U', compile_filter (p_cs p ++ [cb_of_step s i]) = B' ++ U'
                /\ forall fns, pinv (mk_proc (B' ++ U') fns) (ref_apply r i s) B' U'.
Proof.
  intros p r B U s i I Hdom Hs. destruct (st_kind s) eqn:Ek.
  - eapply step_register; eauto.
  - eapply step_replace; eauto.
  - eapply step_remove; eauto.
Qed.

Definition the_clause : clause := cl_and cl_handler (cl_and cl_sides (cl_and cl_builtin cl_replace)).

(* prev: the answer to the previous call; when it was nil, it is the order the simple procedure gives *)
Definition prev_link (p : proc) (prev : option obs) : Prop :=
  forall g, prev = Some (OOk g) -> simple_loop [] (p_cs p) = Some (map fst g).

Lemma replace_same_order : forall B U n i s,
  simple_ok B U -> In n (map cb_name (B ++ U)) ->
  simple_loop [] (B ++ U) = Some s ->
  simple_loop [] ((B ++ U) ++ [mk_cb n "" "" false true true i]) = Some s.
Proof.
  intros B U n i s OK Hn Hs. rewrite simple_loop_app, Hs. cbn [simple_loop].
  rewrite simple_cb_plain by (split; reflexivity). cbn [cb_name].
  assert (HsU : simple_loop (map cb_name B) U = Some s).
  { rewrite simple_loop_app in Hs.
    rewrite (simple_loop_plain B [] (so_plain _ _ OK) (so_nodup _ _ OK) (fun _ _ H => H)) in Hs. exact Hs. }
  destruct (simple_loop_props _ _ _ HsU (so_nodup _ _ OK)) as (_ & G & _ & A & _).
  assert (Hin : In n s).
  { rewrite map_app in Hn. apply in_app_iff in Hn. destruct Hn as [Hn|Hn]; [apply G, Hn|].
    apply in_map_iff in Hn. destruct Hn as (c & <- & Hc). apply A, Hc. }
  unfold simple_finish. apply absent_false in Hin. now rewrite Hin.
Qed.

Lemma run_plugin : forall h p r i prev B U,
  ok_hist r i h ->
  (r_dom r = true -> pinv p r B U /\ prev_link p prev) ->
  judge the_clause false r i prev O h (run_from p i h) = true.
Proof.
  induction h as [|s h IH]; intros p r i prev B U OKH Inv; [reflexivity|].
  inversion OKH as [|r0' i0 s0 h0 Hs Hrest]; subst.
  cbn [judge run_from].
  destruct (r_dom (ref_apply r i s)) eqn:Hdom.
  2:{ (* out of the domain from here on: nothing is judged *)
      destruct (run_step p s i) as [[p'|] o].
      - apply andb_true_iff. split; [unfold judge_step; now rewrite Hdom|].
        apply (IH p' _ _ _ [] []); [exact Hrest|intro H; congruence].
      - apply andb_true_iff. split; [unfold judge_step; now rewrite Hdom|]. destruct h; reflexivity. }
  destruct (dom_parts _ _ _ Hdom) as [Hd0 _].
  destruct (Inv Hd0) as [I PL].
  destruct (step_any p r B U s i I Hdom Hs) as (B' & U' & Ekept & I').
  unfold run_step. rewrite Ekept.
  pose proof (pinv_simple_ok _ _ _ _ _ _ (I' [])) as OK'.
  pose proof (simple_compile B' U' OK') as SC.
  destruct (simple_loop [] (B' ++ U')) as [srt|] eqn:Esl.
  - rewrite SC. set (f := pick (B' ++ U') (map cb_name (B' ++ U')) srt).
    destruct (pinv_clauses _ _ _ _ _ _ srt (I' f) Esl) as (Hfst & Hh & Hsd & Hb). fold f in Hfst, Hh, Hsd, Hb.
    apply andb_true_iff. split.
    + unfold judge_step. rewrite Hdom. cbn. unfold the_clause, cl_and, cl_handler, cl_sides, cl_builtin, cl_replace.
      rewrite Hh, Hsd, Hb. cbn.
      (* Replace keeps the order *)
      unfold spec_replace. destruct (st_kind s) eqn:Ek; try reflexivity.
      destruct prev as [[g|m g|]|]; try reflexivity.
      specialize (PL g eq_refl).
      apply (proj2 (list_eqb_spec String.eqb String.eqb_eq _ _)). rewrite Hfst.
      (* the new list is the old one plus a plain copy of a live name *)
      revert Ekept Hdom. unfold ref_apply, cb_of_step. rewrite Ek.
      destruct (is_live (r_live r) (st_name s) && unconstrained s) eqn:El; [|discriminate].
      apply andb_true_iff in El. destruct El as [El Eu].
      unfold unconstrained in Eu. rewrite !andb_true_iff in Eu. destruct Eu as ((Eb & Ea) & Em).
      unfold is_none in Eb, Ea. apply String.eqb_eq in Eb, Ea.
      rewrite compile_filter_plain by (auto using (rel_flags _ _ (pi_rel _ _ _ _ _ _ I)); reflexivity).
      cbn [cb_matched]. rewrite Em, Eb, Ea. intros Ekept _.
      pose proof (pinv_simple_ok _ _ _ _ _ _ I) as OK.
      assert (Hn : In (st_name s) (map cb_name (B ++ U))).
      { rewrite <- (pi_cs _ _ _ _ _ _ I). apply (rel_names _ _ (pi_rel _ _ _ _ _ _ I)). apply is_live_true, El. }
      rewrite (pi_cs _ _ _ _ _ _ I) in PL, Ekept.
      pose proof (replace_same_order B U (st_name s) i _ OK Hn PL) as RS.
      rewrite Ekept in RS. rewrite Esl in RS. now injection RS as <-.
    + apply (IH _ _ _ _ B' U'); [exact Hrest|]. intros _. split; [apply I'|].
      intros g [= <-]. cbn [p_cs]. now rewrite Esl, Hfst.
  - destruct SC as (en & et & SC). rewrite SC.
    apply andb_true_iff. split; [unfold judge_step; rewrite Hdom; reflexivity|].
    apply (IH _ _ _ _ B' U'); [exact Hrest|]. intros _. split; [apply I'|]. intros g. discriminate.
Qed.

End Main.
