(* C17_Plugin5.v — the plugin domain, part 5: the whole property holds on every plugin-style history. *)
From Verif Require Import Base C17_Model C17_Check C17_Known C17_Proofs C17_Proofs2 C17_Proofs3
  C17_Plugin C17_Plugin2 C17_Plugin3 C17_Plugin4.
From Coq Require Import Permutation.
Open Scope string_scope.
Open Scope list_scope.

Section Main.
Variables BN MN : list string.
Notation pinv := (pinv BN MN).
Notation bi_step := (bi_step BN MN).
Notation user_step := (user_step BN MN).

Definition ok_step (r : rstate) (s : step) : Prop := bi_step s \/ (user_step s /\ incl BN (r_used r)).

Inductive ok_hist : rstate -> N -> list step -> Prop :=
| ok_nil : forall r i, ok_hist r i []
| ok_cons : forall r i s h, ok_step r s -> ok_hist (ref_apply r i s) (N.succ i) h -> ok_hist r i (s :: h).

Lemma step_any : forall p r B U s i,
  pinv p r B U -> r_dom (ref_apply r i s) = true -> ok_step r s ->
  exists B' U', compile_filter (p_cs p ++ [cb_of_step (p_cs p) s i]) = B' ++ U'
                /\ forall fns, pinv (mk_proc (B' ++ U') fns) (ref_apply r i s) B' U'.
Proof.
  intros p r B U s i I Hdom Hs. destruct (st_kind s) eqn:Ek.
  - eapply step_register; eauto.
  - eapply step_replace; eauto.
  - eapply step_remove; eauto.
Qed.

Definition the_clause : clause := cl_and cl_handler (cl_and cl_sides (cl_and cl_builtin cl_replace)).

(* prev: the answer to the previous call; when it was nil, it is the order the simple procedure gives *)
Definition prev_link (p : proc) (prev : option obs) : Prop :=
  forall g, prev = Some (OOk g) -> simple_loop [] (p_cs p) = Some (map fst g).

Lemma replace_same_order : forall B U n i s,
  simple_ok B U -> In n (map cb_name (B ++ U)) ->
  simple_loop [] (B ++ U) = Some s ->
  simple_loop [] ((B ++ U) ++ [mk_cb n "" "" false true true i]) = Some s.
Proof.
  intros B U n i s OK Hn Hs. rewrite simple_loop_app, Hs. cbn [simple_loop].
  rewrite simple_cb_plain by (split; reflexivity). cbn [cb_name].
  assert (HsU : simple_loop (map cb_name B) U = Some s).
  { rewrite simple_loop_app in Hs.
    rewrite (simple_loop_plain B [] (so_plain _ _ OK) (so_nodup _ _ OK) (fun _ _ H => H)) in Hs. exact Hs. }
  destruct (simple_loop_props _ _ _ HsU (so_nodup _ _ OK)) as (_ & G & _ & A & _).
  assert (Hin : In n s).
  { rewrite map_app in Hn. apply in_app_iff in Hn. destruct Hn as [Hn|Hn]; [apply G, Hn|].
    apply in_map_iff in Hn. destruct Hn as (c & <- & Hc). apply A, Hc. }
  unfold simple_finish. apply absent_false in Hin. now rewrite Hin.
Qed.

Lemma run_plugin : forall h p r i prev B U,
  ok_hist r i h ->
  (r_dom r = true -> pinv p r B U /\ prev_link p prev) ->
  judge the_clause false r i prev O h (run_from p i h) = true.
Proof.
  induction h as [|s h IH]; intros p r i prev B U OKH Inv; [reflexivity|].
  inversion OKH as [|r0' i0 s0 h0 Hs Hrest]; subst.
  cbn [judge run_from].
  destruct (r_dom (ref_apply r i s)) eqn:Hdom.
  2:{ (* out of the domain from here on: nothing is judged *)
      destruct (run_step p s i) as [[p'|] o].
      - apply andb_true_iff. split; [unfold judge_step; now rewrite Hdom|].
        apply (IH p' _ _ _ [] []); [exact Hrest|intro H; congruence].
      - apply andb_true_iff. split; [unfold judge_step; now rewrite Hdom|]. destruct h; reflexivity. }
  destruct (dom_parts _ _ _ Hdom) as [Hd0 _].
  destruct (Inv Hd0) as [I PL].
  destruct (step_any p r B U s i I Hdom Hs) as (B' & U' & Ekept & I').
  unfold run_step. rewrite Ekept.
  pose proof (pinv_simple_ok _ _ _ _ _ _ (I' [])) as OK'.
  pose proof (simple_compile B' U' OK') as SC.
  destruct (simple_loop [] (B' ++ U')) as [srt|] eqn:Esl.
  - rewrite SC. set (f := pick (B' ++ U') (map cb_name (B' ++ U')) srt).
    destruct (pinv_clauses _ _ _ _ _ _ srt (I' f) Esl) as (Hfst & Hh & Hsd & Hb). fold f in Hfst, Hh, Hsd, Hb.
    apply andb_true_iff. split.
    + unfold judge_step. rewrite Hdom. cbn. unfold the_clause, cl_and, cl_handler, cl_sides, cl_builtin, cl_replace.
      rewrite Hh, Hsd, Hb. cbn.
      (* Replace keeps the order *)
      unfold spec_replace. destruct (st_kind s) eqn:Ek; try reflexivity.
      destruct prev as [[g|m g|]|]; try reflexivity.
      specialize (PL g eq_refl).
      apply (proj2 (list_eqb_spec String.eqb String.eqb_eq _ _)). rewrite Hfst.
      (* the new list is the old one plus a plain copy of a live name *)
      assert (Hns : forall c, In c (p_cs p) -> nostar c).
      { rewrite (pi_cs _ _ _ _ _ _ I). apply simple_ok_nostar. exact (pinv_simple_ok _ _ _ _ _ _ I). }
      revert Ekept Hdom. unfold ref_apply, cb_of_step. rewrite Ek.
      rewrite (replace_fields_nostar _ s Hns). cbn [fst snd].
      destruct (is_live (r_live r) (st_name s) && unconstrained s) eqn:El; [|discriminate].
      apply andb_true_iff in El. destruct El as [El Eu].
      unfold unconstrained in Eu. rewrite !andb_true_iff in Eu. destruct Eu as ((Eb & Ea) & Em).
      unfold is_none in Eb, Ea. apply String.eqb_eq in Eb, Ea.
      rewrite compile_filter_plain by (auto using (rel_flags _ _ (pi_rel _ _ _ _ _ _ I)); reflexivity).
      cbn [cb_matched]. rewrite Em, Eb, Ea. intros Ekept _.
      pose proof (pinv_simple_ok _ _ _ _ _ _ I) as OK.
      assert (Hn : In (st_name s) (map cb_name (B ++ U))).
      { rewrite <- (pi_cs _ _ _ _ _ _ I). apply (rel_names _ _ (pi_rel _ _ _ _ _ _ I)). apply is_live_true, El. }
      rewrite (pi_cs _ _ _ _ _ _ I) in PL, Ekept.
      pose proof (replace_same_order B U (st_name s) i _ OK Hn PL) as RS.
      rewrite Ekept in RS. rewrite Esl in RS. now injection RS as <-.
    + apply (IH _ _ _ _ B' U'); [exact Hrest|]. intros _. split; [apply I'|].
      intros g [= <-]. cbn [p_cs]. now rewrite Esl, Hfst.
  - destruct SC as (en & et & SC). rewrite SC.
    apply andb_true_iff. split; [unfold judge_step; rewrite Hdom; reflexivity|].
    apply (IH _ _ _ _ B' U'); [exact Hrest|]. intros _. split; [apply I'|]. intros g. discriminate.
Qed.

End Main.

(* ------------------------------------------------------------------ the domain, as a decidable predicate *)
Definition matched_names (h : list step) : list string := map st_name (filter st_matched h).

Definition tgt_b (BN MN : list string) (t : string) : bool :=
  is_none t || (negb (is_star t) && (mem BN t || negb (mem MN t))).
Definition bi_step_b (s : step) : bool :=
  st_builtin s && match st_kind s with KRegister => true | _ => false end
  && is_none (st_before s) && is_none (st_after s).
Definition user_step_b (BN MN : list string) (s : step) : bool :=
  negb (st_builtin s) && tgt_b BN MN (st_before s) && tgt_b BN MN (st_after s)
  && match st_kind s with KRegister => negb (mem BN (st_name s)) | _ => true end.
(* bs: the default registration; us: the user's calls.  Their Before/After requests name a matched
   built-in of bs (live or removed by then) or a name under which no call of the history registers
   anything; never "*"; no user callback is registered under the name of a (removed) built-in. *)
Definition plugin_hist (bs us : list step) : bool :=
  forallb bi_step_b bs
  && forallb (user_step_b (matched_names bs) (matched_names (bs ++ us))) us.

Lemma tgt_b_tgt : forall BN MN t, tgt_b BN MN t = true -> tgt BN MN t.
Proof.
  intros BN MN t H. unfold tgt_b in H. apply orb_true_iff in H. destruct H as [H|H]; [left; exact H|].
  right. apply andb_true_iff in H. destruct H as [Hs Hm]. apply negb_true_iff in Hs. split; [exact Hs|].
  apply orb_true_iff in Hm. destruct Hm as [Hm|Hm]; [left; apply mem_true, Hm|].
  right. apply negb_true_iff in Hm. apply mem_false, Hm.
Qed.

Lemma matched_names_in : forall h s, In s h -> st_matched s = true -> In (st_name s) (matched_names h).
Proof. intros h s Hs Hm. unfold matched_names. apply in_map. apply filter_In. auto. Qed.

Lemma used_register : forall r i s, st_kind s = KRegister -> st_matched s = true ->
  In (st_name s) (r_used (ref_apply r i s)).
Proof. intros r i s Hk Hm. unfold ref_apply. rewrite Hk, Hm. cbn. left. reflexivity. Qed.

Lemma ok_hist_users : forall BN MN us r i,
  Forall (user_step BN MN) us -> incl BN (r_used r) -> ok_hist BN MN r i us.
Proof.
  induction us as [|s us IH]; intros r i HF Hi; [constructor|].
  inversion HF; subst. constructor.
  - right. split; assumption.
  - apply IH; [assumption|]. eapply incl_tran; [exact Hi|apply used_mono].
Qed.

Lemma ok_hist_build : forall BN MN bs us r i,
  Forall (bi_step BN MN) bs -> Forall (user_step BN MN) us ->
  incl BN (r_used r ++ matched_names bs) -> ok_hist BN MN r i (bs ++ us).
Proof.
  induction bs as [|b bs IH]; intros us r i HB HU Hi; cbn [app].
  - apply ok_hist_users; [exact HU|]. unfold matched_names in Hi. cbn in Hi. now rewrite app_nil_r in Hi.
  - inversion HB as [|x l Hb Hbs]; subst. constructor; [left; exact Hb|].
    apply IH; [exact Hbs|exact HU|].
    intros x Hx. apply Hi in Hx. apply in_app_iff in Hx. apply in_app_iff.
    destruct Hx as [Hx|Hx]; [left; apply used_mono, Hx|].
    unfold matched_names in Hx. cbn in Hx. destruct (st_matched b) eqn:Em.
    + cbn in Hx. destruct Hx as [<-|Hx]; [|right; exact Hx].
      left. destruct Hb as (_ & Hk & _). apply used_register; assumption.
    + right. exact Hx.
Qed.

Lemma pinv_init : forall BN MN, pinv BN MN (mk_proc [] []) r0 [] [].
Proof.
  intros BN MN. constructor; cbn; try tauto; try reflexivity.
  - exact rel_init.
  - intros x [].
Qed.

Theorem plugin_correct : forall bs us,
  plugin_hist bs us = true ->
  spec_from r0 0%N None O (bs ++ us) (run (bs ++ us)) = true.
Proof.
  intros bs us H. unfold plugin_hist in H. apply andb_true_iff in H. destruct H as [HB HU].
  set (BN := matched_names bs). set (MN := matched_names (bs ++ us)).
  assert (FB : Forall (bi_step BN MN) bs).
  { apply Forall_forall. intros s Hs. rewrite forallb_forall in HB. specialize (HB s Hs).
    unfold bi_step_b in HB. rewrite !andb_true_iff in HB. destruct HB as (((Hb & Hk) & Hbf) & Haf).
    unfold is_none in Hbf, Haf. apply String.eqb_eq in Hbf, Haf.
    repeat split; auto.
    - destruct (st_kind s); congruence.
    - unfold BN. apply matched_names_in; assumption.
    - unfold MN. apply matched_names_in; [apply in_app_iff; left|]; assumption. }
  assert (FU : Forall (user_step BN MN) us).
  { apply Forall_forall. intros s Hs. rewrite forallb_forall in HU. specialize (HU s Hs).
    unfold user_step_b in HU. rewrite !andb_true_iff, negb_true_iff in HU. destruct HU as (((Hb & Tb) & Ta) & Hk).
    split; [exact Hb|]. split; [apply tgt_b_tgt, Tb|]. split; [apply tgt_b_tgt, Ta|]. split.
    - intro Hm. unfold MN. apply matched_names_in; [apply in_app_iff; right|]; assumption.
    - intro Ek. rewrite Ek in Hk. apply negb_true_iff, mem_false in Hk. exact Hk. }
  assert (OK : ok_hist BN MN r0 0%N (bs ++ us)).
  { apply ok_hist_build; auto. intros x Hx. apply in_app_iff. right. exact Hx. }
  pose proof (run_plugin BN MN (bs ++ us) (mk_proc [] []) r0 0%N None [] [] OK
               (fun _ => conj (pinv_init BN MN) (fun g (E : None = Some (OOk g)) => match E with eq_refl => Logic.I end))) as RP.
  fold (run (bs ++ us)) in RP.
  unfold spec_from, spec_ok. rewrite judge_and. fold the_clause. rewrite RP, andb_true_r.
  rewrite judge_crash, history_exactly_once, andb_true_r.
  rewrite judge_crash in RP. apply andb_true_iff in RP. apply RP.
Qed.
