(* C18_Proofs2.v — the operation trees of C18_Ops.v carry the caller's context: for every roles record
   whose literals keep the context and whose sites pass it on, every PrepareStmt mode and every
   operation structure (induction over the nested structure, no bounds). *)
From Verif Require Import Base C18_Model C18_Ops C18_Proofs.
Open Scope Z_scope.

(* induction over operation structures (nested lists) *)
Section OpInd.
  Variable P : opdesc -> Prop.
  Hypothesis Hstmt : forall k, P (DStmt k).
  Hypothesis Hraw : P DRawExec.
  Hypothesis Hop : forall t xs ys, Forall P xs -> Forall P ys -> P (DOp t xs ys).
  Fixpoint opdesc_ind' (d : opdesc) : P d :=
    match d with
    | DStmt k => Hstmt k
    | DRawExec => Hraw
    | DOp t xs ys =>
        Hop t xs ys
          ((fix go (ds : list opdesc) : Forall P ds :=
              match ds with [] => Forall_nil P | x :: r => Forall_cons x (opdesc_ind' x) (go r) end) xs)
          ((fix go (ds : list opdesc) : Forall P ds :=
              match ds with [] => Forall_nil P | x :: r => Forall_cons x (opdesc_ind' x) (go r) end) ys)
    end.
End OpInd.

Lemma op_go_eq : forall R prep ds,
  (fix go (ds : list opdesc) : list node := match ds with [] => [] | x :: r => op_tree R prep x ++ go r end) ds
  = flat_map (op_tree R prep) ds.
Proof. intros R prep ds. induction ds as [|x r IH]; [reflexivity|]. cbn [flat_map]. rewrite IH. reflexivity. Qed.

Lemma op_tree_op : forall R prep t xs ys,
  op_tree R prep (DOp t xs ys) = build R prep t (op_trees R prep xs) (op_trees R prep ys).
Proof. intros. cbn [op_tree]. rewrite !op_go_eq. reflexivity. Qed.

Lemma forallb_flat_map {A B} (p : B -> bool) (f : A -> list B) (l : list A) :
  Forall (fun x => forallb p (f x) = true) l -> forallb p (flat_map f l) = true.
Proof. induction 1 as [|x r Hx _ IH]; [reflexivity|]. cbn [flat_map]. rewrite forallb_app, Hx, IH. reflexivity. Qed.

Lemma existsb_flat_map {A B} (p : B -> bool) (f : A -> list B) (l : list A) :
  Forall (fun x => existsb p (f x) = false) l -> existsb p (flat_map f l) = false.
Proof. induction 1 as [|x r Hx _ IH]; [reflexivity|]. cbn [flat_map]. rewrite existsb_app, Hx, IH. reflexivity. Qed.

Ltac split_ands :=
  repeat match goal with
         | H : (_ && _)%bool = true |- _ => apply andb_prop in H; destruct H
         | H : true = true |- _ => clear H
         end.
Ltac use_hyps :=
  repeat match goal with
         | H : ?x = true |- context [?x] => rewrite H
         | H : ?x = false |- context [?x] => rewrite H
         end.

(* ---------------------------------------------------------------- every literal and site of a tree is good *)
Lemma build_ok : forall R prep t xs ys, roles_ok R = true ->
  forallb node_ok xs = true -> forallb node_ok ys = true -> forallb node_ok (build R prep t xs ys) = true.
Proof.
  intros R prep t xs ys HR Hx Hy.
  unfold roles_ok, roles_lits in HR. cbn [forallb] in HR. split_ands.
  destruct t as [deftx k| | | |k|lookup target| | |sp rb| | |own|m2m| | |limit|found|tx];
    try destruct deftx; try (destruct k as [k|]); try destruct k; try destruct lookup; try destruct target;
    try destruct sp; try destruct rb; try destruct own; try destruct m2m; try destruct limit; try destruct found;
    try destruct tx; destruct prep;
    try (destruct xs as [|x0 xs0]); try (destruct ys as [|y0 ys0]);
    unfold build, begin_node, stmt, raw_exec, preload_of, site_of, wsite_of, ckind_of;
    repeat (rewrite ?forallb_app; cbn [forallb node_ok map snd fst andb app]);
    cbn [forallb node_ok] in Hx, Hy; split_ands; use_hyps; reflexivity.
Qed.

Lemma build_no_rebind : forall R prep t xs ys,
  existsb has_rebind xs = false -> existsb has_rebind ys = false -> existsb has_rebind (build R prep t xs ys) = false.
Proof.
  intros R prep t xs ys Hx Hy.
  destruct t as [deftx k| | | |k|lookup target| | |sp rb| | |own|m2m| | |limit|found|tx];
    try destruct deftx; try (destruct k as [k|]); try destruct k; try destruct lookup; try destruct target;
    try destruct sp; try destruct rb; try destruct own; try destruct m2m; try destruct limit; try destruct found;
    try destruct tx; destruct prep;
    try (destruct xs as [|x0 xs0]); try (destruct ys as [|y0 ys0]);
    unfold build, begin_node, stmt, raw_exec, preload_of;
    repeat (rewrite ?existsb_app; cbn [existsb has_rebind orb app]);
    cbn [existsb has_rebind] in Hx, Hy;
    repeat match goal with H : (_ || _)%bool = false |- _ => apply orb_false_elim in H; destruct H end;
    use_hyps; reflexivity.
Qed.

Theorem ops_ok : forall R prep d, roles_ok R = true -> forallb node_ok (op_tree R prep d) = true.
Proof.
  intros R prep d HR. induction d as [k | | t xs ys IHx IHy] using opdesc_ind'.
  - pose proof (build_ok R prep (TFind k) [] [] HR eq_refl eq_refl) as H. cbn [build preload_of] in H. exact H.
  - unfold roles_ok in HR. cbn [forallb] in HR. split_ands. cbn. use_hyps. reflexivity.
  - rewrite op_tree_op. apply build_ok; [exact HR | |]; apply forallb_flat_map; assumption.
Qed.

Theorem ops_no_rebind : forall R prep d, existsb has_rebind (op_tree R prep d) = false.
Proof.
  intros R prep d. induction d as [k | | t xs ys IHx IHy] using opdesc_ind'.
  - cbn. unfold stmt. destruct prep; reflexivity.
  - reflexivity.
  - rewrite op_tree_op. apply build_no_rebind; apply existsb_flat_map; assumption.
Qed.

Lemma ops_list_ok : forall R prep ds, roles_ok R = true -> forallb node_ok (op_trees R prep ds) = true.
Proof. intros R prep ds HR. apply forallb_flat_map. apply Forall_forall. intros d _. apply ops_ok. exact HR. Qed.

Lemma ops_list_no_rebind : forall R prep ds, existsb has_rebind (op_trees R prep ds) = false.
Proof. intros R prep ds. apply existsb_flat_map. apply Forall_forall. intros d _. apply ops_no_rebind. Qed.

(* ---------------------------------------------------------------- hence: every call carries the context *)
Lemma run_nodes_ctx : forall cp ns h, copies_ok cp = true ->
  forallb node_ok ns = true -> existsb has_rebind ns = false ->
  Forall (fun kc => snd kc = h_ctx h) (run_list cp ns h).
Proof.
  intros cp ns h C OK NR. unfold run_list. rewrite run_list_eq.
  apply Forall_forall. intros kc Hin. apply in_flat_map in Hin. destruct Hin as (n & Hn & Hkc).
  assert (On : node_ok n = true) by (rewrite forallb_forall in OK; apply OK; exact Hn).
  assert (Rn : has_rebind n = false).
  { destruct (has_rebind n) eqn:E; [|reflexivity]. exfalso.
    assert (existsb has_rebind ns = true) by (apply existsb_exists; exists n; auto). congruence. }
  pose proof (ctx_preserved cp n h C On Rn) as F. rewrite Forall_forall in F. apply F. exact Hkc.
Qed.

Theorem ops_ctx_preserved : forall cp R prep d h, copies_ok cp = true -> roles_ok R = true ->
  Forall (fun kc => snd kc = h_ctx h) (run_list cp (op_tree R prep d) h).
Proof. intros. apply run_nodes_ctx; [assumption | apply ops_ok; assumption | apply ops_no_rebind]. Qed.

Definition derive_ok (derive : option slit) : bool :=
  match derive with Some l => session_keeps_ctx l | None => true end.

Lemma caller_tree_ok : forall R prep tag derive ds, roles_ok R = true -> derive_ok derive = true ->
  node_ok (caller_tree R prep tag derive ds) = true.
Proof.
  intros R prep tag derive ds HR HD. unfold caller_tree. destruct derive as [l|]; cbn [node_ok forallb].
  - cbn in HD. rewrite HD, ops_list_ok by exact HR. reflexivity.
  - apply ops_list_ok. exact HR.
Qed.

(* what check_case evaluates: the caller binds the handle to [tag] (WithContext / Session{Context}),
   optionally derives a further session, and issues the finisher calls [ds]: every driver call of every
   one of them carries [tag], whatever handle the caller started from *)
Theorem ops_caller_ctx : forall cp R prep tag derive ds h,
  copies_ok cp = true -> roles_ok R = true -> derive_ok derive = true ->
  Forall (fun kc => snd kc = tag) (run cp (caller_tree R prep tag derive ds) h).
Proof.
  intros cp R prep tag derive ds h C HR HD.
  rewrite run_expected by (try assumption; apply caller_tree_ok; assumption).
  unfold caller_tree. cbn [expected].
  apply Forall_forall. intros kc Hin. apply in_flat_map in Hin. destruct Hin as (n & Hn & Hkc).
  assert (NR : has_rebind n = false).
  { destruct derive as [l|].
    - destruct Hn as [<-|[]]. cbn [has_rebind]. apply ops_list_no_rebind.
    - destruct (has_rebind n) eqn:E; [|reflexivity]. exfalso.
      assert (existsb has_rebind (op_trees R prep ds) = true) by (apply existsb_exists; exists n; auto).
      rewrite ops_list_no_rebind in H. discriminate. }
  pose proof (expected_no_rebind n tag NR) as F. rewrite Forall_forall in F. apply F. exact Hkc.
Qed.

Section CancelledOps.
  Variable done : ctx -> bool.
  Variable reaches_driver : call -> bool.
  Hypothesis sql_refuses_done : forall k c, done c = true -> reaches_driver (k, c) = false.

  Theorem ops_cancelled_runs_nothing : forall cp R prep tag derive ds h,
    copies_ok cp = true -> roles_ok R = true -> derive_ok derive = true -> done tag = true ->
    filter reaches_driver (run cp (caller_tree R prep tag derive ds) h) = [].
  Proof.
    intros cp R prep tag derive ds h C HR HD D.
    pose proof (ops_caller_ctx cp R prep tag derive ds h C HR HD) as F.
    induction F as [|[k c] r Hc _ IH]; [reflexivity|].
    cbn [snd] in Hc. cbn [filter]. rewrite Hc, sql_refuses_done by exact D. exact IH.
  Qed.
End CancelledOps.

(* ---------------------------------------------------------------- non-vacuity *)
Definition roles_now : roles :=
  mk_roles (mk_slit FStmt true false false) (mk_slit FAbsent true false false) (mk_slit FAbsent false false false)
    (mk_slit FAbsent true false false) (mk_slit FAbsent false false true) (mk_slit FAbsent true false false)
    (mk_slit FAbsent false false true) (mk_slit FAbsent true false false) (mk_slit FStmt true true true)
    (mk_slit FStmt false false true) (mk_slit FAbsent false false false) (mk_slit FAbsent false false false)
    (mk_slit FAbsent false false false) (mk_slit FAbsent false false false) (mk_slit FAbsent false false false)
    (mk_slit FAbsent false true false) (mk_slit FAbsent false false true) (mk_slit FAbsent false false false)
    (mk_slit FAbsent false false false) (mk_slit FAbsent false false false) (mk_slit FAbsent true false false)
    (mk_slit FAbsent false false false) FStmt FStmt FStmt FStmt FParam FParam FParam FParam FParam.

(* Create of a user with a company (and its offices), pets (with toys), languages + join rows in the
   default transaction, then Find with Preload of Pets.Toys and Langs *)
Definition demo_ops : list opdesc :=
  [DOp (TWrite true (Some SQuery))
     [DOp TAssocSave [DOp (TWrite false (Some SQuery)) [] [DOp TAssocSave [DOp (TWrite false (Some SQuery)) [] []] []]] []]
     [DOp TAssocSave [DOp (TWrite false (Some SQuery)) [] [DOp TAssocSave [DOp (TWrite false (Some SQuery)) [] []] []]] [];
      DOp TAssocSave [DOp (TWrite false (Some SQuery)) [] []] [];
      DOp TJoinSave [DOp (TWrite false (Some SExec)) [] []] []];
   DOp (TFind SQuery) [DOp (TRel true true) [] []; DOp (TRel false true) [DOp (TRel false true) [] []] []] []].

Example demo_ops_run :
  roles_ok roles_now = true
  /\ run cp_all (caller_tree roles_now false 7 (Some (mk_slit FAbsent true false true)) demo_ops) (mk_h 0 1)
     = [(KBegin, 7); (KQuery, 7); (KQuery, 7); (KQuery, 7); (KQuery, 7); (KQuery, 7); (KQuery, 7); (KExec, 7);
        (KQuery, 7); (KQuery, 7); (KQuery, 7); (KQuery, 7); (KQuery, 7)]
  /\ length (run cp_all (caller_tree roles_now true 7 None demo_ops) (mk_h 0 1)) = 25%nat.
Proof. repeat split. Qed.

(* a literal of the record that stops keeping the context is seen by the model: the preloads lose it *)
Example bad_role_loses_ctx :
  let R := mk_roles (r_begin roles_now) (r_txblock roles_now) (r_savepoint roles_now) (r_assoc0 roles_now) (r_assoc1 roles_now)
             (r_join0 roles_now) (r_join1 roles_now) (r_delassoc roles_now) (r_preload roles_now)
             (mk_slit FBackground false false true)
             (r_am roles_now) (r_am_save0 roles_now) (r_am_save1 roles_now) (r_am_write roles_now) (r_am_cond roles_now)
             (r_save0 roles_now) (r_save1 roles_now) (r_foc roles_now) (r_fib0 roles_now) (r_fib1 roles_now) (r_fib2 roles_now)
             (r_cib roles_now) FStmt FStmt FStmt FStmt FParam FParam FParam FParam FParam in
  roles_ok R = false
  /\ run cp_all (caller_tree R false 7 None [DOp (TFind SQuery) [DOp (TRel true true) [] []] []]) (mk_h 0 1)
     = [(KQuery, 7); (KQuery, 0); (KQuery, 0)].
Proof. repeat split. Qed.
