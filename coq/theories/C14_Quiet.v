(* C14_Quiet.v — what a goroutine of the cache can be WAITING for.
   A refinement of the interleaving semantics of C14_Model.v by the one blocking rule of
   database/sql that the cache relies on, sql.Stmt.Close versus the executions of that statement
   (database/sql/sql.go: Stmt.closemu, an RWMutex):
     - Stmt.ExecContext / QueryContext hold closemu.RLock() while the driver executes;
     - Stmt.Close starts with closemu.Lock(): it waits for the executions in flight, and from that
       call on a new execution of the same statement queues behind it (Go's RWMutex: a pending
       writer blocks new readers) and then finds the statement closed;
     - inside a transaction the cache executes Tx.StmtContext(stmt), a different *sql.Stmt: it neither
       holds nor waits for the closemu of the cached statement.
   The refined state [qstate] = a state of the model + the closer goroutines that are inside
   Stmt.Close() (with the statement they close).  [stepQ] = [stepL] with:
     - a closer goroutine (pc C1 with a statement, or D0) first CALLS Close (internal step: it becomes
       pending), and closes (the step of the model) only once no pool-level execution of the statement
       is inside the driver;
     - a pool-level X0 (the call of stmt.ExecContext) is not enabled while a Close of its statement is
       pending.
   Every run of [stepQ] is a run of the model with stutter steps ([C14_QuietProofs.reachQ_reach]), so all
   theorems about reachable states carry over.  The checker follows the recorded trace with [stepQ]
   and compares, at the points where the harness found every goroutine parked or blocked, WHO is
   blocked ([quiet_on], [stuck_on]).  No proofs here. *)
From Verif Require Import Base C14_Model.

Record qstate := mkQ {
  q_s : state;
  q_pend : list (nat * nat)     (* (closer goroutine, statement): inside Stmt.Close(), waiting for closemu *)
}.

(* the statement a closer goroutine is about to close *)
Definition closing_stmt (s : state) (th : thread) : option nat :=
  match t_pc th with
  | C1 e => e_stmt (ent s e)
  | D0 st => Some st
  | _ => None
  end.

(* goroutine [th] is inside the driver executing pool-level statement [st] (holds closemu.RLock) *)
Definition reads (st : nat) (th : thread) : bool :=
  match t_pc th with X1 st' => (st' =? st) && negb (cur_tx th) | _ => false end.
Definition in_flight (s : state) (st : nat) : bool := existsb (reads st) (s_thr s).

Definition pend_of (q : qstate) (t : nat) : option nat :=
  match find (fun p => fst p =? t) (q_pend q) with Some p => Some (snd p) | None => None end.
Definition close_pending (q : qstate) (st : nat) : bool := existsb (fun p => snd p =? st) (q_pend q).
Definition unpend (t : nat) (l : list (nat * nat)) := filter (fun p => negb (fst p =? t)) l.

Definition liftQ (q : qstate) (r : option (state * option vev)) : option (qstate * option vev) :=
  match r with Some (s', l) => Some (mkQ s' (q_pend q), l) | None => None end.

Definition stepQ (q : qstate) (t : nat) (c : choice) : option (qstate * option vev) :=
  let s := q_s q in
  match nth_error (s_thr s) t with
  | None => None
  | Some th =>
    match pend_of q t with
    | Some st =>
      (* inside Stmt.Close(): closemu.Lock() returns once no execution of [st] is in flight *)
      if is_tau c then
        if in_flight s st then None
        else match stepL s t c with
             | Some (s', l) => Some (mkQ s' (unpend t (q_pend q)), l)
             | None => None
             end
      else None
    | None =>
      match closing_stmt s th with
      | Some st =>
        (* the call of Stmt.Close(): closemu.Lock() is announced *)
        if is_tau c then Some (mkQ s ((t, st) :: q_pend q), None) else None
      | None =>
        match t_pc th with
        | X0 st =>
          (* closemu.RLock() behind a pending Close *)
          if negb (cur_tx th) && close_pending q st then None else liftQ q (stepL s t c)
        | _ => liftQ q (stepL s t c)
        end
      end
    end
  end.

Definition stepQs (q : qstate) (t : nat) (c : choice) : option qstate :=
  match stepQ q t c with Some (q', _) => Some q' | None => None end.

Fixpoint runQ (q : qstate) (sched : list (nat * choice)) : option qstate :=
  match sched with
  | [] => Some q
  | (t, c) :: r => match stepQs q t c with Some q' => runQ q' r | None => None end
  end.

Definition initQ (g : bool) (progs : list (list op)) : qstate := mkQ (init_g g progs) [].

(* ---- quiescence ------------------------------------------------------------------------------ *)
(* a goroutine the harness holds: waiting to be started, finished, or inside a driver call *)
Definition parked (p : pc) : bool := match p with Idle | P9w _ | X1 _ => true | _ => false end.
Definition is_idle (p : pc) : bool := match p with Idle => true | _ => false end.
(* goroutine [t] cannot move on its own *)
Definition blockedQ (q : qstate) (t : nat) : bool :=
  match stepQ q t CNone with None => true | Some _ => false end.

(* every goroutine of [ts] is waiting to be started / finished, or cannot move on its own *)
Definition quiet_on (ts : list nat) (q : qstate) : bool :=
  forallb (fun t => is_idle (t_pc (thr (q_s q) t)) || blockedQ q t) ts.
(* those of [ts] that are blocked although the harness does not hold them *)
Definition stuck_on (ts : list nat) (q : qstate) : list nat :=
  filter (fun t => negb (parked (t_pc (thr (q_s q) t))) && blockedQ q t) ts.

(* the goroutines running the programs (closers are appended behind them) *)
Definition actors (progs : list (list op)) : list nat := seq 0 (length progs).
