(* C03_Proofs6.v — the whole-call round trip also WITHOUT RETURNING (and in both LastInsertId
   directions) for model types that have no database-generated column at all (string keys, composite
   keys without auto-increment, preset `autoIncrement:false` keys): nothing has to be loaded back, the
   record in memory is the filled record. *)
From Verif Require Import Base C03_Model C03_Proofs C03_Proofs2 C03_Proofs3 C03_Proofs5.
Open Scope Z_scope.

Lemma length_bf_fwd : forall zs id, length (bf_fwd id zs) = length zs.
Proof. induction zs as [|[|] zs IH]; intro id; cbn; [reflexivity | rewrite IH; reflexivity | rewrite IH; reflexivity]. Qed.
Lemma length_bf_down : forall zs id, length (bf_down id zs) = length zs.
Proof. induction zs as [|[|] zs IH]; intro id; cbn; [reflexivity | rewrite IH; reflexivity | rewrite IH; reflexivity]. Qed.
Lemma length_backfill : forall reversed id zs, length (backfill_lastid reversed id zs) = length zs.
Proof.
  intros [|] id zs; unfold backfill_lastid.
  - rewrite rev_length, length_bf_down, rev_length. reflexivity.
  - apply length_bf_fwd.
Qed.

Lemma existsb_false_nth {A} (p : A -> bool) : forall l j d, existsb p l = false -> (j < length l)%nat -> p (nth j l d) = false.
Proof.
  induction l as [|x l IH]; intros j d H Hj; cbn in *; [lia|].
  apply orb_false_iff in H. destruct H as [Hx Hl]. destruct j as [|j]; [exact Hx | apply IH; [exact Hl | lia]].
Qed.

(* without a database-generated column the memory after Create does not depend on RETURNING nor on
   what LastInsertId delivered *)
Lemma after_rec_no_dbdef : forall fs now ret prio row lastid r j,
  existsb is_dbdef fs = false -> length r = length fs -> length row = length fs -> (j < length fs)%nat ->
  nth j (after_rec fs now ret prio row lastid r) GAbsent = nth j (after_rec fs now true prio row None r) GAbsent.
Proof.
  intros fs now ret prio row lastid r j Hex Hr Hrow Hj. unfold after_rec.
  set (d := mk_fd [] "" KStr false false false None None 0 0 false).
  rewrite !(nth_map2 _ _ _ _ d (GAbsent, DNull) GAbsent) by (try rewrite combine_length; lia).
  rewrite (existsb_false_nth _ _ _ d Hex Hj). reflexivity.
Qed.

Lemma row_of_length : forall fs now incl id r row,
  length r = length fs -> length incl = length fs -> row_of fs now incl id r = Some row -> length row = length fs.
Proof.
  intros fs now incl id r row Hr Hi H. unfold row_of in H. destruct (opt_all_spec _ _ H) as [Hl _].
  rewrite length_map2, combine_length, Hi, Hr, !Nat.min_id in Hl. exact Hl.
Qed.

Lemma stmt_roundtrip_nodef : forall fs now returning reversed prio ph is_struct base recs after rows b',
  Forall wf_fdesc fs -> existsb is_dbdef fs = false -> Forall (wf_rec fs) recs ->
  create_stmt fs now returning reversed prio ph is_struct base recs = Some (after, rows, b') ->
  length after = length recs /\ length rows = length recs /\
  forall i, (i < length recs)%nat -> reads_back fs (nth i after []) (nth i rows []).
Proof.
  intros fs now returning reversed prio ph is_struct base recs after rows b' Hfs Hex Hrecs Hc.
  unfold create_stmt in Hc.
  set (keys := map (rec_key fs) recs) in *. set (ids := assign base keys) in *.
  set (incl := if is_struct then map (fun _ => false) fs else incl_of fs recs) in *.
  destruct (opt_all (map2 (fun id r => row_of fs now incl id r) ids recs)) as [rows0|] eqn:Er; [|discriminate].
  rewrite Hex, andb_false_r in Hc.
  set (lastids := if negb ph || String.eqb prio "" then map (fun _ : list goval => @None Z) recs
                  else if is_struct then map (fun z : bool => if z then Some (if reversed then last_z ids 0 else hd 0 ids) else None) (map (fun k => k =? 0) keys)
                  else backfill_lastid reversed (if reversed then last_z ids 0 else hd 0 ids) (map (fun k => k =? 0) keys)) in *.
  cbn [negb] in Hc. inversion Hc; subst after rows b'. clear Hc.
  assert (Hll : length lastids = length recs).
  { unfold lastids. destruct (negb ph || String.eqb prio ""); [apply map_length|].
    destruct is_struct; [rewrite !map_length; unfold keys; apply map_length|].
    rewrite length_backfill, map_length. unfold keys. apply map_length. }
  destruct (opt_all_spec _ _ Er) as [Hlen Hnth].
  rewrite length_map2 in Hlen. unfold ids in Hlen at 1. rewrite length_assign in Hlen.
  unfold keys in Hlen at 1. rewrite map_length, Nat.min_id in Hlen.
  assert (Hincl : length incl = length fs).
  { unfold incl. destruct is_struct; [apply map_length|]. unfold incl_of. rewrite map_length, combine_length, seq_length. lia. }
  split; [rewrite length_map2, combine_length, Hll, Hlen; lia|]. split; [exact Hlen|].
  intros i Hi j d Hj.
  rewrite Forall_forall in Hrecs.
  destruct (Hrecs (nth i recs []) (nth_In _ _ Hi)) as [Hrl Hwv].
  assert (Hrow : row_of fs now incl (nth i ids 0) (nth i recs []) = Some (nth i rows0 [])).
  { specialize (Hnth i [] ltac:(rewrite length_map2; unfold ids; rewrite length_assign; unfold keys; rewrite map_length; lia)).
    rewrite (nth_map2 _ _ _ _ 0 [] None) in Hnth; [exact Hnth | unfold ids; rewrite length_assign; unfold keys; rewrite map_length; lia | lia]. }
  rewrite (nth_map2 _ _ _ _ [] ([], None) []) by (try rewrite combine_length; lia).
  rewrite combine_nth by lia. cbn [fst snd].
  rewrite (after_rec_no_dbdef _ _ _ _ _ _ _ _ Hex Hrl (row_of_length _ _ _ _ _ _ Hrl Hincl Hrow) Hj).
  eapply record_roundtrip_returning; eassumption.
Qed.

Theorem seq_roundtrip_nodef : forall fs returning reversed prio ph is_struct stmts now base after rows,
  Forall wf_fdesc fs -> existsb is_dbdef fs = false -> Forall (Forall (wf_rec fs)) stmts ->
  create_seq fs now returning reversed prio ph is_struct base stmts = Some (after, rows) ->
  length rows = length after /\
  forall i, (i < length after)%nat -> reads_back fs (nth i after []) (nth i rows []).
Proof.
  intros fs returning reversed prio ph is_struct stmts.
  induction stmts as [|s rest IH]; intros now base after rows Hfs Hex Hst Hc; cbn [create_seq] in Hc.
  - inversion Hc; subst. cbn. split; [reflexivity|]. intros i Hi. cbn in Hi. lia.
  - destruct (create_stmt fs now returning reversed prio ph is_struct base s) as [[[a r1] b1]|] eqn:E1; [|discriminate].
    destruct (create_seq fs (now + clock_step) returning reversed prio ph is_struct b1 rest) as [[a' r']|] eqn:E2; [|discriminate].
    injection Hc as <- <-.
    inversion Hst as [|x l Hs Hrest]; subst.
    destruct (stmt_roundtrip_nodef _ _ _ _ _ _ _ _ _ _ _ _ Hfs Hex Hs E1) as [La [Lr Hrb]].
    destruct (IH _ _ _ _ Hfs Hex Hrest E2) as [Lr' Hrb'].
    split; [rewrite !app_length; lia|].
    apply (nth_app_both a a' r1 r' (reads_back fs)); [lia| |exact Hrb'].
    intros i Hi. apply Hrb. lia.
Qed.

Theorem create_roundtrip_nodef : forall fs now returning reversed prio ph o base recs after rows m,
  Forall wf_fdesc fs -> existsb is_dbdef fs = false -> Forall (wf_rec fs) recs ->
  match o with OpStruct | OpSlice | OpPtrSlice | OpBatches _ => True | _ => False end ->
  create fs now returning reversed prio ph o base recs = Some (after, rows, m) ->
  length rows = length after /\
  forall i, (i < length after)%nat -> reads_back fs (nth i after []) (nth i rows []).
Proof.
  intros fs now returning reversed prio ph o base recs after rows m Hfs Hex Hrecs Ho Hc.
  unfold create in Hc.
  assert (G : forall is_struct stmts, Forall (Forall (wf_rec fs)) stmts ->
            match create_seq fs now returning reversed prio ph is_struct base stmts with
            | Some (a, rows0) => Some (a, rows0, 0) | None => None end = Some (after, rows, m) ->
            length rows = length after /\
            forall i, (i < length after)%nat -> reads_back fs (nth i after []) (nth i rows [])).
  { intros is_struct stmts Hst H.
    destruct (create_seq fs now returning reversed prio ph is_struct base stmts) as [[a r0]|] eqn:E; [|discriminate].
    inversion H; subst. exact (seq_roundtrip_nodef _ _ _ _ _ _ _ _ _ _ _ Hfs Hex Hst E). }
  destruct o; try contradiction; cbn [negb andb] in Hc.
  - eapply G; [|exact Hc]. clear - Hrecs. induction Hrecs; cbn; constructor; [constructor; [assumption|constructor]|assumption].
  - destruct recs as [|r0 recs']; [discriminate|]. eapply G; [|exact Hc]. constructor; [exact Hrecs|constructor].
  - destruct recs as [|r0 recs']; [discriminate|]. eapply G; [|exact Hc]. constructor; [exact Hrecs|constructor].
  - eapply G; [|exact Hc]. apply chunks_forall. exact Hrecs.
Qed.
