(* C13_Vals7.v — values set by before-hooks, part 7: the association records of Create / Save-as-insert,
   end to end; the checker's clause [vals_ok] in full for these operations. *)
From Verif Require Import Base C13_Model C13_Check C13_Proofs C13_Proofs2 C13_Proofs3 C13_Proofs4 C13_Proofs6
  C13_Vals C13_Vals2 C13_Vals3 C13_Vals5 C13_Vals6.
Open Scope Z_scope.

Lemma save_assoc_err_back : forall c t tb sg vals s,
  is_nil (s_err (save_assoc c t tb sg vals s)) = true -> is_nil (s_err s) = true.
Proof.
  intros c t tb sg vals s H. unfold save_assoc in H. destruct vals as [|v0 vr]; [exact H|]. cbn [s_err] in H.
  match type of H with context [if ?b then _ else _] => destruct b end; [exact H|].
  apply app_nil_is_nil in H. apply H.
Qed.

Lemma NoDup_app_disj : forall (a b : list Z) x, NoDup (a ++ b) -> In x a -> In x b -> False.
Proof.
  induction a as [|y a IH]; intros b x ND Ha Hb; [contradiction|].
  cbn in ND. inversion ND as [|? ? NI ND']; subst. destruct Ha as [->|Ha].
  - apply NI. apply in_or_app. right. exact Hb.
  - eapply IH; eassumption.
Qed.

Lemma NoDup_app_l : forall (a b : list Z), NoDup (a ++ b) -> NoDup a.
Proof. induction a as [|y a IH]; intros b ND; [constructor|]. cbn in ND. inversion ND; subst. constructor; [intro X; apply H1; apply in_or_app; left; exact X | eapply IH; eassumption]. Qed.
Lemma NoDup_app_r : forall (a b : list Z), NoDup (a ++ b) -> NoDup b.
Proof. induction a as [|y a IH]; intros b ND; [exact ND|]. cbn in ND. inversion ND; subst. apply IH. assumption. Qed.

Section AssocVals.
  Variables (o : op) (c : cx) (a : assocs).
  Hypothesis SC : self_cx o c.
  Hypothesis CT : c_table c = TRecs.
  Hypothesis AO : assocs_ok c a.
  Hypothesis U1 : uniform_phase (c_shape c) (c_ty c) (fc_hooks PBeforeCreate).
  Hypothesis U2 : uniform_phase (c_shape c) (c_ty c) (fc_hooks PAfterCreate).

  Let own (s : S) := map fst (keys s).
  Let tB := map m_tag (a_boss a).
  Let tK := map m_tag (a_kids a).
  Let tP := map m_tag (a_pets a).

  Lemma create_body_assoc_vals : forall s,
    goodk (c_shape c) (keys s) -> hooks_of (s_tr s) = [] -> s_k s = 0 ->
    NoDup (own s ++ tB ++ tK ++ tP) ->
    (forall x, In x (a_boss a) -> has_row TBosses (m_tag x) (s_tbl s) = false) ->
    (forall x, In x (a_kids a) -> has_row TKids (m_tag x) (s_tbl s) = false) ->
    (forall x, In x (a_pets a) -> has_row TPets (m_tag x) (s_tbl s) = false) ->
    let sf := cu_body c a PBeforeCreate PAfterCreate stmt_create s in
    is_nil (s_err sf) = true ->
    (forall r, In r (a_boss a) -> In (TBosses, m_tag r, want o (boss_t a) (hooks_of (s_tr sf)) r) (s_tbl sf))
    /\ (forall r, In r (a_kids a) -> In (TKids, m_tag r, want o (kid_t a) (hooks_of (s_tr sf)) r) (s_tbl sf))
    /\ (forall r, In r (a_pets a) -> In (TPets, m_tag r, want o (pet_t a) (hooks_of (s_tr sf)) r) (s_tbl sf)).
  Proof.
    intros s G H0 K0 ND FB FK FP sf HF. subst sf. unfold cu_body in *.
    destruct SC as (SE & _ & XA & _).
    destruct AO as (OKB & OKK & OKP & UB & NK).
    set (tags := map fst (keys s)).
    set (s1 := begin_tx c s) in *.
    pose proof (begin_tx_step (c_fails c) c s) as B. fold s1 in B.
    pose proof (hs_keys' _ _ _ _ B) as K1.
    assert (G1 : goodk (c_shape c) (keys s1)) by (rewrite K1; exact G).
    set (s2 := hooks_phase c PBeforeCreate s1) in *.
    assert (P1 := hooks_phase_step' c PBeforeCreate s1 tags G1 U1 ltac:(rewrite K1; reflexivity)). fold s2 in P1.
    pose proof (hs_keys' _ _ _ _ P1) as K2.
    set (s3 := save_before_assoc c a s2) in *.
    pose proof (save_before_step c a s2 AO) as SB. fold s3 in SB.
    pose proof (hs_keys' _ _ _ _ SB) as K3.
    assert (G3 : goodk (c_shape c) (keys s3)) by (rewrite K3, K2; exact G1).
    set (s4 := stmt_create c s3) in *.
    pose proof (stmt_create_step (c_fails c) c s3 G3) as ST. fold s4 in ST.
    pose proof (hs_keys' _ _ _ _ ST) as K4.
    (* save_after_assoc = the kids' save, then the pets' save *)
    assert (E5' : is_nil (s_err (save_after_assoc c a s4)) = true).
    { set (s5 := save_after_assoc c a s4) in *.
      assert (G5 : goodk (c_shape c) (keys s5)).
      { pose proof (hs_keys' _ _ _ _ (save_after_step c a s4 AO)) as K5. fold s5 in K5. rewrite K5, K4. exact G3. }
      pose proof (hooks_phase_quietT c PAfterCreate s5) as [_ EB].
      apply EB. pose proof (commit_quietT c (hooks_phase c PAfterCreate s5) HF) as [_ EC]. apply EC. exact HF. }
    assert (E4 : is_nil (s_err s4) = true) by (exact (hstep_err_back _ _ _ _ (save_after_step c a s4 AO) E5')).
    assert (E3 : is_nil (s_err s3) = true) by (exact (hstep_err_back _ _ _ _ ST E4)).
    assert (E2 : is_nil (s_err s2) = true) by (exact (hstep_err_back _ _ _ _ SB E3)).
    unfold save_after_assoc in *. rewrite NK in *. cbn [is_nil] in *. rewrite E4 in *.
    set (s4k := save_assoc c (kid_t a) TKids false (a_kids a) s4) in *.
    set (s5 := save_assoc c (pet_t a) TPets false (a_pets a) s4k) in *.
    pose proof (save_assoc_step c (kid_t a) TKids false (a_kids a) s4 OKK ltac:(intro X; discriminate)) as SK. fold s4k in SK.
    pose proof (save_assoc_step c (pet_t a) TPets false (a_pets a) s4k OKP ltac:(intro X; discriminate)) as SP. fold s5 in SP.
    pose proof (hs_keys' _ _ _ _ SK) as K4k. pose proof (hs_keys' _ _ _ _ SP) as K5.
    assert (G5 : goodk (c_shape c) (keys s5)) by (rewrite K5, K4k, K4; exact G3).
    set (s6 := hooks_phase c PAfterCreate s5) in *.
    assert (P2 := hooks_phase_step' c PAfterCreate s5 tags G5 U2 ltac:(rewrite K5, K4k, K4, K3, K2, K1; reflexivity)). fold s6 in P2.
    pose proof (commit_step (c_fails c) c s6) as CM.
    assert (E4k : is_nil (s_err s4k) = true) by (exact (save_assoc_err_back _ _ _ _ _ _ E5')).
    assert (S3EQ : s3 = save_assoc c (boss_t a) TBosses (is_struct c) (a_boss a) s2) by (subst s3; unfold save_before_assoc; rewrite E2; reflexivity).
    assert (E3' : is_nil (s_err (save_assoc c (boss_t a) TBosses (is_struct c) (a_boss a) s2)) = true) by (rewrite <- S3EQ; exact E3).
    (* positions *)
    assert (Q0 : s_k s = len (hooks_of (s_tr s))) by (rewrite K0, H0; reflexivity).
    pose proof (hstep_pos _ _ _ _ B Q0) as Q1. pose proof (hstep_pos _ _ _ _ P1 Q1) as Q2.
    pose proof (hstep_pos _ _ _ _ SB Q2) as Q3. pose proof (hstep_pos _ _ _ _ ST Q3) as Q4.
    pose proof (hstep_pos _ _ _ _ SK Q4) as Q4k.
    (* what the log holds at each point, by tags *)
    assert (EV1 : forall e, In e (gated s1 (sched_log [ph c PBeforeCreate tags] (s_k s1) (c_fails c))) -> In (snd e) tags).
    { intros e He. apply gated_incl, sched_log_incl in He. cbn [concat] in He. rewrite app_nil_r in He. apply ph_event in He. apply He. }
    assert (EVB : forall e, In e (gated s2 (sched_log (before_sched c a) (s_k s2) (c_fails c))) -> In (snd e) tB).
    { intros e He. apply gated_incl, sched_log_incl in He. apply assoc_sched_tags in He. exact He. }
    assert (EVK : forall e, In e (gated s4 (sched_log (assoc_sched c (kid_t a) TKids false (a_kids a)) (s_k s4) (c_fails c))) -> In (snd e) tK).
    { intros e He. apply gated_incl, sched_log_incl in He. apply assoc_sched_tags in He. exact He. }
    assert (EVP : forall e, In e (gated s4k (sched_log (assoc_sched c (pet_t a) TPets false (a_pets a)) (s_k s4k) (c_fails c))) -> In (snd e) tP).
    { intros e He. apply gated_incl, sched_log_incl in He. apply assoc_sched_tags in He. exact He. }
    assert (EV2 : forall e, In e (gated s5 (sched_log [ph c PAfterCreate tags] (s_k s5) (c_fails c))) -> In (snd e) tags).
    { intros e He. apply gated_incl, sched_log_incl in He. cbn [concat] in He. rewrite app_nil_r in He. apply ph_event in He. apply He. }
    assert (L1 : log_in s1 []) by (intros e He; destruct B as [_ HB _ _]; rewrite HB, H0 in He; exact He).
    pose proof (hstep_log_in _ _ _ _ _ _ P1 L1 EV1) as L2. cbn [app] in L2.
    pose proof (hstep_log_in _ _ _ _ _ _ SB L2 EVB) as L3.
    assert (L4 : log_in s4 (tags ++ tB)).
    { intros e He. destruct ST as [_ HS _ _]. rewrite HS, app_nil_r in He. apply L3. exact He. }
    pose proof (hstep_log_in _ _ _ _ _ _ SK L4 EVK) as L4k.
    (* tag disjointness *)
    fold tags in ND. change (own s) with tags in ND.
    assert (DJ : forall (U V : list Z) x, (exists W W', tags ++ tB ++ tK ++ tP = W ++ W' /\ (forall y, In y U -> In y W) /\ (forall y, In y V -> In y W')) ->
                 In x U -> In x V -> False).
    { intros U V x (W & W' & EQ & HU & HV) Hu Hv. rewrite EQ in ND. eapply NoDup_app_disj; [exact ND | apply HU, Hu | apply HV, Hv]. }
    assert (NDB : NoDup tB) by (apply NoDup_app_r in ND; apply NoDup_app_l in ND; exact ND).
    assert (NDK : NoDup tK) by (apply NoDup_app_r in ND; apply NoDup_app_r in ND; apply NoDup_app_l in ND; exact ND).
    assert (NDP : NoDup tP) by (apply NoDup_app_r in ND; apply NoDup_app_r in ND; apply NoDup_app_r in ND; exact ND).
    (* tables *)
    assert (TB2 : s_tbl s2 = s_tbl s).
    { pose proof (quietT_trans _ _ _ (begin_tx_quietT c s) (hooks_phase_quietT c PBeforeCreate s1)) as [X _]. exact X. }
    assert (S24 : forall T, T <> TBosses -> T <> TRecs -> forall g, has_row T g (s_tbl s4) = has_row T g (s_tbl s)).
    { intros T N1 N2 g. rewrite <- TB2.
      apply (sameT_has_row T s2 s4); [|exact E4].
      eapply sameT_trans; [apply (save_assoc_same T c (boss_t a) TBosses (is_struct c) (a_boss a) s2); congruence|]. rewrite <- S3EQ. apply stmt_create_same. rewrite CT. congruence. }
    assert (S4k : forall g, has_row TPets g (s_tbl s4k) = has_row TPets g (s_tbl s)).
    { intro g. rewrite <- (S24 TPets ltac:(discriminate) ltac:(discriminate) g).
      apply (sameT_has_row TPets s4 s4k); [apply (save_assoc_same TPets c (kid_t a) TKids false (a_kids a) s4); discriminate | exact E4k]. }
    (* the end of the pipeline *)
    assert (TAIL : forall T, keepsT T s5 (commit_or_rollback c s6)).
    { intro T. eapply keepsT_trans; [apply quiet_keeps, hooks_phase_quietT|]. fold s6. apply quiet_keeps, commit_quietT. exact HF. }
    assert (HSF : hooks_of (s_tr (commit_or_rollback c s6)) = hooks_of (s_tr s5) ++ gated s5 (sched_log [ph c PAfterCreate tags] (s_k s5) (c_fails c))).
    { destruct CM as [_ HC _ _]. destruct P2 as [_ HP _ _]. rewrite HC, HP, app_nil_r. reflexivity. }
    split; [|split].
    - (* belongs-to values *)
      intros r Hr.
      assert (LA : log_avoids s2 (a_boss a)).
      { intros e x He Hx X. apply L2 in He. eapply (DJ tags tB (snd e)); [|exact He | rewrite X; apply in_map; exact Hx].
        exists tags, (tB ++ tK ++ tP). split; [reflexivity|]. split; [auto|]. intros y Hy. apply in_or_app. left. exact Hy. }
      pose proof (save_assoc_vals o c (boss_t a) TBosses (is_struct c) (a_boss a) s2 SE XA OKB UB NDB LA Q2
                    ltac:(intros x Hx; rewrite TB2; apply FB; exact Hx) E3' r Hr) as R3. rewrite <- S3EQ in R3.
      assert (KP : keepsT TBosses s3 (commit_or_rollback c s6)).
      { eapply keepsT_trans; [apply stmt_create_keeps; rewrite CT; discriminate|]. fold s4.
        eapply keepsT_trans; [apply (save_assoc_keeps TBosses c (kid_t a) TKids false (a_kids a) s4); discriminate|]. fold s4k.
        eapply keepsT_trans; [apply (save_assoc_keeps TBosses c (pet_t a) TPets false (a_pets a) s4k); discriminate|]. fold s5. apply TAIL. }
      destruct (KP HF) as [_ KI]. specialize (KI _ _ R3).
      assert (WE : want o (boss_t a) (hooks_of (s_tr (commit_or_rollback c s6))) r = want o (boss_t a) (hooks_of (s_tr s3)) r).
      { rewrite HSF. destruct SP as [_ HP' _ _]. destruct SK as [_ HK' _ _]. destruct ST as [_ HS' _ _].
        rewrite HP', HK', HS', app_nil_r. unfold want. rewrite <- !app_assoc.
        rewrite last_set_app_irrelevant; [reflexivity|].
        intros e He. rewrite ev_of_tag_false; [reflexivity|]. intro X.
        assert (IB : In (snd e) tB) by (rewrite X; apply in_map; exact Hr).
        apply in_app_or in He. destruct He as [He|He]; [|apply in_app_or in He; destruct He as [He|He]].
        - apply EVK in He. eapply (DJ tB tK (snd e)); [|exact IB | exact He].
          exists (tags ++ tB), (tK ++ tP). split; [rewrite <- app_assoc; reflexivity|].
          split; intros y Hy; apply in_or_app; [right | left]; exact Hy.
        - apply EVP in He. eapply (DJ tB tP (snd e)); [|exact IB | exact He].
          exists (tags ++ tB ++ tK), tP. split; [rewrite <- !app_assoc; reflexivity|].
          split; [|auto]. intros y Hy. apply in_or_app. right. apply in_or_app. left. exact Hy.
        - apply EV2 in He. eapply (DJ tags tB (snd e)); [|exact He | exact IB].
          exists tags, (tB ++ tK ++ tP). split; [reflexivity|]. split; [auto|]. intros y Hy. apply in_or_app. left. exact Hy. }
      change (In (TBosses, m_tag r, want o (boss_t a) (hooks_of (s_tr (commit_or_rollback c s6))) r) (s_tbl (commit_or_rollback c s6))).
      rewrite WE. exact KI.
    - (* has-many values *)
      intros r Hr.
      assert (LA : log_avoids s4 (a_kids a)).
      { intros e x He Hx X. apply L4 in He. eapply (DJ (tags ++ tB) tK (snd e)); [|exact He | rewrite X; apply in_map; exact Hx].
        exists (tags ++ tB), (tK ++ tP). split; [rewrite <- app_assoc; reflexivity|]. split; [auto|].
        intros y Hy. apply in_or_app. left. exact Hy. }
      pose proof (save_assoc_vals o c (kid_t a) TKids false (a_kids a) s4 SE XA OKK ltac:(intro X; discriminate) NDK LA Q4
                    ltac:(intros x Hx; rewrite (S24 TKids ltac:(discriminate) ltac:(discriminate)); apply FK; exact Hx) E4k r Hr) as R4. fold s4k in R4.
      assert (KP : keepsT TKids s4k (commit_or_rollback c s6)).
      { eapply keepsT_trans; [apply (save_assoc_keeps TKids c (pet_t a) TPets false (a_pets a) s4k); discriminate|]. fold s5. apply TAIL. }
      destruct (KP HF) as [_ KI]. specialize (KI _ _ R4).
      assert (WE : want o (kid_t a) (hooks_of (s_tr (commit_or_rollback c s6))) r = want o (kid_t a) (hooks_of (s_tr s4k)) r).
      { rewrite HSF. destruct SP as [_ HP' _ _]. rewrite HP'. unfold want. rewrite <- !app_assoc.
        rewrite last_set_app_irrelevant; [reflexivity|].
        intros e He. rewrite ev_of_tag_false; [reflexivity|]. intro X.
        assert (IK : In (snd e) tK) by (rewrite X; apply in_map; exact Hr).
        apply in_app_or in He. destruct He as [He|He].
        - apply EVP in He. eapply (DJ tK tP (snd e)); [|exact IK | exact He].
          exists (tags ++ tB ++ tK), tP. split; [rewrite <- !app_assoc; reflexivity|].
          split; [|auto]. intros y Hy. apply in_or_app. right. apply in_or_app. right. exact Hy.
        - apply EV2 in He. eapply (DJ tags tK (snd e)); [|exact He | exact IK].
          exists tags, (tB ++ tK ++ tP). split; [reflexivity|]. split; [auto|]. intros y Hy.
          apply in_or_app. right. apply in_or_app. left. exact Hy. }
      change (In (TKids, m_tag r, want o (kid_t a) (hooks_of (s_tr (commit_or_rollback c s6))) r) (s_tbl (commit_or_rollback c s6))).
      rewrite WE. exact KI.
    - intros r Hr.
      assert (LA : log_avoids s4k (a_pets a)).
      { intros e x He Hx X. apply L4k in He. eapply (DJ ((tags ++ tB) ++ tK) tP (snd e)); [|exact He | rewrite X; apply in_map; exact Hx].
        exists ((tags ++ tB) ++ tK), tP. split; [rewrite <- !app_assoc; reflexivity|]. split; auto. }
      pose proof (save_assoc_vals o c (pet_t a) TPets false (a_pets a) s4k SE XA OKP ltac:(intro X; discriminate) NDP LA Q4k
                    ltac:(intros x Hx; rewrite S4k; apply FP; exact Hx) E5' r Hr) as R5. fold s5 in R5.
      destruct (TAIL TPets HF) as [_ KI]. specialize (KI _ _ R5).
      assert (WE : want o (pet_t a) (hooks_of (s_tr (commit_or_rollback c s6))) r = want o (pet_t a) (hooks_of (s_tr s5)) r).
      { rewrite HSF. unfold want. rewrite last_set_app_irrelevant; [reflexivity|].
        intros e He. rewrite ev_of_tag_false; [reflexivity|]. intro X.
        assert (IP : In (snd e) tP) by (rewrite X; apply in_map; exact Hr).
        apply EV2 in He. eapply (DJ tags tP (snd e)); [|exact He | exact IP].
        exists tags, (tB ++ tK ++ tP). split; [reflexivity|]. split; [auto|]. intros y Hy.
        apply in_or_app. right. apply in_or_app. right. exact Hy. }
      change (In (TPets, m_tag r, want o (pet_t a) (hooks_of (s_tr (commit_or_rollback c s6))) r) (s_tbl (commit_or_rollback c s6))).
      rewrite WE. exact KI.
  Qed.
End AssocVals.

(* ---------------------------------------------------------------- [run] *)
Definition all_tags (o : op) : list Z :=
  map m_tag (o_recs o) ++ map m_tag (a_boss (o_assocs o)) ++ map m_tag (a_kids (o_assocs o)) ++ map m_tag (a_pets (o_assocs o)).

(* per-record SetColumn; all records of the operation (own and association values) told apart by their tags;
   the association values have no row yet (their save is ON CONFLICT DO NOTHING) *)
Definition full_dom (o : op) : Prop :=
  x_setall (o_x o) = false /\ NoDup (all_tags o)
  /\ (forall x, In x (a_boss (o_assocs o)) -> has_row TBosses (m_tag x) (o_seed o) = false)
  /\ (forall x, In x (a_kids (o_assocs o)) -> has_row TKids (m_tag x) (o_seed o) = false)
  /\ (forall x, In x (a_pets (o_assocs o)) -> has_row TPets (m_tag x) (o_seed o) = false).

Lemma full_dom_vals_dom : forall o, full_dom o -> vals_dom o.
Proof.
  intros o (XA & ND & _). split; [exact XA|]. split; [apply NoDup_app_l in ND; exact ND|].
  intros x y Hx Hy E. unfold all_tags in ND.
  eapply (NoDup_app_disj _ _ (m_tag x) ND); [apply in_map; exact Hx|].
  rewrite E. rewrite <- !map_app. apply in_map. exact Hy.
Qed.

Theorem run_create_assoc_values : forall o, op_ok o -> create_shaped o -> full_dom o ->
  s_err (run o) = [] ->
  (forall r, In r (a_boss (o_assocs o)) -> In (TBosses, m_tag r, want o (boss_ty o) (hooks_of (s_tr (run o))) r) (s_tbl (run o)))
  /\ (forall r, In r (a_kids (o_assocs o)) -> In (TKids, m_tag r, want o (kid_ty o) (hooks_of (s_tr (run o))) r) (s_tbl (run o)))
  /\ (forall r, In r (a_pets (o_assocs o)) -> In (TPets, m_tag r, want o (pet_ty o) (hooks_of (s_tr (run o))) r) (s_tbl (run o))).
Proof.
  intros o (U & OK) CS (XA & ND & FB & FK & FP) HE. unfold run in *.
  destruct (finish_facts o (run_body o (init_state o))) as (FH & FE & _). rewrite FE in HE. rewrite FH.
  assert (G : goodk (o_shape o) (rkeys (o_recs o)) /\ assocs_ok (op_cx o (o_skip o) DSelf) (o_assocs o)).
  { destruct CS as [KD | [KD _]]; rewrite KD in OK; tauto. }
  destruct G as [G AO].
  rewrite finish_tbl by (rewrite HE; reflexivity).
  rewrite (create_shaped_body o _ CS G) in *.
  destruct (init_facts o) as (K0 & _ & H0 & KS & TB).
  apply (create_body_assoc_vals o (op_cx o (o_skip o) DSelf) (o_assocs o)); try assumption; try reflexivity.
  - repeat split; try reflexivity; try exact XA. destruct G as (W & _). exact W.
  - apply U.
  - apply U.
  - rewrite KS. exact G.
  - rewrite KS, tags_rkeys. exact ND.
  - intros x Hx. rewrite TB. apply FB. exact Hx.
  - intros x Hx. rewrite TB. apply FK. exact Hx.
  - intros x Hx. rewrite TB. apply FP. exact Hx.
  - rewrite HE. reflexivity.
Qed.

(* the checker's clause [vals_ok] in full, on the model's own run, for Create / Save-as-insert with association values *)
Theorem run_create_vals_ok_full : forall o, op_ok o -> create_shaped o -> full_dom o ->
  s_err (run o) = [] ->
  vals_ok o (hooks_of (s_tr (run o))) (s_tbl (run o)) = true.
Proof.
  intros o OK CS FD HE.
  pose proof (run_create_values o OK CS (full_dom_vals_dom o FD) HE) as RV.
  destruct (run_create_assoc_values o OK CS FD HE) as (RB & RK & RP).
  destruct FD as (XA & _).
  assert (PC : op_pipe o = PiCreate).
  { unfold op_pipe. destruct CS as [KD | [KD SI]]; rewrite KD; [reflexivity|].
    unfold save_is_create in SI. destruct (sh_cont (o_shape o)); try reflexivity.
    destruct (o_recs o); [reflexivity | rewrite SI; reflexivity]. }
  assert (PR : forall t tbn recs,
             (forall r, In r recs -> In (tbn, m_tag r, want o t (hooks_of (s_tr (run o))) r) (s_tbl (run o))) ->
             forallb (fun r => match last_set o (ev_of t (m_tag r)) (hooks_of (s_tr (run o))) with
                               | Some v => row_has tbn (m_tag r) v (s_tbl (run o))
                               | None => true
                               end) recs = true).
  { intros t tbn recs H. apply forallb_forall. intros r Hr. specialize (H r Hr). unfold want in H.
    destruct (last_set o (ev_of t (m_tag r)) (hooks_of (s_tr (run o)))); [|reflexivity]. apply in_row_has. exact H. }
  unfold vals_ok. rewrite PC, XA. cbn [andb].
  rewrite (PR (o_ty o) TRecs (o_recs o) RV), (PR (boss_ty o) TBosses _ RB), (PR (kid_ty o) TKids _ RK), (PR (pet_ty o) TPets _ RP).
  reflexivity.
Qed.
