(* Props_C20.v — property C20: ONLY theorem statements. *)
From Verif Require Import Base C20_Model C20_Proofs.
Open Scope Z_scope.
Theorem c20_ignore_no_change : forall f r, f_ignore f = true -> migrate_column f r = no_change.
Proof. exact no_change_ignore. Qed.
Print Assumptions c20_ignore_no_change.
