(* Props_C20.v — property C20: ONLY theorem statements, each closed by [exact] of a lemma from
   C20_Proofs, followed by Print Assumptions. *)
From Verif Require Import Base C20_Model C20_Proofs C20_Proofs2 C20_Proofs3.
Open Scope Z_scope.

(* MigrateColumn leaves alone a column the dialect reports exactly as declared (same type text,
   nullability, default, comment, uniqueness): no AlterColumn, no constraint change — for every
   field and every reported column type *)
Theorem c20_matching_column_untouched : forall f r, matches f r = true -> migrate_column f r = no_change.
Proof. exact matches_no_change. Qed.
Print Assumptions c20_matching_column_untouched.

Theorem c20_ignored_field_untouched : forall f r, f_ignore f = true -> migrate_column f r = no_change.
Proof. exact no_change_ignore. Qed.
Print Assumptions c20_ignored_field_untouched.

(* idempotence relative to the dialect: if what the dialect creates for a field, and what a column
   becomes once gorm's decision has been applied, are reported back as needing no change, then a
   second AutoMigrate of the same model issues no statement — for every model (distinct column
   names) and every initial table state, including "no table" *)
Theorem c20_idempotent_partial :
  forall (coldesc : Type) (create : field -> coldesc) (set_unique : coldesc -> bool -> coldesc)
         (report : coldesc -> reported),
  (forall f, migrate_column f (report (create f)) = no_change) ->
  (forall f cd, migrate_column f (report (apply_decision coldesc create set_unique report f cd)) = no_change) ->
  forall m t, NoDup (map f_name (m_fields m)) ->
  fst (auto_migrate_table coldesc create set_unique report m
         (Some (snd (auto_migrate_table coldesc create set_unique report m t)))) = [].
Proof. exact auto_migrate_idempotent. Qed.
Print Assumptions c20_idempotent_partial.

(* additivity: after migrating m1, migrating m2 = m1 + fields + constraints + indexes (new columns
   not present yet) issues only AddColumn / CreateConstraint / CreateIndex *)
Theorem c20_additive :
  forall (coldesc : Type) (create : field -> coldesc) (set_unique : coldesc -> bool -> coldesc)
         (report : coldesc -> reported),
  (forall f, migrate_column f (report (create f)) = no_change) ->
  (forall f cd, migrate_column f (report (apply_decision coldesc create set_unique report f cd)) = no_change) ->
  forall m1 t extra xcons xidx,
  NoDup (map f_name (m_fields m1 ++ extra)) ->
  let t1 := snd (auto_migrate_table coldesc create set_unique report m1 t) in
  (forall f, In f extra -> lookup (f_name f) (t_cols t1) = None) ->
  let m2 := mk_model (m_table m1) (m_fields m1 ++ extra) (m_constraints m1 ++ xcons) (m_indexes m1 ++ xidx) in
  Forall additive (fst (auto_migrate_table coldesc create set_unique report m2 (Some t1))).
Proof. exact extend_only_adds. Qed.
Print Assumptions c20_additive.

(* none of the additive statements drops a row or a cell *)
Theorem c20_data_preserved : forall ds fill rows,
  length (fold_left (fun rs d => exec_additive d fill rs) ds rows) = length rows
  /\ forall i c v, lookup c (nth i rows []) = Some v ->
       lookup c (nth i (fold_left (fun rs d => exec_additive d fill rs) ds rows) []) = Some v.
Proof. exact additive_preserves_data. Qed.
Print Assumptions c20_data_preserved.

(* ReorderModels (autoAdd): every requested model is listed, and every dependency of every listed
   model comes before it or lies on a dependency cycle through it; the out-of-fuel result [None]
   is excluded *)
Theorem c20_reorder_dependencies_first : forall deps fuel names order,
  reorder deps fuel names = Some order ->
  (forall n, In n names -> In n order)
  /\ forall n, In n order -> forall d, In d (deps n) -> before d n order \/ reaches deps d n.
Proof. exact reorder_dependencies_first. Qed.
Print Assumptions c20_reorder_dependencies_first.

(* ... hence a topological order w.r.t. foreign-key dependencies when these are acyclic *)
Theorem c20_reorder_topological : forall deps fuel names order,
  (forall n d, In d (deps n) -> ~ reaches deps d n) ->
  reorder deps fuel names = Some order ->
  forall n, In n order -> forall d, In d (deps n) -> before d n order.
Proof. exact reorder_topological. Qed.
Print Assumptions c20_reorder_topological.

(* the fuel is always enough: insertIntoOrderedList recurses at most as deep as the number of models
   that HAVE dependencies, plus one - for every dependency relation, cyclic ones included, and every
   list of requested models.  [K]: any list containing the models with dependencies. *)
Theorem c20_reorder_total : forall deps K,
  (forall n, deps n <> [] -> In n K) ->
  forall names, reorder deps (S (length K)) names <> None.
Proof. exact reorder_total. Qed.
Print Assumptions c20_reorder_total.

(* ... hence, for the very call the checker evaluates (dependencies as an association list, fuel =
   its length + 1), ReorderModels DOES return an order, every requested model is in it and every
   dependency comes first or lies on a cycle: no out-of-fuel case is left out *)
Theorem c20_reorder_checked_call : forall dl names,
  exists order, reorder (deps_of dl) (S (length dl)) names = Some order
    /\ (forall n, In n names -> In n order)
    /\ forall n, In n order -> forall d, In d (deps_of dl n) -> before d n order \/ reaches (deps_of dl) d n.
Proof.
  intros dl names. destruct (reorder (deps_of dl) (S (length dl)) names) as [order|] eqn:E.
  - exists order. split; [reflexivity|]. exact (reorder_dependencies_first _ _ _ _ E).
  - exfalso. exact (reorder_total_assoc dl names E).
Qed.
Print Assumptions c20_reorder_checked_call.

Example c20_reorder_instance :
  let deps := fun n : string =>
    (if String.eqb n "d" then ["c"; "a"] else if String.eqb n "c" then ["b"]
     else if String.eqb n "b" then ["a"] else [])%string in
  reorder deps 5 ["d"%string] = Some ["a"; "b"; "c"; "d"]%string.
Proof. vm_compute. reflexivity. Qed.

(* non-vacuity: a declared varchar column reported back identically matches; a different reported
   size does not, and the model then decides to alter *)
Example c20_matches_instance :
  let f := mk_field "name" false false "varchar(64) NOT NULL" "varchar(64)" 64 0 true false false "" GOther "" false in
  matches f (mk_rep "VARCHAR(64) NOT NULL" [] 64 true 0 false false true "" false "" false false true) = true
  /\ migrate_column f (mk_rep "varchar" [] 100 true 0 false false true "" false "" false false true) = mk_dec true UNone.
Proof. split; vm_compute; reflexivity. Qed.
