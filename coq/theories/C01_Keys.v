(* C01_Keys.v — the primary-key forms of Statement.BuildCondition (First(&x, key), Find(&x, k1, k2),
   Where(key), Delete(&x, keys)): which conditions the model builds for them, for ALL keys.
   The kind test of the default arm ("is the only argument a list of keys?") looks at the value AFTER
   a driver.Valuer was unwrapped: a Valuer is one key whatever its Go kind (slice, array, struct). *)
From Verif Require Import Base C01_Model C01_Stmt C01_Spec.

(* what a driver.Valuer key yields: anything but nil - an int, a string, a bool, also a []byte (70948e8) *)
Definition scalar_key (s : scalar) : Prop := s <> SNull.

Lemma valuer_key_cond : forall s, scalar_key s ->
  build_condition (VDrv s) [] = [VIn primary_column [VDrv s]].
Proof.
  intros s Hn. unfold build_condition. cbn [length gen_conds Nat.eqb].
  destruct s; try reflexivity. exfalso; apply Hn; reflexivity.
Qed.

(* one placeholder, bound to the Valuer's value; the text around it is the quoted key column *)
Lemma valuer_key_bound_once : forall numbered e s, scalar_key s ->
  map (bval numbered e) (build_condition (VDrv s) []) =
  [ptext (quote_col e current_table primary_key "" false) ++ pstr " = " ++ [PV s]].
Proof.
  intros numbered e s H. rewrite (valuer_key_cond s H). reflexivity.
Qed.

(* a list given as the only argument is the list of keys, whatever its element type (also a named
   uint8-kind element type: LU8); an empty list gives no condition at all *)
Lemma list_key_cond : forall k x l, build_condition (VList k (x :: l)) [] = [VIn primary_column (x :: l)].
Proof. intros. reflexivity. Qed.
(* a []byte given as the only key is one key, bound whole (70948e8) *)
Lemma bytes_key_cond : forall b, build_condition (VS (SBytes b)) [] = [VIn primary_column [VS (SBytes b)]].
Proof. intros. reflexivity. Qed.
Lemma empty_list_key_cond : forall k, build_condition (VList k []) [] = [].
Proof. intros. reflexivity. Qed.

(* several keys: IN over all of them, each handed whole to AddVar (a Valuer or a list among them is
   not taken apart by BuildCondition) *)
Definition plain_key (v : val) : bool :=
  match v with
  | VS SNull => false
  | VS _ | VDrv _ | VList _ _ => true
  | _ => false
  end.
Definition unwrapped_nonnil (v : val) : bool :=
  match v with VS SNull | VDrv SNull => false | _ => true end.

Lemma gen_conds_keep : forall n all r c cs, forallb plain_key r = true ->
  gen_conds n all r (c :: cs) = c :: cs.
Proof.
  intros n all r. induction r as [|a r IH]; intros c cs H; [reflexivity|].
  cbn [forallb] in H. apply andb_prop in H. destruct H as [Ha Hr].
  cbn [gen_conds]. destruct a; try discriminate Ha.
  - destruct s; try discriminate Ha; cbn [is_expression]; apply IH; exact Hr.
  - destruct s; cbn [is_expression]; apply IH; exact Hr.
  - cbn [is_expression]. apply IH; exact Hr.
Qed.

Lemma many_keys_cond : forall q a args,
  plain_key q = true -> unwrapped_nonnil q = true -> forallb plain_key (a :: args) = true ->
  build_condition q (a :: args) = [VIn primary_column (q :: a :: args)].
Proof.
  intros q a args Hq Hn Hr. unfold build_condition.
  assert (G : gen_conds (length (q :: a :: args)) (q :: a :: args) (q :: a :: args) []
              = [VIn primary_column (q :: a :: args)]).
  { cbn [length]. set (r := a :: args) in *. cbn [gen_conds Nat.eqb].
    destruct q; try discriminate Hq.
    - destruct s; try discriminate Hq; cbn [is_expression]; apply gen_conds_keep; exact Hr.
    - destruct s; try discriminate Hn; cbn [is_expression]; apply gen_conds_keep; exact Hr.
    - cbn [is_expression]. apply gen_conds_keep; exact Hr. }
  destruct q; try discriminate Hq; rewrite G; reflexivity.
Qed.
