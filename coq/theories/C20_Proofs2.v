(* C20_Proofs2.v — ReorderModels (autoAdd): the produced order lists every dependency before its
   dependent, up to dependency cycles; on acyclic graphs it is a topological order. *)
From Verif Require Import Base C20_Model.
Open Scope Z_scope.

Definition before (d n : string) (l : list string) : Prop :=
  exists l1 l2, l = l1 ++ n :: l2 /\ In d l1.

Lemma before_app_r : forall d n l l', before d n l -> before d n (l ++ l').
Proof.
  intros d n l l' [l1 [l2 [E H]]]. exists l1, (l2 ++ l'). split; [|exact H].
  rewrite E, <- app_assoc. reflexivity.
Qed.
Lemma before_last : forall d n l, In d l -> before d n (l ++ [n]).
Proof. intros d n l H. exists l, []. split; [reflexivity | exact H]. Qed.
Lemma before_in_added : forall d n o added, In d o -> In n added -> before d n (o ++ added).
Proof.
  intros d n o added Hd Hn. apply in_split in Hn. destruct Hn as [a1 [a2 E]]. subst added.
  exists (o ++ a1), a2. split; [rewrite app_assoc; reflexivity | apply in_or_app; left; exact Hd].
Qed.

Section Reorder.
  Variable deps : string -> list string.

  Inductive reaches : string -> string -> Prop :=
    | r_refl : forall x, reaches x x
    | r_step : forall x y z, In y (deps x) -> reaches y z -> reaches x z.
  Lemma reaches_trans : forall x y z, reaches x y -> reaches y z -> reaches x z.
  Proof. intros x y z H. induction H; intro Hz; [exact Hz | eapply r_step; eauto]. Qed.
  Lemma reaches_edge : forall x y, In y (deps x) -> reaches x y.
  Proof. intros. eapply r_step; [eassumption | apply r_refl]. Qed.

  Definition state := (list string * list string)%type.
  (* finished models are marked; every marked but unfinished ("grey") model reaches [cur] *)
  Definition inv (cur : string) (st : state) : Prop :=
    (forall x, In x (snd st) -> In x (fst st))
    /\ (forall g, In g (fst st) -> ~ In g (snd st) -> reaches g cur).
  (* the dependency property of the models in [l], relative to the whole order [whole] *)
  Definition deps_first (l whole : list string) : Prop :=
    forall n, In n l -> forall d, In d (deps n) -> before d n whole \/ reaches d n.

  Definition post (root : string) (st st' : state) : Prop :=
    exists added,
      snd st' = snd st ++ added
      /\ (forall x, In x (fst st') <-> In x (fst st) \/ In x added)
      /\ (forall x, In x added -> ~ In x (fst st))
      /\ (forall n, In n added -> reaches root n)
      /\ deps_first added (snd st').

  Lemma mem_spec : forall x l, existsb (String.eqb x) l = true <-> In x l.
  Proof.
    intros x l. rewrite existsb_exists. split.
    - intros [y [Hy E]]. apply String.eqb_eq in E. subst. exact Hy.
    - intro H. exists x. split; [exact H | apply String.eqb_refl].
  Qed.

  (* the children loop, given the statement for [visit fuel] *)
  Lemma children : forall fuel,
    (forall name st st', inv name st -> visit deps fuel name st = Some st' ->
        post name st st' /\ In name (fst st')) ->
    forall cur ds st st',
      (forall d, In d ds -> In d (deps cur)) ->
      inv cur st -> ofold (visit deps fuel) ds st = Some st' ->
      post cur st st' /\ inv cur st' /\ (forall d, In d ds -> In d (fst st')).
  Proof.
    intros fuel IH cur. induction ds as [|d ds IHds]; intros st st' Hsub Hinv H; cbn in H.
    - inversion H; subst st'. split; [|split; [exact Hinv | intros d []]].
      exists []. rewrite app_nil_r. repeat split; try tauto; try (intros ? []).
      intros [Hx|[]]; exact Hx.
    - destruct (visit deps fuel d st) as [st1|] eqn:E1; [|discriminate].
      assert (Hedge : In d (deps cur)) by (apply Hsub; left; reflexivity).
      (* the child call: grey models reach cur, hence d *)
      assert (Hinv_d : inv d st).
      { destruct Hinv as [H1 H2]. split; [exact H1|]. intros g Hg Hn.
        eapply reaches_trans; [apply H2; assumption | apply reaches_edge; exact Hedge]. }
      destruct (IH d st st1 Hinv_d E1) as [[a1 [Ho1 [Hs1 [Hd1 [Hr1 Hp1]]]]] Hin1].
      assert (Hinv1 : inv cur st1).
      { destruct Hinv as [H1 H2]. split.
        - intros x Hx. rewrite Ho1 in Hx. apply in_app_or in Hx. apply Hs1. destruct Hx; [left; apply H1; assumption | right; assumption].
        - intros g Hg Hn. apply Hs1 in Hg. destruct Hg as [Hg|Hg].
          + apply H2; [exact Hg|]. intro Hx. apply Hn. rewrite Ho1. apply in_or_app. left. exact Hx.
          + exfalso. apply Hn. rewrite Ho1. apply in_or_app. right. exact Hg. }
      destruct (IHds st1 st' (fun x Hx => Hsub x (or_intror Hx)) Hinv1 H)
        as [[a2 [Ho2 [Hs2 [Hd2 [Hr2 Hp2]]]]] [Hinv2 Hall]].
      split; [|split; [exact Hinv2|]].
      + exists (a1 ++ a2). repeat split.
        * rewrite Ho2, Ho1, app_assoc. reflexivity.
        * intro Hx. apply Hs2 in Hx. destruct Hx as [Hx|Hx].
          -- apply Hs1 in Hx. destruct Hx; [left; assumption | right; apply in_or_app; left; assumption].
          -- right. apply in_or_app. right. exact Hx.
        * intros [Hx|Hx]; apply Hs2.
          -- left. apply Hs1. left. exact Hx.
          -- apply in_app_or in Hx. destruct Hx; [left; apply Hs1; right; assumption | right; assumption].
        * intros x Hx. apply in_app_or in Hx. destruct Hx as [Hx|Hx]; [apply Hd1; exact Hx|].
          intro Hs. apply (Hd2 x Hx). apply Hs1. left. exact Hs.
        * intros n Hn. apply in_app_or in Hn. destruct Hn as [Hn|Hn]; [|apply Hr2; exact Hn].
          eapply reaches_trans; [apply reaches_edge; exact Hedge | apply Hr1; exact Hn].
        * intros n Hn d0 Hd0. apply in_app_or in Hn. destruct Hn as [Hn|Hn]; [|apply Hp2; assumption].
          destruct (Hp1 n Hn d0 Hd0) as [Hb|Hr]; [left | right; exact Hr].
          rewrite Ho2. apply before_app_r. exact Hb.
      + intros x [Hx|Hx]; [subst x; apply Hs2; left; exact Hin1 | apply Hall; exact Hx].
  Qed.

  Lemma visit_post : forall fuel name st st',
    inv name st -> visit deps fuel name st = Some st' -> post name st st' /\ In name (fst st').
  Proof.
    induction fuel as [|fuel IH]; intros name st st' Hinv H; cbn [visit] in H;
      destruct (existsb (String.eqb name) (fst st)) eqn:Em.
    - inversion H; subst st'. apply mem_spec in Em. split; [|exact Em].
      exists []. rewrite app_nil_r. repeat split; try tauto; try (intros ? []). intros [Hx|[]]; exact Hx.
    - discriminate.
    - inversion H; subst st'. apply mem_spec in Em. split; [|exact Em].
      exists []. rewrite app_nil_r. repeat split; try tauto; try (intros ? []). intros [Hx|[]]; exact Hx.
    - destruct (ofold (visit deps fuel) (deps name) (name :: fst st, snd st)) as [st1|] eqn:E; [|discriminate].
      inversion H; subst st'. clear H.
      assert (Hnot : ~ In name (fst st)).
      { intro Hx. apply mem_spec in Hx. rewrite Hx in Em. discriminate. }
      destruct Hinv as [H1 H2].
      assert (Hinv0 : inv name (name :: fst st, snd st)).
      { split; cbn [fst snd].
        - intros x Hx. right. apply H1. exact Hx.
        - intros g [Hg|Hg] Hn; [subst; apply r_refl | apply H2; assumption]. }
      destruct (children fuel IH name (deps name) _ _ (fun d Hd => Hd) Hinv0 E)
        as [[a [Ho [Hs [Hd [Hr Hp]]]]] [Hinv1 Hall]].
      cbn [fst snd] in *. split.
      + exists (a ++ [name]). cbn [fst snd]. repeat split.
        * rewrite Ho, app_assoc. reflexivity.
        * intro Hx. apply Hs in Hx. destruct Hx as [[Hx|Hx]|Hx].
          -- right. apply in_or_app. right. left. exact Hx.
          -- left. exact Hx.
          -- right. apply in_or_app. left. exact Hx.
        * intros [Hx|Hx]; apply Hs.
          -- left. right. exact Hx.
          -- apply in_app_or in Hx. destruct Hx as [Hx|[Hx|[]]]; [right; exact Hx | left; left; exact Hx].
        * intros x Hx. apply in_app_or in Hx. destruct Hx as [Hx|[Hx|[]]].
          -- intro Hs0. apply (Hd x Hx). right. exact Hs0.
          -- subst x. exact Hnot.
        * intros n Hn. apply in_app_or in Hn. destruct Hn as [Hn|[Hn|[]]]; [apply Hr; exact Hn | subst; apply r_refl].
        * intros n Hn d Hdn. apply in_app_or in Hn. destruct Hn as [Hn|[Hn|[]]].
          -- destruct (Hp n Hn d Hdn) as [Hb|Hre]; [left; apply before_app_r; exact Hb | right; exact Hre].
          -- subst n. (* the root itself: all its dependencies are marked by now *)
             pose proof (Hall d Hdn) as Hm. apply Hs in Hm. destruct Hm as [[Hm|Hm]|Hm].
             ++ subst d. right. apply r_refl.
             ++ destruct (in_dec string_dec d (snd st)) as [Ho'|Ho'].
                ** left. rewrite Ho. rewrite <- app_assoc. apply before_in_added; [exact Ho'|].
                   apply in_or_app. right. left. reflexivity.
                ** right. apply H2; assumption.
             ++ left. apply before_last. rewrite Ho. apply in_or_app. right. exact Hm.
      + apply Hs. left. left. reflexivity.
  Qed.

  (* the top-level loop over the requested models *)
  Lemma top_loop : forall fuel names st st',
    (forall x, In x (fst st) <-> In x (snd st)) -> deps_first (snd st) (snd st) ->
    ofold (visit deps fuel) names st = Some st' ->
    (forall x, In x (fst st') <-> In x (snd st')) /\ deps_first (snd st') (snd st')
    /\ (forall n, In n names -> In n (snd st')) /\ (forall x, In x (snd st) -> In x (snd st')).
  Proof.
    intros fuel. induction names as [|nm names IH]; intros st st' Heq Hdf H; cbn in H.
    - inversion H; subst. repeat split; try apply Heq; try exact Hdf; auto. intros n [].
    - destruct (visit deps fuel nm st) as [st1|] eqn:E; [|discriminate].
      assert (Hinv : inv nm st).
      { split; [intros x Hx; apply Heq; exact Hx | intros g Hg Hn; exfalso; apply Hn; apply Heq; exact Hg]. }
      destruct (visit_post fuel nm st st1 Hinv E) as [[a [Ho [Hs [Hd [Hr Hp]]]]] Hin].
      assert (Heq1 : forall x, In x (fst st1) <-> In x (snd st1)).
      { intro x. rewrite Hs, Ho, in_app_iff, Heq. tauto. }
      assert (Hdf1 : deps_first (snd st1) (snd st1)).
      { intros n Hn d Hdn. rewrite Ho in Hn. apply in_app_or in Hn. destruct Hn as [Hn|Hn].
        - destruct (Hdf n Hn d Hdn) as [Hb|Hre]; [left; rewrite Ho; apply before_app_r; exact Hb | right; exact Hre].
        - apply Hp; assumption. }
      destruct (IH st1 st' Heq1 Hdf1 H) as [A [B [C D]]]. repeat split; try apply A; try exact B.
      + intros n [Hn|Hn]; [subst; apply D; apply Heq1; exact Hin | apply C; exact Hn].
      + intros x Hx. apply D. rewrite Ho. apply in_or_app. left. exact Hx.
  Qed.

  (* every requested model is in the result, and every dependency of every listed model comes
     before it or lies on a dependency cycle through it *)
  Theorem reorder_dependencies_first : forall fuel names order,
    reorder deps fuel names = Some order ->
    (forall n, In n names -> In n order)
    /\ forall n, In n order -> forall d, In d (deps n) -> before d n order \/ reaches d n.
  Proof.
    intros fuel names order H. unfold reorder in H.
    destruct (ofold (visit deps fuel) names ([], [])) as [st|] eqn:E; [|discriminate]. inversion H; subst order.
    destruct (top_loop fuel names ([], []) st) as [_ [B [C _]]]; cbn; try tauto; try exact E;
      try (intros n []).
  Qed.

  (* acyclic dependency graphs: a topological order *)
  Theorem reorder_topological : forall fuel names order,
    (forall n d, In d (deps n) -> ~ reaches d n) ->
    reorder deps fuel names = Some order ->
    forall n, In n order -> forall d, In d (deps n) -> before d n order.
  Proof.
    intros fuel names order Hacyc H n Hn d Hd.
    destruct (reorder_dependencies_first fuel names order H) as [_ P].
    destruct (P n Hn d Hd) as [Hb|Hr]; [exact Hb | exfalso; eapply Hacyc; eauto].
  Qed.
End Reorder.
