(* C13_Proofs5.v — transactions: every hook and statement runs in the operation's own transaction,
   and a failed operation leaves the database as it found it. *)
From Verif Require Import Base C13_Model C13_Check C13_Proofs C13_Proofs2 C13_Proofs3 C13_Proofs4.
Open Scope Z_scope.

(* the transaction state a trace leaves behind: (current transaction, transactions begun) *)
Fixpoint tx_state (cur n : Z) (tr : list tev) : Z * Z :=
  match tr with
  | [] => (cur, n)
  | TBegin :: r => tx_state (n + 1) (n + 1) r
  | TCommit :: r | TRollback :: r => tx_state 0 n r
  | _ :: r => tx_state cur n r
  end.

Lemma tx_ok_app : forall must a b cur n,
  tx_ok must cur n (a ++ b) = tx_ok must cur n a && tx_ok must (fst (tx_state cur n a)) (snd (tx_state cur n a)) b.
Proof.
  intros must a. induction a as [|e a IH]; intros b cur n; [reflexivity|].
  destruct e; cbn [app tx_ok tx_state]; rewrite IH; rewrite ?andb_assoc; reflexivity.
Qed.

Lemma tx_state_app : forall a b cur n,
  tx_state cur n (a ++ b) = tx_state (fst (tx_state cur n a)) (snd (tx_state cur n a)) b.
Proof.
  induction a as [|e a IH]; intros b cur n; [reflexivity|].
  destruct e; cbn [app tx_state]; apply IH.
Qed.

Definition Inv (must : bool) (s : S) : Prop :=
  tx_ok must 0 0 (s_tr s) = true /\ tx_state 0 0 (s_tr s) = (s_pool s, s_ntx s).

Definition txframe (s s' : S) : Prop :=
  s_pool s' = s_pool s /\ s_ntx s' = s_ntx s /\ s_started s' = s_started s /\ s_snap s' = s_snap s.

(* a step inside a transaction: keeps the transaction frame, and the invariant as long as a
   transaction is open whenever one is required *)
Definition mid (must : bool) (s s' : S) : Prop :=
  txframe s s' /\ (Inv must s -> (must = true -> s_pool s <> 0) -> Inv must s').

Lemma mid_refl : forall must s, mid must s s.
Proof. intros. split; [repeat split | auto]. Qed.

Lemma mid_trans : forall must a b c, mid must a b -> mid must b c -> mid must a c.
Proof.
  intros must a b c [(P1 & N1 & S1 & Q1) I1] [(P2 & N2 & S2 & Q2) I2]. split.
  - repeat split; congruence.
  - intros I M. apply I2; [apply I1; assumption|]. rewrite P1. exact M.
Qed.

Definition inner_ev (p : Z) (e : tev) : Prop :=
  match e with THook _ _ _ q | TStmt _ _ q => q = p | _ => False end.

Lemma emit_mid : forall must s e, inner_ev (s_pool s) e -> mid must s (emit e s).
Proof.
  intros must s e IE. split; [repeat split|].
  intros [OK ST] M. unfold Inv. cbn [emit set_tr s_tr s_pool s_ntx].
  rewrite tx_ok_app, tx_state_app, OK, ST. cbn [fst snd andb].
  assert (G : negb must || negb (s_pool s =? 0) = true).
  { destruct must; [|reflexivity]. cbn. destruct (Z.eqb_spec (s_pool s) 0); [exfalso; apply M; auto | reflexivity]. }
  destruct e; cbn in IE; try contradiction; subst; cbn [tx_ok tx_state]; rewrite Z.eqb_refl, G; split; reflexivity.
Qed.

(* steps that touch neither trace nor frame *)
Lemma quiet_mid : forall must s s', s_tr s' = s_tr s -> txframe s s' -> mid must s s'.
Proof.
  intros must s s' T F. split; [exact F|]. intros [OK ST] _. destruct F as (P & N & _ & _).
  unfold Inv. rewrite T, P, N. split; assumption.
Qed.

Lemma set_column_quiet : forall c i v s, s_tr (set_column c i v s) = s_tr s /\ txframe s (set_column c i v s).
Proof.
  intros c i v s. unfold set_column.
  destruct (c_dest c); destruct (sh_cont (c_shape c)); try destruct (sh_outer_ptr (c_shape c));
    cbn -[set_nth_val]; repeat split; reflexivity.
Qed.

Lemma invoke_mid : forall must c h tag i s, mid must s (invoke c h tag i s).
Proof.
  intros must c h tag i s. unfold invoke.
  set (s1 := set_k (s_k s + 1) (emit (THook h (ty_id (c_ty c)) tag (s_pool s)) s)).
  assert (M1 : mid must s s1).
  { eapply mid_trans; [apply (emit_mid must s (THook h (ty_id (c_ty c)) tag (s_pool s))); reflexivity|].
    apply quiet_mid; [reflexivity | repeat split]. }
  set (s2 := if (is_before_save_hook h || (x_setafter (c_x c) && is_after_write_hook h)) && memz (s_k s) (c_sets c) then set_column c i (1000 + s_k s) s1 else s1).
  assert (M2 : mid must s s2).
  { subst s2. destruct ((is_before_save_hook h || (x_setafter (c_x c) && is_after_write_hook h)) && memz (s_k s) (c_sets c)); [|exact M1].
    eapply mid_trans; [exact M1|]. destruct (set_column_quiet c i (1000 + s_k s) s1). apply quiet_mid; assumption. }
  destruct (memz (s_k s) (c_fails c)); [|exact M2].
  eapply mid_trans; [exact M2|]. apply quiet_mid; [reflexivity | repeat split].
Qed.

Lemma fc_mid : forall must c hs vf tag i s, mid must s (snd (fc c hs vf tag i s)).
Proof.
  intros must c hs vf tag i. induction hs as [|h hs IH]; intro s; [apply mid_refl|].
  cbn [fc]. destruct (flag (c_ty c) h && in_mset vf (recv_of (c_ty c) h)); [|apply IH].
  cbn [snd]. eapply mid_trans; [apply invoke_mid | apply IH].
Qed.

Lemma add_err_mid : forall must e s, mid must s (add_err e s).
Proof. intros. apply quiet_mid; [reflexivity | repeat split]. Qed.

Lemma loop_mid : forall must c hs recs i s, mid must s (loop c hs recs i s).
Proof.
  intros must c hs recs. induction recs as [|r rs IH]; intros i s; [apply mid_refl|].
  cbn [loop]. destruct (elem_addr (c_shape c) r); [|apply add_err_mid].
  eapply mid_trans; [apply fc_mid | apply IH].
Qed.

Lemma call_method_mid : forall must c hs s, mid must s (call_method c hs s).
Proof.
  intros must c hs s. unfold call_method. destruct (sh_cont (c_shape c)); try apply loop_mid.
  destruct (s_recs s) as [|r l]; [apply mid_refl|].
  pose proof (fc_mid must c hs VVal (m_tag r) 0%nat s) as A.
  destruct (fc c hs VVal (m_tag r) 0 s) as [called s1]. cbn [snd] in A.
  destruct called; [exact A|].
  destruct (sh_outer_ptr (c_shape c)); [apply fc_mid | apply add_err_mid].
Qed.

Lemma hooks_phase_mid : forall must c p s, mid must s (hooks_phase c p s).
Proof.
  intros must c p s. unfold hooks_phase.
  match goal with |- context [if ?b then _ else _] => destruct b end; [apply call_method_mid | apply mid_refl].
Qed.

Lemma set_tbl_mid : forall must t s, mid must s (set_tbl t s).
Proof. intros. apply quiet_mid; [reflexivity | repeat split]. Qed.

Lemma stmt_create_mid : forall must c s, mid must s (stmt_create c s).
Proof.
  intros must c s. unfold stmt_create. destruct (negb (is_nil (s_err s))); [apply mid_refl|].
  destruct (s_recs s); [apply add_err_mid|]. destruct (existsb m_nil (m :: l)); [apply add_err_mid|].
  eapply mid_trans; [apply (emit_mid must s (TStmt VInsert (c_table c) (s_pool s))); reflexivity | apply set_tbl_mid].
Qed.
Lemma stmt_update_mid : forall must c s, mid must s (stmt_update c s).
Proof.
  intros must c s. unfold stmt_update. destruct (negb (is_nil (s_err s))); [apply mid_refl|].
  destruct (s_recs s); [apply add_err_mid|].
  eapply mid_trans; [apply (emit_mid must s (TStmt VUpdate (c_table c) (s_pool s))); reflexivity | apply set_tbl_mid].
Qed.
Lemma stmt_delete_mid : forall must c s, mid must s (stmt_delete c s).
Proof.
  intros must c s. unfold stmt_delete. destruct (negb (is_nil (s_err s))); [apply mid_refl|].
  destruct (s_recs s); [apply add_err_mid|].
  eapply mid_trans; [apply (emit_mid must s (TStmt VDelete (c_table c) (s_pool s))); reflexivity | apply set_tbl_mid].
Qed.
Lemma stmt_query_mid : forall must c f l s, mid must s (stmt_query c f l s).
Proof.
  intros must c f l s. unfold stmt_query. destruct (negb (is_nil (s_err s))); [apply mid_refl|].
  assert (A : forall rs, mid must s (set_recs rs (emit (TStmt VSelect (c_table c) (s_pool s)) s))).
  { intro rs. eapply mid_trans; [apply (emit_mid must s (TStmt VSelect (c_table c) (s_pool s))); reflexivity|].
    apply quiet_mid; [reflexivity | repeat split]. }
  match goal with |- context [if ?b then _ else _] => destruct b end; [|apply A].
  eapply mid_trans; [apply A | apply add_err_mid].
Qed.

(* inside a transaction (or with SkipDefaultTransaction) a nested create neither begins nor ends one *)
Definition nested_ok (c : cx) (s : S) : Prop := s_pool s <> 0 \/ c_skipdef c = true.

Lemma save_assoc_mid : forall must c t tb sg vals s, nested_ok c s -> mid must s (save_assoc c t tb sg vals s).
Proof.
  intros must c t tb sg vals s NO. unfold save_assoc. destruct vals as [|v vr]; [apply mid_refl|].
  set (cc := assoc_cx c t tb sg).
  set (s0 := mkS (s_k s) (s_err s) (s_tr s) (v :: vr) [] 0 (s_pool s) (s_ntx s) false (s_tbl s) (s_snap s)).
  assert (B : begin_tx cc s0 = s0).
  { unfold begin_tx. change (c_skipdef cc) with (c_skipdef c). change (s_pool s0) with (s_pool s).
    destruct NO as [NP|SD].
    - destruct (negb (c_skipdef c) && is_nil (s_err s0)); [|reflexivity].
      destruct (Z.eqb_spec (s_pool s) 0); [contradiction|reflexivity].
    - rewrite SD. reflexivity. }
  assert (L : mid must s0 (leaf_create cc s0) /\ s_started (leaf_create cc s0) = false).
  { unfold leaf_create. rewrite B.
    set (s3 := hooks_phase cc PAfterCreate (stmt_create cc (hooks_phase cc PBeforeCreate s0))).
    assert (M3 : mid must s0 s3).
    { eapply mid_trans; [apply hooks_phase_mid|]. eapply mid_trans; [apply stmt_create_mid | apply hooks_phase_mid]. }
    assert (S3 : s_started s3 = false) by (destruct M3 as [(_ & _ & St & _) _]; exact St).
    unfold commit_or_rollback. rewrite S3, andb_false_r. split; assumption. }
  destruct L as [[(P & N & St & Sn) I] _]. split.
  - cbn [s_pool s_ntx s_started s_snap]. repeat split; assumption.
  - intros IS M. unfold Inv in *. cbn [s_tr s_pool s_ntx]. apply I; assumption.
Qed.

Lemma save_kids_keepers_mid : forall must c t vals kt ks s, nested_ok c s ->
  mid must s (save_kids_keepers c t vals kt ks s).
Proof.
  intros must c t vals kt ks s NO. unfold save_kids_keepers. destruct vals as [|v vr]; [apply mid_refl|].
  set (cc := assoc_cx c t TKids false).
  set (s0 := mkS (s_k s) (s_err s) (s_tr s) (v :: vr) [] 0 (s_pool s) (s_ntx s) false (s_tbl s) (s_snap s)).
  assert (B : begin_tx cc s0 = s0).
  { unfold begin_tx. change (c_skipdef cc) with (c_skipdef c). change (s_pool s0) with (s_pool s).
    destruct NO as [NP|SD].
    - destruct (negb (c_skipdef c) && is_nil (s_err s0)); [|reflexivity].
      destruct (Z.eqb_spec (s_pool s) 0); [contradiction|reflexivity].
    - rewrite SD. reflexivity. }
  assert (L : mid must s0 (kids_create cc kt ks s0) /\ s_started (kids_create cc kt ks s0) = false).
  { unfold kids_create. rewrite B.
    set (s1 := hooks_phase cc PBeforeCreate s0).
    assert (M1 : mid must s0 s1) by apply hooks_phase_mid.
    assert (NO1 : nested_ok cc s1).
    { destruct M1 as [(P1 & _) _]. unfold nested_ok in *. rewrite P1. exact NO. }
    set (s2 := save_keepers cc kt ks s1).
    assert (M2 : mid must s1 s2).
    { subst s2. unfold save_keepers. destruct (is_nil (s_err s1)); [apply save_assoc_mid; exact NO1 | apply mid_refl]. }
    set (s3 := hooks_phase cc PAfterCreate (stmt_create cc s2)).
    assert (M3 : mid must s0 s3).
    { eapply mid_trans; [exact M1|]. eapply mid_trans; [exact M2|].
      eapply mid_trans; [apply stmt_create_mid | apply hooks_phase_mid]. }
    assert (S3 : s_started s3 = false) by (destruct M3 as [(_ & _ & St & _) _]; exact St).
    unfold commit_or_rollback. rewrite S3, andb_false_r. split; assumption. }
  destruct L as [[(P & N & St & Sn) I] _]. split.
  - cbn [s_pool s_ntx s_started s_snap]. repeat split; assumption.
  - intros IS M. unfold Inv in *. cbn [s_tr s_pool s_ntx]. apply I; assumption.
Qed.

Lemma nested_delete_mid : forall must c t tb s, nested_ok c s -> mid must s (nested_delete c t tb s).
Proof.
  intros must c t tb s NO. unfold nested_delete.
  set (cc := nested_cx c t tb (mk_shape CStruct true false)).
  set (s0 := mkS (s_k s) (s_err s) (s_tr s) [mk_rec 0 0 0 false] [] 0 (s_pool s) (s_ntx s) false (s_tbl s) (s_snap s)).
  assert (B : begin_tx cc s0 = s0).
  { unfold begin_tx. change (c_skipdef cc) with (c_skipdef c). change (s_pool s0) with (s_pool s).
    destruct NO as [NP|SD].
    - destruct (negb (c_skipdef c) && is_nil (s_err s0)); [|reflexivity].
      destruct (Z.eqb_spec (s_pool s) 0); [contradiction|reflexivity].
    - rewrite SD. reflexivity. }
  rewrite B.
  set (s1 := hooks_phase cc PBeforeDelete s0).
  assert (M1 : mid must s0 s1) by apply hooks_phase_mid.
  set (s2 := if is_nil (s_err s1)
             then set_tbl (filter (fun r => negb (owned_by (map m_tag (s_recs s)) tb r)) (s_tbl s1)) (emit (TStmt VDelete tb (s_pool s1)) s1)
             else s1).
  assert (M2 : mid must s1 s2).
  { subst s2. destruct (is_nil (s_err s1)); [|apply mid_refl].
    eapply mid_trans; [apply (emit_mid must s1 (TStmt VDelete tb (s_pool s1))); reflexivity | apply set_tbl_mid]. }
  set (s3h := hooks_phase cc PAfterDelete s2).
  assert (M3 : mid must s0 s3h).
  { eapply mid_trans; [exact M1|]. eapply mid_trans; [exact M2|]. apply hooks_phase_mid. }
  assert (S3 : s_started s3h = false) by (destruct M3 as [(_ & _ & St & _) _]; exact St).
  assert (C3 : commit_or_rollback cc s3h = s3h).
  { unfold commit_or_rollback. rewrite S3, andb_false_r. reflexivity. }
  rewrite C3.
  destruct M3 as [(P & N & St & Sn) I]. split.
  - cbn [s_pool s_ntx s_started s_snap]. repeat split; assumption.
  - intros IS M. unfold Inv in *. cbn [s_tr s_pool s_ntx]. apply I; assumption.
Qed.

Lemma nested_query_mid : forall must c t tb s, mid must s (nested_query c t tb s).
Proof.
  intros must c t tb s. unfold nested_query. destruct (negb (is_nil (s_err s))); [apply mid_refl|].
  set (cc := nested_cx c t tb (mk_shape CSlice true false)).
  match goal with |- context [hooks_phase cc PAfterFind ?x] => set (s0 := x) end.
  assert (M0 : Inv must s -> (must = true -> s_pool s <> 0) -> Inv must s0).
  { intros IS M. destruct (emit_mid must s (TStmt VSelect tb (s_pool s)) eq_refl) as [_ IE].
    specialize (IE IS M). unfold Inv in *. exact IE. }
  pose proof (hooks_phase_mid must cc PAfterFind s0) as [(P & N & St & Sn) I]. split.
  - cbn [s_pool s_ntx s_started s_snap]. repeat split; assumption.
  - intros IS M. unfold Inv in *. cbn [s_tr s_pool s_ntx]. apply I; [apply M0; assumption | exact M].
Qed.

Lemma run_cb_mid : forall must c a q x s,
  x <> CbBeginTx -> x <> CbCommitOrRollback -> nested_ok c s -> mid must s (run_cb c a q x s).
Proof.
  intros must c a q x s NB NC NO. destruct x; cbn [run_cb]; try contradiction;
    try apply hooks_phase_mid; try apply mid_refl;
    try apply stmt_create_mid; try apply stmt_update_mid; try apply stmt_delete_mid; try apply stmt_query_mid.
  - unfold save_before_assoc. destruct (is_nil (s_err s)); [apply save_assoc_mid; exact NO | apply mid_refl].
  - unfold save_after_assoc. destruct (is_nil (s_err s)); [|apply mid_refl].
    assert (A : mid must s (if is_nil (a_keepers a) then save_assoc c (snd (fst (a_tys a))) TKids false (a_kids a) s
                            else save_kids_keepers c (snd (fst (a_tys a))) (a_kids a) (a_keeper_ty a) (a_keepers a) s)).
    { destruct (is_nil (a_keepers a)); [apply save_assoc_mid | apply save_kids_keepers_mid]; exact NO. }
    eapply mid_trans; [exact A|]. apply save_assoc_mid.
    destruct A as [(P & _) _]. unfold nested_ok in *. rewrite P. exact NO.
  - unfold delete_before_assoc. destruct (is_nil (s_err s) && negb (is_nil (s_recs s))); [|apply mid_refl].
    destruct (x_delassoc (c_x c) =? 1); [apply nested_delete_mid; exact NO|].
    destruct (x_delassoc (c_x c) =? 2); [apply nested_delete_mid; exact NO|apply mid_refl].
  - unfold preload_cb. match goal with |- context [if ?b then _ else _] => destruct b end; [|apply mid_refl].
    eapply mid_trans; apply nested_query_mid.
Qed.

Lemma fold_mid : forall must c a q p s,
  ~ In CbBeginTx p -> ~ In CbCommitOrRollback p -> nested_ok c s ->
  mid must s (fold_left (fun s x => run_cb c a q x s) p s).
Proof.
  intros must c a q p. induction p as [|x p IH]; intros s NB NC NO; [apply mid_refl|].
  cbn [fold_left].
  assert (A : mid must s (run_cb c a q x s)).
  { apply run_cb_mid; [intro E; apply NB; left; auto | intro E; apply NC; left; auto | exact NO]. }
  eapply mid_trans; [exact A|]. apply IH.
  - intro H. apply NB. right. exact H.
  - intro H. apply NC. right. exact H.
  - destruct A as [(P & _) _]. unfold nested_ok in *. rewrite P. exact NO.
Qed.

(* ---------------------------------------------------------------- whole write pipelines *)
(* a write pipeline = begin_transaction ; body ; commit_or_rollback *)
Definition bracketed (p body : list cb) : Prop :=
  p = CbBeginTx :: body ++ [CbCommitOrRollback] /\ ~ In CbBeginTx body /\ ~ In CbCommitOrRollback body.

Lemma create_bracketed : bracketed create_pipeline [CbBeforeCreate; CbSaveBeforeAssoc; CbCreate; CbSaveAfterAssoc; CbAfterCreate].
Proof. split; [reflexivity|]. split; cbn; intuition discriminate. Qed.
Lemma update_bracketed : bracketed update_pipeline [CbSetupReflectValue; CbBeforeUpdate; CbSaveBeforeAssoc; CbUpdate; CbSaveAfterAssoc; CbAfterUpdate].
Proof. split; [reflexivity|]. split; cbn; intuition discriminate. Qed.
Lemma delete_bracketed : bracketed delete_pipeline [CbBeforeDelete; CbDeleteBeforeAssoc; CbDelete; CbAfterDelete].
Proof. split; [reflexivity|]. split; cbn; intuition discriminate. Qed.

(* default transaction, plain pool *)
Lemma pipeline_default : forall must c a q p body s,
  bracketed p body -> Inv must s -> s_started s = false -> s_err s = [] -> s_pool s = 0 -> c_skipdef c = false ->
  let s' := run_pipeline c a q p s in
  Inv must s' /\ s_started s' = false /\ s_pool s' = 0
  /\ (s_err s' <> [] -> s_tbl s' = s_tbl s).
Proof.
  intros must c a q p body s (-> & NB & NC) I ST E P SD. unfold run_pipeline.
  cbn [fold_left]. rewrite fold_left_app. cbn [fold_left run_cb].
  (* begin *)
  set (s1 := begin_tx c s).
  assert (B : Inv must s1 /\ s_started s1 = true /\ s_pool s1 = s_ntx s + 1 /\ s_snap s1 = s_tbl s /\ s_ntx s1 = s_ntx s + 1).
  { subst s1. unfold begin_tx. rewrite SD, E, P. cbn [negb andb is_nil Z.eqb].
    cbn [s_started s_pool s_snap s_ntx]. repeat split.
    - destruct I as [OK S0]. cbn [s_tr]. rewrite tx_ok_app, OK, S0. cbn [fst snd andb tx_ok]. rewrite P. reflexivity.
    - destruct I as [OK S0]. cbn [s_tr s_pool s_ntx]. rewrite tx_state_app, S0. cbn. reflexivity. }
  destruct B as (I1 & ST1 & P1 & SN1 & N1).
  assert (NZ : s_pool s1 <> 0).
  { rewrite P1. destruct I as [_ S0]. (* ntx >= 0 is not needed: ntx+1 = 0 would make pool 0 ... *)
    intro H.
    (* tx_state never yields a negative count: prove ntx >= 0 *)
    assert (G : forall tr cur n, 0 <= n -> 0 <= snd (tx_state cur n tr)).
    { induction tr as [|e r IH]; intros cur n Hn; [exact Hn|]. destruct e; cbn [tx_state]; apply IH; lia. }
    specialize (G (s_tr s) 0 0 ltac:(lia)). rewrite S0 in G. cbn in G. lia. }
  set (s2 := fold_left (fun s x => run_cb c a q x s) body s1).
  pose proof (fold_mid must c a q body s1 NB NC (or_introl NZ)) as [(P2 & N2 & ST2 & SN2) I2].
  fold s2 in P2, N2, ST2, SN2, I2.
  assert (I2' : Inv must s2) by (apply I2; [exact I1 | intros _; exact NZ]).
  unfold commit_or_rollback. rewrite SD, ST2, ST1. cbn [negb andb].
  destruct I2' as [OK2 S2].
  assert (NZ2 : (s_pool s2 =? 0) = false) by (rewrite P2; apply Z.eqb_neq; exact NZ).
  destruct (is_nil (s_err s2)) eqn:E2; cbn [s_started s_pool s_err s_tbl s_tr s_ntx]; (split; [|split; [reflexivity|split; [reflexivity|]]]).
  - unfold Inv. cbn [s_tr s_pool s_ntx]. rewrite tx_ok_app, tx_state_app, OK2, S2. cbn [fst snd andb tx_ok tx_state].
    rewrite NZ2. split; reflexivity.
  - intro H. destruct (s_err s2); [congruence|discriminate].
  - unfold Inv. cbn [s_tr s_pool s_ntx]. rewrite tx_ok_app, tx_state_app, OK2, S2. cbn [fst snd andb tx_ok tx_state].
    rewrite NZ2. split; reflexivity.
  - intros _. rewrite SN2. exact SN1.
Qed.

(* inside the caller's transaction, or with SkipDefaultTransaction: the pipeline is one inner step *)
Lemma pipeline_inner : forall must c a q p body s,
  bracketed p body -> s_started s = false -> nested_ok c s ->
  mid must s (run_pipeline c a q p s).
Proof.
  intros must c a q p body s (-> & NB & NC) ST NO. unfold run_pipeline.
  cbn [fold_left]. rewrite fold_left_app. cbn [fold_left run_cb].
  assert (B : begin_tx c s = s).
  { unfold begin_tx. destruct NO as [NP|SD].
    - destruct (negb (c_skipdef c) && is_nil (s_err s)); [|reflexivity].
      destruct (Z.eqb_spec (s_pool s) 0); [contradiction|reflexivity].
    - rewrite SD. reflexivity. }
  rewrite B.
  pose proof (fold_mid must c a q body s NB NC NO) as M.
  set (s2 := fold_left (fun s x => run_cb c a q x s) body s) in *.
  assert (S2 : s_started s2 = false) by (destruct M as [(_ & _ & St & _) _]; congruence).
  unfold commit_or_rollback. rewrite S2, andb_false_r. exact M.
Qed.
